/-
  C10, the timing of the phases on whole runs.  For the task a service instance holds, `Pend` says where its next step
  stands: not suspended - exactly one step callback is queued, no wake-up is pending, and the clock reads exactly the due
  time B; suspended - no step is queued, exactly one wake-up exists: scheduled with deadline B, or fired (then the clock reads
  B).  `Sch` ties B to the ghost log of the instance: B = (time of its last `start` / multicast offer) + the delay of the
  task's position (0 after start, the drawn initial delay, 2^k * base, the cyclic period).
-/
import SomeipModel.Lemmas.OCFrame
import SomeipModel.Lemmas.OLSteps
import SomeipModel.Lemmas.LoopInv
namespace Someip
namespace Stack
set_option linter.unusedSimpArgs false
set_option linter.unusedVariables false

def isOStepOf (i n : Nat) : Cb → Bool | .taskStep t => t == (TaskKind.offer i, n) | _ => false

/-- the callbacks of offer task (i, n): steps queued, wake-ups queued, wake-ups scheduled -/
def nS (s : Stack) (i n : Nat) : Nat := (s.loop.ready.filter (fun r => isOStepOf i n r.cb)).length
def nWR (s : Stack) (i n : Nat) : Nat := (s.loop.ready.filter (fun r => isSleepFor (.offer i, n) r.cb)).length
def wT (s : Stack) (i n : Nat) : List (Timer Cb) := s.loop.timers.filter (fun t => isSleepFor (.offer i, n) t.cb)

def isAnchorEv : OEv → Bool | .start => true | .offer false => true | _ => false
/-- the time of the instance's last `start` or multicast offer -/
def anchor (i : Nat) (log : OLog) : Option Nat :=
  ((log.filter (fun e => decide (e.1 = i) && isAnchorEv e.2.1)).getLast?).map (·.2.2)

theorem anchor_append_self (i : Nat) (log : OLog) (ev : OEv) (τ : Nat) (h : isAnchorEv ev = true) :
    anchor i (log ++ [(i, ev, τ)]) = some τ := by
  simp [anchor, List.filter_append, List.filter_cons, h]
theorem anchor_append_other (i j : Nat) (log : OLog) (ev : OEv) (τ : Nat) (h : j ≠ i ∨ isAnchorEv ev = false) :
    anchor i (log ++ [(j, ev, τ)]) = anchor i log := by
  have : (decide (j = i) && isAnchorEv ev) = false := by
    rcases h with h | h
    · simp [h]
    · simp [h]
  simp [anchor, List.filter_append, List.filter_cons, this]

/-- the due time B of the next step, from the anchor A and the task's position -/
def Sch (tm : Timings) : Pc → Nat → Nat → Prop
  | .created, A, B => B = A
  | .initial, A, B => ∃ d, tm.initialDelayMin ≤ d ∧ (tm.initialDelayMin ≤ tm.initialDelayMax → d ≤ tm.initialDelayMax) ∧ B = A + d
  | .rep k, A, B => B = A + pow2 k * tm.repetitionsBaseDelay
  | .cyclic, A, B => B = A + tm.cyclicOfferDelay
  | .done, _, _ => True

def Pend (s : Stack) (i n : Nat) (t : TaskSt) (B : Nat) : Prop :=
  if t.waiting then
    nS s i n = 0 ∧ (wT s i n).length + nWR s i n = 1 ∧ (∀ x ∈ wT s i n, x.deadline = B) ∧ (nWR s i n ≠ 0 → s.loop.now = B)
  else nS s i n = 1 ∧ (wT s i n).length = 0 ∧ nWR s i n = 0 ∧ s.loop.now = B

structure OT (s : Stack) : Prop where
  own : ∀ i n, (lview s).its[i]? = some (some n) →
    ∃ t, alookup (lview s).tasks (.offer i, n) = some t ∧
      (t.pc ≠ .done → ∃ A B, anchor i (lview s).log = some A ∧ Sch s.tm t.pc A B ∧ Pend s i n t B)
  fresh : ∀ i m, ocount (lview s).tasks i ≤ m → nS s i m = 0 ∧ nWR s i m = 0 ∧ wT s i m = []

/-! ### the callbacks of one task under the loop operations -/

theorem isOStepOf_isOCb {i n : Nat} {cb : Cb} (h : isOStepOf i n cb = true) : isOCb cb = true := by
  cases cb with
  | taskStep t =>
    have : t = (TaskKind.offer i, n) := by simpa [isOStepOf] using h
    subst this; rfl
  | _ => simp [isOStepOf] at h
theorem isSleepFor_isOCb {i n : Nat} {cb : Cb} (h : isSleepFor (.offer i, n) cb = true) : isOCb cb = true := by
  cases cb with
  | sleepDone t =>
    have : t = (TaskKind.offer i, n) := by simpa [isSleepFor] using h
    subst this; rfl
  | _ => simp [isSleepFor] at h

theorem filter_sub {α : Type} (p q : α → Bool) (l : List α) (h : ∀ a, p a = true → q a = true) :
    l.filter p = (l.filter q).filter p := by
  rw [List.filter_filter]
  apply List.filter_congr
  intro a _
  cases hp : p a
  · simp
  · simp [h a hp]

theorem counts_of_oci {s s' : Stack} (h : oci s' = oci s) (i n : Nat) :
    nS s' i n = nS s i n ∧ nWR s' i n = nWR s i n ∧ wT s' i n = wT s i n := by
  have e1 : s'.loop.ready.filter (fun r => isOCb r.cb) = s.loop.ready.filter (fun r => isOCb r.cb) := congrArg (fun p => p.1) h
  have e2 : s'.loop.timers.filter (fun t => isOCb t.cb) = s.loop.timers.filter (fun t => isOCb t.cb) := congrArg (fun p => p.2) h
  refine ⟨?_, ?_, ?_⟩
  · unfold nS
    rw [filter_sub _ (fun r => isOCb r.cb) s'.loop.ready (fun a ha => isOStepOf_isOCb ha),
        filter_sub _ (fun r => isOCb r.cb) s.loop.ready (fun a ha => isOStepOf_isOCb ha), e1]
  · unfold nWR
    rw [filter_sub _ (fun r => isOCb r.cb) s'.loop.ready (fun a ha => isSleepFor_isOCb ha),
        filter_sub _ (fun r => isOCb r.cb) s.loop.ready (fun a ha => isSleepFor_isOCb ha), e1]
  · unfold wT
    rw [filter_sub _ (fun t => isOCb t.cb) s'.loop.timers (fun a ha => isSleepFor_isOCb ha),
        filter_sub _ (fun t => isOCb t.cb) s.loop.timers (fun a ha => isSleepFor_isOCb ha), e2]

theorem pend_of_frame {s s' : Stack} (h : oci s' = oci s) (hnow : s'.loop.now = s.loop.now) (i n : Nat) (t : TaskSt) (B : Nat)
    (hp : Pend s i n t B) : Pend s' i n t B := by
  obtain ⟨e1, e2, e3⟩ := counts_of_oci h i n
  unfold Pend at hp ⊢
  rw [e1, e2, e3, hnow]; exact hp

theorem ot_of_view {s s' : Stack} (hv : lview s' = lview s) (htm : s'.tm = s.tm) (hnow : s'.loop.now = s.loop.now) (h4 : oci s' = oci s)
    (hi : OT s) : OT s' := by
  refine ⟨?_, ?_⟩
  · intro i n hn
    rw [hv] at hn ⊢
    obtain ⟨t, ht, hrest⟩ := hi.own i n hn
    refine ⟨t, ht, ?_⟩
    intro hpc
    obtain ⟨A, B, ha, hs, hp⟩ := hrest hpc
    exact ⟨A, B, ha, by rw [htm]; exact hs, pend_of_frame h4 hnow i n t B hp⟩
  · intro i m hm
    rw [hv] at hm
    obtain ⟨e1, e2, e3⟩ := counts_of_oci h4 i m
    rw [e1, e2, e3]; exact hi.fresh i m hm

theorem ot_frame {s s' : Stack} (h1 : opi s' = opi s) (h2 : base s' = base s) (h3 : lgi s' = lgi s) (h4 : oci s' = oci s)
    (hi : OT s) : OT s' :=
  ot_of_view (lview_of_frame h1 h2 h3) (congrArg (fun p => p.1) h2) (congrArg (fun p => p.2) h2) h4 hi

/-! ### `Only k`: the callbacks of every offer task but k are the same -/

def Only (i n : Nat) (s s' : Stack) : Prop :=
  ∀ j m, (j, m) ≠ (i, n) → nS s' j m = nS s j m ∧ nWR s' j m = nWR s j m ∧ wT s' j m = wT s j m

theorem Only.refl (i n : Nat) (s : Stack) : Only i n s s := fun _ _ _ => ⟨rfl, rfl, rfl⟩
theorem Only.trans {i n : Nat} {s s' s'' : Stack} (h1 : Only i n s s') (h2 : Only i n s' s'') : Only i n s s'' := by
  intro j m hk
  obtain ⟨a1, a2, a3⟩ := h1 j m hk
  obtain ⟨b1, b2, b3⟩ := h2 j m hk
  exact ⟨b1.trans a1, b2.trans a2, b3.trans a3⟩
theorem only_of_oci {i n : Nat} {s s' : Stack} (h : oci s' = oci s) : Only i n s s' := fun j m _ => counts_of_oci h j m

theorem isOStepOf_other {i n j m : Nat} (h : (j, m) ≠ (i, n)) : isOStepOf j m (.taskStep (.offer i, n)) = false := by
  simp only [isOStepOf, beq_eq_false_iff_ne, ne_eq, Prod.mk.injEq, TaskKind.offer.injEq]
  intro e; exact h (by rw [e.1, e.2])
theorem isSleepFor_offer_other {i n j m : Nat} (h : (j, m) ≠ (i, n)) : isSleepFor (.offer j, m) (.sleepDone (.offer i, n)) = false := by
  simp only [isSleepFor, beq_eq_false_iff_ne, ne_eq, Prod.mk.injEq, TaskKind.offer.injEq]
  intro e; exact h (by rw [e.1, e.2])
@[simp] theorem isOStepOf_self (i n : Nat) : isOStepOf i n (.taskStep (.offer i, n)) = true := by simp [isOStepOf]
@[simp] theorem isSleepFor_self (k : Tid) : isSleepFor k (.sleepDone k) = true := by simp [isSleepFor]
@[simp] theorem isOStepOf_sleepDone (i n : Nat) (t : Tid) : isOStepOf i n (.sleepDone t) = false := rfl
@[simp] theorem isSleepFor_taskStep' (k t : Tid) : isSleepFor k (.taskStep t) = false := rfl

theorem counts_callSoon (s : Stack) (cb : Cb) (j m : Nat) :
    nS (s.callSoon cb) j m = nS s j m + (if isOStepOf j m cb then 1 else 0) ∧
    nWR (s.callSoon cb) j m = nWR s j m + (if isSleepFor (.offer j, m) cb then 1 else 0) ∧
    wT (s.callSoon cb) j m = wT s j m := by
  refine ⟨?_, ?_, rfl⟩
  · simp only [nS, callSoon, Loop.callSoon, List.filter_append, List.length_append, List.filter_cons, List.filter_nil]
    split <;> simp
  · simp only [nWR, callSoon, Loop.callSoon, List.filter_append, List.length_append, List.filter_cons, List.filter_nil]
    split <;> simp

theorem counts_callLater (s : Stack) (d : Nat) (cb : Cb) (j m : Nat) :
    nS (s.callLater d cb).1 j m = nS s j m ∧ nWR (s.callLater d cb).1 j m = nWR s j m ∧
    wT (s.callLater d cb).1 j m = wT s j m ++ (if isSleepFor (.offer j, m) cb then [⟨s.loop.nextSeq, s.loop.now + d, cb⟩] else []) := by
  refine ⟨rfl, rfl, ?_⟩
  simp only [wT, callLater, Loop.callLater, List.filter_append, List.filter_cons, List.filter_nil]

theorem only_callSoon_step (s : Stack) (i n : Nat) : Only i n s (s.callSoon (.taskStep (.offer i, n))) := by
  intro j m hk
  obtain ⟨h1, h2, h3⟩ := counts_callSoon s (.taskStep (.offer i, n)) j m
  rw [isOStepOf_other hk] at h1
  exact ⟨by simpa using h1, by simpa using h2, h3⟩
theorem only_callLater_wake (s : Stack) (d i n : Nat) : Only i n s (s.callLater d (.sleepDone (.offer i, n))).1 := by
  intro j m hk
  obtain ⟨h1, h2, h3⟩ := counts_callLater s d (.sleepDone (.offer i, n)) j m
  rw [isSleepFor_offer_other hk] at h3
  exact ⟨h1, h2, by simpa using h3⟩

theorem counts_cancelTimer_other (s : Stack) (own : Cb → Bool) (q : Option Nat) (j m : Nat)
    (h : ∀ cb, own cb = true → isOStepOf j m cb = false ∧ isSleepFor (.offer j, m) cb = false) :
    nS (s.cancelTimer own q) j m = nS s j m ∧ nWR (s.cancelTimer own q) j m = nWR s j m ∧ wT (s.cancelTimer own q) j m = wT s j m := by
  cases q with
  | none => exact ⟨rfl, rfl, rfl⟩
  | some q =>
    have key : ∀ {α : Type} (l : List α) (f g : α → Bool), (∀ a, f a = true → g a = true) → (l.filter g).filter f = l.filter f := by
      intro α l f g hfg
      rw [List.filter_filter]; apply List.filter_congr; intro a _
      cases hf : f a
      · simp
      · simp [hfg a hf]
    refine ⟨?_, ?_, ?_⟩
    · simp only [nS, cancelTimer, Loop.cancelOpt, Loop.cancel]
      rw [key]
      intro a ha
      cases ho : own a.cb
      · simp
      · have := (h _ ho).1; rw [ha] at this; cases this
    · simp only [nWR, cancelTimer, Loop.cancelOpt, Loop.cancel]
      rw [key]
      intro a ha
      cases ho : own a.cb
      · simp
      · have := (h _ ho).2; rw [ha] at this; cases this
    · simp only [wT, cancelTimer, Loop.cancelOpt, Loop.cancel]
      rw [key]
      intro a ha
      cases ho : own a.cb
      · simp
      · have := (h _ ho).2; rw [ha] at this; cases this

theorem only_cancelTimer_sleep (s : Stack) (i n : Nat) (q : Option Nat) : Only i n s (s.cancelTimer (isSleepFor (.offer i, n)) q) := by
  intro j m hk
  apply counts_cancelTimer_other
  intro cb hcb
  cases cb with
  | sleepDone t =>
    have : t = (TaskKind.offer i, n) := by simpa [isSleepFor] using hcb
    subst this
    exact ⟨rfl, isSleepFor_offer_other hk⟩
  | _ => simp [isSleepFor] at hcb

/-- cancelling the own wake-up when none is left changes nothing for the task either -/
theorem counts_cancelTimer_self (s : Stack) (i n : Nat) (q : Option Nat) :
    nS (s.cancelTimer (isSleepFor (.offer i, n)) q) i n = nS s i n ∧
    nWR (s.cancelTimer (isSleepFor (.offer i, n)) q) i n ≤ nWR s i n ∧
    (∀ x ∈ wT (s.cancelTimer (isSleepFor (.offer i, n)) q) i n, x ∈ wT s i n) := by
  cases q with
  | none => exact ⟨rfl, Nat.le_refl _, fun x h => h⟩
  | some q =>
    refine ⟨?_, ?_, ?_⟩
    · simp only [nS, cancelTimer, Loop.cancelOpt, Loop.cancel, List.filter_filter]
      congr 1
      apply List.filter_congr; intro a _
      cases ha : isOStepOf i n a.cb
      · simp
      · have : isSleepFor (.offer i, n) a.cb = false := by
          cases hcb : a.cb <;> simp_all [isOStepOf, isSleepFor]
        simp [this]
    · simp only [nWR, cancelTimer, Loop.cancelOpt, Loop.cancel, List.filter_filter]
      have key : ∀ (l : List (RItem Cb)) (f g : RItem Cb → Bool), (l.filter (fun a => f a && g a)).length ≤ (l.filter f).length := by
        intro l f g
        induction l with
        | nil => simp
        | cons a r ih =>
          simp only [List.filter_cons]
          cases hf : f a <;> cases hg : g a <;> simp [hf, hg] <;> omega
      exact key _ _ _
    · intro x hx
      simp only [wT, cancelTimer, Loop.cancelOpt, Loop.cancel, List.mem_filter] at hx ⊢
      exact ⟨hx.1.1, hx.2⟩

theorem counts_pop (s : Stack) (q : Option Nat) (cb : Cb) (rest : List (RItem Cb)) (hr : s.loop.ready = ⟨q, cb⟩ :: rest) (j m : Nat) :
    nS s j m = nS ({ s with loop := { s.loop with ready := rest } } : Stack) j m + (if isOStepOf j m cb then 1 else 0) ∧
    nWR s j m = nWR ({ s with loop := { s.loop with ready := rest } } : Stack) j m + (if isSleepFor (.offer j, m) cb then 1 else 0) ∧
    wT ({ s with loop := { s.loop with ready := rest } } : Stack) j m = wT s j m := by
  refine ⟨?_, ?_, rfl⟩
  · simp only [nS, hr, List.filter_cons]
    split <;> simp
  · simp only [nWR, hr, List.filter_cons]
    split <;> simp

theorem only_pop_step (s : Stack) (q : Option Nat) (i n : Nat) (rest : List (RItem Cb)) (hr : s.loop.ready = ⟨q, .taskStep (.offer i, n)⟩ :: rest) :
    Only i n s ({ s with loop := { s.loop with ready := rest } } : Stack) := by
  intro j m hk
  obtain ⟨h1, h2, h3⟩ := counts_pop s q _ rest hr j m
  rw [isOStepOf_other hk] at h1
  exact ⟨by simpa using h1.symm, by simpa using h2.symm, h3⟩
theorem only_pop_wake (s : Stack) (q : Option Nat) (i n : Nat) (rest : List (RItem Cb)) (hr : s.loop.ready = ⟨q, .sleepDone (.offer i, n)⟩ :: rest) :
    Only i n s ({ s with loop := { s.loop with ready := rest } } : Stack) := by
  intro j m hk
  obtain ⟨h1, h2, h3⟩ := counts_pop s q _ rest hr j m
  rw [isSleepFor_offer_other hk] at h2
  exact ⟨by simpa using h1.symm, by simpa using h2.symm, h3⟩

theorem pend_of_only {s R : Stack} {i n : Nat} (h : Only i n s R) (hnow : R.loop.now = s.loop.now) (j m : Nat) (hk : (j, m) ≠ (i, n))
    (t : TaskSt) (B : Nat) (hp : Pend s j m t B) : Pend R j m t B := by
  obtain ⟨e1, e2, e3⟩ := h j m hk
  unfold Pend at hp ⊢
  rw [e1, e2, e3, hnow]; exact hp

/-- an operation that concerns one offer task k = (i, n), the task reference and the log of its instance only -/
theorem ot_others {s R : Stack} (i n : Nat) (hi : OT s)
    (hinst : ∀ j, j ≠ i → (lview R).its[j]? = (lview s).its[j]?)
    (hot : ∀ j m, j ≠ i → alookup (lview R).tasks (.offer j, m) = alookup (lview s).tasks (.offer j, m))
    (honly : Only i n s R)
    (hanch : ∀ j, j ≠ i → anchor j (lview R).log = anchor j (lview s).log)
    (htm : R.tm = s.tm) (hnow : R.loop.now = s.loop.now)
    (hoc : ∀ j, ocount (lview s).tasks j ≤ ocount (lview R).tasks j)
    (hk : n < ocount (lview R).tasks i)
    (hself : ∀ n', (lview R).its[i]? = some (some n') →
      ∃ t, alookup (lview R).tasks (.offer i, n') = some t ∧
        (t.pc ≠ .done → ∃ A B, anchor i (lview R).log = some A ∧ Sch R.tm t.pc A B ∧ Pend R i n' t B)) :
    OT R := by
  refine ⟨?_, ?_⟩
  · intro j m hm
    by_cases hj : j = i
    · subst hj; exact hself m hm
    · rw [hinst j hj] at hm
      obtain ⟨t, ht, hrest⟩ := hi.own j m hm
      refine ⟨t, by rw [hot j m hj]; exact ht, ?_⟩
      intro hpc
      obtain ⟨A, B, ha, hs, hp⟩ := hrest hpc
      have hk' : (j, m) ≠ (i, n) := fun e => hj (Prod.mk.inj e).1
      exact ⟨A, B, by rw [hanch j hj]; exact ha, by rw [htm]; exact hs, pend_of_only honly hnow j m hk' t B hp⟩
  · intro j m hm
    have hk' : (j, m) ≠ (i, n) := by
      intro e
      obtain ⟨rfl, rfl⟩ := Prod.mk.inj e
      exact absurd hk (Nat.not_lt.mpr hm)
    obtain ⟨e1, e2, e3⟩ := honly j m hk'
    rw [e1, e2, e3]
    exact hi.fresh j m (Nat.le_trans (hoc j) hm)

/-- the obligation for the task (i, n') an instance holds, when the operation concerned another task (i, n) of that instance -/
theorem ot_self_other {s R : Stack} (i n : Nat) (hi : OT s) (n' : Nat) (hne : n' ≠ n)
    (hn0 : (lview s).its[i]? = some (some n'))
    (hot : alookup (lview R).tasks (.offer i, n') = alookup (lview s).tasks (.offer i, n')) (honly : Only i n s R)
    (hanch : anchor i (lview R).log = anchor i (lview s).log)
    (htm : R.tm = s.tm) (hnow : R.loop.now = s.loop.now) :
    ∃ t, alookup (lview R).tasks (.offer i, n') = some t ∧
      (t.pc ≠ .done → ∃ A B, anchor i (lview R).log = some A ∧ Sch R.tm t.pc A B ∧ Pend R i n' t B) := by
  obtain ⟨t, ht, hrest⟩ := hi.own i n' hn0
  refine ⟨t, by rw [hot]; exact ht, ?_⟩
  intro hpc
  obtain ⟨A, B, ha, hs, hp⟩ := hrest hpc
  have hk' : (i, n') ≠ (i, n) := fun e => hne (Prod.mk.inj e).2
  exact ⟨A, B, by rw [hanch]; exact ha, by rw [htm]; exact hs, pend_of_only honly hnow i n' hk' t B hp⟩

end Stack
end Someip
