/-
  The send-queue invariant (QInv.lean) through inputs, callbacks and loop steps.
-/
import SomeipModel.Lemmas.QInv
import SomeipModel.Lemmas.TimerInv
namespace Someip
namespace Stack
set_option linter.unusedSimpArgs false
set_option linter.unusedVariables false

theorem qinv_loop_change (s : Stack) (l : Loop Cb) (h : ∀ cid, nC ({ s with loop := l } : Stack) cid = nC s cid) (hi : QInv s) :
    QInv ({ s with loop := l } : Stack) :=
  ⟨hi.zero, hi.cids, hi.nodup, fun c hc => by rw [h]; exact hi.handles c hc, fun cid hc => by rw [h]; exact hi.nohandle cid hc,
   hi.latest, hi.cons⟩

theorem qinv_fire (s : Stack) (q : Nat) (l : Loop Cb) (h : s.loop.fire q = some l) (hi : QInv s) : QInv ({ s with loop := l } : Stack) := by
  apply qinv_loop_change s l _ hi
  intro cid
  unfold Loop.fire at h
  cases hf : s.loop.timers.find? (fun t => decide (t.seq = q)) with
  | none => rw [hf] at h; cases h
  | some t =>
    rw [hf] at h
    simp only [] at h
    split at h
    · simp only [Option.some.injEq] at h
      subst h
      show ((s.loop.timers.eraseP (fun t => decide (t.seq = q))).filter (fun t => isCollFor cid t.cb)).length +
        ((s.loop.ready ++ [(⟨some q, t.cb⟩ : RItem Cb)]).filter (fun (r : RItem Cb) => isCollFor cid r.cb)).length = nC s cid
      unfold nC
      cases hfor : isCollFor cid t.cb
      · rw [eraseP_find_filter_other _ _ (fun t => isCollFor cid t.cb) t hf hfor]
        simp [List.filter_append, List.filter_cons, hfor]
      · have := eraseP_find_filter_same _ _ (fun t => isCollFor cid t.cb) t hf hfor
        simp only [List.filter_append, List.filter_cons, hfor, if_true, List.filter_nil, List.length_append, List.length_cons,
          List.length_nil]
        omega
    · cases h

theorem qinv_adv (s : Stack) (t : Nat) (l : Loop Cb) (h : s.loop.adv t = some l) (hi : QInv s) : QInv ({ s with loop := l } : Stack) := by
  apply qinv_loop_change s l _ hi
  intro cid
  unfold Loop.adv at h
  split at h
  · simp only [Option.some.injEq] at h; subst h; rfl
  · cases h

theorem qinv_pop_other (s : Stack) (q : Option Nat) (cb : Cb) (rest : List (RItem Cb))
    (hr : s.loop.ready = ⟨q, cb⟩ :: rest) (hcb : isCollTimeout cb = false) (hi : QInv s) :
    QInv ({ s with loop := { s.loop with ready := rest } } : Stack) := by
  apply qinv_loop_change s _ _ hi
  intro cid
  unfold nC
  have : isCollFor cid cb = false := by
    cases h : isCollFor cid cb
    · rfl
    · rw [collFor_coll h] at hcb; cases hcb
  simp [hr, List.filter_cons, this]

/-! ### lifting -/

theorem qinv_foldl {α : Type} (f : Stack → α → Stack) (h : ∀ s x, QInv s → QInv (f s x)) (l : List α) (s : Stack)
    (hi : QInv s) : QInv (l.foldl f s) := by
  induction l generalizing s with
  | nil => exact hi
  | cons x t ih => rw [List.foldl_cons]; exact ih _ (h s x hi)

theorem qinv_sendOffer (s : Stack) (i : Nat) (r : Dest) (b : Bool) (hi : QInv s) : QInv (s.sendOffer i r b) := by
  unfold sendOffer
  split
  · exact hi
  · split
    · exact hi
    · exact qinv_queueSend _ _ _ (qinv_of_qpi (qpi_logOffer _ _ _) hi)

theorem qinv_frame {s s' : Stack} (h : qpi s' = qpi s) (hi : QInv s) : QInv s' := qinv_of_qpi h hi

theorem qinv_stepOffer (s : Stack) (tid : Tid) (t : TaskSt) (i : Nat) (hi : QInv s) : QInv (s.stepOffer tid t i) := by
  unfold stepOffer
  simp only []
  have hc : ∀ X : Stack, QInv X → QInv (if X.tm.cyclicOfferDelay ≠ 0 then X.sendOffer i none true else X) := by
    intro X hX; split
    · exact qinv_sendOffer _ _ _ _ hX
    · exact hX
  have hs : ∀ (X : Stack) (x : Instance), QInv X → QInv (X.setInst i x) := fun X x hX => qinv_frame (qpi_setInst _ _ _) hX
  have hsl : ∀ (X : Stack) (t' : TaskSt) (d : Nat) (pc : Pc), QInv X → QInv (X.sleepFor tid t' d pc) :=
    fun X t' d pc hX => qinv_frame (qpi_sleepFor _ _ _ _ _) hX
  have hfin : ∀ (X : Stack) (t' : TaskSt), QInv X → QInv (X.finish tid t') := fun X t' hX => qinv_frame (qpi_finish _ _ _) hX
  have hcancel : ∀ X : Stack, QInv X → QInv ((if (match X.getInst i with | some x => X.setInst i { x with canAnswer := false } | none => X).tm.cyclicOfferDelay ≠ 0
      then (match X.getInst i with | some x => X.setInst i { x with canAnswer := false } | none => X).sendOffer i none true
      else (match X.getInst i with | some x => X.setInst i { x with canAnswer := false } | none => X)).finish tid t) := by
    intro X hX
    apply hfin
    apply hc
    split
    · exact hs _ _ hX
    · exact hX
  have hafter : ∀ (X : Stack) (k : Nat), QInv X → QInv (if k < X.tm.repetitionsMax then X.sleepFor tid t (pow2 k * X.tm.repetitionsBaseDelay) (.rep k)
      else if X.tm.cyclicOfferDelay = 0 then X.finish tid t else X.sleepFor tid t X.tm.cyclicOfferDelay .cyclic) := by
    intro X k hX
    split
    · exact hsl _ _ _ _ hX
    · split
      · exact hfin _ _ hX
      · exact hsl _ _ _ _ hX
  split
  · split
    · exact hfin _ _ hi
    · exact hsl _ _ _ _ (qinv_frame (qpi_draw _ _ _) hi)
  · split
    · exact hfin _ _ hi
    · apply hafter
      split
      · exact hs _ _ (qinv_sendOffer _ _ _ _ hi)
      · exact qinv_sendOffer _ _ _ _ hi
  · split
    · exact hcancel _ hi
    · exact hafter _ _ (qinv_sendOffer _ _ _ _ hi)
  · split
    · exact hcancel _ hi
    · exact hsl _ _ _ _ (qinv_sendOffer _ _ _ _ hi)
  · exact hi

theorem qinv_instStop (s : Stack) (i : Nat) (hi : QInv s) : QInv (s.instStop i) := by
  unfold instStop
  split
  · exact hi
  · split
    · exact qinv_frame (qpi_emit_raised _ _) hi
    · simp only []
      apply qinv_frame (qpi_subsStopAll _ _)
      split
      · exact qinv_sendOffer _ _ _ _ (qinv_frame ((qpi_setInst _ _ _).trans ((qpi_cancelTask _ _).trans (qpi_logOffer _ _ _))) hi)
      · exact qinv_frame ((qpi_setInst _ _ _).trans ((qpi_cancelTask _ _).trans (qpi_logOffer _ _ _))) hi

theorem qinv_instHandleSubscribe (s : Stack) (i : Nat) (e : SDEntry) (a : Addr) (hi : QInv s) :
    QInv (s.instHandleSubscribe i e a).1 := by
  unfold instHandleSubscribe
  split
  · exact hi
  · split
    · exact hi
    · split
      · split
        · simp only []
          split
          · exact qinv_frame (qpi_setInst _ _ _) hi
          · exact qinv_frame ((qpi_emit_unsubscribed _ _ _ _).trans ((qpi_cancelTimer_subFor _ _ _ _ _).trans (qpi_setInst _ _ _))) hi
        · simp only []
          split
          · apply qinv_queueSend
            exact qinv_frame ((qpi_setInst _ _ _).trans ((qpi_armTtl_sub _ _ _ _ _).trans (qpi_cancelTimer_subFor _ _ _ _ _))) hi
          · split
            · apply qinv_queueSend
              exact qinv_frame (qpi_setInst _ _ _) hi
            · apply qinv_queueSend
              exact qinv_frame ((qpi_setInst _ _ _).trans ((qpi_armTtl_sub _ _ _ _ _).trans (qpi_emit_subscribed _ _ _ _))) hi
      · exact hi

theorem qinv_handleSubscribe (s : Stack) (e : SDEntry) (a : Addr) (hi : QInv s) : QInv (s.handleSubscribe e a) := by
  unfold handleSubscribe
  simp only []
  have key : ∀ (l : List Nat) (acc : Stack × Bool), QInv acc.1 →
      QInv (l.foldl (fun (acc : Stack × Bool) i => ((acc.1.instHandleSubscribe i e a).1, acc.2 || (acc.1.instHandleSubscribe i e a).2)) acc).1 := by
    intro l; induction l with
    | nil => intro acc h; exact h
    | cons x t ih => intro acc h; rw [List.foldl_cons]; exact ih _ (qinv_instHandleSubscribe _ _ _ _ h)
  split
  · exact key _ _ hi
  · exact qinv_queueSend _ _ _ (key _ _ hi)

theorem qinv_announcerStop (s : Stack) (hi : QInv s) : QInv s.announcerStop := by
  unfold announcerStop
  split
  · exact hi
  · show QInv { (List.foldl (fun s i => s.instStop i) s s.announceOrder) with started := false }
    exact qinv_frame (qpi_with_started _ _) (qinv_foldl _ (fun s i h => qinv_instStop s i h) _ _ hi)

theorem qinv_stopAnnounceService (s : Stack) (i : Nat) (b : Bool) (hi : QInv s) : QInv (s.stopAnnounceService i b) := by
  unfold stopAnnounceService
  split
  · exact qinv_frame (qpi_emit_raised _ _) hi
  · simp only []
    split
    · exact qinv_instStop _ _ (qinv_frame (qpi_with_announceOrder _ _) hi)
    · exact qinv_frame (qpi_with_announceOrder _ _) hi

theorem qinv_sdMessageReceived (s : Stack) (m : SDHeader) (a : Addr) (mc : Bool) (hi : QInv s) :
    QInv (s.sdMessageReceived m a mc) := by
  unfold sdMessageReceived
  split
  · exact hi
  · refine qinv_foldl _ (fun s e h => ?_) _ _ hi
    split
    · exact qinv_frame (qpi_handleOffer _ _ _) h
    · exact h
    · exact qinv_frame (qpi_handleFind _ _ _ _) h
    · split
      · exact h
      · exact qinv_handleSubscribe _ _ _ h

theorem qinv_messageReceived (s : Stack) (h : Header) (a : Addr) (mc : Bool) (hi : QInv s) :
    QInv (s.messageReceived h a mc) := by
  unfold messageReceived
  split
  · exact hi
  · split
    · exact hi
    · rename_i m r hpar
      simp only []
      have h1 : QInv (if (checkReceived s.incoming a mc m.flagReboot h.sess).1 = true
          then ({ s with incoming := (checkReceived s.incoming a mc m.flagReboot h.sess).2 } : Stack).rebootDetected a
          else ({ s with incoming := (checkReceived s.incoming a mc m.flagReboot h.sess).2 } : Stack)) := by
        split
        · exact qinv_frame ((qpi_rebootDetected _ _).trans (qpi_with_incoming _ _)) hi
        · exact qinv_frame (qpi_with_incoming _ _) hi
      split
      · exact qinv_frame (qpi_emit_raised _ _) h1
      · exact qinv_sdMessageReceived _ _ _ _ h1

theorem qinv_datagramReceived (s : Stack) (b : Bytes) (a : Addr) (mc : Bool) (hi : QInv s) :
    QInv (s.datagramReceived b a mc) := by
  unfold datagramReceived
  exact qinv_foldl _ (fun s h hh => qinv_messageReceived s h a mc hh) _ _ hi

theorem qinv_stop (s : Stack) (hi : QInv s) : QInv s.stop := by
  unfold Stack.stop
  exact qinv_frame (qpi_subscriberStop _ _) (qinv_announcerStop _ (qinv_frame (qpi_discoveryStop _) hi))

theorem qinv_applyInput (s : Stack) (x : Input) (hi : QInv s) : QInv (s.applyInput x) := by
  cases x with
  | dgram a mc b => exact qinv_datagramReceived s b a mc hi
  | stop => exact qinv_stop s hi
  | stopAnnounce i b => exact qinv_stopAnnounceService s i b hi
  | announcerStop => exact qinv_announcerStop s hi
  | start => exact qinv_frame (qpi_start s) hi
  | connLost => exact qinv_frame (qpi_connectionLost s) hi
  | watch f l => exact qinv_frame (qpi_watchService s f l) hi
  | unwatch f l => exact qinv_frame (qpi_stopWatchService s f l) hi
  | watchAll id => exact qinv_frame (qpi_watchAllServices s id) hi
  | unwatchAll id => exact qinv_frame (qpi_stopWatchAllServices s id) hi
  | subscribe g d => exact qinv_frame (qpi_subscribeEventgroup s g d) hi
  | stopSubscribe g d => exact qinv_frame (qpi_stopSubscribeEventgroup s g d true) hi
  | announce i => exact qinv_frame (qpi_announceService s i) hi
  | setNak i egs =>
    simp only [applyInput]
    split
    · exact qinv_frame (qpi_setInst s i _) hi
    · exact hi
  | draws ds => exact qinv_frame (s := s) (s' := { s with draws := s.draws ++ ds }) rfl hi
  | announcerStart => exact qinv_frame (qpi_announcerStart s) hi

/-- every callback other than a collection timeout -/
theorem qinv_runCb_other (s : Stack) (cb : Cb) (hcb : isCollTimeout cb = false) (hi : QInv s) : QInv (s.runCb cb) := by
  cases cb with
  | connLost p =>
    cases p with
    | subscriber => exact qinv_frame (qpi_subscriberStop s false) hi
    | discovery => exact qinv_frame (qpi_foundStopAll s) hi
    | announcer => exact qinv_announcerStop s hi
  | expiredSvc a k => exact qinv_frame (qpi_expiredSvc s a k) hi
  | expiredSub i a k => exact qinv_frame (qpi_expiredSub s i a k) hi
  | sendStartSubscribe d egs => exact qinv_frame (qpi_sendSubscribe s _ d egs) hi
  | sendStopSubscribe d egs => exact qinv_frame (qpi_sendSubscribe s _ d egs) hi
  | sendOfferTo i a => exact qinv_sendOffer s i _ _ hi
  | collectorTimeout cid => cases hcb
  | sleepDone tid => exact qinv_frame (qpi_sleepDone s tid) hi
  | taskStep tid =>
    simp only [runCb]
    split
    · exact hi
    · split
      · exact hi
      · split
        · exact qinv_stepOffer _ _ _ _ (qinv_frame (qpi_cancelTimer_sleep _ _ _) hi)
        · exact qinv_frame ((qpi_stepFind _ _ _).trans (qpi_cancelTimer_sleep _ _ _)) hi
        · exact qinv_frame ((qpi_stepSubscribe _ _ _).trans (qpi_cancelTimer_sleep _ _ _)) hi

theorem qinv_step (s s' : Stack) (e : Event) (h : s.step e = some s') (hi : QInv s) : QInv s' := by
  cases e with
  | input x => simp only [step, Option.some.injEq] at h; subst h; exact qinv_applyInput s x hi
  | run =>
    simp only [step, Loop.pop] at h
    cases hr : s.loop.ready with
    | nil => rw [hr] at h; cases h
    | cons r rest =>
      rw [hr] at h
      simp only [Option.some.injEq] at h
      subst h
      obtain ⟨q, cb⟩ := r
      cases hcb : isCollTimeout cb
      · exact qinv_runCb_other _ cb hcb (qinv_pop_other s q cb rest hr hcb hi)
      · cases cb with
        | collectorTimeout cid => exact (qinv_run_collectorTimeout s q cid rest hr hi).2
        | _ => cases hcb
  | fire q =>
    simp only [step] at h
    cases hf : s.loop.fire q with
    | none => rw [hf] at h; cases h
    | some l => rw [hf] at h; simp at h; subst h; exact qinv_fire s q l hf hi
  | adv t =>
    simp only [step] at h
    cases hf : s.loop.adv t with
    | none => rw [hf] at h; cases h
    | some l => rw [hf] at h; simp at h; subst h; exact qinv_adv s t l hf hi

end Stack
end Someip
