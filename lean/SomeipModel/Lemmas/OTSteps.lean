/-
  C10, the timing of the phases: the invariant `OT` through every function of the model, inputs, callbacks and loop steps.
  It is carried together with the offer-task invariant `OffInv`, the log invariant `OL` and the loop discipline `LD`.
-/
import SomeipModel.Lemmas.OTInv
namespace Someip
namespace Stack
set_option linter.unusedSimpArgs false
set_option linter.unusedVariables false

/-- same view, same configuration and clock, same callbacks of the offer tasks -/
theorem ot_anchor_frame {s s' : Stack} (hv : ∀ X : LV, X = lview s' → X.cyc = (lview s).cyc ∧ X.its = (lview s).its ∧ X.tasks = (lview s).tasks)
    (hanch : ∀ i, anchor i (lview s').log = anchor i (lview s).log)
    (htm : s'.tm = s.tm) (hnow : s'.loop.now = s.loop.now) (h4 : oci s' = oci s) (hi : OT s) : OT s' := by
  obtain ⟨_, hits, htasks⟩ := hv _ rfl
  refine ⟨?_, ?_⟩
  · intro i n hn
    rw [hits] at hn
    obtain ⟨t, ht, hrest⟩ := hi.own i n hn
    refine ⟨t, by rw [htasks]; exact ht, ?_⟩
    intro hpc
    obtain ⟨A, B, ha, hs, hp⟩ := hrest hpc
    exact ⟨A, B, by rw [hanch]; exact ha, by rw [htm]; exact hs, pend_of_frame h4 hnow i n t B hp⟩
  · intro i m hm
    rw [htasks] at hm
    obtain ⟨e1, e2, e3⟩ := counts_of_oci h4 i m
    rw [e1, e2, e3]; exact hi.fresh i m hm

theorem ot_sendOffer_remote (s : Stack) (i : Nat) (a : Addr) (hi : OT s) : OT (s.sendOffer i (some a) false) := by
  cases hx : s.getInst i with
  | none => unfold sendOffer; rw [hx]; exact hi
  | some x =>
    cases hb : (x.task.isNone || ((some a : Dest).isSome && !x.canAnswer))
    · have hv := lview_sendOffer_pass s i x (some a) false hx (by rw [hb]; rfl)
      apply ot_anchor_frame _ _ (sendOffer_tm _ _ _ _) (congrArg (fun p => p.2) (base_sendOffer s i (some a) false)) (oci_sendOffer _ _ _ _) hi
      · intro X hX; rw [hX, hv]; exact ⟨rfl, rfl, rfl⟩
      · intro j; rw [hv]
        exact anchor_append_other j i _ _ _ (Or.inr rfl)
    · rw [sendOffer_blocked s i x _ hx hb]; exact hi

/-! ### `ServiceInstance.start` -/

theorem getInst_setInst_self (s : Stack) (i : Nat) (x x' : Instance) (hx : s.getInst i = some x) : (s.setInst i x').getInst i = some x' := by
  unfold getInst setInst; simp only []
  have hlt : i < s.instances.length := (List.getElem?_eq_some_iff.mp hx).1
  rw [List.getElem?_set]; simp [hlt]

theorem instStart_eq (s : Stack) (i : Nat) (x : Instance) (hx : s.getInst i = some x) (hxt : x.task = none) :
    s.instStart i = (((s.logOffer i .start).setInst i { x with canAnswer := false }).createTask (.offer i)).1.setInst i
      { x with canAnswer := false, task := some (ocount (otasks s) i) } := by
  unfold instStart
  rw [hx]
  simp only []
  have hns : ¬ (x.task.isSome = true) := by rw [hxt]; simp
  rw [if_neg hns]
  have hx1 : ((s.logOffer i .start).setInst i { x with canAnswer := false }).getInst i = some { x with canAnswer := false } :=
    getInst_setInst_self (s.logOffer i .start) i x _ hx
  have hx2 : (((s.logOffer i .start).setInst i { x with canAnswer := false }).createTask (.offer i)).1.getInst i = some { x with canAnswer := false } := hx1
  rw [hx2]
  simp only []
  have hn : (((s.logOffer i .start).setInst i { x with canAnswer := false }).createTask (.offer i)).2 = ocount (otasks s) i :=
    ocount_eq_taskCount ((s.logOffer i .start).setInst i { x with canAnswer := false }) i
  rw [hn]

theorem ot_instStart (s : Stack) (i : Nat) (hi : OT s) (ho : OffInv s) : OT (s.instStart i) := by
  cases hx : s.getInst i with
  | none => unfold instStart; rw [hx]; exact hi
  | some x =>
    cases hxt : x.task with
    | some n =>
      have : s.instStart i = s.emit (.raised .runtime) := by unfold instStart; rw [hx]; simp [hxt]
      rw [this]
      exact ot_frame (opi_emit _ _) (base_emit _ _) (lgi_emit _ _) (oci_emit _ _) hi
    | none =>
      rw [instStart_eq s i x hx hxt]
      have hfresh : ∀ p ∈ (lview s).tasks, p.1 ≠ (TaskKind.offer i, ocount (otasks s) i) := by
        intro p hp e
        have := ho.keys p hp i (by rw [e])
        rw [e] at this; exact Nat.lt_irrefl _ this
      generalize hN : ocount (otasks s) i = N at hfresh
      generalize hs1 : (s.logOffer i .start).setInst i { x with canAnswer := false } = s1
      have hv1 : lview s1 = { lview s with log := (lview s).log ++ [(i, .start, s.loop.now)] } := by
        rw [← hs1, lview_setInst_keep (s.logOffer i .start) i x { x with canAnswer := false } hx rfl, lview_logOffer]
      have ho1 : otasks s1 = otasks s := by rw [← hs1]; rfl
      have hoci1 : oci s1 = oci s := by rw [← hs1]; rfl
      have htm1 : s1.tm = s.tm := by rw [← hs1]; rfl
      have hnow1 : s1.loop.now = s.loop.now := by rw [← hs1]; rfl
      -- the view of the result
      have hvR : lview ((s1.createTask (.offer i)).1.setInst i { x with canAnswer := false, task := some N }) =
          { lview s with log := (lview s).log ++ [(i, .start, s.loop.now)], its := (lview s).its.set i (some N),
                         tasks := (lview s).tasks ++ [((.offer i, N), ({} : TaskSt))] } := by
        rw [lview_setInst, lview_createTask_offer, hv1, ho1, hN]
      have hlt : i < (lview s).its.length := by
        have := its_getInst hx; exact (List.getElem?_eq_some_iff.mp this).1
      -- the callbacks: one more step, of the new task
      have hcnt : ∀ j m, nS ((s1.createTask (.offer i)).1.setInst i { x with canAnswer := false, task := some N }) j m =
            nS s j m + (if isOStepOf j m (.taskStep (.offer i, N)) then 1 else 0) ∧
          nWR ((s1.createTask (.offer i)).1.setInst i { x with canAnswer := false, task := some N }) j m = nWR s j m ∧
          wT ((s1.createTask (.offer i)).1.setInst i { x with canAnswer := false, task := some N }) j m = wT s j m := by
        intro j m
        have hN' : s1.taskCount (.offer i) = N := by rw [← hN, ← ho1]; exact ocount_eq_taskCount s1 i
        obtain ⟨c1, c2, c3⟩ := counts_callSoon ({ s1 with tasks := s1.tasks ++ [((TaskKind.offer i, s1.taskCount (.offer i)), ({} : TaskSt))] } : Stack)
          (.taskStep (.offer i, s1.taskCount (.offer i))) j m
        obtain ⟨d1, d2, d3⟩ := counts_of_oci hoci1 j m
        rw [hN'] at c1 c2 c3
        have x1 : nS ({ s1 with tasks := s1.tasks ++ [((TaskKind.offer i, N), ({} : TaskSt))] } : Stack) j m = nS s1 j m := rfl
        have x2 : nWR ({ s1 with tasks := s1.tasks ++ [((TaskKind.offer i, N), ({} : TaskSt))] } : Stack) j m = nWR s1 j m := rfl
        have x3 : wT ({ s1 with tasks := s1.tasks ++ [((TaskKind.offer i, N), ({} : TaskSt))] } : Stack) j m = wT s1 j m := rfl
        rw [x1, d1] at c1; rw [x2, d2] at c2; rw [x3, d3] at c3
        have e : (s1.createTask (.offer i)).1 =
            ({ s1 with tasks := s1.tasks ++ [((TaskKind.offer i, N), ({} : TaskSt))] } : Stack).callSoon (.taskStep (.offer i, N)) := by
          unfold createTask; simp only []; rw [hN']
        refine ⟨?_, ?_, ?_⟩
        · show nS (s1.createTask (.offer i)).1 j m = _
          rw [e]; exact c1
        · show nWR (s1.createTask (.offer i)).1 j m = _
          rw [e, c2]; simp
        · show wT (s1.createTask (.offer i)).1 j m = _
          rw [e]; exact c3
      generalize hR : (s1.createTask (.offer i)).1.setInst i { x with canAnswer := false, task := some N } = R at hvR hcnt
      have htmR : R.tm = s.tm := by rw [← hR]; exact htm1
      have hnowR : R.loop.now = s.loop.now := by rw [← hR]; exact hnow1
      apply ot_others i N hi
      · intro j hj; rw [hvR]; exact List.getElem?_set_ne (fun e => hj e.symm)
      · intro j m hj; rw [hvR]
        show alookup ((lview s).tasks ++ [_]) _ = _
        rw [alookup_append_new _ _ _ _ hfresh, if_neg (fun e => hj (by simpa using (Prod.mk.inj e).1))]
      · intro j m hk
        obtain ⟨c1, c2, c3⟩ := hcnt j m
        rw [isOStepOf_other hk] at c1
        exact ⟨by simpa using c1, c2, c3⟩
      · intro j hj; rw [hvR]; exact anchor_append_other j i _ _ _ (Or.inl (fun e => hj e.symm))
      · exact htmR
      · exact hnowR
      · intro j; rw [hvR]; show _ ≤ ocount ((lview s).tasks ++ [_]) j; rw [ocount_append_one]; exact Nat.le_add_right _ _
      · rw [hvR]; show N < ocount ((lview s).tasks ++ [_]) i; rw [ocount_append_one]
        have : ocount (lview s).tasks i = N := hN
        simp [this]
      · intro n' hn'
        rw [hvR] at hn'
        have hn'' : ((lview s).its.set i (some N))[i]? = some (some n') := hn'
        rw [List.getElem?_set_self hlt] at hn''
        have : n' = N := (Option.some.inj (Option.some.inj hn'')).symm
        subst this
        refine ⟨{}, ?_, ?_⟩
        · rw [hvR]; show alookup ((lview s).tasks ++ [_]) _ = _
          rw [alookup_append_new _ _ _ _ hfresh, if_pos rfl]
        · intro _
          refine ⟨s.loop.now, s.loop.now, ?_, ?_, ?_⟩
          · rw [hvR]; exact anchor_append_self i _ .start _ rfl
          · show s.loop.now = s.loop.now; rfl
          · obtain ⟨f1, f2, f3⟩ := hi.fresh i n' (Nat.le_of_eq hN)
            obtain ⟨c1, c2, c3⟩ := hcnt i n'
            unfold Pend
            simp only [Bool.false_eq_true, if_false]
            rw [c1, c2, c3, f1, f2, f3, isOStepOf_self]
            exact ⟨rfl, rfl, rfl, hnowR⟩

/-! ### `ServiceInstance.stop` -/

theorem only_cancelTask (s : Stack) (i n : Nat) : Only i n s (s.cancelTask (.offer i, n)) := by
  unfold cancelTask
  split
  · exact Only.refl _ _ _
  · split
    · exact Only.refl _ _ _
    · split
      · exact Only.trans (only_of_oci (s := s) (s' := s.setTask _ _) rfl) (only_callSoon_step _ i n)
      · exact only_of_oci (s := s) (s' := s.setTask _ _) rfl

theorem instStop_eq (s : Stack) (i n : Nat) (x : Instance) (hx : s.getInst i = some x) (hn : x.task = some n) :
    s.instStop i =
      (if (((s.logOffer i .stop).cancelTask (.offer i, n)).setInst i { x with task := none, canAnswer := false }).tm.cyclicOfferDelay = 0
       then (((s.logOffer i .stop).cancelTask (.offer i, n)).setInst i { x with task := none, canAnswer := false }).sendOffer i none true
       else (((s.logOffer i .stop).cancelTask (.offer i, n)).setInst i { x with task := none, canAnswer := false })).subsStopAll i := by
  unfold instStop
  rw [hx]
  simp only []
  rw [hn]

/-- the view after `stop()` of a running instance -/
theorem lview_instStop (s : Stack) (i n : Nat) (x : Instance) (t : TaskSt) (hx : s.getInst i = some x) (hn : x.task = some n)
    (ht : otask s i n = some t) :
    ∃ tasks', lview (s.instStop i) =
        { lview s with log := ((lview s).log ++ [(i, .stop, s.loop.now)]) ++ (if (lview s).cyc = 0 then [(i, .stopOffer, s.loop.now)] else []),
                       its := (lview s).its.set i none, tasks := tasks' } ∧
      ((t.pc = .done ∧ tasks' = (lview s).tasks) ∨
       (t.pc ≠ .done ∧ ∃ t'', tasks' = setT (lview s).tasks (.offer i, n) t'' ∧ t''.cancelled = true ∧ t''.pc = t.pc)) := by
  rw [instStop_eq s i n x hx hn]
  have htL : otask (s.logOffer i .stop) i n = some t := ht
  have hcases := otask_cancelTask_view (s.logOffer i .stop) i n t htL
  have hinstC : ((s.logOffer i .stop).cancelTask (.offer i, n)).instances = s.instances := by
    unfold cancelTask; split; rfl; split; rfl; split <;> rfl
  have htmC : ((s.logOffer i .stop).cancelTask (.offer i, n)).tm = s.tm := by
    unfold cancelTask; split; rfl; split; rfl; split <;> rfl
  have hnowC : ((s.logOffer i .stop).cancelTask (.offer i, n)).loop.now = s.loop.now := by
    unfold cancelTask; split; rfl; split; rfl; split <;> rfl
  generalize hC : (s.logOffer i .stop).cancelTask (.offer i, n) = C at hcases hinstC htmC hnowC
  have hxC : C.getInst i = some x := by unfold getInst; rw [hinstC]; exact hx
  have hvS : lview (C.setInst i { x with task := none, canAnswer := false }) = { lview C with its := (lview C).its.set i none } :=
    lview_setInst C i _
  have hxS : (C.setInst i { x with task := none, canAnswer := false }).getInst i = some { x with task := none, canAnswer := false } :=
    getInst_setInst_self C i x _ hxC
  have htmS : (C.setInst i { x with task := none, canAnswer := false }).tm = s.tm := htmC
  have hnowS : (C.setInst i { x with task := none, canAnswer := false }).loop.now = s.loop.now := hnowC
  generalize C.setInst i { x with task := none, canAnswer := false } = S at hvS hxS htmS hnowS
  have htasks : (t.pc = .done ∧ (lview C).tasks = (lview s).tasks) ∨
      (t.pc ≠ .done ∧ ∃ t'', (lview C).tasks = setT (lview s).tasks (.offer i, n) t'' ∧ t''.cancelled = true ∧ t''.pc = t.pc) := by
    rcases hcases with ⟨h1, h2⟩ | ⟨h1, t'', h2, h3, h4⟩
    · left; exact ⟨h1, by rw [h2]; rfl⟩
    · right; exact ⟨h1, t'', by rw [h2]; rfl, h3, h4⟩
  have hCv : (lview C).log = (lview s).log ++ [(i, .stop, s.loop.now)] ∧ (lview C).cyc = (lview s).cyc ∧ (lview C).its = (lview s).its := by
    rcases hcases with ⟨_, h2⟩ | ⟨_, t'', h2, _, _⟩ <;> (rw [h2]; exact ⟨rfl, rfl, rfl⟩)
  have hcycS : S.tm.cyclicOfferDelay = (lview s).cyc := by rw [htmS]; rfl
  obtain ⟨e1, e2, e3⟩ := hCv
  refine ⟨(lview C).tasks, ?_, htasks⟩
  rw [lview_of_frame (opi_subsStopAll _ _) (base_subsStopAll _ _) (lgi_subsStopAll _ _)]
  by_cases h0 : S.tm.cyclicOfferDelay = 0
  · have h0' : (lview s).cyc = 0 := by rw [← hcycS]; exact h0
    rw [if_pos h0, lview_sendOffer_pass S i _ none true hxS (by simp), hvS, hnowS]
    simp only [e1, e2, e3, h0', if_true]
  · have h0' : ¬ (lview s).cyc = 0 := by rw [← hcycS]; exact h0
    rw [if_neg h0, hvS]
    cases hv : lview C
    simp only [hv] at e1 e2 e3 ⊢
    simp only [e1, e2, e3, h0', if_false, List.append_nil]

theorem only_instStop (s : Stack) (i n : Nat) (x : Instance) (hx : s.getInst i = some x) (hn : x.task = some n) :
    Only i n s (s.instStop i) ∧ (s.instStop i).tm = s.tm ∧ (s.instStop i).loop.now = s.loop.now := by
  rw [instStop_eq s i n x hx hn]
  have h1 : Only i n s ((s.logOffer i .stop).cancelTask (.offer i, n)) :=
    Only.trans (only_of_oci (s := s) (s' := s.logOffer i .stop) rfl) (only_cancelTask _ i n)
  have htmC : ((s.logOffer i .stop).cancelTask (.offer i, n)).tm = s.tm := by
    unfold cancelTask; split; rfl; split; rfl; split <;> rfl
  have hnowC : ((s.logOffer i .stop).cancelTask (.offer i, n)).loop.now = s.loop.now := by
    unfold cancelTask; split; rfl; split; rfl; split <;> rfl
  generalize (s.logOffer i .stop).cancelTask (.offer i, n) = C at h1 htmC hnowC
  have h2 : Only i n s (C.setInst i { x with task := none, canAnswer := false }) :=
    Only.trans h1 (only_of_oci (s := C) (s' := C.setInst i _) rfl)
  have htmS : (C.setInst i { x with task := none, canAnswer := false }).tm = s.tm := htmC
  have hnowS : (C.setInst i { x with task := none, canAnswer := false }).loop.now = s.loop.now := hnowC
  generalize C.setInst i { x with task := none, canAnswer := false } = S at h2 htmS hnowS
  have hb := base_subsStopAll
  split
  · refine ⟨Only.trans (Only.trans h2 (only_of_oci (oci_sendOffer S i none true))) (only_of_oci (oci_subsStopAll _ _)), ?_, ?_⟩
    · have := congrArg (fun p => p.1) (hb (S.sendOffer i none true) i)
      exact this.trans ((sendOffer_tm _ _ _ _).trans htmS)
    · have := congrArg (fun p => p.2) (hb (S.sendOffer i none true) i)
      exact this.trans ((congrArg (fun p => p.2) (base_sendOffer S i none true)).trans hnowS)
  · refine ⟨Only.trans h2 (only_of_oci (oci_subsStopAll _ _)), ?_, ?_⟩
    · exact (congrArg (fun p => p.1) (hb S i)).trans htmS
    · exact (congrArg (fun p => p.2) (hb S i)).trans hnowS

theorem ot_instStop (s : Stack) (i : Nat) (hi : OT s) (ho : OffInv s) (hl : OL s) : OT (s.instStop i) := by
  cases hx : s.getInst i with
  | none => unfold instStop; rw [hx]; exact hi
  | some x =>
    cases hn : x.task with
    | none =>
      have : s.instStop i = s.emit (.raised .runtime) := by unfold instStop; rw [hx]; simp [hn]
      rw [this]
      exact ot_frame (opi_emit _ _) (base_emit _ _) (lgi_emit _ _) (oci_emit _ _) hi
    | some n =>
      have hits : (lview s).its[i]? = some (some n) := by rw [its_getInst hx, hn]
      obtain ⟨t, ht, _, _, _⟩ := hl.own i n hits
      obtain ⟨tasks', hv, htasks⟩ := lview_instStop s i n x t hx hn ht
      obtain ⟨honly, htm, hnow⟩ := only_instStop s i n x hx hn
      have hlt : i < (lview s).its.length := (List.getElem?_eq_some_iff.mp hits).1
      have hmem : ((TaskKind.offer i, n), t) ∈ (lview s).tasks := alookup_mem ht
      have hkn : n < ocount (lview s).tasks i := ho.keys _ hmem i rfl
      have hoc : ∀ j, ocount tasks' j = ocount (lview s).tasks j := by
        intro j
        rcases htasks with ⟨_, rfl⟩ | ⟨_, t'', rfl, _, _⟩
        · rfl
        · exact ocount_setT _ _ _ _
      apply ot_others i n hi
      · intro j hj; rw [hv]; exact List.getElem?_set_ne (fun e => hj e.symm)
      · intro j m hj; rw [hv]
        show alookup tasks' _ = _
        rcases htasks with ⟨_, rfl⟩ | ⟨_, t'', rfl, _, _⟩
        · rfl
        · rw [alookup_setT, if_neg (fun e => hj (by simpa using (Prod.mk.inj e).1))]
      · exact honly
      · intro j hj; rw [hv]
        show anchor j (((lview s).log ++ _) ++ _) = _
        split
        · rw [anchor_append_other j i _ _ _ (Or.inr rfl), anchor_append_other j i _ _ _ (Or.inr rfl)]
        · rw [List.append_nil, anchor_append_other j i _ _ _ (Or.inr rfl)]
      · exact htm
      · exact hnow
      · intro j; rw [hv]; show _ ≤ ocount tasks' j; rw [hoc]; exact Nat.le_refl _
      · rw [hv]; show n < ocount tasks' i; rw [hoc]; exact hkn
      · intro n' hn'
        rw [hv] at hn'
        have : ((lview s).its.set i none)[i]? = some (some n') := hn'
        rw [List.getElem?_set_self hlt] at this
        cases this

/-! ### the task operations of one offer task -/

theorem only_sleepFor (X : Stack) (i n : Nat) (t' : TaskSt) (d : Nat) (pc : Pc) :
    Only i n X (X.sleepFor (.offer i, n) t' d pc) ∧ (X.sleepFor (.offer i, n) t' d pc).tm = X.tm ∧
      (X.sleepFor (.offer i, n) t' d pc).loop.now = X.loop.now := by
  unfold sleepFor
  split
  · exact ⟨Only.trans (only_of_oci (s := X) (s' := X.setTask _ _) rfl) (only_callSoon_step _ i n), rfl, rfl⟩
  · exact ⟨Only.trans (only_callLater_wake X d i n) (only_of_oci (s' := (X.callLater d _).1.setTask _ _) rfl), rfl, rfl⟩

theorem only_finish (X : Stack) (i n : Nat) (t' : TaskSt) :
    Only i n X (X.finish (.offer i, n) t') ∧ (X.finish (.offer i, n) t').tm = X.tm ∧ (X.finish (.offer i, n) t').loop.now = X.loop.now :=
  ⟨only_of_oci (s := X) (s' := X.setTask _ _) rfl, rfl, rfl⟩

/-- a relation for "Only, same configuration, same clock" -/
def Loc (i n : Nat) (s s' : Stack) : Prop := Only i n s s' ∧ s'.tm = s.tm ∧ s'.loop.now = s.loop.now
theorem Loc.refl (i n : Nat) (s : Stack) : Loc i n s s := ⟨Only.refl _ _ _, rfl, rfl⟩
theorem Loc.trans {i n : Nat} {s s' s'' : Stack} (h1 : Loc i n s s') (h2 : Loc i n s' s'') : Loc i n s s'' :=
  ⟨Only.trans h1.1 h2.1, h2.2.1.trans h1.2.1, h2.2.2.trans h1.2.2⟩
theorem loc_of_frame {i n : Nat} {s s' : Stack} (h : oci s' = oci s) (hb : base s' = base s) : Loc i n s s' :=
  ⟨only_of_oci h, congrArg (fun p => p.1) hb, congrArg (fun p => p.2) hb⟩

theorem loc_stepOffer (X : Stack) (i n : Nat) (t' : TaskSt) : Loc i n X (X.stepOffer (.offer i, n) t' i) := by
  have hs : ∀ (Y : Stack) (d : Nat) (pc : Pc), Loc i n Y (Y.sleepFor (.offer i, n) t' d pc) := fun Y d pc => only_sleepFor Y i n t' d pc
  have hf : ∀ (Y : Stack), Loc i n Y (Y.finish (.offer i, n) t') := fun Y => only_finish Y i n t'
  have hso : ∀ (Y : Stack) (b : Bool), Loc i n Y (Y.sendOffer i none b) := fun Y b => loc_of_frame (oci_sendOffer _ _ _ _) (base_sendOffer _ _ _ _)
  have hm : ∀ (Y : Stack) (c : Bool), Loc i n Y (match Y.getInst i with | some x => Y.setInst i { x with canAnswer := c } | none => Y) := by
    intro Y c; split
    · exact loc_of_frame (s' := Y.setInst i _) rfl rfl
    · exact Loc.refl _ _ _
  have hcancel : Loc i n X ((if (match X.getInst i with | some x => X.setInst i { x with canAnswer := false } | none => X).tm.cyclicOfferDelay ≠ 0
      then (match X.getInst i with | some x => X.setInst i { x with canAnswer := false } | none => X).sendOffer i none true
      else (match X.getInst i with | some x => X.setInst i { x with canAnswer := false } | none => X)).finish (.offer i, n) t') := by
    have h1 := hm X false
    generalize (match X.getInst i with | some x => X.setInst i { x with canAnswer := false } | none => X) = Y at h1
    split
    · exact Loc.trans (Loc.trans h1 (hso Y true)) (hf _)
    · exact Loc.trans h1 (hf _)
  have hafter : ∀ (Y : Stack) (k : Nat), Loc i n Y (if k < Y.tm.repetitionsMax then Y.sleepFor (.offer i, n) t' (pow2 k * Y.tm.repetitionsBaseDelay) (.rep k)
      else if Y.tm.cyclicOfferDelay = 0 then Y.finish (.offer i, n) t' else Y.sleepFor (.offer i, n) t' Y.tm.cyclicOfferDelay .cyclic) := by
    intro Y k; split
    · exact hs _ _ _
    · split
      · exact hf _
      · exact hs _ _ _
  unfold stepOffer
  simp only []
  split
  · split
    · exact hf _
    · exact Loc.trans (loc_of_frame (oci_draw _ _ _) (base_draw _ _ _)) (hs _ _ _)
  · split
    · exact hf _
    · have h1 := hso X false
      generalize X.sendOffer i none false = Y at h1 ⊢
      cases hxY : Y.getInst i with
      | none => simp only []; exact Loc.trans h1 (hafter Y 0)
      | some x' =>
        simp only []
        exact Loc.trans (Loc.trans h1 (loc_of_frame (s' := Y.setInst i _) rfl rfl)) (hafter _ 0)
  · split
    · exact hcancel
    · exact Loc.trans (hso X false) (hafter _ _)
  · split
    · exact hcancel
    · exact Loc.trans (hso X false) (hs _ _ _)
  · exact Loc.refl _ _ _

/-- the view after one step of the offer coroutine: the instance's log grows, the task record is rewritten -/
theorem shape_stepOffer (X : Stack) (i n : Nat) (t' : TaskSt) (hnd : t'.pc ≠ .done) :
    ∃ (E : OLog) (t'' : TaskSt), lview (X.stepOffer (.offer i, n) t' i) =
        { lview X with log := (lview X).log ++ E, tasks := setT (lview X).tasks (.offer i, n) t'' } ∧
      (∀ e ∈ E, e.1 = i) ∧ (t'.cancelled = true → ∀ e ∈ E, isAnchorEv e.2.1 = false) := by
  have hs : ∀ (Y : Stack) (d : Nat) (pc : Pc) (E : OLog), lview Y = { lview X with log := (lview X).log ++ E } →
      ∃ t'', lview (Y.sleepFor (.offer i, n) t' d pc) = { lview X with log := (lview X).log ++ E, tasks := setT (lview X).tasks (.offer i, n) t'' } := by
    intro Y d pc E hY
    obtain ⟨t'', hv, _, _⟩ := lview_sleepFor Y i n t' d pc
    exact ⟨t'', by rw [hv, hY]⟩
  have hf : ∀ (Y : Stack) (E : OLog), lview Y = { lview X with log := (lview X).log ++ E } →
      ∃ t'', lview (Y.finish (.offer i, n) t') = { lview X with log := (lview X).log ++ E, tasks := setT (lview X).tasks (.offer i, n) t'' } := by
    intro Y E hY
    exact ⟨_, by rw [lview_finish, hY]⟩
  have hm : ∀ (Y : Stack) (c : Bool), lview (match Y.getInst i with | some x => Y.setInst i { x with canAnswer := c } | none => Y) = lview Y := by
    intro Y c; split
    · rename_i x hx; exact lview_setInst_keep Y i x _ hx rfl
    · rfl
  have hso : ∀ (Y : Stack) (b : Bool), ∃ E : OLog, lview (Y.sendOffer i none b) = { lview Y with log := (lview Y).log ++ E } ∧
      (∀ e ∈ E, e.1 = i) ∧ (b = true → ∀ e ∈ E, isAnchorEv e.2.1 = false) := by
    intro Y b
    cases hx : Y.getInst i with
    | none => exact ⟨[], by unfold sendOffer; rw [hx]; simp, by simp, by simp⟩
    | some x =>
      cases hb : (!b && (x.task.isNone || ((none : Dest).isSome && !x.canAnswer)))
      · refine ⟨[(i, if b then OEv.stopOffer else OEv.offer (none : Dest).isSome, Y.loop.now)], lview_sendOffer_pass Y i x none b hx hb, ?_, ?_⟩
        · intro e he; simp at he; rw [he]
        · intro hbt e he; simp at he; rw [he, hbt]; rfl
      · refine ⟨[], ?_, by simp, by simp⟩
        have : Y.sendOffer i none b = Y := by
          unfold sendOffer; rw [hx]; simp only []; rw [if_pos hb]
        rw [this]; simp
  have hE0 : lview X = { lview X with log := (lview X).log ++ [] } := by simp
  have hcancel : ∃ (E : OLog) (t'' : TaskSt), lview ((if (match X.getInst i with | some x => X.setInst i { x with canAnswer := false } | none => X).tm.cyclicOfferDelay ≠ 0
      then (match X.getInst i with | some x => X.setInst i { x with canAnswer := false } | none => X).sendOffer i none true
      else (match X.getInst i with | some x => X.setInst i { x with canAnswer := false } | none => X)).finish (.offer i, n) t') =
        { lview X with log := (lview X).log ++ E, tasks := setT (lview X).tasks (.offer i, n) t'' } ∧
      (∀ e ∈ E, e.1 = i) ∧ (∀ e ∈ E, isAnchorEv e.2.1 = false) := by
    have h1 := hm X false
    generalize (match X.getInst i with | some x => X.setInst i { x with canAnswer := false } | none => X) = Y at h1
    split
    · obtain ⟨E, hv, h2, h3⟩ := hso Y true
      obtain ⟨t'', hv2⟩ := hf (Y.sendOffer i none true) E (by rw [hv, h1])
      exact ⟨E, t'', hv2, h2, h3 rfl⟩
    · obtain ⟨t'', hv2⟩ := hf Y [] (by rw [h1]; exact hE0)
      exact ⟨[], t'', hv2, by simp, by simp⟩
  have hafter : ∀ (Y : Stack) (k : Nat) (E : OLog), lview Y = { lview X with log := (lview X).log ++ E } →
      ∃ t'', lview (if k < Y.tm.repetitionsMax then Y.sleepFor (.offer i, n) t' (pow2 k * Y.tm.repetitionsBaseDelay) (.rep k)
        else if Y.tm.cyclicOfferDelay = 0 then Y.finish (.offer i, n) t' else Y.sleepFor (.offer i, n) t' Y.tm.cyclicOfferDelay .cyclic) =
        { lview X with log := (lview X).log ++ E, tasks := setT (lview X).tasks (.offer i, n) t'' } := by
    intro Y k E hY; split
    · exact hs _ _ _ E hY
    · split
      · exact hf _ E hY
      · exact hs _ _ _ E hY
  unfold stepOffer
  simp only []
  split
  · split
    · obtain ⟨t'', h⟩ := hf X [] hE0; exact ⟨[], t'', h, by simp, by simp⟩
    · obtain ⟨t'', h⟩ := hs (X.draw X.tm.initialDelayMin X.tm.initialDelayMax).1 (X.draw X.tm.initialDelayMin X.tm.initialDelayMax).2 .initial []
        (by rw [lview_draw]; exact hE0)
      exact ⟨[], t'', h, by simp, by simp⟩
  · split
    · obtain ⟨t'', h⟩ := hf X [] hE0; exact ⟨[], t'', h, by simp, by simp⟩
    · rename_i hcc
      obtain ⟨E, hv, h2, _⟩ := hso X false
      generalize X.sendOffer i none false = Y at hv ⊢
      cases hxY : Y.getInst i with
      | none =>
        simp only []
        obtain ⟨t'', h⟩ := hafter Y 0 E hv
        exact ⟨E, t'', h, h2, fun hc => absurd hc hcc⟩
      | some x' =>
        simp only []
        obtain ⟨t'', h⟩ := hafter (Y.setInst i { x' with canAnswer := true }) 0 E (by rw [lview_setInst_keep Y i x' { x' with canAnswer := true } hxY rfl, hv])
        exact ⟨E, t'', h, h2, fun hc => absurd hc hcc⟩
  · split
    · obtain ⟨E, t'', h1, h2, h3⟩ := hcancel; exact ⟨E, t'', h1, h2, fun _ => h3⟩
    · rename_i hcc
      obtain ⟨E, hv, h2, _⟩ := hso X false
      obtain ⟨t'', h⟩ := hafter (X.sendOffer i none false) _ E hv
      exact ⟨E, t'', h, h2, fun hc => absurd hc hcc⟩
  · split
    · obtain ⟨E, t'', h1, h2, h3⟩ := hcancel; exact ⟨E, t'', h1, h2, fun _ => h3⟩
    · rename_i hcc
      obtain ⟨E, hv, h2, _⟩ := hso X false
      obtain ⟨t'', h⟩ := hs (X.sendOffer i none false) X.tm.cyclicOfferDelay .cyclic E hv
      exact ⟨E, t'', h, h2, fun hc => absurd hc hcc⟩
  · rename_i hd; exact absurd hd hnd

/-- the task goes to sleep for d: where its next step stands afterwards -/
theorem pend_sleepFor (Y : Stack) (i n : Nat) (t' : TaskSt) (d : Nat) (pc : Pc)
    (hcnt : nS Y i n = 0 ∧ nWR Y i n = 0 ∧ wT Y i n = []) :
    ∃ t'', lview (Y.sleepFor (.offer i, n) t' d pc) = { lview Y with tasks := setT (lview Y).tasks (.offer i, n) t'' } ∧
      t''.pc = pc ∧ t''.cancelled = t'.cancelled ∧ Pend (Y.sleepFor (.offer i, n) t' d pc) i n t'' (Y.loop.now + d) := by
  obtain ⟨h1, h2, h3⟩ := hcnt
  unfold sleepFor
  by_cases hd : d = 0
  · rw [if_pos hd]
    refine ⟨{ t' with pc, waiting := false, sleep := none }, by rw [lview_callSoon, lview_setTask], rfl, rfl, ?_⟩
    obtain ⟨c1, c2, c3⟩ := counts_callSoon (Y.setTask (.offer i, n) { t' with pc, waiting := false, sleep := none }) (.taskStep (.offer i, n)) i n
    unfold Pend
    simp only [Bool.false_eq_true, if_false]
    rw [c1, c2, c3]
    have e1 : nS (Y.setTask (.offer i, n) { t' with pc, waiting := false, sleep := none }) i n = nS Y i n := rfl
    have e2 : nWR (Y.setTask (.offer i, n) { t' with pc, waiting := false, sleep := none }) i n = nWR Y i n := rfl
    have e3 : wT (Y.setTask (.offer i, n) { t' with pc, waiting := false, sleep := none }) i n = wT Y i n := rfl
    rw [e1, e2, e3, h1, h2, h3, isOStepOf_self]
    refine ⟨rfl, rfl, by simp, ?_⟩
    show Y.loop.now = Y.loop.now + d
    rw [hd]; rfl
  · rw [if_neg hd]
    simp only []
    refine ⟨{ t' with pc, waiting := true, sleep := some (Y.callLater d (.sleepDone (.offer i, n))).2 },
      by rw [lview_setTask, lview_callLater], rfl, rfl, ?_⟩
    obtain ⟨c1, c2, c3⟩ := counts_callLater Y d (.sleepDone (.offer i, n)) i n
    unfold Pend
    simp only [if_true]
    have e1 : nS ((Y.callLater d (.sleepDone (.offer i, n))).1.setTask (.offer i, n) { t' with pc, waiting := true, sleep := some (Y.callLater d (.sleepDone (.offer i, n))).2 }) i n =
        nS (Y.callLater d (.sleepDone (.offer i, n))).1 i n := rfl
    have e2 : nWR ((Y.callLater d (.sleepDone (.offer i, n))).1.setTask (.offer i, n) { t' with pc, waiting := true, sleep := some (Y.callLater d (.sleepDone (.offer i, n))).2 }) i n =
        nWR (Y.callLater d (.sleepDone (.offer i, n))).1 i n := rfl
    have e3 : wT ((Y.callLater d (.sleepDone (.offer i, n))).1.setTask (.offer i, n) { t' with pc, waiting := true, sleep := some (Y.callLater d (.sleepDone (.offer i, n))).2 }) i n =
        wT (Y.callLater d (.sleepDone (.offer i, n))).1 i n := rfl
    rw [e1, e2, e3, c1, c2, c3, h1, h2, h3, isSleepFor_self]
    simp only [if_true, List.nil_append, List.length_singleton, List.mem_singleton]
    refine ⟨by simp, by simp, ?_, fun h => absurd rfl h⟩
    intro x hx; rw [hx]

theorem draw_window (X : Stack) (a b : Nat) : a ≤ (X.draw a b).2 ∧ (a ≤ b → (X.draw a b).2 ≤ b) := by
  unfold draw
  split
  · exact ⟨Nat.le_refl _, fun h => h⟩
  · simp only []; omega

theorem alookup_setT_self (l : List (Tid × TaskSt)) (k : Tid) (t t'' : TaskSt) (h : alookup l k = some t) :
    alookup (setT l k t'') k = some t'' := by
  rw [alookup_setT, if_pos rfl, h]; rfl

/-- one step of the task the instance holds, taken exactly when it is due (`now` = B): the next due time is on schedule -/
theorem ot_step_owned (X : Stack) (i n : Nat) (t t' : TaskSt) (x : Instance)
    (hx : X.getInst i = some x) (hxt : x.task = some n) (ht : alookup (lview X).tasks (.offer i, n) = some t)
    (hc : t'.cancelled = false) (hnd : t'.pc ≠ .done)
    (hcnt : nS X i n = 0 ∧ nWR X i n = 0 ∧ wT X i n = [])
    (A : Nat) (hA : anchor i (lview X).log = some A) (hS : Sch X.tm t'.pc A X.loop.now) :
    ∃ t'', alookup (lview (X.stepOffer (.offer i, n) t' i)).tasks (.offer i, n) = some t'' ∧
      (t''.pc ≠ .done → ∃ A' B', anchor i (lview (X.stepOffer (.offer i, n) t' i)).log = some A' ∧
        Sch (X.stepOffer (.offer i, n) t' i).tm t''.pc A' B' ∧ Pend (X.stepOffer (.offer i, n) t' i) i n t'' B') := by
  -- the offer goes through: the instance runs
  have hpass : lview (X.sendOffer i none false) = { lview X with log := (lview X).log ++ [(i, .offer false, X.loop.now)] } :=
    lview_sendOffer_pass X i x none false hx (by simp [hxt])
  have hanchor : anchor i ((lview X).log ++ [(i, .offer false, X.loop.now)]) = some X.loop.now := anchor_append_self i _ _ _ rfl
  -- a sleep after the state Y, reached from X by operations that leave the callbacks of the offer tasks alone
  have hsl : ∀ (Y : Stack) (E : OLog) (d : Nat) (pc : Pc), lview Y = { lview X with log := (lview X).log ++ E } → oci Y = oci X → base Y = base X →
      ∀ A', anchor i ((lview X).log ++ E) = some A' → Sch X.tm pc A' (X.loop.now + d) →
      ∃ t'', alookup (lview (Y.sleepFor (.offer i, n) t' d pc)).tasks (.offer i, n) = some t'' ∧
        (t''.pc ≠ .done → ∃ A'' B', anchor i (lview (Y.sleepFor (.offer i, n) t' d pc)).log = some A'' ∧
          Sch (Y.sleepFor (.offer i, n) t' d pc).tm t''.pc A'' B' ∧ Pend (Y.sleepFor (.offer i, n) t' d pc) i n t'' B') := by
    intro Y E d pc hY hoci hb A' hA' hS'
    have htm : Y.tm = X.tm := congrArg (fun p => p.1) hb
    have hnow : Y.loop.now = X.loop.now := congrArg (fun p => p.2) hb
    have hcY : nS Y i n = 0 ∧ nWR Y i n = 0 ∧ wT Y i n = [] := by
      obtain ⟨e1, e2, e3⟩ := counts_of_oci hoci i n
      rw [e1, e2, e3]; exact hcnt
    obtain ⟨t'', hv, hp, _, hpend⟩ := pend_sleepFor Y i n t' d pc hcY
    refine ⟨t'', by rw [hv]; exact alookup_setT_self _ _ t _ (by rw [hY]; exact ht), ?_⟩
    intro _
    refine ⟨A', X.loop.now + d, by rw [hv, hY]; exact hA', ?_, by rw [← hnow]; exact hpend⟩
    rw [(only_sleepFor Y i n t' d pc).2.1, htm, hp]; exact hS'
  have hfin : ∀ (Y : Stack), (∃ t0, alookup (lview Y).tasks (.offer i, n) = some t0) →
      ∃ t'', alookup (lview (Y.finish (.offer i, n) t')).tasks (.offer i, n) = some t'' ∧
        (t''.pc ≠ .done → ∃ A'' B', anchor i (lview (Y.finish (.offer i, n) t')).log = some A'' ∧
          Sch (Y.finish (.offer i, n) t').tm t''.pc A'' B' ∧ Pend (Y.finish (.offer i, n) t') i n t'' B') := by
    intro Y ⟨t0, ht0⟩
    refine ⟨_, by rw [lview_finish]; exact alookup_setT_self _ _ t0 _ ht0, fun h => absurd rfl h⟩
  -- top of the repetition loop / what follows it, after an offer has just been logged
  have hafter : ∀ (Y : Stack) (k : Nat), lview Y = { lview X with log := (lview X).log ++ [(i, .offer false, X.loop.now)] } →
      oci Y = oci X → base Y = base X →
      ∃ t'', alookup (lview (if k < Y.tm.repetitionsMax then Y.sleepFor (.offer i, n) t' (pow2 k * Y.tm.repetitionsBaseDelay) (.rep k)
            else if Y.tm.cyclicOfferDelay = 0 then Y.finish (.offer i, n) t' else Y.sleepFor (.offer i, n) t' Y.tm.cyclicOfferDelay .cyclic)).tasks (.offer i, n) = some t'' ∧
        (t''.pc ≠ .done → ∃ A'' B', anchor i (lview (if k < Y.tm.repetitionsMax then Y.sleepFor (.offer i, n) t' (pow2 k * Y.tm.repetitionsBaseDelay) (.rep k)
            else if Y.tm.cyclicOfferDelay = 0 then Y.finish (.offer i, n) t' else Y.sleepFor (.offer i, n) t' Y.tm.cyclicOfferDelay .cyclic)).log = some A'' ∧
          Sch (if k < Y.tm.repetitionsMax then Y.sleepFor (.offer i, n) t' (pow2 k * Y.tm.repetitionsBaseDelay) (.rep k)
            else if Y.tm.cyclicOfferDelay = 0 then Y.finish (.offer i, n) t' else Y.sleepFor (.offer i, n) t' Y.tm.cyclicOfferDelay .cyclic).tm t''.pc A'' B' ∧
          Pend (if k < Y.tm.repetitionsMax then Y.sleepFor (.offer i, n) t' (pow2 k * Y.tm.repetitionsBaseDelay) (.rep k)
            else if Y.tm.cyclicOfferDelay = 0 then Y.finish (.offer i, n) t' else Y.sleepFor (.offer i, n) t' Y.tm.cyclicOfferDelay .cyclic) i n t'' B') := by
    intro Y k hY hoci hb
    have htm : Y.tm = X.tm := congrArg (fun p => p.1) hb
    split
    · exact hsl Y _ _ (.rep k) hY hoci hb _ hanchor (by rw [htm]; rfl)
    · split
      · exact hfin Y ⟨t, by rw [hY]; exact ht⟩
      · exact hsl Y _ _ .cyclic hY hoci hb _ hanchor (by rw [htm]; rfl)
  unfold stepOffer
  simp only []
  split
  · -- created
    rename_i hcr
    simp only [hc, Bool.false_eq_true, if_false]
    have hwin := draw_window X X.tm.initialDelayMin X.tm.initialDelayMax
    have hS0 : X.loop.now = A := by rw [hcr] at hS; exact hS
    exact hsl (X.draw X.tm.initialDelayMin X.tm.initialDelayMax).1 [] (X.draw X.tm.initialDelayMin X.tm.initialDelayMax).2 .initial
      (by rw [lview_draw]; simp) (oci_draw _ _ _) (base_draw _ _ _) A (by simpa using hA)
      ⟨_, hwin.1, hwin.2, by rw [hS0]⟩
  · -- initial: the first offer
    simp only [hc, Bool.false_eq_true, if_false]
    have hoS := oci_sendOffer X i none false
    have hbS := base_sendOffer X i none false
    generalize X.sendOffer i none false = Y at hpass hoS hbS ⊢
    cases hxY : Y.getInst i with
    | none => simp only []; exact hafter Y 0 hpass hoS hbS
    | some x' =>
      simp only []
      exact hafter (Y.setInst i { x' with canAnswer := true }) 0
        (by rw [lview_setInst_keep Y i x' { x' with canAnswer := true } hxY rfl, hpass]) hoS hbS
  · -- repetition phase
    rename_i k hrep
    simp only [hc, Bool.false_eq_true, if_false]
    exact hafter (X.sendOffer i none false) (k + 1) hpass (oci_sendOffer _ _ _ _) (base_sendOffer _ _ _ _)
  · -- cyclic phase
    simp only [hc, Bool.false_eq_true, if_false]
    exact hsl (X.sendOffer i none false) _ X.tm.cyclicOfferDelay .cyclic hpass (oci_sendOffer _ _ _ _) (base_sendOffer _ _ _ _) _ hanchor rfl
  · rename_i hd; exact absurd hd hnd

theorem anchor_append_list (j : Nat) (log E : OLog) (h : ∀ e ∈ E, e.1 ≠ j ∨ isAnchorEv e.2.1 = false) :
    anchor j (log ++ E) = anchor j log := by
  have : E.filter (fun e => decide (e.1 = j) && isAnchorEv e.2.1) = [] := by
    rw [List.filter_eq_nil_iff]
    intro e he
    rcases h e he with h1 | h1
    · simp [h1]
    · simp [h1]
  unfold anchor
  rw [List.filter_append, this, List.append_nil]

/-- the step callback of offer task (i, n) is at the head of the ready queue and runs -/
theorem ot_pop_step (s : Stack) (q : Option Nat) (i n : Nat) (rest : List (RItem Cb))
    (hr : s.loop.ready = ⟨q, .taskStep (.offer i, n)⟩ :: rest) (hi : OT s) (ho : OffInv s) (hl : OL s) :
    OT (({ s with loop := { s.loop with ready := rest } } : Stack).runCb (.taskStep (.offer i, n))) := by
  obtain ⟨hp1, hp2, hp3⟩ := counts_pop s q _ rest hr i n
  rw [isOStepOf_self] at hp1
  simp only [if_true, isSleepFor_taskStep', Bool.false_eq_true, if_false, Nat.add_zero] at hp1 hp2
  have hkn : n < ocount (lview s).tasks i := by
    by_cases h : n < ocount (lview s).tasks i
    · exact h
    · have := (hi.fresh i n (Nat.le_of_not_lt h)).1
      omega
  have hloc0 : Loc i n s ({ s with loop := { s.loop with ready := rest } } : Stack) := ⟨only_pop_step s q i n rest hr, rfl, rfl⟩
  generalize hs0 : ({ s with loop := { s.loop with ready := rest } } : Stack) = s0 at hp1 hp2 hp3 hloc0
  have hv0 : lview s0 = lview s := by rw [← hs0]; rfl
  -- a result whose view differs from s only in the log of instance i (events E) and the record of task (i, n)
  have hgen : ∀ (R : Stack) (E : OLog) (tasks' : List (Tid × TaskSt)), Loc i n s R →
      lview R = { lview s with log := (lview s).log ++ E, tasks := tasks' } →
      (tasks' = (lview s).tasks ∨ ∃ t'', tasks' = setT (lview s).tasks (.offer i, n) t'') →
      (∀ e ∈ E, e.1 = i) →
      (∀ n', (lview s).its[i]? = some (some n') → n' ≠ n → ∀ e ∈ E, isAnchorEv e.2.1 = false) →
      (∀ n', (lview R).its[i]? = some (some n') → n' = n →
        ∃ t, alookup (lview R).tasks (.offer i, n') = some t ∧
          (t.pc ≠ .done → ∃ A B, anchor i (lview R).log = some A ∧ Sch R.tm t.pc A B ∧ Pend R i n' t B)) → OT R := by
    intro R E tasks' hloc hv htasks hE hEa hown
    have hoc : ∀ j, ocount tasks' j = ocount (lview s).tasks j := by
      intro j
      rcases htasks with rfl | ⟨t'', rfl⟩
      · rfl
      · exact ocount_setT _ _ _ _
    apply ot_others i n hi
    · intro j _; rw [hv]
    · intro j m hj; rw [hv]
      show alookup tasks' _ = _
      rcases htasks with rfl | ⟨t'', rfl⟩
      · rfl
      · rw [alookup_setT, if_neg (fun e => hj (by simpa using (Prod.mk.inj e).1))]
    · exact hloc.1
    · intro j hj; rw [hv]
      exact anchor_append_list j _ E (fun e he => Or.inl (by rw [hE e he]; exact fun e' => hj e'.symm))
    · exact hloc.2.1
    · exact hloc.2.2
    · intro j; rw [hv]; show _ ≤ ocount tasks' j; rw [hoc]; exact Nat.le_refl _
    · rw [hv]; show n < ocount tasks' i; rw [hoc]; exact hkn
    · intro n' hn'
      by_cases hne : n' = n
      · exact hown n' hn' hne
      · have hn0 : (lview s).its[i]? = some (some n') := by rw [hv] at hn'; exact hn'
        apply ot_self_other i n hi n' hne hn0 _ hloc.1 _ hloc.2.1 hloc.2.2
        · rw [hv]; show alookup tasks' _ = _
          rcases htasks with rfl | ⟨t'', rfl⟩
          · rfl
          · rw [alookup_setT, if_neg (fun e => hne (Prod.mk.inj e).2)]
        · rw [hv]
          exact anchor_append_list i _ E (fun e he => Or.inr (hEa n' hn0 hne e he))
  simp only [runCb]
  rw [getTask_offer]
  have hts0 : otask s0 i n = otask s i n := by rw [← hs0]; rfl
  rw [hts0]
  cases ht : otask s i n with
  | none =>
    simp only []
    apply hgen s0 [] (lview s).tasks hloc0 (by rw [hv0]; simp) (Or.inl rfl) (by simp) (by simp)
    intro n' hn' hne
    subst hne
    rw [hv0] at hn'
    obtain ⟨t0, h0, _⟩ := hl.own i n' hn'
    rw [lview_tasks_otask, ht] at h0; cases h0
  | some t =>
    simp only []
    by_cases hd : t.pc = .done
    · rw [if_pos hd]
      apply hgen s0 [] (lview s).tasks hloc0 (by rw [hv0]; simp) (Or.inl rfl) (by simp) (by simp)
      intro n' hn' hne
      subst hne
      exact ⟨t, by rw [hv0]; exact ht, fun h => absurd hd h⟩
    · rw [if_neg hd]
      -- the step proper
      have hloc1 : Loc i n s (s0.cancelTimer (isSleepFor (.offer i, n)) t.sleep) :=
        Loc.trans hloc0 ⟨only_cancelTimer_sleep s0 i n t.sleep, rfl, cancelTimer_now _ _ _⟩
      have hv1 : lview (s0.cancelTimer (isSleepFor (.offer i, n)) t.sleep) = lview s := (lview_cancelTimer _ _ _).trans hv0
      obtain ⟨c1, c2, c3⟩ := counts_cancelTimer_self s0 i n t.sleep
      generalize hs1 : s0.cancelTimer (isSleepFor (.offer i, n)) t.sleep = s1 at hloc1 hv1 c1 c2 c3
      have hnd' : ({ t with sleep := none, waiting := false } : TaskSt).pc ≠ .done := hd
      obtain ⟨E, t'', hshape, hE, hEc⟩ := shape_stepOffer s1 i n { t with sleep := none, waiting := false } hnd'
      rw [hv1] at hshape
      apply hgen _ E _ (Loc.trans hloc1 (loc_stepOffer s1 i n _)) hshape (Or.inr ⟨t'', rfl⟩) hE
      · -- another task of the instance is the one it holds: this one was cancelled
        intro n' hn' hne
        apply hEc
        show t.cancelled = true
        cases hc : t.cancelled
        · obtain ⟨c, hitc⟩ := ho.own i n t ht hd hc
          have := its_of_itc hitc
          rw [hn'] at this
          exact absurd (Option.some.inj (Option.some.inj this)) hne
        · rfl
      · -- the task the instance holds takes its step: it is due exactly now
        intro n' hn' hne
        subst hne
        rw [hshape] at hn'
        have hn0 : (lview s).its[i]? = some (some n') := hn'
        obtain ⟨t0, h0, hc0, _, _⟩ := hl.own i n' hn0
        rw [lview_tasks_otask, ht] at h0; cases h0
        obtain ⟨t1, h1, hrest⟩ := hi.own i n' hn0
        rw [lview_tasks_otask, ht] at h1; cases h1
        obtain ⟨A, B, hA, hS, hP⟩ := hrest hd
        -- a step is queued, so the task is not suspended
        have hnw : t.waiting = false := by
          cases hw : t.waiting
          · rfl
          · unfold Pend at hP; rw [hw] at hP; simp only [if_true] at hP; omega
        unfold Pend at hP
        rw [hnw] at hP
        simp only [Bool.false_eq_true, if_false] at hP
        obtain ⟨p1, p2, p3, p4⟩ := hP
        have hcnt1 : nS s1 i n' = 0 ∧ nWR s1 i n' = 0 ∧ wT s1 i n' = [] := by
          refine ⟨by omega, by omega, ?_⟩
          have hw0 : wT s i n' = [] := List.length_eq_zero_iff.mp p2
          rw [hp3, hw0] at c3
          exact List.eq_nil_iff_forall_not_mem.mpr (fun x hx => by cases c3 x hx)
        obtain ⟨x, hx⟩ : ∃ x, s.getInst i = some x := by
          rw [lview_its] at hn0
          cases hg : s.getInst i with
          | none => rw [hg] at hn0; cases hn0
          | some x => exact ⟨x, rfl⟩
        have hxt : x.task = some n' := by
          have := its_getInst hx; rw [hn0] at this; exact (Option.some.inj this).symm
        have hx1 : s1.getInst i = some x := by rw [← hs1, ← hs0]; exact hx
        have htm1 : s1.tm = s.tm := hloc1.2.1
        have hnow1 : s1.loop.now = s.loop.now := hloc1.2.2
        have := ot_step_owned s1 i n' t { t with sleep := none, waiting := false } x hx1 hxt (by rw [hv1]; exact ht) hc0 hnd' hcnt1 A
          (by rw [hv1]; exact hA) (by rw [htm1, hnow1, p4]; exact hS)
        exact this

/-- the wake-up callback of offer task (i, n) is at the head of the ready queue and runs -/
theorem ot_pop_sleepDone (s : Stack) (q : Option Nat) (i n : Nat) (rest : List (RItem Cb))
    (hr : s.loop.ready = ⟨q, .sleepDone (.offer i, n)⟩ :: rest) (hi : OT s) (hl : OL s) :
    OT (({ s with loop := { s.loop with ready := rest } } : Stack).sleepDone (.offer i, n)) := by
  obtain ⟨hp1, hp2, hp3⟩ := counts_pop s q _ rest hr i n
  rw [isSleepFor_self] at hp2
  simp only [isOStepOf_sleepDone, Bool.false_eq_true, if_false, Nat.add_zero, if_true] at hp1 hp2
  have hkn : n < ocount (lview s).tasks i := by
    by_cases h : n < ocount (lview s).tasks i
    · exact h
    · have := (hi.fresh i n (Nat.le_of_not_lt h)).2.1
      omega
  have hloc0 : Loc i n s ({ s with loop := { s.loop with ready := rest } } : Stack) := ⟨only_pop_wake s q i n rest hr, rfl, rfl⟩
  generalize hs0 : ({ s with loop := { s.loop with ready := rest } } : Stack) = s0 at hp1 hp2 hp3 hloc0
  have hv0 : lview s0 = lview s := by rw [← hs0]; rfl
  have hts0 : otask s0 i n = otask s i n := by rw [← hs0]; rfl
  have hgen : ∀ (R : Stack) (tasks' : List (Tid × TaskSt)), Loc i n s R →
      lview R = { lview s with tasks := tasks' } →
      (tasks' = (lview s).tasks ∨ ∃ t'', tasks' = setT (lview s).tasks (.offer i, n) t'') →
      ((lview s).its[i]? = some (some n) →
        ∃ t, alookup tasks' (.offer i, n) = some t ∧
          (t.pc ≠ .done → ∃ A B, anchor i (lview s).log = some A ∧ Sch R.tm t.pc A B ∧ Pend R i n t B)) → OT R := by
    intro R tasks' hloc hv htasks hown
    have hoc : ∀ j, ocount tasks' j = ocount (lview s).tasks j := by
      intro j
      rcases htasks with rfl | ⟨t'', rfl⟩
      · rfl
      · exact ocount_setT _ _ _ _
    apply ot_others i n hi
    · intro j _; rw [hv]
    · intro j m hj; rw [hv]
      show alookup tasks' _ = _
      rcases htasks with rfl | ⟨t'', rfl⟩
      · rfl
      · rw [alookup_setT, if_neg (fun e => hj (by simpa using (Prod.mk.inj e).1))]
    · exact hloc.1
    · intro j _; rw [hv]
    · exact hloc.2.1
    · exact hloc.2.2
    · intro j; rw [hv]; show _ ≤ ocount tasks' j; rw [hoc]; exact Nat.le_refl _
    · rw [hv]; show n < ocount tasks' i; rw [hoc]; exact hkn
    · intro n' hn'
      have hn0 : (lview s).its[i]? = some (some n') := by rw [hv] at hn'; exact hn'
      by_cases hne : n' = n
      · subst hne
        rw [hv]; exact hown hn0
      · apply ot_self_other i n hi n' hne hn0 _ hloc.1 _ hloc.2.1 hloc.2.2
        · rw [hv]; show alookup tasks' _ = _
          rcases htasks with rfl | ⟨t'', rfl⟩
          · rfl
          · rw [alookup_setT, if_neg (fun e => hne (Prod.mk.inj e).2)]
        · rw [hv]
  unfold sleepDone
  rw [getTask_offer, hts0]
  cases ht : otask s i n with
  | none =>
    simp only []
    apply hgen s0 (lview s).tasks hloc0 (by rw [hv0]) (Or.inl rfl)
    intro hn0
    obtain ⟨t0, h0, _⟩ := hl.own i n hn0
    rw [lview_tasks_otask, ht] at h0; cases h0
  | some t =>
    simp only []
    -- what the invariant says about the task if the instance holds it
    have hown : (lview s).its[i]? = some (some n) → t.pc ≠ .done →
        t.waiting = true ∧ nS s i n = 0 ∧ nWR s i n = 1 ∧ wT s i n = [] ∧
          ∃ A B, anchor i (lview s).log = some A ∧ Sch s.tm t.pc A B ∧ s.loop.now = B := by
      intro hn0 hd
      obtain ⟨t1, h1, hrest⟩ := hi.own i n hn0
      rw [lview_tasks_otask, ht] at h1; cases h1
      obtain ⟨A, B, hA, hS, hP⟩ := hrest hd
      unfold Pend at hP
      cases hw : t.waiting
      · rw [hw] at hP; simp only [Bool.false_eq_true, if_false] at hP; omega
      · rw [hw] at hP; simp only [if_true] at hP
        obtain ⟨p1, p2, p3, p4⟩ := hP
        have hnw : nWR s i n ≠ 0 := by omega
        refine ⟨rfl, p1, by omega, ?_, A, B, hA, hS, p4 hnw⟩
        exact List.length_eq_zero_iff.mp (by omega)
    cases hw : t.waiting
    · simp only [Bool.false_eq_true, if_false]
      apply hgen s0 (lview s).tasks hloc0 (by rw [hv0]) (Or.inl rfl)
      intro hn0
      refine ⟨t, ht, ?_⟩
      intro hd
      have := (hown hn0 hd).1
      rw [hw] at this; cases this
    · simp only [if_true]
      have hvR : lview ((s0.setTask (.offer i, n) { t with waiting := false, sleep := none }).callSoon (.taskStep (.offer i, n))) =
          { lview s with tasks := setT (lview s).tasks (.offer i, n) { t with waiting := false, sleep := none } } := by
        rw [lview_callSoon, lview_setTask, hv0]
      have hlocR : Loc i n s ((s0.setTask (.offer i, n) { t with waiting := false, sleep := none }).callSoon (.taskStep (.offer i, n))) :=
        Loc.trans hloc0 ⟨Only.trans (only_of_oci (s := s0) (s' := s0.setTask _ _) rfl) (only_callSoon_step _ i n), rfl, rfl⟩
      apply hgen _ _ hlocR hvR (Or.inr ⟨_, rfl⟩)
      intro hn0
      refine ⟨{ t with waiting := false, sleep := none }, alookup_setT_self _ _ t _ ht, ?_⟩
      intro hd
      obtain ⟨_, q1, q2, q3, A, B, hA, hS, hnow⟩ := hown hn0 hd
      refine ⟨A, B, hA, by rw [hlocR.2.1]; exact hS, ?_⟩
      obtain ⟨c1, c2, c3⟩ := counts_callSoon (s0.setTask (.offer i, n) { t with waiting := false, sleep := none }) (.taskStep (.offer i, n)) i n
      have e1 : nS (s0.setTask (.offer i, n) { t with waiting := false, sleep := none }) i n = nS s0 i n := rfl
      have e2 : nWR (s0.setTask (.offer i, n) { t with waiting := false, sleep := none }) i n = nWR s0 i n := rfl
      have e3 : wT (s0.setTask (.offer i, n) { t with waiting := false, sleep := none }) i n = wT s0 i n := rfl
      unfold Pend
      simp only [Bool.false_eq_true, if_false]
      rw [c1, c2, c3, e1, e2, e3, hp3, q3, isOStepOf_self]
      simp only [isSleepFor_taskStep', Bool.false_eq_true, if_false, if_true, List.length_nil]
      have hnowR : ((s0.setTask (.offer i, n) { t with waiting := false, sleep := none }).callSoon (.taskStep (.offer i, n))).loop.now = s.loop.now := hlocR.2.2
      refine ⟨by omega, trivial, by omega, by rw [hnowR]; exact hnow⟩

end Stack
end Someip
