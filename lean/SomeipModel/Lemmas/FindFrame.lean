/-
  Frame lemmas for the client's FindService task (C13): the find tasks, the ghost log of FindService rounds, the configured
  repetition count and the discovery's task reference are touched by nothing outside ServiceDiscover.start / stop and the
  find task itself.  Same proof scripts as MirFrame.lean / QFrame.lean (other projection; no loop component at all).
-/
import SomeipModel.Lemmas.MirFrame
namespace Someip
namespace Stack
set_option linter.unusedSimpArgs false

def isFindT (p : Tid × TaskSt) : Bool := decide (p.1.1 = .find)

/-- what the find-round invariant depends on -/
def fpi (s : Stack) : List (Tid × TaskSt) × List (Nat × Nat) × Nat × Option Nat :=
  (s.tasks.filter isFindT, s.findLog, s.tm.repetitionsMax, s.findTask)

@[simp] theorem fpi_with_alive (s : Stack) (x : Bool) : fpi { s with alive := x } = fpi s := rfl
@[simp] theorem fpi_with_subTask (s : Stack) (x : Option Nat) : fpi { s with subTask := x } = fpi s := rfl
@[simp] theorem fpi_with_subEntries (s : Stack) (x : List (Eventgroup × Addr)) : fpi { s with subEntries := x } = fpi s := rfl
@[simp] theorem fpi_with_subLog (s : Stack) (x : List (Addr × Nat × List Eventgroup)) : fpi { s with subLog := x } = fpi s := rfl
@[simp] theorem fpi_with_subDup (s : Stack) (x : Bool) : fpi { s with subDup := x } = fpi s := rfl
@[simp] theorem fpi_with_subLost (s : Stack) (x : Bool) : fpi { s with subLost := x } = fpi s := rfl
@[simp] theorem fpi_with_alive_subLost (s : Stack) (x y : Bool) : fpi { s with alive := x, subLost := y } = fpi s := rfl
@[simp] theorem fpi_with_subDup_subEntries (s : Stack) (x : Bool) (y : List (Eventgroup × Addr)) : fpi { s with subDup := x, subEntries := y } = fpi s := rfl
@[simp] theorem fpi_with_watched (s : Stack) (x : List (Service × List Listener)) : fpi { s with watched := x } = fpi s := rfl
@[simp] theorem fpi_with_watchAll (s : Stack) (x : List LId) : fpi { s with watchAll := x } = fpi s := rfl
@[simp] theorem fpi_with_started (s : Stack) (x : Bool) : fpi { s with started := x } = fpi s := rfl
@[simp] theorem fpi_with_announceOrder (s : Stack) (x : List Nat) : fpi { s with announceOrder := x } = fpi s := rfl
@[simp] theorem fpi_with_incoming (s : Stack) (x : Incoming) : fpi { s with incoming := x } = fpi s := rfl
@[simp] theorem fpi_with_draws (s : Stack) (x : List Nat) : fpi { s with draws := x } = fpi s := rfl
@[simp] theorem fpi_with_storeLog (s : Stack) (x : List (Bool × SvcKey × Addr)) : fpi { s with storeLog := x } = fpi s := rfl
@[simp] theorem fpi_with_refreshLog (s : Stack) (x : List (Addr × SvcKey × Nat × Nat)) : fpi { s with refreshLog := x } = fpi s := rfl
@[simp] theorem fpi_with_armLog (s : Stack) (x : List (Cb × Nat × Nat)) : fpi { s with armLog := x } = fpi s := rfl
@[simp] theorem fpi_with_findMarks (s : Stack) (x : List (Nat × Nat)) : fpi { s with findMarks := x } = fpi s := rfl
@[simp] theorem fpi_with_ansLog (s : Stack) (x : List (Nat × Addr × Nat × Nat)) : fpi { s with ansLog := x } = fpi s := rfl
@[simp] theorem fpi_with_lisLog (s : Stack) (x : List (LId × Bool × SvcKey × Addr)) : fpi { s with lisLog := x } = fpi s := rfl
@[simp] theorem fpi_logLis (s : Stack) (id : LId) (o : Bool) (k : SvcKey) (a : Addr) : fpi (s.logLis id o k a) = fpi s := rfl
@[simp] theorem fpi_with_lisDup (s : Stack) (x : Bool) : fpi { s with lisDup := x } = fpi s := rfl
@[simp] theorem fpi_markDup (s : Stack) (d : Bool) : fpi (s.markDup d) = fpi s := rfl
@[simp] theorem fpi_logAnswer (s : Stack) (i : Nat) (a : Addr) (d : Nat) : fpi (s.logAnswer i a d) = fpi s := rfl
@[simp] theorem fpi_markFind (s : Stack) (n : Nat) : fpi (s.markFind n) = fpi s := rfl
@[simp] theorem fpi_with_offLog (s : Stack) (x : List (Nat × OEv × Nat)) : fpi { s with offLog := x } = fpi s := rfl
@[simp] theorem fpi_logOffer (s : Stack) (i : Nat) (e : OEv) : fpi (s.logOffer i e) = fpi s := rfl
@[simp] theorem fpi_with_subMarks (s : Stack) (x : List (Option Nat × Nat)) : fpi { s with subMarks := x } = fpi s := rfl
@[simp] theorem fpi_markRound (s : Stack) (n : Nat) : fpi (s.markRound n) = fpi s := rfl
@[simp] theorem fpi_with_found_refreshLog (s : Stack) (x : TStore SvcKey) (y : List (Addr × SvcKey × Nat × Nat)) : fpi { s with found := x, refreshLog := y } = fpi s := rfl
@[simp] theorem fpi_with_found (s : Stack) (x : TStore SvcKey) : fpi { s with found := x } = fpi s := rfl
@[simp] theorem fpi_with_found_storeLog (s : Stack) (x : TStore SvcKey) (y : List (Bool × SvcKey × Addr)) : fpi { s with found := x, storeLog := y } = fpi s := rfl
@[simp] theorem fpi_with_collectors (s : Stack) (x : List Collector) : fpi { s with collectors := x } = fpi s := rfl
@[simp] theorem fpi_with_nextCid (s : Stack) (x : Nat) : fpi { s with nextCid := x } = fpi s := rfl
@[simp] theorem fpi_with_outgoing (s : Stack) (x : Outgoing) : fpi { s with outgoing := x } = fpi s := rfl
@[simp] theorem fpi_with_sendLog (s : Stack) (x : List (Dest × (Bool × Nat))) : fpi { s with sendLog := x } = fpi s := rfl
@[simp] theorem fpi_with_outgoing_sendLog (s : Stack) (x : Outgoing) (y : List (Dest × (Bool × Nat))) : fpi { s with outgoing := x, sendLog := y } = fpi s := rfl
@[simp] theorem fpi_with_flushLog (s : Stack) (x : List (Dest × List SDEntry)) : fpi { s with flushLog := x } = fpi s := rfl
@[simp] theorem fpi_with_instances (s : Stack) (x : List Instance) : fpi { s with instances := x } = fpi s := rfl
@[simp] theorem fpi_with_outs (s : Stack) (x : List (Nat × Out)) : fpi { s with outs := x } = fpi s := rfl
@[simp] theorem fpi_with_coll_nextCid (s : Stack) (x : List Collector) (y : Nat) : fpi { s with collectors := x, nextCid := y } = fpi s := rfl

@[simp] theorem fpi_emit (s : Stack) (o : Out) : fpi (s.emit o) = fpi s := rfl

@[simp] theorem fpi_callSoon (s : Stack) (cb : Cb) : fpi (s.callSoon cb) = fpi s := rfl
@[simp] theorem fpi_callLater (s : Stack) (d : Nat) (cb : Cb) : fpi (s.callLater d cb).1 = fpi s := rfl
@[simp] theorem fpi_cancelTimer (s : Stack) (own : Cb → Bool) (t : Option Nat) : fpi (s.cancelTimer own t) = fpi s := by
  cases t <;> rfl

/-! task operations of the other components (typed task ids) -/


theorem fpi_setTask (s : Stack) (tid : Tid) (x : TaskSt) (h : tid.1 ≠ .find) : fpi (s.setTask tid x) = fpi s := by
  simp only [fpi, setTask]
  refine Prod.ext ?_ rfl
  apply filter_map_keep
  intro p _
  by_cases hp : p.1 = tid
  · right; simp [hp, isFindT, h]
  · left; simp [hp]

theorem fpi_createTask (s : Stack) (k : TaskKind) (h : k ≠ .find) : fpi (s.createTask k).1 = fpi s := by
  unfold createTask; simp only []
  rw [fpi_callSoon _ _]
  simp [fpi, List.filter_append, isFindT, h]
@[simp] theorem fpi_createTask_offer (s : Stack) (i : Nat) : fpi (s.createTask (.offer i)).1 = fpi s := fpi_createTask _ _ (by simp)
@[simp] theorem fpi_createTask_sub (s : Stack) : fpi (s.createTask .subscribe).1 = fpi s := fpi_createTask _ _ (by simp)

theorem fpi_cancelTask (s : Stack) (t : Tid) (h : t.1 ≠ .find) : fpi (s.cancelTask t) = fpi s := by
  unfold cancelTask; split; rfl; split; rfl; split
  · rw [fpi_callSoon _ _, fpi_setTask _ _ _ h]
  · rw [fpi_setTask _ _ _ h]
@[simp] theorem fpi_cancelTask_offer (s : Stack) (i n : Nat) : fpi (s.cancelTask (.offer i, n)) = fpi s := fpi_cancelTask _ _ (by simp)
@[simp] theorem fpi_cancelTask_sub (s : Stack) (n : Nat) : fpi (s.cancelTask (.subscribe, n)) = fpi s := fpi_cancelTask _ _ (by simp)
theorem fpi_sleepFor (s : Stack) (tid : Tid) (t : TaskSt) (d : Nat) (pc : Pc) (h : tid.1 ≠ .find) : fpi (s.sleepFor tid t d pc) = fpi s := by
  unfold sleepFor; split
  · rw [fpi_callSoon _ _, fpi_setTask _ _ _ h]
  · simp only []; rw [fpi_setTask _ _ _ h]; simp
theorem fpi_finish (s : Stack) (tid : Tid) (t : TaskSt) (h : tid.1 ≠ .find) : fpi (s.finish tid t) = fpi s := by
  unfold finish; rw [fpi_setTask _ _ _ h]
theorem fpi_sleepDone (s : Stack) (tid : Tid) (h : tid.1 ≠ .find) : fpi (s.sleepDone tid) = fpi s := by
  unfold sleepDone; split; rfl; split
  · rw [fpi_callSoon _ _, fpi_setTask _ _ _ h]
  · rfl

@[simp] theorem fpi_draw (s : Stack) (a b : Nat) : fpi (s.draw a b).1 = fpi s := by
  unfold draw; split <;> rfl
@[simp] theorem fpi_armTtl (s : Stack) (ttl : Nat) (cb : Cb) : fpi (s.armTtl ttl cb).1 = fpi s := by
  unfold armTtl; split <;> rfl
@[simp] theorem fpi_setInst (s : Stack) (i : Nat) (x : Instance) : fpi (s.setInst i x) = fpi s := rfl
@[simp] theorem fpi_sendSd (s : Stack) (es : List SDEntry) (d : Dest) : fpi (s.sendSd es d) = fpi s := by
  unfold sendSd; split; rfl; simp only []; split; rfl; split <;> rfl

@[simp] theorem fpi_flushTo (s : Stack) (es : List SDEntry) (d : Dest) : fpi (s.flushTo es d) = fpi s := by
  unfold flushTo; rw [fpi_sendSd]; rfl

@[simp] theorem fpi_newCollector (s : Stack) (d : Dest) : fpi (s.newCollector d).1 = fpi s := by
  unfold newCollector; simp only []
  exact (fpi_with_coll_nextCid _ _ _).trans (by simp)
@[simp] theorem fpi_appendCollector (s : Stack) (c : Nat) (e : SDEntry) : fpi (s.appendCollector c e) = fpi s := rfl

@[simp] theorem fpi_queueSend (s : Stack) (e : SDEntry) (d : Dest) : fpi (s.queueSend e d) = fpi s := by
  unfold queueSend; simp only []; split
  · simp
  · split
    · split <;> simp
    · simp

@[simp] theorem fpi_collectorTimeout (s : Stack) (c : Nat) : fpi (s.collectorTimeout c) = fpi s := by
  unfold collectorTimeout; split; rfl; simp only []; rw [fpi_flushTo]; rfl

@[simp] theorem fpi_sendOffer (s : Stack) (i : Nat) (r : Dest) (b : Bool) : fpi (s.sendOffer i r b) = fpi s := by
  unfold sendOffer; split; rfl; split; rfl; simp

@[simp] theorem fpi_subsStopAllFor (s : Stack) (i : Nat) (a : Addr) : fpi (s.subsStopAllFor i a) = fpi s := by
  unfold subsStopAllFor; split; rfl
  simp only []
  rw [foldl_pres fpi _ (fun s e => by simp)]; rfl

@[simp] theorem fpi_subsStopAll (s : Stack) (i : Nat) : fpi (s.subsStopAll i) = fpi s := by
  unfold subsStopAll; split; rfl
  simp only []
  split
  · simp only [fpi_setInst]; rw [foldl_pres fpi _ (fun s e => by simp)]
  · rw [foldl_pres fpi _ (fun s e => by simp)]


theorem fpi_stepOffer (s : Stack) (tid : Tid) (t : TaskSt) (i : Nat) (h : tid.1 ≠ .find) : fpi (s.stepOffer tid t i) = fpi s := by
  unfold stepOffer
  simp only []
  have hs := fun (X : Stack) (t' : TaskSt) (d : Nat) (pc : Pc) => fpi_sleepFor X tid t' d pc h
  have hf := fun (X : Stack) (t' : TaskSt) => fpi_finish X tid t' h
  split
  · split <;> simp [hs, hf]
  · split
    · simp [hs, hf]
    · (repeat' split) <;> simp [hs, hf]
  · split
    · (repeat' split) <;> simp [hs, hf]
    · (repeat' split) <;> simp [hs, hf]
  · split
    · (repeat' split) <;> simp [hs, hf]
    · simp [hs, hf]
  · rfl

@[simp] theorem fpi_instStart (s : Stack) (i : Nat) : fpi (s.instStart i) = fpi s := by
  unfold instStart; split; rfl; split; simp; simp only []; split <;> simp

@[simp] theorem fpi_instStop (s : Stack) (i : Nat) : fpi (s.instStop i) = fpi s := by
  unfold instStop; split; rfl; split; simp; simp only []; split <;> simp

@[simp] theorem fpi_instHandleSubscribe (s : Stack) (i : Nat) (e : SDEntry) (a : Addr) :
    fpi (s.instHandleSubscribe i e a).1 = fpi s := by
  unfold instHandleSubscribe
  frame_cases

@[simp] theorem fpi_handleSubscribe (s : Stack) (e : SDEntry) (a : Addr) : fpi (s.handleSubscribe e a) = fpi s := by
  unfold handleSubscribe
  simp only []
  have key : ∀ (l : List Nat) (acc : Stack × Bool),
      fpi (l.foldl (fun (acc : Stack × Bool) i => ((acc.1.instHandleSubscribe i e a).1, acc.2 || (acc.1.instHandleSubscribe i e a).2)) acc).1 = fpi acc.1 := by
    intro l; induction l with
    | nil => intro acc; rfl
    | cons x t ih => intro acc; rw [List.foldl_cons, ih]; simp
  split
  · exact key _ _
  · rw [fpi_queueSend]; exact key _ _

@[simp] theorem fpi_handleFind (s : Stack) (e : SDEntry) (a : Addr) (mc : Bool) : fpi (s.handleFind e a mc) = fpi s := by
  unfold handleFind; simp only []
  split; rfl
  split
  · rw [foldl_pres fpi _ (fun s i => by simp)]; simp
  · rw [foldl_pres fpi _ (fun s i => by simp)]

@[simp] theorem fpi_expiredSub (s : Stack) (i : Nat) (a : Addr) (k : SubKey) : fpi (s.expiredSub i a k) = fpi s := by
  unfold expiredSub; split; rfl; simp only []; split <;> simp

@[simp] theorem fpi_announcerStart (s : Stack) : fpi s.announcerStart = fpi s := by
  unfold announcerStart; simp only []
  show fpi (List.foldl (fun s i => s.instStart i) s s.announceOrder) = fpi s
  rw [foldl_pres fpi _ (fun s i => by simp)]

@[simp] theorem fpi_announcerStop (s : Stack) : fpi s.announcerStop = fpi s := by
  unfold announcerStop; split; rfl
  show fpi (List.foldl (fun s i => s.instStop i) s s.announceOrder) = fpi s
  rw [foldl_pres fpi _ (fun s i => by simp)]

@[simp] theorem fpi_announcerReboot (s : Stack) (a : Addr) : fpi (s.announcerReboot a) = fpi s := by
  unfold announcerReboot; rw [foldl_pres fpi _ (fun s i => by simp)]

@[simp] theorem fpi_announceService (s : Stack) (i : Nat) : fpi (s.announceService i) = fpi s := by
  unfold announceService; simp only []; split
  · show fpi (s.instStart i) = fpi s; simp
  · rfl

@[simp] theorem fpi_stopAnnounceService (s : Stack) (i : Nat) (b : Bool) : fpi (s.stopAnnounceService i b) = fpi s := by
  unfold stopAnnounceService; split; simp; simp only []; split
  · rw [fpi_instStop]; rfl
  · rfl




@[simp] theorem fpi_sendSubscribe (s : Stack) (ttl : Nat) (d : Addr) (egs : List Eventgroup) :
    fpi (s.sendSubscribe ttl d egs) = fpi s := by simp [sendSubscribe]

@[simp] theorem fpi_subscribeEventgroup (s : Stack) (g : Eventgroup) (d : Addr) : fpi (s.subscribeEventgroup g d) = fpi s := by
  unfold subscribeEventgroup; simp only []; split <;> simp

@[simp] theorem fpi_stopSubscribeEventgroup (s : Stack) (g : Eventgroup) (d : Addr) (b : Bool) :
    fpi (s.stopSubscribeEventgroup g d b) = fpi s := by
  unfold stopSubscribeEventgroup; split
  · simp only []; split <;> simp
  · rfl

@[simp] theorem fpi_subscriberStart (s : Stack) : fpi s.subscriberStart = fpi s := by
  unfold subscriberStart; split
  · rfl
  · simp only []
    exact (fpi_with_subTask _ _).trans (by simp; rfl)

@[simp] theorem fpi_subscriberStop (s : Stack) (b : Bool) : fpi (s.subscriberStop b) = fpi s := by
  unfold subscriberStop; split; rfl
  simp only []
  have h1 : fpi (match ({ s with alive := false, subLost := !b } : Stack).subTask with
      | some tid => { ({ s with alive := false, subLost := !b } : Stack).cancelTask (.subscribe, tid) with subTask := none }
      | none => ({ s with alive := false, subLost := !b } : Stack)) = fpi s := by
    split
    · show fpi (({ s with alive := false, subLost := !b } : Stack).cancelTask (.subscribe, _)) = fpi s; rw [fpi_cancelTask_sub]; rfl
    · rfl
  split
  · rw [foldl_pres fpi _ (fun s p => by simp)]; exact h1
  · exact h1

theorem fpi_stepSubscribe (s : Stack) (tid : Tid) (t : TaskSt) (h : tid.1 ≠ .find) : fpi (s.stepSubscribe tid t) = fpi s := by
  unfold stepSubscribe
  simp only []
  have key : ∀ st : Stack, fpi (List.foldl (fun s p => s.sendSubscribe s.tm.subscribeTtl p.1 p.2) st (groupEntries st.subEntries)) = fpi st :=
    fun st => foldl_pres fpi _ (fun s p => by simp) _ _
  have hs := fun (X : Stack) (t' : TaskSt) (d : Nat) (pc : Pc) => fpi_sleepFor X tid t' d pc h
  have hf := fun (X : Stack) (t' : TaskSt) => fpi_finish X tid t' h
  split
  · split; simp [hf]; split <;> simp [key, hs, hf]
  · split; simp [hf]; split <;> simp [key, hs, hf]
  · rfl

@[simp] theorem fpi_listenerOffered (s : Stack) (l : Listener) (k : SvcKey) (a : Addr) : fpi (s.listenerOffered l k a) = fpi s := by
  unfold listenerOffered; frame_cases
@[simp] theorem fpi_listenerStopped (s : Stack) (l : Listener) (k : SvcKey) (a : Addr) : fpi (s.listenerStopped l k a) = fpi s := by
  unfold listenerStopped; frame_cases

@[simp] theorem fpi_replay (s : Stack) (b : Bool) (f : Option Service) (l : Listener) : fpi (s.replay b f l) = fpi s := by
  unfold replay
  rw [foldl_pres fpi _ (fun s p => by frame_cases)]

@[simp] theorem fpi_watchService (s : Stack) (f : Service) (l : Listener) : fpi (s.watchService f l) = fpi s := by
  unfold watchService; simp only []; rw [fpi_markDup, fpi_replay]; rfl
@[simp] theorem fpi_stopWatchService (s : Stack) (f : Service) (l : Listener) : fpi (s.stopWatchService f l) = fpi s := by
  unfold stopWatchService; simp only []; split
  · simp
  · rw [fpi_replay]; rfl
@[simp] theorem fpi_watchAllServices (s : Stack) (id : LId) : fpi (s.watchAllServices id) = fpi s := by
  unfold watchAllServices; rw [fpi_markDup, fpi_replay]; rfl
@[simp] theorem fpi_stopWatchAllServices (s : Stack) (id : LId) : fpi (s.stopWatchAllServices id) = fpi s := by
  unfold stopWatchAllServices; split
  · simp
  · rw [fpi_replay]; rfl
@[simp] theorem fpi_connectionLost (s : Stack) : fpi s.connectionLost = fpi s := by simp [connectionLost]

@[simp] theorem fpi_notifyService (s : Stack) (b : Bool) (k : SvcKey) (a : Addr) : fpi (s.notifyService b k a) = fpi s := by
  unfold notifyService
  simp only []
  have hf : ∀ (s : Stack) (l : Listener), fpi (if b = true then s.listenerOffered l k a else s.listenerStopped l k a) = fpi s := by
    intro s l; split <;> simp
  rw [foldl_pres fpi _ (fun s id => hf s _)]
  rw [foldl_pres fpi _ (fun s p => by
    split
    · rw [foldl_pres fpi _ (fun s l => hf s l)]
    · rfl)]
  rfl

@[simp] theorem fpi_foundStop (s : Stack) (a : Addr) (k : SvcKey) : fpi (s.foundStop a k) = fpi s := by
  unfold foundStop; frame_cases

@[simp] theorem fpi_foundRefresh (s : Stack) (ttl : Nat) (a : Addr) (k : SvcKey) : fpi (s.foundRefresh ttl a k) = fpi s := by
  unfold foundRefresh
  simp only [fpi_with_found, fpi_armTtl]
  split <;> simp

@[simp] theorem fpi_handleOffer (s : Stack) (e : SDEntry) (a : Addr) : fpi (s.handleOffer e a) = fpi s := by
  unfold handleOffer; frame_cases

@[simp] theorem fpi_foundStopAllFor (s : Stack) (a : Addr) : fpi (s.foundStopAllFor a) = fpi s := by
  unfold foundStopAllFor; simp only []
  rw [foldl_pres fpi _ (fun s e => by simp)]; rfl

@[simp] theorem fpi_foundStopAll (s : Stack) : fpi s.foundStopAll = fpi s := by
  unfold foundStopAll; simp only []
  show fpi (List.foldl (fun s p => s.foundStopAllFor p.1) s s.found) = fpi s
  rw [foldl_pres fpi _ (fun s e => by simp)]

@[simp] theorem fpi_expiredSvc (s : Stack) (a : Addr) (k : SvcKey) : fpi (s.expiredSvc a k) = fpi s := by
  unfold expiredSvc; frame_cases

@[simp] theorem fpi_rebootDetected (s : Stack) (a : Addr) : fpi (s.rebootDetected a) = fpi s := by
  simp [rebootDetected]


end Stack
end Someip
