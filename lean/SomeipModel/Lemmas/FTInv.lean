/-
  C13, the timing of the find rounds on whole runs.  For the find task the discovery holds, `PendF` says where its next step
  stands (exactly one pending activation: a queued step, or a wake-up scheduled for B / fired at B) and `SchF` ties the due
  time B to the ghost marks of the task: B = (time of its creation / of its last round step) + the delay of its position
  (0, the drawn initial delay, 2^k * base).  Same construction as OTInv.lean for the offer tasks; a discovery holds at most one
  find task.
-/
import SomeipModel.Lemmas.FCFrame
import SomeipModel.Lemmas.FMFrame
import SomeipModel.Lemmas.FindSteps
import SomeipModel.Lemmas.OTLift
namespace Someip
namespace Stack
set_option linter.unusedSimpArgs false
set_option linter.unusedVariables false

def isFStepOf (n : Nat) : Cb → Bool | .taskStep t => t == (TaskKind.find, n) | _ => false

def nSF (s : Stack) (n : Nat) : Nat := (s.loop.ready.filter (fun r => isFStepOf n r.cb)).length
def nWRF (s : Stack) (n : Nat) : Nat := (s.loop.ready.filter (fun r => isSleepFor (.find, n) r.cb)).length
def wTF (s : Stack) (n : Nat) : List (Timer Cb) := s.loop.timers.filter (fun t => isSleepFor (.find, n) t.cb)

/-- the time find task n was created / ran its last round step -/
def anchorF (n : Nat) (marks : List (Nat × Nat)) : Option Nat := ((marks.filter (fun e => decide (e.1 = n))).getLast?).map (·.2)

theorem anchorF_append_self (n : Nat) (marks : List (Nat × Nat)) (τ : Nat) : anchorF n (marks ++ [(n, τ)]) = some τ := by
  simp [anchorF, List.filter_append, List.filter_cons]
theorem anchorF_append_other (n m : Nat) (marks : List (Nat × Nat)) (τ : Nat) (h : m ≠ n) : anchorF n (marks ++ [(m, τ)]) = anchorF n marks := by
  simp [anchorF, List.filter_append, List.filter_cons, h]

def SchF (tm : Timings) : Pc → Nat → Nat → Prop
  | .created, A, B => B = A
  | .initial, A, B => ∃ d, tm.initialDelayMin ≤ d ∧ (tm.initialDelayMin ≤ tm.initialDelayMax → d ≤ tm.initialDelayMax) ∧ B = A + d
  | .rep k, A, B => B = A + pow2 k * tm.repetitionsBaseDelay
  | _, _, _ => True

def PendF (s : Stack) (n : Nat) (t : TaskSt) (B : Nat) : Prop :=
  if t.waiting then
    nSF s n = 0 ∧ (wTF s n).length + nWRF s n = 1 ∧ (∀ x ∈ wTF s n, x.deadline = B) ∧ (nWRF s n ≠ 0 → s.loop.now = B)
  else nSF s n = 1 ∧ (wTF s n).length = 0 ∧ nWRF s n = 0 ∧ s.loop.now = B

structure FT (s : Stack) : Prop where
  own : ∀ n, s.findTask = some n → ∃ t, ftask s n = some t ∧ t.cancelled = false ∧ t.pc ≠ .cyclic ∧
    (t.pc ≠ .done → ∃ A B, anchorF n s.findMarks = some A ∧ SchF s.tm t.pc A B ∧ PendF s n t B)
  fresh : ∀ m, (ftasks s).length ≤ m → nSF s m = 0 ∧ nWRF s m = 0 ∧ wTF s m = []

/-! ### the callbacks of one find task under the loop operations -/

theorem isFStepOf_isFCb {n : Nat} {cb : Cb} (h : isFStepOf n cb = true) : isFCb cb = true := by
  cases cb with
  | taskStep t =>
    have : t = (TaskKind.find, n) := by simpa [isFStepOf] using h
    subst this; rfl
  | _ => simp [isFStepOf] at h
theorem isSleepFor_isFCb {n : Nat} {cb : Cb} (h : isSleepFor (.find, n) cb = true) : isFCb cb = true := by
  cases cb with
  | sleepDone t =>
    have : t = (TaskKind.find, n) := by simpa [isSleepFor] using h
    subst this; rfl
  | _ => simp [isSleepFor] at h

theorem countsF_of_fci {s s' : Stack} (h : fci s' = fci s) (n : Nat) :
    nSF s' n = nSF s n ∧ nWRF s' n = nWRF s n ∧ wTF s' n = wTF s n := by
  have e1 : s'.loop.ready.filter (fun r => isFCb r.cb) = s.loop.ready.filter (fun r => isFCb r.cb) := congrArg (fun p => p.1) h
  have e2 : s'.loop.timers.filter (fun t => isFCb t.cb) = s.loop.timers.filter (fun t => isFCb t.cb) := congrArg (fun p => p.2) h
  refine ⟨?_, ?_, ?_⟩
  · unfold nSF
    rw [filter_sub _ (fun r => isFCb r.cb) s'.loop.ready (fun a ha => isFStepOf_isFCb ha),
        filter_sub _ (fun r => isFCb r.cb) s.loop.ready (fun a ha => isFStepOf_isFCb ha), e1]
  · unfold nWRF
    rw [filter_sub _ (fun r => isFCb r.cb) s'.loop.ready (fun a ha => isSleepFor_isFCb ha),
        filter_sub _ (fun r => isFCb r.cb) s.loop.ready (fun a ha => isSleepFor_isFCb ha), e1]
  · unfold wTF
    rw [filter_sub _ (fun t => isFCb t.cb) s'.loop.timers (fun a ha => isSleepFor_isFCb ha),
        filter_sub _ (fun t => isFCb t.cb) s.loop.timers (fun a ha => isSleepFor_isFCb ha), e2]

def OnlyF (n : Nat) (s s' : Stack) : Prop :=
  ∀ m, m ≠ n → nSF s' m = nSF s m ∧ nWRF s' m = nWRF s m ∧ wTF s' m = wTF s m

/-- Only, same configuration, same clock -/
def LocF (n : Nat) (s s' : Stack) : Prop := OnlyF n s s' ∧ s'.tm = s.tm ∧ s'.loop.now = s.loop.now
theorem LocF.refl (n : Nat) (s : Stack) : LocF n s s := ⟨fun _ _ => ⟨rfl, rfl, rfl⟩, rfl, rfl⟩
theorem LocF.trans {n : Nat} {s s' s'' : Stack} (h1 : LocF n s s') (h2 : LocF n s' s'') : LocF n s s'' := by
  refine ⟨?_, h2.2.1.trans h1.2.1, h2.2.2.trans h1.2.2⟩
  intro m hm
  obtain ⟨a1, a2, a3⟩ := h1.1 m hm
  obtain ⟨b1, b2, b3⟩ := h2.1 m hm
  exact ⟨b1.trans a1, b2.trans a2, b3.trans a3⟩
theorem locF_of_frame {n : Nat} {s s' : Stack} (h : fci s' = fci s) (hb : base s' = base s) : LocF n s s' :=
  ⟨fun m _ => countsF_of_fci h m, congrArg (fun p => p.1) hb, congrArg (fun p => p.2) hb⟩

theorem isFStepOf_other {n m : Nat} (h : m ≠ n) : isFStepOf m (.taskStep (.find, n)) = false := by
  simp only [isFStepOf, beq_eq_false_iff_ne, ne_eq, Prod.mk.injEq, true_and]
  exact fun e => h e.symm
theorem isSleepFor_find_other {n m : Nat} (h : m ≠ n) : isSleepFor (.find, m) (.sleepDone (.find, n)) = false := by
  simp only [isSleepFor, beq_eq_false_iff_ne, ne_eq, Prod.mk.injEq, true_and]
  exact fun e => h e.symm
@[simp] theorem isFStepOf_self (n : Nat) : isFStepOf n (.taskStep (.find, n)) = true := by simp [isFStepOf]
@[simp] theorem isFStepOf_sleepDone (n : Nat) (t : Tid) : isFStepOf n (.sleepDone t) = false := rfl

theorem countsF_callSoon (s : Stack) (cb : Cb) (m : Nat) :
    nSF (s.callSoon cb) m = nSF s m + (if isFStepOf m cb then 1 else 0) ∧
    nWRF (s.callSoon cb) m = nWRF s m + (if isSleepFor (.find, m) cb then 1 else 0) ∧
    wTF (s.callSoon cb) m = wTF s m := by
  refine ⟨?_, ?_, rfl⟩
  · simp only [nSF, callSoon, Loop.callSoon, List.filter_append, List.length_append, List.filter_cons, List.filter_nil]
    split <;> simp
  · simp only [nWRF, callSoon, Loop.callSoon, List.filter_append, List.length_append, List.filter_cons, List.filter_nil]
    split <;> simp

theorem countsF_callLater (s : Stack) (d : Nat) (cb : Cb) (m : Nat) :
    nSF (s.callLater d cb).1 m = nSF s m ∧ nWRF (s.callLater d cb).1 m = nWRF s m ∧
    wTF (s.callLater d cb).1 m = wTF s m ++ (if isSleepFor (.find, m) cb then [⟨s.loop.nextSeq, s.loop.now + d, cb⟩] else []) := by
  refine ⟨rfl, rfl, ?_⟩
  simp only [wTF, callLater, Loop.callLater, List.filter_append, List.filter_cons, List.filter_nil]

theorem locF_callSoon_step (s : Stack) (n : Nat) : LocF n s (s.callSoon (.taskStep (.find, n))) := by
  refine ⟨?_, rfl, rfl⟩
  intro m hk
  obtain ⟨h1, h2, h3⟩ := countsF_callSoon s (.taskStep (.find, n)) m
  rw [isFStepOf_other hk] at h1
  exact ⟨by simpa using h1, by simpa using h2, h3⟩
theorem locF_callLater_wake (s : Stack) (d n : Nat) : LocF n s (s.callLater d (.sleepDone (.find, n))).1 := by
  refine ⟨?_, rfl, rfl⟩
  intro m hk
  obtain ⟨h1, h2, h3⟩ := countsF_callLater s d (.sleepDone (.find, n)) m
  rw [isSleepFor_find_other hk] at h3
  exact ⟨h1, h2, by simpa using h3⟩

theorem locF_cancelTimer_sleep (s : Stack) (n : Nat) (q : Option Nat) : LocF n s (s.cancelTimer (isSleepFor (.find, n)) q) := by
  refine ⟨?_, rfl, cancelTimer_now _ _ _⟩
  intro m hk
  cases q with
  | none => exact ⟨rfl, rfl, rfl⟩
  | some q =>
    have key : ∀ {α : Type} (l : List α) (f g : α → Bool), (∀ a, f a = true → g a = true) → (l.filter g).filter f = l.filter f := by
      intro α l f g hfg
      rw [List.filter_filter]; apply List.filter_congr; intro a _
      cases hf : f a
      · simp
      · simp [hfg a hf]
    have hown : ∀ cb, isSleepFor (.find, n) cb = true → isFStepOf m cb = false ∧ isSleepFor (.find, m) cb = false := by
      intro cb hcb
      cases cb with
      | sleepDone t =>
        have : t = (TaskKind.find, n) := by simpa [isSleepFor] using hcb
        subst this
        exact ⟨rfl, isSleepFor_find_other hk⟩
      | _ => simp [isSleepFor] at hcb
    refine ⟨?_, ?_, ?_⟩
    · simp only [nSF, cancelTimer, Loop.cancelOpt, Loop.cancel]
      rw [key]
      intro a ha
      cases ho : isSleepFor (.find, n) a.cb
      · simp
      · have := (hown _ ho).1; rw [ha] at this; cases this
    · simp only [nWRF, cancelTimer, Loop.cancelOpt, Loop.cancel]
      rw [key]
      intro a ha
      cases ho : isSleepFor (.find, n) a.cb
      · simp
      · have := (hown _ ho).2; rw [ha] at this; cases this
    · simp only [wTF, cancelTimer, Loop.cancelOpt, Loop.cancel]
      rw [key]
      intro a ha
      cases ho : isSleepFor (.find, n) a.cb
      · simp
      · have := (hown _ ho).2; rw [ha] at this; cases this

theorem countsF_cancelTimer_self (s : Stack) (n : Nat) (q : Option Nat) :
    nSF (s.cancelTimer (isSleepFor (.find, n)) q) n = nSF s n ∧
    nWRF (s.cancelTimer (isSleepFor (.find, n)) q) n ≤ nWRF s n ∧
    (∀ x ∈ wTF (s.cancelTimer (isSleepFor (.find, n)) q) n, x ∈ wTF s n) := by
  cases q with
  | none => exact ⟨rfl, Nat.le_refl _, fun x h => h⟩
  | some q =>
    refine ⟨?_, ?_, ?_⟩
    · simp only [nSF, cancelTimer, Loop.cancelOpt, Loop.cancel, List.filter_filter]
      congr 1
      apply List.filter_congr; intro a _
      cases ha : isFStepOf n a.cb
      · simp
      · have : isSleepFor (.find, n) a.cb = false := by
          cases hcb : a.cb <;> simp_all [isFStepOf, isSleepFor]
        simp [this]
    · simp only [nWRF, cancelTimer, Loop.cancelOpt, Loop.cancel, List.filter_filter]
      have key : ∀ (l : List (RItem Cb)) (f g : RItem Cb → Bool), (l.filter (fun a => f a && g a)).length ≤ (l.filter f).length := by
        intro l f g
        induction l with
        | nil => simp
        | cons a r ih =>
          simp only [List.filter_cons]
          cases hf : f a <;> cases hg : g a <;> simp [hf, hg] <;> omega
      exact key _ _ _
    · intro x hx
      simp only [wTF, cancelTimer, Loop.cancelOpt, Loop.cancel, List.mem_filter] at hx ⊢
      exact ⟨hx.1.1, hx.2⟩

theorem countsF_pop (s : Stack) (q : Option Nat) (cb : Cb) (rest : List (RItem Cb)) (hr : s.loop.ready = ⟨q, cb⟩ :: rest) (m : Nat) :
    nSF s m = nSF ({ s with loop := { s.loop with ready := rest } } : Stack) m + (if isFStepOf m cb then 1 else 0) ∧
    nWRF s m = nWRF ({ s with loop := { s.loop with ready := rest } } : Stack) m + (if isSleepFor (.find, m) cb then 1 else 0) ∧
    wTF ({ s with loop := { s.loop with ready := rest } } : Stack) m = wTF s m := by
  refine ⟨?_, ?_, rfl⟩
  · simp only [nSF, hr, List.filter_cons]
    split <;> simp
  · simp only [nWRF, hr, List.filter_cons]
    split <;> simp

theorem locF_pop_step (s : Stack) (q : Option Nat) (n : Nat) (rest : List (RItem Cb)) (hr : s.loop.ready = ⟨q, .taskStep (.find, n)⟩ :: rest) :
    LocF n s ({ s with loop := { s.loop with ready := rest } } : Stack) := by
  refine ⟨?_, rfl, rfl⟩
  intro m hk
  obtain ⟨h1, h2, h3⟩ := countsF_pop s q _ rest hr m
  rw [isFStepOf_other hk] at h1
  exact ⟨by simpa using h1.symm, by simpa using h2.symm, h3⟩
theorem locF_pop_wake (s : Stack) (q : Option Nat) (n : Nat) (rest : List (RItem Cb)) (hr : s.loop.ready = ⟨q, .sleepDone (.find, n)⟩ :: rest) :
    LocF n s ({ s with loop := { s.loop with ready := rest } } : Stack) := by
  refine ⟨?_, rfl, rfl⟩
  intro m hk
  obtain ⟨h1, h2, h3⟩ := countsF_pop s q _ rest hr m
  rw [isSleepFor_find_other hk] at h2
  exact ⟨by simpa using h1.symm, by simpa using h2.symm, h3⟩

theorem pendF_of_frame {s s' : Stack} (h : fci s' = fci s) (hnow : s'.loop.now = s.loop.now) (n : Nat) (t : TaskSt) (B : Nat)
    (hp : PendF s n t B) : PendF s' n t B := by
  obtain ⟨e1, e2, e3⟩ := countsF_of_fci h n
  unfold PendF at hp ⊢
  rw [e1, e2, e3, hnow]; exact hp

theorem pendF_of_only {s R : Stack} {n : Nat} (h : LocF n s R) (m : Nat) (hk : m ≠ n) (t : TaskSt) (B : Nat) (hp : PendF s m t B) :
    PendF R m t B := by
  obtain ⟨e1, e2, e3⟩ := h.1 m hk
  unfold PendF at hp ⊢
  rw [e1, e2, e3, h.2.2]; exact hp

theorem ft_frame {s s' : Stack} (h1 : fpi s' = fpi s) (h2 : base s' = base s) (h3 : fmi s' = fmi s) (h4 : fci s' = fci s)
    (hi : FT s) : FT s' := by
  have e1 : ftasks s' = ftasks s := congrArg (fun p => p.1) h1
  have e4 : s'.findTask = s.findTask := congrArg (fun p => p.2.2.2) h1
  have etm : s'.tm = s.tm := congrArg (fun p => p.1) h2
  have enow : s'.loop.now = s.loop.now := congrArg (fun p => p.2) h2
  have em : s'.findMarks = s.findMarks := h3
  refine ⟨?_, ?_⟩
  · intro n hn
    rw [e4] at hn
    obtain ⟨t, ht, hc, hcy, hrest⟩ := hi.own n hn
    refine ⟨t, by unfold ftask; rw [e1]; exact ht, hc, hcy, ?_⟩
    intro hpc
    obtain ⟨A, B, ha, hs, hp⟩ := hrest hpc
    exact ⟨A, B, by rw [em]; exact ha, by rw [etm]; exact hs, pendF_of_frame h4 enow n t B hp⟩
  · intro m hm
    rw [e1] at hm
    obtain ⟨c1, c2, c3⟩ := countsF_of_fci h4 m
    rw [c1, c2, c3]; exact hi.fresh m hm

/-- an operation that concerns one find task k only (its record, its callbacks, its marks) and leaves the discovery's task
reference alone -/
theorem ft_others {s R : Stack} (k : Nat) (hi : FT s)
    (hft : R.findTask = s.findTask)
    (hot : ∀ m, m ≠ k → ftask R m = ftask s m)
    (hlen : (ftasks s).length ≤ (ftasks R).length)
    (hloc : LocF k s R)
    (hanch : ∀ m, m ≠ k → anchorF m R.findMarks = anchorF m s.findMarks)
    (hk : k < (ftasks R).length)
    (hself : s.findTask = some k → ∃ t, ftask R k = some t ∧ t.cancelled = false ∧ t.pc ≠ .cyclic ∧
      (t.pc ≠ .done → ∃ A B, anchorF k R.findMarks = some A ∧ SchF R.tm t.pc A B ∧ PendF R k t B)) : FT R := by
  refine ⟨?_, ?_⟩
  · intro n hn
    rw [hft] at hn
    by_cases hnk : n = k
    · subst hnk; exact hself hn
    · obtain ⟨t, ht, hc, hcy, hrest⟩ := hi.own n hn
      refine ⟨t, by rw [hot n hnk]; exact ht, hc, hcy, ?_⟩
      intro hpc
      obtain ⟨A, B, ha, hs, hp⟩ := hrest hpc
      exact ⟨A, B, by rw [hanch n hnk]; exact ha, by rw [hloc.2.1]; exact hs, pendF_of_only hloc n hnk t B hp⟩
  · intro m hm
    have hmk : m ≠ k := fun e => by subst e; exact absurd hk (Nat.not_lt.mpr hm)
    obtain ⟨e1, e2, e3⟩ := hloc.1 m hmk
    rw [e1, e2, e3]
    exact hi.fresh m (Nat.le_trans hlen hm)

end Stack
end Someip
