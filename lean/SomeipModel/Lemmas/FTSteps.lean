/-
  C13, the timing of the find rounds: the invariant `FT` through the find-task operations, one step of the find coroutine,
  `ServiceDiscover.start` / `stop`, callbacks and loop steps.
-/
import SomeipModel.Lemmas.FTInv
namespace Someip
namespace Stack
set_option linter.unusedSimpArgs false
set_option linter.unusedVariables false

/-- what a state reached from X by operations on find task k alone looks like -/
structure ShapeF (k : Nat) (X R : Stack) : Prop where
  loc : LocF k X R
  ft : R.findTask = X.findTask
  tasks : ∀ m, m ≠ k → ftask R m = ftask X m
  len : (ftasks R).length = (ftasks X).length
  marks : ∀ m, m ≠ k → anchorF m R.findMarks = anchorF m X.findMarks

theorem ShapeF.refl (k : Nat) (X : Stack) : ShapeF k X X := ⟨LocF.refl _ _, rfl, fun _ _ => rfl, rfl, fun _ _ => rfl⟩
theorem ShapeF.trans {k : Nat} {X Y Z : Stack} (h1 : ShapeF k X Y) (h2 : ShapeF k Y Z) : ShapeF k X Z :=
  ⟨LocF.trans h1.loc h2.loc, h2.ft.trans h1.ft, fun m hm => (h2.tasks m hm).trans (h1.tasks m hm), h2.len.trans h1.len,
   fun m hm => (h2.marks m hm).trans (h1.marks m hm)⟩

theorem shapeF_of_frame {k : Nat} {X Y : Stack} (h1 : fpi Y = fpi X) (h2 : base Y = base X) (h3 : fmi Y = fmi X) (h4 : fci Y = fci X) :
    ShapeF k X Y := by
  have e1 : ftasks Y = ftasks X := congrArg (fun p => p.1) h1
  have e3 : Y.findMarks = X.findMarks := h3
  exact ⟨locF_of_frame h4 h2, congrArg (fun p => p.2.2.2) h1, fun m _ => by unfold ftask; rw [e1], by rw [e1], fun m _ => by rw [e3]⟩

theorem shapeF_setTask (X : Stack) (k : Nat) (t'' : TaskSt) : ShapeF k X (X.setTask (.find, k) t'') := by
  refine ⟨locF_of_frame (s' := X.setTask _ _) rfl rfl, rfl, ?_, ?_, fun _ _ => rfl⟩
  · intro m hm
    show alookup (ftasks (X.setTask (.find, k) t'')) _ = _
    rw [ftasks_setTask, ftask_setT, if_neg hm]
  · rw [ftasks_setTask]; simp [setT]

theorem shapeF_markFind (X : Stack) (k : Nat) : ShapeF k X (X.markFind k) :=
  ⟨locF_of_frame (s' := X.markFind k) rfl rfl, rfl, fun _ _ => rfl, rfl, fun m hm => anchorF_append_other m k _ _ (fun e => hm e.symm)⟩

theorem shapeF_sleepFor (X : Stack) (k : Nat) (t' : TaskSt) (d : Nat) (pc : Pc) : ShapeF k X (X.sleepFor (.find, k) t' d pc) := by
  unfold sleepFor
  split
  · exact ShapeF.trans (shapeF_setTask X k _) ⟨locF_callSoon_step _ k, rfl, fun _ _ => rfl, rfl, fun _ _ => rfl⟩
  · exact ShapeF.trans ⟨locF_callLater_wake X d k, rfl, fun _ _ => rfl, rfl, fun _ _ => rfl⟩ (shapeF_setTask _ k _)
theorem shapeF_finish (X : Stack) (k : Nat) (t' : TaskSt) : ShapeF k X (X.finish (.find, k) t') := shapeF_setTask X k _

theorem shapeF_stepFind (X : Stack) (k : Nat) (t' : TaskSt) : ShapeF k X (X.stepFind (.find, k) t') := by
  have hs := fun (Y : Stack) (d : Nat) (pc : Pc) => shapeF_sleepFor Y k t' d pc
  have hf := fun (Y : Stack) => shapeF_finish Y k t'
  have hafter : ∀ (Y : Stack) (j : Nat), ShapeF k Y (if j < Y.tm.repetitionsMax then Y.sleepFor (.find, k) t' (pow2 j * Y.tm.repetitionsBaseDelay) (.rep j)
      else Y.finish (.find, k) t') := by
    intro Y j; split
    · exact hs _ _ _
    · exact hf _
  have hround : ∀ (Y : Stack) (j : Nat), ShapeF k Y (if Y.findEntries.isEmpty = true then Y.finish (.find, k) t'
      else (if j < (({ Y with findLog := Y.findLog ++ [(k, j)] } : Stack).sendSd Y.findEntries none).tm.repetitionsMax
        then (({ Y with findLog := Y.findLog ++ [(k, j)] } : Stack).sendSd Y.findEntries none).sleepFor (.find, k) t'
          (pow2 j * (({ Y with findLog := Y.findLog ++ [(k, j)] } : Stack).sendSd Y.findEntries none).tm.repetitionsBaseDelay) (.rep j)
        else (({ Y with findLog := Y.findLog ++ [(k, j)] } : Stack).sendSd Y.findEntries none).finish (.find, k) t')) := by
    intro Y j
    split
    · exact hf _
    · have h1 : ShapeF k Y (({ Y with findLog := Y.findLog ++ [(k, j)] } : Stack).sendSd Y.findEntries none) := by
        have e1 : ftasks (({ Y with findLog := Y.findLog ++ [(k, j)] } : Stack).sendSd Y.findEntries none) = ftasks Y :=
          congrArg (fun p => p.1) (fpi_sendSd ({ Y with findLog := Y.findLog ++ [(k, j)] } : Stack) _ _)
        have e4 : (({ Y with findLog := Y.findLog ++ [(k, j)] } : Stack).sendSd Y.findEntries none).findTask = Y.findTask :=
          congrArg (fun p => p.2.2.2) (fpi_sendSd ({ Y with findLog := Y.findLog ++ [(k, j)] } : Stack) _ _)
        have e3 : (({ Y with findLog := Y.findLog ++ [(k, j)] } : Stack).sendSd Y.findEntries none).findMarks = Y.findMarks :=
          fmi_sendSd ({ Y with findLog := Y.findLog ++ [(k, j)] } : Stack) _ _
        exact ⟨locF_of_frame (fci_sendSd ({ Y with findLog := Y.findLog ++ [(k, j)] } : Stack) _ _) (base_sendSd ({ Y with findLog := Y.findLog ++ [(k, j)] } : Stack) _ _),
          e4, fun m _ => by unfold ftask; rw [e1], by rw [e1], fun m _ => by rw [e3]⟩
      exact ShapeF.trans h1 (hafter _ j)
  unfold stepFind
  simp only []
  split
  · split
    · exact hf _
    · split
      · exact hf _
      · exact ShapeF.trans (shapeF_of_frame (fpi_draw _ _ _) (base_draw _ _ _) (fmi_draw _ _ _) (fci_draw _ _ _)) (hs _ _ _)
  · split
    · exact hf _
    · exact ShapeF.trans (shapeF_markFind X k) (hround _ 0)
  · split
    · exact hf _
    · exact ShapeF.trans (shapeF_markFind X k) (hround _ _)
  · exact ShapeF.refl _ _

/-- the task goes to sleep for d: where its next step stands afterwards -/
theorem pendF_sleepFor (Y : Stack) (k : Nat) (t t' : TaskSt) (d : Nat) (pc : Pc) (ht : ftask Y k = some t)
    (hcnt : nSF Y k = 0 ∧ nWRF Y k = 0 ∧ wTF Y k = []) :
    ∃ t'', ftask (Y.sleepFor (.find, k) t' d pc) k = some t'' ∧ t''.pc = pc ∧ t''.cancelled = t'.cancelled ∧
      PendF (Y.sleepFor (.find, k) t' d pc) k t'' (Y.loop.now + d) := by
  obtain ⟨h1, h2, h3⟩ := hcnt
  have hset : ∀ (Z : Stack) (t'' : TaskSt), ftask Z k = some t → ftask (Z.setTask (.find, k) t'') k = some t'' := by
    intro Z t'' hZ
    show alookup (ftasks (Z.setTask (.find, k) t'')) _ = _
    rw [ftasks_setTask, ftask_setT, if_pos rfl, hZ]; rfl
  unfold sleepFor
  by_cases hd : d = 0
  · rw [if_pos hd]
    refine ⟨{ t' with pc, waiting := false, sleep := none }, hset Y _ ht, rfl, rfl, ?_⟩
    obtain ⟨c1, c2, c3⟩ := countsF_callSoon (Y.setTask (.find, k) { t' with pc, waiting := false, sleep := none }) (.taskStep (.find, k)) k
    unfold PendF
    simp only [Bool.false_eq_true, if_false]
    rw [c1, c2, c3]
    have e1 : nSF (Y.setTask (.find, k) { t' with pc, waiting := false, sleep := none }) k = nSF Y k := rfl
    have e2 : nWRF (Y.setTask (.find, k) { t' with pc, waiting := false, sleep := none }) k = nWRF Y k := rfl
    have e3 : wTF (Y.setTask (.find, k) { t' with pc, waiting := false, sleep := none }) k = wTF Y k := rfl
    rw [e1, e2, e3, h1, h2, h3, isFStepOf_self]
    refine ⟨rfl, rfl, by simp [isSleepFor], ?_⟩
    show Y.loop.now = Y.loop.now + d
    rw [hd]; rfl
  · rw [if_neg hd]
    simp only []
    refine ⟨{ t' with pc, waiting := true, sleep := some (Y.callLater d (.sleepDone (.find, k))).2 }, hset _ _ ht, rfl, rfl, ?_⟩
    obtain ⟨c1, c2, c3⟩ := countsF_callLater Y d (.sleepDone (.find, k)) k
    unfold PendF
    simp only [if_true]
    have e1 : nSF ((Y.callLater d (.sleepDone (.find, k))).1.setTask (.find, k) { t' with pc, waiting := true, sleep := some (Y.callLater d (.sleepDone (.find, k))).2 }) k =
        nSF (Y.callLater d (.sleepDone (.find, k))).1 k := rfl
    have e2 : nWRF ((Y.callLater d (.sleepDone (.find, k))).1.setTask (.find, k) { t' with pc, waiting := true, sleep := some (Y.callLater d (.sleepDone (.find, k))).2 }) k =
        nWRF (Y.callLater d (.sleepDone (.find, k))).1 k := rfl
    have e3 : wTF ((Y.callLater d (.sleepDone (.find, k))).1.setTask (.find, k) { t' with pc, waiting := true, sleep := some (Y.callLater d (.sleepDone (.find, k))).2 }) k =
        wTF (Y.callLater d (.sleepDone (.find, k))).1 k := rfl
    rw [e1, e2, e3, c1, c2, c3, h1, h2, h3, isSleepFor_self]
    simp only [if_true, List.nil_append, List.length_singleton, List.mem_singleton]
    refine ⟨by simp, by simp, ?_, fun h => absurd rfl h⟩
    intro x hx; rw [hx]

theorem ftask_finish (Y : Stack) (k : Nat) (t t' : TaskSt) (ht : ftask Y k = some t) :
    ∃ t'', ftask (Y.finish (.find, k) t') k = some t'' ∧ t''.pc = .done ∧ t''.cancelled = false := by
  refine ⟨{ t' with pc := .done, waiting := false, sleep := none, cancelled := false }, ?_, rfl, rfl⟩
  unfold finish
  show alookup (ftasks (Y.setTask (.find, k) _)) _ = _
  rw [ftasks_setTask, ftask_setT, if_pos rfl, ht]; rfl

/-- one step of the find task the discovery holds, taken exactly when it is due -/
theorem ft_step_owned (X : Stack) (k : Nat) (t t' : TaskSt) (ht : ftask X k = some t)
    (hc : t'.cancelled = false) (hnd : t'.pc ≠ .done) (hncy : t'.pc ≠ .cyclic)
    (hcnt : nSF X k = 0 ∧ nWRF X k = 0 ∧ wTF X k = [])
    (A : Nat) (hA : anchorF k X.findMarks = some A) (hS : SchF X.tm t'.pc A X.loop.now) :
    ∃ t'', ftask (X.stepFind (.find, k) t') k = some t'' ∧ t''.cancelled = false ∧ t''.pc ≠ .cyclic ∧
      (t''.pc ≠ .done → ∃ A' B', anchorF k (X.stepFind (.find, k) t').findMarks = some A' ∧
        SchF (X.stepFind (.find, k) t').tm t''.pc A' B' ∧ PendF (X.stepFind (.find, k) t') k t'' B') := by
  -- a sleep after the state Y, reached from X without touching the callbacks or the record of the find tasks
  have hsl : ∀ (Y : Stack) (d : Nat) (pc : Pc), fpi Y = (ftasks X, Y.findLog, X.tm.repetitionsMax, X.findTask) → fci Y = fci X → base Y = base X →
      pc ≠ .cyclic → ∀ A', anchorF k Y.findMarks = some A' → SchF X.tm pc A' (X.loop.now + d) →
      ∃ t'', ftask (Y.sleepFor (.find, k) t' d pc) k = some t'' ∧ t''.cancelled = false ∧ t''.pc ≠ .cyclic ∧
        (t''.pc ≠ .done → ∃ A'' B', anchorF k (Y.sleepFor (.find, k) t' d pc).findMarks = some A'' ∧
          SchF (Y.sleepFor (.find, k) t' d pc).tm t''.pc A'' B' ∧ PendF (Y.sleepFor (.find, k) t' d pc) k t'' B') := by
    intro Y d pc hY hfci hb hpcy A' hA' hS'
    have htm : Y.tm = X.tm := congrArg (fun p => p.1) hb
    have hnow : Y.loop.now = X.loop.now := congrArg (fun p => p.2) hb
    have htY : ftask Y k = some t := by
      have : ftasks Y = ftasks X := congrArg (fun p => p.1) hY
      unfold ftask; rw [this]; exact ht
    have hcY : nSF Y k = 0 ∧ nWRF Y k = 0 ∧ wTF Y k = [] := by
      obtain ⟨e1, e2, e3⟩ := countsF_of_fci hfci k
      rw [e1, e2, e3]; exact hcnt
    obtain ⟨t'', hv, hp, hcc, hpend⟩ := pendF_sleepFor Y k t t' d pc htY hcY
    refine ⟨t'', hv, hcc.trans hc, by rw [hp]; exact hpcy, ?_⟩
    intro _
    have hsh := shapeF_sleepFor Y k t' d pc
    have hmarks : (Y.sleepFor (.find, k) t' d pc).findMarks = Y.findMarks := by unfold sleepFor; split <;> rfl
    refine ⟨A', X.loop.now + d, by rw [hmarks]; exact hA', ?_, by rw [← hnow]; exact hpend⟩
    rw [hsh.loc.2.1, htm, hp]; exact hS'
  have hfin : ∀ (Y : Stack), ftasks Y = ftasks X →
      ∃ t'', ftask (Y.finish (.find, k) t') k = some t'' ∧ t''.cancelled = false ∧ t''.pc ≠ .cyclic ∧
        (t''.pc ≠ .done → ∃ A'' B', anchorF k (Y.finish (.find, k) t').findMarks = some A'' ∧
          SchF (Y.finish (.find, k) t').tm t''.pc A'' B' ∧ PendF (Y.finish (.find, k) t') k t'' B') := by
    intro Y hY
    have htY : ftask Y k = some t := by unfold ftask; rw [hY]; exact ht
    obtain ⟨t'', h1, h2, h3⟩ := ftask_finish Y k t t' htY
    exact ⟨t'', h1, h3, by rw [h2]; decide, fun h => absurd h2 h⟩
  -- a round step: the mark, then (unless everything is found) one message and the next sleep
  have hround : ∀ (j : Nat), SchF X.tm (.rep j) X.loop.now (X.loop.now + pow2 j * X.tm.repetitionsBaseDelay) →
      ∃ t'', ftask (if (X.markFind k).findEntries.isEmpty = true then (X.markFind k).finish (.find, k) t'
        else (if j < (({ (X.markFind k) with findLog := (X.markFind k).findLog ++ [(k, j)] } : Stack).sendSd (X.markFind k).findEntries none).tm.repetitionsMax
          then (({ (X.markFind k) with findLog := (X.markFind k).findLog ++ [(k, j)] } : Stack).sendSd (X.markFind k).findEntries none).sleepFor (.find, k) t'
            (pow2 j * (({ (X.markFind k) with findLog := (X.markFind k).findLog ++ [(k, j)] } : Stack).sendSd (X.markFind k).findEntries none).tm.repetitionsBaseDelay) (.rep j)
          else (({ (X.markFind k) with findLog := (X.markFind k).findLog ++ [(k, j)] } : Stack).sendSd (X.markFind k).findEntries none).finish (.find, k) t')) k = some t'' ∧
        t''.cancelled = false ∧ t''.pc ≠ .cyclic ∧
        (t''.pc ≠ .done → ∃ A'' B', anchorF k (if (X.markFind k).findEntries.isEmpty = true then (X.markFind k).finish (.find, k) t'
        else (if j < (({ (X.markFind k) with findLog := (X.markFind k).findLog ++ [(k, j)] } : Stack).sendSd (X.markFind k).findEntries none).tm.repetitionsMax
          then (({ (X.markFind k) with findLog := (X.markFind k).findLog ++ [(k, j)] } : Stack).sendSd (X.markFind k).findEntries none).sleepFor (.find, k) t'
            (pow2 j * (({ (X.markFind k) with findLog := (X.markFind k).findLog ++ [(k, j)] } : Stack).sendSd (X.markFind k).findEntries none).tm.repetitionsBaseDelay) (.rep j)
          else (({ (X.markFind k) with findLog := (X.markFind k).findLog ++ [(k, j)] } : Stack).sendSd (X.markFind k).findEntries none).finish (.find, k) t')).findMarks = some A'' ∧
          SchF (if (X.markFind k).findEntries.isEmpty = true then (X.markFind k).finish (.find, k) t'
        else (if j < (({ (X.markFind k) with findLog := (X.markFind k).findLog ++ [(k, j)] } : Stack).sendSd (X.markFind k).findEntries none).tm.repetitionsMax
          then (({ (X.markFind k) with findLog := (X.markFind k).findLog ++ [(k, j)] } : Stack).sendSd (X.markFind k).findEntries none).sleepFor (.find, k) t'
            (pow2 j * (({ (X.markFind k) with findLog := (X.markFind k).findLog ++ [(k, j)] } : Stack).sendSd (X.markFind k).findEntries none).tm.repetitionsBaseDelay) (.rep j)
          else (({ (X.markFind k) with findLog := (X.markFind k).findLog ++ [(k, j)] } : Stack).sendSd (X.markFind k).findEntries none).finish (.find, k) t')).tm t''.pc A'' B' ∧
          PendF (if (X.markFind k).findEntries.isEmpty = true then (X.markFind k).finish (.find, k) t'
        else (if j < (({ (X.markFind k) with findLog := (X.markFind k).findLog ++ [(k, j)] } : Stack).sendSd (X.markFind k).findEntries none).tm.repetitionsMax
          then (({ (X.markFind k) with findLog := (X.markFind k).findLog ++ [(k, j)] } : Stack).sendSd (X.markFind k).findEntries none).sleepFor (.find, k) t'
            (pow2 j * (({ (X.markFind k) with findLog := (X.markFind k).findLog ++ [(k, j)] } : Stack).sendSd (X.markFind k).findEntries none).tm.repetitionsBaseDelay) (.rep j)
          else (({ (X.markFind k) with findLog := (X.markFind k).findLog ++ [(k, j)] } : Stack).sendSd (X.markFind k).findEntries none).finish (.find, k) t')) k t'' B') := by
    intro j hSj
    split
    · exact hfin _ rfl
    · have hfp := fpi_sendSd ({ (X.markFind k) with findLog := (X.markFind k).findLog ++ [(k, j)] } : Stack) (X.markFind k).findEntries none
      have hfc := fci_sendSd ({ (X.markFind k) with findLog := (X.markFind k).findLog ++ [(k, j)] } : Stack) (X.markFind k).findEntries none
      have hbs := base_sendSd ({ (X.markFind k) with findLog := (X.markFind k).findLog ++ [(k, j)] } : Stack) (X.markFind k).findEntries none
      have hfm := fmi_sendSd ({ (X.markFind k) with findLog := (X.markFind k).findLog ++ [(k, j)] } : Stack) (X.markFind k).findEntries none
      generalize ({ (X.markFind k) with findLog := (X.markFind k).findLog ++ [(k, j)] } : Stack).sendSd (X.markFind k).findEntries none = Y at hfp hfc hbs hfm
      have hY1 : ftasks Y = ftasks X := congrArg (fun p => p.1) hfp
      have hY4 : Y.findTask = X.findTask := congrArg (fun p => p.2.2.2) hfp
      have hbY : base Y = base X := hbs
      have htmY : Y.tm = X.tm := congrArg (fun p => p.1) hbY
      have hmY : Y.findMarks = X.findMarks ++ [(k, X.loop.now)] := hfm
      split
      · apply hsl Y _ (.rep j) _ hfc hbY (by intro h; cases h) X.loop.now (by rw [hmY]; exact anchorF_append_self k _ _)
        · rw [htmY]; exact hSj
        · exact Prod.ext hY1 (Prod.ext rfl (Prod.ext (by show Y.tm.repetitionsMax = _; rw [htmY]) hY4))
      · exact hfin Y hY1
  unfold stepFind
  simp only []
  split
  · -- created
    rename_i hcr
    simp only [hc, Bool.false_eq_true, if_false]
    split
    · exact hfin X rfl
    · have hwin := draw_window X X.tm.initialDelayMin X.tm.initialDelayMax
      have hS0 : X.loop.now = A := by rw [hcr] at hS; exact hS
      have hfp := fpi_draw X X.tm.initialDelayMin X.tm.initialDelayMax
      have hfm : (X.draw X.tm.initialDelayMin X.tm.initialDelayMax).1.findMarks = X.findMarks := fmi_draw _ _ _
      apply hsl _ _ .initial _ (fci_draw _ _ _) (base_draw _ _ _) (by intro h; cases h) A (by rw [hfm]; exact hA)
      · exact ⟨_, hwin.1, hwin.2, by rw [hS0]⟩
      · exact Prod.ext (congrArg (fun p => p.1) hfp) (Prod.ext rfl (Prod.ext (congrArg (fun p => p.2.2.1) hfp) (congrArg (fun p => p.2.2.2) hfp)))
  · -- initial: the first round
    simp only [hc, Bool.false_eq_true, if_false]
    exact hround 0 rfl
  · -- repetition
    rename_i j hrep
    simp only [hc, Bool.false_eq_true, if_false]
    exact hround (j + 1) rfl
  · -- not reached: the held task is never at another position
    rename_i h1 h2 h3
    cases hp : t'.pc with
    | created => exact absurd hp (h1)
    | initial => exact absurd hp (h2)
    | rep j => exact absurd hp (h3 j)
    | cyclic => exact absurd hp hncy
    | done => exact absurd hp hnd

/-- the step callback of find task k is at the head of the ready queue and runs -/
theorem ft_pop_step (s : Stack) (q : Option Nat) (k : Nat) (rest : List (RItem Cb))
    (hr : s.loop.ready = ⟨q, .taskStep (.find, k)⟩ :: rest) (hi : FT s) (hf : FInv s) :
    FT (({ s with loop := { s.loop with ready := rest } } : Stack).runCb (.taskStep (.find, k))) := by
  obtain ⟨hp1, hp2, hp3⟩ := countsF_pop s q _ rest hr k
  rw [isFStepOf_self] at hp1
  simp only [if_true, isSleepFor_taskStep', Bool.false_eq_true, if_false, Nat.add_zero] at hp1 hp2
  have hkn : k < (ftasks s).length := by
    by_cases h : k < (ftasks s).length
    · exact h
    · have := (hi.fresh k (Nat.le_of_not_lt h)).1
      omega
  have hsh0 : ShapeF k s ({ s with loop := { s.loop with ready := rest } } : Stack) :=
    ⟨locF_pop_step s q k rest hr, rfl, fun _ _ => rfl, rfl, fun _ _ => rfl⟩
  generalize hs0 : ({ s with loop := { s.loop with ready := rest } } : Stack) = s0 at hp1 hp2 hp3 hsh0
  have hts0 : ftask s0 k = ftask s k := by rw [← hs0]; rfl
  have hm0 : s0.findMarks = s.findMarks := by rw [← hs0]
  have htm0 : s0.tm = s.tm := hsh0.loc.2.1
  have hgen : ∀ (R : Stack), ShapeF k s R →
      (s.findTask = some k → ∃ t, ftask R k = some t ∧ t.cancelled = false ∧ t.pc ≠ .cyclic ∧
        (t.pc ≠ .done → ∃ A B, anchorF k R.findMarks = some A ∧ SchF R.tm t.pc A B ∧ PendF R k t B)) → FT R := by
    intro R hsh hself
    exact ft_others k hi hsh.ft hsh.tasks (Nat.le_of_eq hsh.len.symm) hsh.loc hsh.marks (by rw [hsh.len]; exact hkn) hself
  simp only [runCb]
  rw [getTask_find, hts0]
  cases ht : ftask s k with
  | none =>
    simp only []
    apply hgen s0 hsh0
    intro hheld
    obtain ⟨t0, h0, _⟩ := hi.own k hheld
    rw [ht] at h0; cases h0
  | some t =>
    simp only []
    by_cases hd : t.pc = .done
    · rw [if_pos hd]
      apply hgen s0 hsh0
      intro hheld
      obtain ⟨t0, h0, hc0, hcy0, _⟩ := hi.own k hheld
      rw [ht] at h0; cases h0
      exact ⟨t, by rw [hts0]; exact ht, hc0, hcy0, fun h => absurd hd h⟩
    · rw [if_neg hd]
      have hsh1 : ShapeF k s (s0.cancelTimer (isSleepFor (.find, k)) t.sleep) :=
        ShapeF.trans hsh0 ⟨locF_cancelTimer_sleep s0 k t.sleep, rfl, fun m _ => by unfold ftask ftasks; cases t.sleep <;> rfl,
          by unfold ftasks; cases t.sleep <;> rfl, fun _ _ => by cases t.sleep <;> rfl⟩
      obtain ⟨c1, c2, c3⟩ := countsF_cancelTimer_self s0 k t.sleep
      have ht1 : ftask (s0.cancelTimer (isSleepFor (.find, k)) t.sleep) k = some t := by
        have : ftask (s0.cancelTimer (isSleepFor (.find, k)) t.sleep) k = ftask s0 k := by unfold ftask ftasks; cases t.sleep <;> rfl
        rw [this, hts0]; exact ht
      have hm1 : (s0.cancelTimer (isSleepFor (.find, k)) t.sleep).findMarks = s.findMarks := by
        have : (s0.cancelTimer (isSleepFor (.find, k)) t.sleep).findMarks = s0.findMarks := by cases t.sleep <;> rfl
        rw [this, hm0]
      generalize hs1 : s0.cancelTimer (isSleepFor (.find, k)) t.sleep = s1 at hsh1 c1 c2 c3 ht1 hm1
      apply hgen _ (ShapeF.trans hsh1 (shapeF_stepFind s1 k _))
      intro hheld
      obtain ⟨t0, h0, hc0, hcy0, hrest⟩ := hi.own k hheld
      rw [ht] at h0; cases h0
      obtain ⟨A, B, hA, hS, hP⟩ := hrest hd
      have hnw : t.waiting = false := by
        cases hw : t.waiting
        · rfl
        · unfold PendF at hP; rw [hw] at hP; simp only [if_true] at hP; omega
      unfold PendF at hP
      rw [hnw] at hP
      simp only [Bool.false_eq_true, if_false] at hP
      obtain ⟨p1, p2, p3, p4⟩ := hP
      have hcnt1 : nSF s1 k = 0 ∧ nWRF s1 k = 0 ∧ wTF s1 k = [] := by
        refine ⟨by omega, by omega, ?_⟩
        have hw0 : wTF s k = [] := List.length_eq_zero_iff.mp p2
        rw [hp3, hw0] at c3
        exact List.eq_nil_iff_forall_not_mem.mpr (fun x hx => by cases c3 x hx)
      exact ft_step_owned s1 k t { t with sleep := none, waiting := false } ht1 hc0 hd hcy0 hcnt1 A (by rw [hm1]; exact hA)
        (by rw [hsh1.loc.2.1, hsh1.loc.2.2, p4]; exact hS)

/-- the wake-up callback of find task k is at the head of the ready queue and runs -/
theorem ft_pop_sleepDone (s : Stack) (q : Option Nat) (k : Nat) (rest : List (RItem Cb))
    (hr : s.loop.ready = ⟨q, .sleepDone (.find, k)⟩ :: rest) (hi : FT s) :
    FT (({ s with loop := { s.loop with ready := rest } } : Stack).sleepDone (.find, k)) := by
  obtain ⟨hp1, hp2, hp3⟩ := countsF_pop s q _ rest hr k
  rw [isSleepFor_self] at hp2
  simp only [isFStepOf_sleepDone, Bool.false_eq_true, if_false, Nat.add_zero, if_true] at hp1 hp2
  have hkn : k < (ftasks s).length := by
    by_cases h : k < (ftasks s).length
    · exact h
    · have := (hi.fresh k (Nat.le_of_not_lt h)).2.1
      omega
  have hsh0 : ShapeF k s ({ s with loop := { s.loop with ready := rest } } : Stack) :=
    ⟨locF_pop_wake s q k rest hr, rfl, fun _ _ => rfl, rfl, fun _ _ => rfl⟩
  generalize hs0 : ({ s with loop := { s.loop with ready := rest } } : Stack) = s0 at hp1 hp2 hp3 hsh0
  have hts0 : ftask s0 k = ftask s k := by rw [← hs0]; rfl
  have hm0 : s0.findMarks = s.findMarks := by rw [← hs0]
  have hgen : ∀ (R : Stack), ShapeF k s R →
      (s.findTask = some k → ∃ t, ftask R k = some t ∧ t.cancelled = false ∧ t.pc ≠ .cyclic ∧
        (t.pc ≠ .done → ∃ A B, anchorF k R.findMarks = some A ∧ SchF R.tm t.pc A B ∧ PendF R k t B)) → FT R := by
    intro R hsh hself
    exact ft_others k hi hsh.ft hsh.tasks (Nat.le_of_eq hsh.len.symm) hsh.loc hsh.marks (by rw [hsh.len]; exact hkn) hself
  unfold sleepDone
  rw [getTask_find, hts0]
  cases ht : ftask s k with
  | none =>
    simp only []
    apply hgen s0 hsh0
    intro hheld
    obtain ⟨t0, h0, _⟩ := hi.own k hheld
    rw [ht] at h0; cases h0
  | some t =>
    simp only []
    have hown : s.findTask = some k → t.cancelled = false ∧ t.pc ≠ .cyclic ∧ (t.pc ≠ .done →
        t.waiting = true ∧ nSF s k = 0 ∧ nWRF s k = 1 ∧ wTF s k = [] ∧
          ∃ A B, anchorF k s.findMarks = some A ∧ SchF s.tm t.pc A B ∧ s.loop.now = B) := by
      intro hheld
      obtain ⟨t1, h1, hc1, hcy1, hrest⟩ := hi.own k hheld
      rw [ht] at h1; cases h1
      refine ⟨hc1, hcy1, ?_⟩
      intro hd
      obtain ⟨A, B, hA, hS, hP⟩ := hrest hd
      unfold PendF at hP
      cases hw : t.waiting
      · rw [hw] at hP; simp only [Bool.false_eq_true, if_false] at hP; omega
      · rw [hw] at hP; simp only [if_true] at hP
        obtain ⟨p1, p2, p3, p4⟩ := hP
        have hnw : nWRF s k ≠ 0 := by omega
        exact ⟨rfl, p1, by omega, List.length_eq_zero_iff.mp (by omega), A, B, hA, hS, p4 hnw⟩
    cases hw : t.waiting
    · simp only [Bool.false_eq_true, if_false]
      apply hgen s0 hsh0
      intro hheld
      obtain ⟨hc1, hcy1, hrest⟩ := hown hheld
      refine ⟨t, by rw [hts0]; exact ht, hc1, hcy1, ?_⟩
      intro hd
      have := (hrest hd).1
      rw [hw] at this; cases this
    · simp only [if_true]
      have hshR : ShapeF k s ((s0.setTask (.find, k) { t with waiting := false, sleep := none }).callSoon (.taskStep (.find, k))) :=
        ShapeF.trans hsh0 (ShapeF.trans (shapeF_setTask s0 k _) ⟨locF_callSoon_step _ k, rfl, fun _ _ => rfl, rfl, fun _ _ => rfl⟩)
      apply hgen _ hshR
      intro hheld
      obtain ⟨hc1, hcy1, hrest⟩ := hown hheld
      have htR : ftask ((s0.setTask (.find, k) { t with waiting := false, sleep := none }).callSoon (.taskStep (.find, k))) k =
          some { t with waiting := false, sleep := none } := by
        show alookup (ftasks (s0.setTask (.find, k) _)) _ = _
        rw [ftasks_setTask, ftask_setT, if_pos rfl, hts0, ht]; rfl
      refine ⟨{ t with waiting := false, sleep := none }, htR, hc1, hcy1, ?_⟩
      intro hd
      obtain ⟨_, q1, q2, q3, A, B, hA, hS, hnow⟩ := hrest hd
      refine ⟨A, B, by show anchorF k s0.findMarks = _; rw [hm0]; exact hA, by rw [hshR.loc.2.1]; exact hS, ?_⟩
      obtain ⟨c1, c2, c3⟩ := countsF_callSoon (s0.setTask (.find, k) { t with waiting := false, sleep := none }) (.taskStep (.find, k)) k
      have e1 : nSF (s0.setTask (.find, k) { t with waiting := false, sleep := none }) k = nSF s0 k := rfl
      have e2 : nWRF (s0.setTask (.find, k) { t with waiting := false, sleep := none }) k = nWRF s0 k := rfl
      have e3 : wTF (s0.setTask (.find, k) { t with waiting := false, sleep := none }) k = wTF s0 k := rfl
      unfold PendF
      simp only [Bool.false_eq_true, if_false]
      rw [c1, c2, c3, e1, e2, e3, hp3, q3, isFStepOf_self]
      simp only [isSleepFor_taskStep', Bool.false_eq_true, if_false, if_true, List.length_nil]
      refine ⟨by omega, trivial, by omega, by rw [hshR.loc.2.2]; exact hnow⟩

/-- `ServiceDiscover.start()`: a new find task, held by the discovery, its first step queued -/
theorem ft_discoveryStart (s : Stack) (hi : FT s) (hf : FInv s) : FT s.discoveryStart := by
  rcases discoveryStart_cases s with h | ⟨_, h⟩
  · rw [h]; exact hi
  · rw [h]
    have hN : (s.createTask .find).2 = (ftasks s).length := taskCount_find s
    rw [hN]
    generalize (ftasks s).length = N at hN
    have hNlen : N = (ftasks s).length := by rw [← hN]; exact taskCount_find s
    have hcreate : (s.createTask .find).1 = ({ s with tasks := s.tasks ++ [((TaskKind.find, N), ({} : TaskSt))] } : Stack).callSoon (.taskStep (.find, N)) := by
      unfold createTask; simp only []; rw [show s.taskCount .find = N from hN]
    have hfresh : ∀ p ∈ ftasks s, p.1 ≠ (TaskKind.find, N) := by
      intro p hp e
      have := hf.keys p hp
      rw [e, hNlen] at this; exact Nat.lt_irrefl _ this
    have hft : ftasks (({ (s.createTask .find).1 with findTask := some N } : Stack).markFind N) = ftasks s ++ [((TaskKind.find, N), ({} : TaskSt))] := by
      show ftasks (s.createTask .find).1 = _
      rw [hcreate]
      simp [ftasks, callSoon, List.filter_append, isFindT]
    have hcnt : ∀ m, nSF (({ (s.createTask .find).1 with findTask := some N } : Stack).markFind N) m = nSF s m + (if isFStepOf m (.taskStep (.find, N)) then 1 else 0) ∧
        nWRF (({ (s.createTask .find).1 with findTask := some N } : Stack).markFind N) m = nWRF s m ∧
        wTF (({ (s.createTask .find).1 with findTask := some N } : Stack).markFind N) m = wTF s m := by
      intro m
      obtain ⟨c1, c2, c3⟩ := countsF_callSoon ({ s with tasks := s.tasks ++ [((TaskKind.find, N), ({} : TaskSt))] } : Stack) (.taskStep (.find, N)) m
      refine ⟨?_, ?_, ?_⟩
      · show nSF (s.createTask .find).1 m = _; rw [hcreate]; exact c1
      · show nWRF (s.createTask .find).1 m = _; rw [hcreate, c2]; simp; rfl
      · show wTF (s.createTask .find).1 m = _; rw [hcreate]; exact c3
    refine ⟨?_, ?_⟩
    · intro n hn
      have : n = N := by
        have : (some N : Option Nat) = some n := hn
        exact (Option.some.inj this).symm
      subst this
      refine ⟨{}, ?_, rfl, by decide, ?_⟩
      · unfold ftask; rw [hft, alookup_append_new _ _ _ _ hfresh, if_pos rfl]
      · intro _
        refine ⟨s.loop.now, s.loop.now, ?_, rfl, ?_⟩
        · show anchorF n (s.findMarks ++ [(n, _)]) = _
          exact anchorF_append_self n _ _
        · obtain ⟨f1, f2, f3⟩ := hi.fresh n (Nat.le_of_eq hNlen.symm)
          obtain ⟨c1, c2, c3⟩ := hcnt n
          unfold PendF
          simp only [Bool.false_eq_true, if_false]
          rw [c1, c2, c3, f1, f2, f3, isFStepOf_self]
          exact ⟨rfl, rfl, rfl, rfl⟩
    · intro m hm
      rw [hft] at hm
      simp only [List.length_append, List.length_singleton] at hm
      have hmN : m ≠ N := by omega
      obtain ⟨c1, c2, c3⟩ := hcnt m
      rw [c1, c2, c3, isFStepOf_other hmN]
      obtain ⟨f1, f2, f3⟩ := hi.fresh m (by omega)
      exact ⟨by simpa using f1, f2, f3⟩

theorem locF_cancelTask (s : Stack) (n : Nat) : LocF n s (s.cancelTask (.find, n)) := by
  unfold cancelTask
  split
  · exact LocF.refl _ _
  · split
    · exact LocF.refl _ _
    · split
      · exact LocF.trans (locF_of_frame (s := s) (s' := s.setTask _ _) rfl rfl) (locF_callSoon_step _ n)
      · exact locF_of_frame (s := s) (s' := s.setTask _ _) rfl rfl

/-- `ServiceDiscover.stop()`: the find task is cancelled and let go -/
theorem ft_discoveryStop (s : Stack) (hi : FT s) (hf : FInv s) : FT s.discoveryStop := by
  unfold discoveryStop
  split
  · rename_i n hn
    have hloc := locF_cancelTask s n
    have hlen : (ftasks (s.cancelTask (.find, n))).length = (ftasks s).length := by
      unfold cancelTask; split; rfl; split; rfl; split
      · show (ftasks (s.setTask _ _)).length = _; rw [ftasks_setTask]; simp [setT]
      · rw [ftasks_setTask]; simp [setT]
    obtain ⟨t, ht, _⟩ := hi.own n hn
    have hkn : n < (ftasks s).length := hf.task_lt ht
    refine ⟨?_, ?_⟩
    · intro m hm
      have : (none : Option Nat) = some m := hm
      cases this
    intro m hm
    have hm' : (ftasks s).length ≤ m := by
      have : (ftasks ({ s.cancelTask (.find, n) with findTask := none } : Stack)).length = (ftasks (s.cancelTask (.find, n))).length := rfl
      rw [this, hlen] at hm; exact hm
    have hmn : m ≠ n := by omega
    obtain ⟨e1, e2, e3⟩ := hloc.1 m hmn
    show nSF (s.cancelTask (.find, n)) m = 0 ∧ nWRF (s.cancelTask (.find, n)) m = 0 ∧ wTF (s.cancelTask (.find, n)) m = []
    rw [e1, e2, e3]; exact hi.fresh m hm'
  · exact hi

end Stack
end Someip
