/-
  Frame lemmas for the timing invariant of the offer tasks: the step and wake-up callbacks of offer tasks in the ready queue
  and among the timers.  Generated from the scripts of RFrame.lean (the same projection for the subscribe tasks).
-/
import SomeipModel.Lemmas.OQFrame
namespace Someip
namespace Stack
set_option linter.unusedSimpArgs false

/-- step and wake-up callbacks of offer tasks -/
def isOCb : Cb → Bool
  | .taskStep (.offer _, _) => true
  | .sleepDone (.offer _, _) => true
  | _ => false

/-- what the timing invariant of the offer tasks depends on, besides `opi`, `base` and the instance log -/
def oci (s : Stack) : List (RItem Cb) × List (Timer Cb) :=
  (s.loop.ready.filter (fun r => isOCb r.cb), s.loop.timers.filter (fun t => isOCb t.cb))

@[simp] theorem oci_with_subTask (s : Stack) (x : Option Nat) : oci { s with subTask := x } = oci s := rfl
@[simp] theorem oci_with_alive (s : Stack) (x : Bool) : oci { s with alive := x } = oci s := rfl
@[simp] theorem oci_with_alive_subLost (s : Stack) (x y : Bool) : oci { s with alive := x, subLost := y } = oci s := rfl
@[simp] theorem oci_with_subMarks (s : Stack) (x : List (Option Nat × Nat)) : oci { s with subMarks := x } = oci s := rfl
@[simp] theorem oci_markRound (s : Stack) (n : Nat) : oci (s.markRound n) = oci s := rfl
@[simp] theorem oci_with_tasks (s : Stack) (x : List (Tid × TaskSt)) : oci { s with tasks := x } = oci s := rfl

theorem isOC_sleepDone_other {tid : Tid} (h : isOfferK tid.1 = false) : isOCb (.sleepDone tid) = false := by
  obtain ⟨k, n⟩ := tid
  cases k <;> simp_all [isOCb, isOfferK]
theorem isOC_taskStep_other {tid : Tid} (h : isOfferK tid.1 = false) : isOCb (.taskStep tid) = false := by
  obtain ⟨k, n⟩ := tid
  cases k <;> simp_all [isOCb, isOfferK]


/-- cancelling a timer handle that is not a wake-up of an offer task -/
theorem oci_cancelTimer_other (s : Stack) (own : Cb → Bool) (t : Option Nat) (h : ∀ cb, own cb = true → isOCb cb = false) :
    oci (s.cancelTimer own t) = oci s := by
  cases t with
  | none => rfl
  | some q =>
    simp only [oci, cancelTimer, Loop.cancelOpt, Loop.cancel, List.filter_filter]
    refine Prod.ext ?_ ?_
    · apply List.filter_congr; intro x _
      cases h1 : isOCb x.cb
      · simp
      · have : own x.cb = false := by
          cases h2 : own x.cb
          · rfl
          · have := h _ h2; rw [h1] at this; cases this
        simp [this]
    · apply List.filter_congr; intro x _
      cases h1 : isOCb x.cb
      · simp
      · have : own x.cb = false := by
          cases h2 : own x.cb
          · rfl
          · have := h _ h2; rw [h1] at this; cases this
        simp [this]
@[simp] theorem oci_with_subEntries (s : Stack) (x : List (Eventgroup × Addr)) : oci { s with subEntries := x } = oci s := rfl
@[simp] theorem oci_with_subLog (s : Stack) (x : List (Addr × Nat × List Eventgroup)) : oci { s with subLog := x } = oci s := rfl
@[simp] theorem oci_with_subDup (s : Stack) (x : Bool) : oci { s with subDup := x } = oci s := rfl
@[simp] theorem oci_with_subLost (s : Stack) (x : Bool) : oci { s with subLost := x } = oci s := rfl
@[simp] theorem oci_with_subDup_subEntries (s : Stack) (x : Bool) (y : List (Eventgroup × Addr)) : oci { s with subDup := x, subEntries := y } = oci s := rfl
@[simp] theorem oci_with_watched (s : Stack) (x : List (Service × List Listener)) : oci { s with watched := x } = oci s := rfl
@[simp] theorem oci_with_watchAll (s : Stack) (x : List LId) : oci { s with watchAll := x } = oci s := rfl
@[simp] theorem oci_with_findTask (s : Stack) (x : Option Nat) : oci { s with findTask := x } = oci s := rfl
@[simp] theorem oci_with_started (s : Stack) (x : Bool) : oci { s with started := x } = oci s := rfl
@[simp] theorem oci_with_announceOrder (s : Stack) (x : List Nat) : oci { s with announceOrder := x } = oci s := rfl
@[simp] theorem oci_with_incoming (s : Stack) (x : Incoming) : oci { s with incoming := x } = oci s := rfl
@[simp] theorem oci_with_draws (s : Stack) (x : List Nat) : oci { s with draws := x } = oci s := rfl
@[simp] theorem oci_with_storeLog (s : Stack) (x : List (Bool × SvcKey × Addr)) : oci { s with storeLog := x } = oci s := rfl
@[simp] theorem oci_with_refreshLog (s : Stack) (x : List (Addr × SvcKey × Nat × Nat)) : oci { s with refreshLog := x } = oci s := rfl
@[simp] theorem oci_with_armLog (s : Stack) (x : List (Cb × Nat × Nat)) : oci { s with armLog := x } = oci s := rfl
@[simp] theorem oci_with_found_refreshLog (s : Stack) (x : TStore SvcKey) (y : List (Addr × SvcKey × Nat × Nat)) : oci { s with found := x, refreshLog := y } = oci s := rfl
@[simp] theorem oci_with_found (s : Stack) (x : TStore SvcKey) : oci { s with found := x } = oci s := rfl
@[simp] theorem oci_with_found_storeLog (s : Stack) (x : TStore SvcKey) (y : List (Bool × SvcKey × Addr)) : oci { s with found := x, storeLog := y } = oci s := rfl
@[simp] theorem oci_with_collectors (s : Stack) (x : List Collector) : oci { s with collectors := x } = oci s := rfl
@[simp] theorem oci_with_nextCid (s : Stack) (x : Nat) : oci { s with nextCid := x } = oci s := rfl
@[simp] theorem oci_with_outgoing (s : Stack) (x : Outgoing) : oci { s with outgoing := x } = oci s := rfl
@[simp] theorem oci_with_sendLog (s : Stack) (x : List (Dest × (Bool × Nat))) : oci { s with sendLog := x } = oci s := rfl
@[simp] theorem oci_with_outgoing_sendLog (s : Stack) (x : Outgoing) (y : List (Dest × (Bool × Nat))) : oci { s with outgoing := x, sendLog := y } = oci s := rfl
@[simp] theorem oci_with_findLog (s : Stack) (x : List (Nat × Nat)) : oci { s with findLog := x } = oci s := rfl
@[simp] theorem oci_with_findMarks (s : Stack) (x : List (Nat × Nat)) : oci { s with findMarks := x } = oci s := rfl
@[simp] theorem oci_with_ansLog (s : Stack) (x : List (Nat × Addr × Nat × Nat)) : oci { s with ansLog := x } = oci s := rfl
@[simp] theorem oci_with_lisLog (s : Stack) (x : List (LId × Bool × SvcKey × Addr)) : oci { s with lisLog := x } = oci s := rfl
@[simp] theorem oci_logLis (s : Stack) (id : LId) (o : Bool) (k : SvcKey) (a : Addr) : oci (s.logLis id o k a) = oci s := rfl
@[simp] theorem oci_with_lisDup (s : Stack) (x : Bool) : oci { s with lisDup := x } = oci s := rfl
@[simp] theorem oci_markDup (s : Stack) (d : Bool) : oci (s.markDup d) = oci s := rfl
@[simp] theorem oci_logAnswer (s : Stack) (i : Nat) (a : Addr) (d : Nat) : oci (s.logAnswer i a d) = oci s := rfl
@[simp] theorem oci_markFind (s : Stack) (n : Nat) : oci (s.markFind n) = oci s := rfl
@[simp] theorem oci_with_offLog (s : Stack) (x : List (Nat × OEv × Nat)) : oci { s with offLog := x } = oci s := rfl
@[simp] theorem oci_logOffer (s : Stack) (i : Nat) (e : OEv) : oci (s.logOffer i e) = oci s := rfl
@[simp] theorem oci_with_flushLog (s : Stack) (x : List (Dest × List SDEntry)) : oci { s with flushLog := x } = oci s := rfl
@[simp] theorem oci_with_instances (s : Stack) (x : List Instance) : oci { s with instances := x } = oci s := rfl
@[simp] theorem oci_with_outs (s : Stack) (x : List (Nat × Out)) : oci { s with outs := x } = oci s := rfl
@[simp] theorem oci_with_coll_nextCid (s : Stack) (x : List Collector) (y : Nat) : oci { s with collectors := x, nextCid := y } = oci s := rfl

@[simp] theorem oci_emit (s : Stack) (o : Out) : oci (s.emit o) = oci s := rfl

theorem oci_callSoon (s : Stack) (cb : Cb) (h : isOCb cb = false) : oci (s.callSoon cb) = oci s := by
  simp [oci, callSoon, Loop.callSoon, List.filter_append, h]
theorem oci_callLater (s : Stack) (d : Nat) (cb : Cb) (h : isOCb cb = false) : oci (s.callLater d cb).1 = oci s := by
  simp [oci, callLater, Loop.callLater, List.filter_append, h]

@[simp] theorem oci_callSoon_connLost (s : Stack) (p : Part) : oci (s.callSoon (.connLost p)) = oci s := oci_callSoon _ _ rfl
@[simp] theorem oci_callLater_connLost (s : Stack) (d : Nat) (p : Part) : oci (s.callLater d (.connLost p)).1 = oci s := oci_callLater _ _ _ rfl
@[simp] theorem oci_callSoon_expiredSvc (s : Stack) (a : Addr) (k : SvcKey) : oci (s.callSoon (.expiredSvc a k)) = oci s := oci_callSoon _ _ rfl
@[simp] theorem oci_callLater_expiredSvc (s : Stack) (d : Nat) (a : Addr) (k : SvcKey) : oci (s.callLater d (.expiredSvc a k)).1 = oci s := oci_callLater _ _ _ rfl
@[simp] theorem oci_callSoon_expiredSub (s : Stack) (i : Nat) (a : Addr) (k : SubKey) : oci (s.callSoon (.expiredSub i a k)) = oci s := oci_callSoon _ _ rfl
@[simp] theorem oci_callLater_expiredSub (s : Stack) (d : Nat) (i : Nat) (a : Addr) (k : SubKey) : oci (s.callLater d (.expiredSub i a k)).1 = oci s := oci_callLater _ _ _ rfl
@[simp] theorem oci_callSoon_sendOfferTo (s : Stack) (i : Nat) (a : Addr) : oci (s.callSoon (.sendOfferTo i a)) = oci s := oci_callSoon _ _ rfl
@[simp] theorem oci_callLater_sendOfferTo (s : Stack) (d : Nat) (i : Nat) (a : Addr) : oci (s.callLater d (.sendOfferTo i a)).1 = oci s := oci_callLater _ _ _ rfl
@[simp] theorem oci_callSoon_collectorTimeout (s : Stack) (c : Nat) : oci (s.callSoon (.collectorTimeout c)) = oci s := oci_callSoon _ _ rfl
@[simp] theorem oci_callLater_collectorTimeout (s : Stack) (d : Nat) (c : Nat) : oci (s.callLater d (.collectorTimeout c)).1 = oci s := oci_callLater _ _ _ rfl
@[simp] theorem oci_callSoon_sendStart (s : Stack) (d' : Addr) (e : List Eventgroup) : oci (s.callSoon (.sendStartSubscribe d' e)) = oci s := oci_callSoon _ _ rfl
@[simp] theorem oci_callSoon_sendStop (s : Stack) (d' : Addr) (e : List Eventgroup) : oci (s.callSoon (.sendStopSubscribe d' e)) = oci s := oci_callSoon _ _ rfl
theorem oci_callLater_sleepDone (s : Stack) (d : Nat) (t : Tid) (h : isOfferK t.1 = false) : oci (s.callLater d (.sleepDone t)).1 = oci s :=
  oci_callLater _ _ _ (isOC_sleepDone_other h)

theorem oci_callSoon_taskStep (s : Stack) (t : Tid) (h : isOfferK t.1 = false) : oci (s.callSoon (.taskStep t)) = oci s :=
  oci_callSoon _ _ (isOC_taskStep_other h)

/-- cancelling a timer handle of any component: no subscriber callback is ever a timer -/
@[simp] theorem oci_cancelTimer_sub (s : Stack) (t : Option Nat) : oci (s.cancelTimer isSubExpiry t) = oci s :=
  oci_cancelTimer_other s _ t (fun cb h => by cases cb <;> simp_all [isSubExpiry, isOCb])
@[simp] theorem oci_cancelTimer_subFor (s : Stack) (i : Nat) (a : Addr) (k : SubKey) (t : Option Nat) : oci (s.cancelTimer (isSubExpiryFor i a k) t) = oci s :=
  oci_cancelTimer_other s _ t (fun cb h => by cases cb <;> simp_all [isSubExpiryFor, isOCb])
@[simp] theorem oci_cancelTimer_svc (s : Stack) (t : Option Nat) : oci (s.cancelTimer isSvcExpiry t) = oci s :=
  oci_cancelTimer_other s _ t (fun cb h => by cases cb <;> simp_all [isSvcExpiry, isOCb])
@[simp] theorem oci_cancelTimer_svcFor (s : Stack) (a : Addr) (k : SvcKey) (t : Option Nat) : oci (s.cancelTimer (isSvcExpiryFor a k) t) = oci s :=
  oci_cancelTimer_other s _ t (fun cb h => by cases cb <;> simp_all [isSvcExpiryFor, isOCb])
theorem oci_cancelTimer_sleep (s : Stack) (tid : Tid) (t : Option Nat) (hk : isOfferK tid.1 = false) : oci (s.cancelTimer (isSleepFor tid) t) = oci s :=
  oci_cancelTimer_other s _ t (fun cb h => by
    cases cb with
    | sleepDone t' =>
      have : t' = tid := by simpa [isSleepFor] using h
      subst this; exact isOC_sleepDone_other hk
    | _ => simp_all [isSleepFor, isOCb])

@[simp] theorem isOC_connLost (p : Part) : isOCb (.connLost p) = false := rfl
@[simp] theorem isOC_expiredSvc (a : Addr) (k : SvcKey) : isOCb (.expiredSvc a k) = false := rfl
@[simp] theorem isOC_expiredSub (i : Nat) (a : Addr) (k : SubKey) : isOCb (.expiredSub i a k) = false := rfl
@[simp] theorem isOC_sendOfferTo (i : Nat) (a : Addr) : isOCb (.sendOfferTo i a) = false := rfl
@[simp] theorem isOC_collectorTimeout (c : Nat) : isOCb (.collectorTimeout c) = false := rfl

/-! task operations of the other components (typed task ids) -/



@[simp] theorem oci_setTask (s : Stack) (tid : Tid) (x : TaskSt) : oci (s.setTask tid x) = oci s := rfl
theorem oci_createTask (s : Stack) (k : TaskKind) (h : isOfferK k = false) : oci (s.createTask k).1 = oci s := by
  unfold createTask; simp only []
  rw [oci_callSoon_taskStep _ _ h]; rfl
@[simp] theorem oci_createTask_sub (s : Stack) : oci (s.createTask .subscribe).1 = oci s := oci_createTask _ _ rfl
@[simp] theorem oci_createTask_find (s : Stack) : oci (s.createTask .find).1 = oci s := oci_createTask _ _ rfl
theorem oci_cancelTask (s : Stack) (t : Tid) (h : isOfferK t.1 = false) : oci (s.cancelTask t) = oci s := by
  unfold cancelTask; split; rfl; split; rfl; split
  · rw [oci_callSoon_taskStep _ _ h, oci_setTask _ _ _]
  · rw [oci_setTask _ _ _]
@[simp] theorem oci_cancelTask_find (s : Stack) (n : Nat) : oci (s.cancelTask (.find, n)) = oci s := oci_cancelTask _ _ rfl
theorem oci_sleepFor (s : Stack) (tid : Tid) (t : TaskSt) (d : Nat) (pc : Pc) (h : isOfferK tid.1 = false) : oci (s.sleepFor tid t d pc) = oci s := by
  unfold sleepFor; split
  · rw [oci_callSoon_taskStep _ _ h, oci_setTask _ _ _]
  · simp only []; rw [oci_setTask _ _ _, oci_callLater_sleepDone _ _ _ h]
theorem oci_finish (s : Stack) (tid : Tid) (t : TaskSt) (h : isOfferK tid.1 = false) : oci (s.finish tid t) = oci s := by
  unfold finish; rw [oci_setTask _ _ _]
theorem oci_sleepDone (s : Stack) (tid : Tid) (h : isOfferK tid.1 = false) : oci (s.sleepDone tid) = oci s := by
  unfold sleepDone; split; rfl; split
  · rw [oci_callSoon_taskStep _ _ h, oci_setTask _ _ _]
  · rfl

@[simp] theorem oci_draw (s : Stack) (a b : Nat) : oci (s.draw a b).1 = oci s := by
  unfold draw; split <;> rfl
theorem oci_armTtl (s : Stack) (ttl : Nat) (cb : Cb) (h : isOCb cb = false) : oci (s.armTtl ttl cb).1 = oci s := by
  unfold armTtl; split
  · exact oci_callLater _ _ _ h
  · rfl
@[simp] theorem oci_armTtl_sub (s : Stack) (ttl i : Nat) (a : Addr) (k : SubKey) : oci (s.armTtl ttl (.expiredSub i a k)).1 = oci s :=
  oci_armTtl _ _ _ rfl
@[simp] theorem oci_setInst (s : Stack) (i : Nat) (x : Instance) : oci (s.setInst i x) = oci s := rfl
@[simp] theorem oci_sendSd (s : Stack) (es : List SDEntry) (d : Dest) : oci (s.sendSd es d) = oci s := by
  unfold sendSd; split; rfl; simp only []; split; rfl; split <;> rfl

@[simp] theorem oci_flushTo (s : Stack) (es : List SDEntry) (d : Dest) : oci (s.flushTo es d) = oci s := by
  unfold flushTo; rw [oci_sendSd]; rfl

@[simp] theorem oci_newCollector (s : Stack) (d : Dest) : oci (s.newCollector d).1 = oci s := by
  unfold newCollector; simp only []
  exact (oci_with_coll_nextCid _ _ _).trans (by simp)
@[simp] theorem oci_appendCollector (s : Stack) (c : Nat) (e : SDEntry) : oci (s.appendCollector c e) = oci s := rfl

@[simp] theorem oci_queueSend (s : Stack) (e : SDEntry) (d : Dest) : oci (s.queueSend e d) = oci s := by
  unfold queueSend; simp only []; split
  · simp
  · split
    · split <;> simp
    · simp

@[simp] theorem oci_collectorTimeout (s : Stack) (c : Nat) : oci (s.collectorTimeout c) = oci s := by
  unfold collectorTimeout; split; rfl; simp only []; rw [oci_flushTo]; rfl

@[simp] theorem oci_sendOffer (s : Stack) (i : Nat) (r : Dest) (b : Bool) : oci (s.sendOffer i r b) = oci s := by
  unfold sendOffer; split; rfl; split; rfl; simp

@[simp] theorem oci_subsStopAllFor (s : Stack) (i : Nat) (a : Addr) : oci (s.subsStopAllFor i a) = oci s := by
  unfold subsStopAllFor; split; rfl
  simp only []
  rw [foldl_pres oci _ (fun s e => by simp)]; rfl

@[simp] theorem oci_subsStopAll (s : Stack) (i : Nat) : oci (s.subsStopAll i) = oci s := by
  unfold subsStopAll; split; rfl
  simp only []
  split
  · simp only [oci_setInst]; rw [foldl_pres oci _ (fun s e => by simp)]
  · rw [foldl_pres oci _ (fun s e => by simp)]


@[simp] theorem oci_instHandleSubscribe (s : Stack) (i : Nat) (e : SDEntry) (a : Addr) :
    oci (s.instHandleSubscribe i e a).1 = oci s := by
  unfold instHandleSubscribe
  frame_cases

@[simp] theorem oci_handleSubscribe (s : Stack) (e : SDEntry) (a : Addr) : oci (s.handleSubscribe e a) = oci s := by
  unfold handleSubscribe
  simp only []
  have key : ∀ (l : List Nat) (acc : Stack × Bool),
      oci (l.foldl (fun (acc : Stack × Bool) i => ((acc.1.instHandleSubscribe i e a).1, acc.2 || (acc.1.instHandleSubscribe i e a).2)) acc).1 = oci acc.1 := by
    intro l; induction l with
    | nil => intro acc; rfl
    | cons x t ih => intro acc; rw [List.foldl_cons, ih]; simp
  split
  · exact key _ _
  · rw [oci_queueSend]; exact key _ _

@[simp] theorem oci_handleFind (s : Stack) (e : SDEntry) (a : Addr) (mc : Bool) : oci (s.handleFind e a mc) = oci s := by
  unfold handleFind; simp only []
  split; rfl
  split
  · rw [foldl_pres oci _ (fun s i => by simp)]; simp
  · rw [foldl_pres oci _ (fun s i => by simp)]

@[simp] theorem oci_expiredSub (s : Stack) (i : Nat) (a : Addr) (k : SubKey) : oci (s.expiredSub i a k) = oci s := by
  unfold expiredSub; split; rfl; simp only []; split <;> simp

@[simp] theorem oci_announcerReboot (s : Stack) (a : Addr) : oci (s.announcerReboot a) = oci s := by
  unfold announcerReboot; rw [foldl_pres oci _ (fun s i => by simp)]

theorem oci_stepFind (s : Stack) (tid : Tid) (t : TaskSt) (h : isOfferK tid.1 = false) : oci (s.stepFind tid t) = oci s := by
  unfold stepFind
  simp only []
  have hs := fun (X : Stack) (t' : TaskSt) (d : Nat) (pc : Pc) => oci_sleepFor X tid t' d pc h
  have hf := fun (X : Stack) (t' : TaskSt) => oci_finish X tid t' h
  (repeat' split) <;> simp [hs, hf]

@[simp] theorem oci_discoveryStart (s : Stack) : oci s.discoveryStart = oci s := by
  unfold discoveryStart; simp only []
  have h : oci ({ (s.createTask .find).1 with findTask := some (s.createTask .find).2 } : Stack) = oci s :=
    (oci_with_findTask _ _).trans (oci_createTask_find _)
  split
  · split
    · rfl
    · exact h
  · exact h

@[simp] theorem oci_discoveryStop (s : Stack) : oci s.discoveryStop = oci s := by
  unfold discoveryStop; split
  · exact (oci_with_findTask _ _).trans (oci_cancelTask_find _ _)
  · rfl


@[simp] theorem oci_sendSubscribe (s : Stack) (ttl : Nat) (d : Addr) (egs : List Eventgroup) :
    oci (s.sendSubscribe ttl d egs) = oci s := by simp [sendSubscribe]

@[simp] theorem oci_subscribeEventgroup (s : Stack) (g : Eventgroup) (d : Addr) : oci (s.subscribeEventgroup g d) = oci s := by
  unfold subscribeEventgroup; simp only []; split <;> simp

@[simp] theorem oci_stopSubscribeEventgroup (s : Stack) (g : Eventgroup) (d : Addr) (b : Bool) :
    oci (s.stopSubscribeEventgroup g d b) = oci s := by
  unfold stopSubscribeEventgroup; split
  · simp only []; split <;> simp
  · rfl




@[simp] theorem oci_listenerOffered (s : Stack) (l : Listener) (k : SvcKey) (a : Addr) : oci (s.listenerOffered l k a) = oci s := by
  unfold listenerOffered; frame_cases
@[simp] theorem oci_listenerStopped (s : Stack) (l : Listener) (k : SvcKey) (a : Addr) : oci (s.listenerStopped l k a) = oci s := by
  unfold listenerStopped; frame_cases

@[simp] theorem oci_replay (s : Stack) (b : Bool) (f : Option Service) (l : Listener) : oci (s.replay b f l) = oci s := by
  unfold replay
  rw [foldl_pres oci _ (fun s p => by frame_cases)]

@[simp] theorem oci_watchService (s : Stack) (f : Service) (l : Listener) : oci (s.watchService f l) = oci s := by
  unfold watchService; simp only []; rw [oci_markDup, oci_replay]; rfl
@[simp] theorem oci_stopWatchService (s : Stack) (f : Service) (l : Listener) : oci (s.stopWatchService f l) = oci s := by
  unfold stopWatchService; simp only []; split
  · simp
  · rw [oci_replay]; rfl
@[simp] theorem oci_watchAllServices (s : Stack) (id : LId) : oci (s.watchAllServices id) = oci s := by
  unfold watchAllServices; rw [oci_markDup, oci_replay]; rfl
@[simp] theorem oci_stopWatchAllServices (s : Stack) (id : LId) : oci (s.stopWatchAllServices id) = oci s := by
  unfold stopWatchAllServices; split
  · simp
  · rw [oci_replay]; rfl
@[simp] theorem oci_connectionLost (s : Stack) : oci s.connectionLost = oci s := by simp [connectionLost]

@[simp] theorem oci_notifyService (s : Stack) (b : Bool) (k : SvcKey) (a : Addr) : oci (s.notifyService b k a) = oci s := by
  unfold notifyService
  simp only []
  have hf : ∀ (s : Stack) (l : Listener), oci (if b = true then s.listenerOffered l k a else s.listenerStopped l k a) = oci s := by
    intro s l; split <;> simp
  rw [foldl_pres oci _ (fun s id => hf s _)]
  rw [foldl_pres oci _ (fun s p => by
    split
    · rw [foldl_pres oci _ (fun s l => hf s l)]
    · rfl)]
  rfl

@[simp] theorem oci_foundStop (s : Stack) (a : Addr) (k : SvcKey) : oci (s.foundStop a k) = oci s := by
  unfold foundStop; frame_cases

@[simp] theorem oci_foundRefresh (s : Stack) (ttl : Nat) (a : Addr) (k : SvcKey) : oci (s.foundRefresh ttl a k) = oci s := by
  unfold foundRefresh
  simp only []
  rw [oci_with_found_refreshLog, oci_armTtl _ _ _ rfl]
  split <;> simp

@[simp] theorem oci_handleOffer (s : Stack) (e : SDEntry) (a : Addr) : oci (s.handleOffer e a) = oci s := by
  unfold handleOffer; frame_cases

@[simp] theorem oci_foundStopAllFor (s : Stack) (a : Addr) : oci (s.foundStopAllFor a) = oci s := by
  unfold foundStopAllFor; simp only []
  rw [foldl_pres oci _ (fun s e => by simp)]; rfl

@[simp] theorem oci_foundStopAll (s : Stack) : oci s.foundStopAll = oci s := by
  unfold foundStopAll; simp only []
  show oci (List.foldl (fun s p => s.foundStopAllFor p.1) s s.found) = oci s
  rw [foldl_pres oci _ (fun s e => by simp)]

@[simp] theorem oci_expiredSvc (s : Stack) (a : Addr) (k : SvcKey) : oci (s.expiredSvc a k) = oci s := by
  unfold expiredSvc; frame_cases

@[simp] theorem oci_rebootDetected (s : Stack) (a : Addr) : oci (s.rebootDetected a) = oci s := by
  simp [rebootDetected]



@[simp] theorem oci_cancelTask_sub (s : Stack) (n : Nat) : oci (s.cancelTask (.subscribe, n)) = oci s := oci_cancelTask _ _ rfl
@[simp] theorem oci_subscriberStart (s : Stack) : oci s.subscriberStart = oci s := by
  unfold subscriberStart; split
  · rfl
  · simp only []
    exact (oci_with_subTask _ _).trans (by simp; rfl)

@[simp] theorem oci_subscriberStop (s : Stack) (b : Bool) : oci (s.subscriberStop b) = oci s := by
  unfold subscriberStop; split; rfl
  simp only []
  have h1 : oci (match ({ s with alive := false, subLost := !b } : Stack).subTask with
      | some tid => { ({ s with alive := false, subLost := !b } : Stack).cancelTask (.subscribe, tid) with subTask := none }
      | none => ({ s with alive := false, subLost := !b } : Stack)) = oci s := by
    split
    · show oci (({ s with alive := false, subLost := !b } : Stack).cancelTask (.subscribe, _)) = oci s; rw [oci_cancelTask_sub]; rfl
    · rfl
  split
  · rw [foldl_pres oci _ (fun s p => by simp)]; exact h1
  · exact h1

theorem oci_stepSubscribe (s : Stack) (tid : Tid) (t : TaskSt) (h : isOfferK tid.1 = false) : oci (s.stepSubscribe tid t) = oci s := by
  unfold stepSubscribe
  simp only []
  have key : ∀ st : Stack, oci (List.foldl (fun s p => s.sendSubscribe s.tm.subscribeTtl p.1 p.2) st (groupEntries st.subEntries)) = oci st :=
    fun st => foldl_pres oci _ (fun s p => by simp) _ _
  have hs := fun (X : Stack) (t' : TaskSt) (d : Nat) (pc : Pc) => oci_sleepFor X tid t' d pc h
  have hf := fun (X : Stack) (t' : TaskSt) => oci_finish X tid t' h
  split
  · split; simp [hf]; split <;> simp [key, hs, hf]
  · split; simp [hf]; split <;> simp [key, hs, hf]
  · rfl


end Stack
end Someip
