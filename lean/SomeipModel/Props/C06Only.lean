/-
  C06 - "and at no other time": the per-instance subscription stores (and with them what the server-side listener is told)
  change only through a datagram, the lifecycle calls of the announcer (start / stop / announce / stop-announce: a service
  that is stopped drops its subscriptions), the expiry callback of a subscription, or the announcer part of a connection
  loss.  Every other event - every call of the discovery and subscriber API, every other callback (offer-task steps,
  deferred answers, collector flushes, find and subscribe task steps, expiries of found services), every timer firing and
  clock step - leaves every subscription store and every subscribed / unsubscribed notification exactly as it is.
-/
import SomeipModel.Props.C06Global
namespace Someip
open Stack
set_option linter.unusedSimpArgs false
set_option linter.unusedVariables false

namespace Stack

theorem spi_setInst_same (s : Stack) (i : Nat) (x x' : Instance) (hx : s.getInst i = some x) (hs : x'.subs = x.subs) :
    spi (s.setInst i x') = spi s := by
  have h1 : (s.setInst i x').instances.map (·.subs) = s.instances.map (·.subs) := by
    unfold setInst
    simp only []
    unfold getInst at hx
    apply List.ext_getElem
    · simp
    · intro n h1 h2
      simp only [List.getElem_map, List.getElem_set]
      split
      · rename_i hin
        subst hin
        have : s.instances[i]? = some x := hx
        have h3 : i < s.instances.length := by simpa using h2
        rw [List.getElem?_eq_getElem h3] at this
        rw [hs, ← Option.some.inj this]
      · rfl
  unfold spi
  rw [h1]
  rfl

/-- a step of an offer task touches no subscription store -/
theorem spi_stepOffer (s : Stack) (tid : Tid) (t : TaskSt) (i : Nat) : spi (s.stepOffer tid t i) = spi s := by
  unfold stepOffer
  simp only []
  have hc : ∀ X : Stack, spi (if X.tm.cyclicOfferDelay ≠ 0 then X.sendOffer i none true else X) = spi X := by
    intro X; split
    · exact spi_sendOffer _ _ _ _
    · rfl
  have hset : ∀ (X : Stack) (b : Bool),
      spi (match X.getInst i with | some x => X.setInst i { x with canAnswer := b } | none => X) = spi X := by
    intro X b; split
    · rename_i x hx; exact spi_setInst_same X i x _ hx rfl
    · rfl
  have hcancel : ∀ X : Stack, spi ((if (match X.getInst i with | some x => X.setInst i { x with canAnswer := false } | none => X).tm.cyclicOfferDelay ≠ 0
      then (match X.getInst i with | some x => X.setInst i { x with canAnswer := false } | none => X).sendOffer i none true
      else (match X.getInst i with | some x => X.setInst i { x with canAnswer := false } | none => X)).finish tid t) = spi X := by
    intro X
    exact (spi_finish _ _ _).trans ((hc _).trans (hset X false))
  have hafter : ∀ (X : Stack) (k : Nat), spi (if k < X.tm.repetitionsMax then X.sleepFor tid t (pow2 k * X.tm.repetitionsBaseDelay) (.rep k)
      else if X.tm.cyclicOfferDelay = 0 then X.finish tid t else X.sleepFor tid t X.tm.cyclicOfferDelay .cyclic) = spi X := by
    intro X k
    split
    · exact spi_sleepFor _ _ _ _ _
    · split
      · exact spi_finish _ _ _
      · exact spi_sleepFor _ _ _ _ _
  split
  · split
    · exact spi_finish _ _ _
    · exact (spi_sleepFor _ _ _ _ _).trans (spi_draw _ _ _)
  · split
    · exact spi_finish _ _ _
    · exact (hafter _ _).trans ((hset _ true).trans (spi_sendOffer _ _ _ _))
  · split
    · exact hcancel _
    · exact (hafter _ _).trans (spi_sendOffer _ _ _ _)
  · split
    · exact hcancel _
    · exact (spi_sleepFor _ _ _ _ _).trans (spi_sendOffer _ _ _ _)
  · rfl

end Stack

/-- NOTHING ELSE (C06).  The first two components of `spi` are the subscription stores of all instances and the
subscribed / unsubscribed notifications emitted so far. -/
theorem c06_subscriptions_change_only_by (s s' : Stack) (e : Event) (h : s.step e = some s') :
    ((spi s').1 = (spi s).1 ∧ (spi s').2.1 = (spi s).2.1) ∨
    (∃ a mc b, e = .input (.dgram a mc b)) ∨
    (e = .input .start ∨ e = .input .stop ∨ e = .input .announcerStart ∨ e = .input .announcerStop ∨
      (∃ i, e = .input (.announce i)) ∨ (∃ i b, e = .input (.stopAnnounce i b))) ∨
    (e = .run ∧ ∃ cb l, s.loop.pop = some (cb, l) ∧ (cb = .connLost .announcer ∨ ∃ i a k, cb = .expiredSub i a k)) := by
  have fr : ∀ {x y : Stack}, spi x = spi y → (spi x).1 = (spi y).1 ∧ (spi x).2.1 = (spi y).2.1 := fun h => by rw [h]; exact ⟨rfl, rfl⟩
  cases e with
  | input x =>
    simp only [step, Option.some.injEq] at h; subst h
    cases x with
    | dgram a mc b => exact Or.inr (Or.inl ⟨a, mc, b, rfl⟩)
    | start => exact Or.inr (Or.inr (Or.inl (Or.inl rfl)))
    | stop => exact Or.inr (Or.inr (Or.inl (Or.inr (Or.inl rfl))))
    | announcerStart => exact Or.inr (Or.inr (Or.inl (Or.inr (Or.inr (Or.inl rfl)))))
    | announcerStop => exact Or.inr (Or.inr (Or.inl (Or.inr (Or.inr (Or.inr (Or.inl rfl))))))
    | announce i => exact Or.inr (Or.inr (Or.inl (Or.inr (Or.inr (Or.inr (Or.inr (Or.inl ⟨i, rfl⟩)))))))
    | stopAnnounce i b => exact Or.inr (Or.inr (Or.inl (Or.inr (Or.inr (Or.inr (Or.inr (Or.inr ⟨i, b, rfl⟩)))))))
    | connLost => exact Or.inl (fr (spi_connectionLost s))
    | watch f l => exact Or.inl (fr (spi_watchService s f l))
    | unwatch f l => exact Or.inl (fr (spi_stopWatchService s f l))
    | watchAll id => exact Or.inl (fr (spi_watchAllServices s id))
    | unwatchAll id => exact Or.inl (fr (spi_stopWatchAllServices s id))
    | subscribe g d => exact Or.inl (fr (spi_subscribeEventgroup s g d))
    | stopSubscribe g d => exact Or.inl (fr (spi_stopSubscribeEventgroup s g d true))
    | setNak i egs =>
      simp only [applyInput]
      split
      · rename_i x hx; exact Or.inl (fr (spi_setInst_same s i x _ hx rfl))
      · exact Or.inl ⟨rfl, rfl⟩
    | draws ds => exact Or.inl ⟨rfl, rfl⟩
  | run =>
    simp only [step] at h
    cases hp : s.loop.pop with
    | none => rw [hp] at h; cases h
    | some p =>
      obtain ⟨cb, l⟩ := p
      rw [hp] at h
      simp only [Option.some.injEq] at h; subst h
      -- a callback that is no subscription expiry: popping it leaves the projection alone
      have hpop : ∀ (cb' : Cb), s.loop.pop = some (cb', l) → isSubExpiry cb' = false → spi ({ s with loop := l } : Stack) = spi s := by
        intro cb' hp' hne
        unfold Loop.pop at hp'
        cases hr : s.loop.ready with
        | nil => rw [hr] at hp'; cases hp'
        | cons r rest =>
          rw [hr] at hp'
          simp only [Option.some.injEq, Prod.mk.injEq] at hp'
          obtain ⟨h1, h2⟩ := hp'
          subst h2
          unfold spi
          simp only [hr, List.filter_cons, h1, hne]
          rfl
      cases cb with
      | connLost p =>
        cases p with
        | announcer => exact Or.inr (Or.inr (Or.inr ⟨rfl, _, _, rfl, Or.inl rfl⟩))
        | subscriber => exact Or.inl (fr ((spi_subscriberStop _ false).trans (hpop _ hp rfl)))
        | discovery => exact Or.inl (fr ((spi_foundStopAll _).trans (hpop _ hp rfl)))
      | expiredSub i a k => exact Or.inr (Or.inr (Or.inr ⟨rfl, _, _, rfl, Or.inr ⟨i, a, k, rfl⟩⟩))
      | expiredSvc a k => exact Or.inl (fr ((spi_expiredSvc _ a k).trans (hpop _ hp rfl)))
      | sendStartSubscribe d egs => exact Or.inl (fr ((spi_sendSubscribe _ _ d egs).trans (hpop _ hp rfl)))
      | sendStopSubscribe d egs => exact Or.inl (fr ((spi_sendSubscribe _ _ d egs).trans (hpop _ hp rfl)))
      | sendOfferTo i a => exact Or.inl (fr ((spi_sendOffer _ i _ _).trans (hpop _ hp rfl)))
      | collectorTimeout cid => exact Or.inl (fr ((spi_collectorTimeout _ cid).trans (hpop _ hp rfl)))
      | sleepDone tid => exact Or.inl (fr ((spi_sleepDone _ tid).trans (hpop _ hp rfl)))
      | taskStep tid =>
        left
        apply fr
        refine Eq.trans ?_ (hpop _ hp rfl)
        simp only [runCb]
        split
        · rfl
        · split
          · rfl
          · split
            · exact (spi_stepOffer _ _ _ _).trans (spi_cancelTimer_sleep _ _ _)
            · exact (spi_stepFind _ _ _).trans (spi_cancelTimer_sleep _ _ _)
            · exact (spi_stepSubscribe _ _ _).trans (spi_cancelTimer_sleep _ _ _)
  | fire q =>
    simp only [step] at h
    cases hf : s.loop.fire q with
    | none => rw [hf] at h; cases h
    | some l =>
      rw [hf] at h; simp at h; subst h
      exact Or.inl ⟨rfl, rfl⟩
  | adv t =>
    simp only [step] at h
    cases hf : s.loop.adv t with
    | none => rw [hf] at h; cases h
    | some l =>
      rw [hf] at h; simp at h; subst h
      exact Or.inl ⟨rfl, rfl⟩

end Someip
