/-
  C15 — whole runs, timing: queued entries leave within SEND_COLLECTION_TIMEOUT.

  For EVERY list of events from a fresh stack:
   * every scheduled collection-timeout handle has its deadline in [now, now + timeout] (`c15_window_within_timeout`):
     not overdue (loop discipline) and never further away than the timeout (it was armed with exactly that delay when the
     window was opened, and time only moves forward);
   * every open window (a collector that is not done) has its one timeout handle either scheduled - with a deadline in
     [now, now + timeout], at which it fires exactly (`c09_fires_exactly_at_deadline`) - or already fired and waiting in the
     ready queue, where it runs before the clock moves again (`c15_open_window_flushes_in_time`).
  So an entry appended to a window now (`queue_send`) is handed to `send_sd` at most `timeout` later, and by conservation
  (`c15_queue_conservation`) exactly once, in order, for its destination.
-/
import SomeipModel.Lemmas.QDeadline
import SomeipModel.Props.C15Global
import SomeipModel.Props.C09Time
namespace Someip
open Stack
set_option linter.unusedSimpArgs false

theorem qd_runAll (s s' : Stack) (es : List Event) (h : runAll s es = some s') (hi : QD s) : QD s' := by
  induction es generalizing s with
  | nil => simp [runAll] at h; subst h; exact hi
  | cons e t ih =>
    simp only [runAll] at h
    split at h
    · cases h
    · rename_i s1 hs
      exact ih s1 h (qd_step s s1 e hs hi)

theorem c15_window_within_timeout (s0 s : Stack) (es : List Event) (h0 : s0.loop.timers = []) (hrun : runAll s0 es = some s)
    (t : Timer Cb) (ht : t ∈ s.loop.timers) (cid : Nat) (hcb : t.cb = .collectorTimeout cid) :
    s.loop.now ≤ t.deadline ∧ t.deadline ≤ s.loop.now + s.tm.sendCollectionTimeout := by
  refine ⟨c09_clock_never_passes_a_deadline s0 s es h0 hrun t ht, ?_⟩
  have hq := qd_runAll s0 s es hrun (by intro t ht; rw [h0] at ht; cases ht)
  exact hq t ht (by rw [hcb]; rfl)

theorem c15_open_window_flushes_in_time (s0 s : Stack) (es : List Event) (ho : s0.outs = []) (hf : s0.flushLog = [])
    (hc : s0.collectors = []) (h0 : s0.loop.timers = []) (hr : ∀ r ∈ s0.loop.ready, isCollTimeout r.cb = false)
    (hrun : runAll s0 es = some s) (c : Collector) (hm : c ∈ s.collectors) (hopen : c.done = false) :
    (∃ t ∈ s.loop.timers, t.cb = .collectorTimeout c.cid ∧ s.loop.now ≤ t.deadline ∧
        t.deadline ≤ s.loop.now + s.tm.sendCollectionTimeout) ∨
    (∃ r ∈ s.loop.ready, r.cb = .collectorTimeout c.cid) := by
  have hn := (c15_window_flushed_once s0 s es ho hf hc (by intro t ht; rw [h0] at ht; cases ht) hr hrun c hm).1
  rw [hopen] at hn
  simp only [Bool.false_eq_true, if_false] at hn
  unfold nC at hn
  cases htl : s.loop.timers.filter (fun t => isCollFor c.cid t.cb) with
  | nil =>
    rw [htl] at hn
    simp only [List.length_nil, Nat.zero_add] at hn
    cases hrl : s.loop.ready.filter (fun r => isCollFor c.cid r.cb) with
    | nil => rw [hrl] at hn; cases hn
    | cons r rest =>
      have hmem : r ∈ s.loop.ready.filter (fun r => isCollFor c.cid r.cb) := by rw [hrl]; exact List.mem_cons_self
      obtain ⟨h1, h2⟩ := List.mem_filter.mp hmem
      exact Or.inr ⟨r, h1, collFor_iff.mp h2⟩
  | cons t rest =>
    have hmem : t ∈ s.loop.timers.filter (fun t => isCollFor c.cid t.cb) := by rw [htl]; exact List.mem_cons_self
    obtain ⟨h1, h2⟩ := List.mem_filter.mp hmem
    have hcb := collFor_iff.mp h2
    obtain ⟨h3, h4⟩ := c15_window_within_timeout s0 s es h0 hrun t h1 c.cid hcb
    exact Or.inl ⟨t, h1, hcb, h3, h4⟩

end Someip
