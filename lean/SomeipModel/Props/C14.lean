/-
  C14 — Client subscription messages mirror the requested subscription set.
-/
import SomeipModel.Lemmas.StackBasic
namespace Someip
open Stack
set_option linter.unusedSimpArgs false

/-- CONTENT: a Subscribe entry names the eventgroup's ids, the given TTL, counter 0 and exactly one
endpoint option built from the local socket address, port and protocol (IPv4 / IPv6 by address family) -/
theorem c14_content (g : Eventgroup) (ttl : Nat) :
    let e := g.createSubscribeEntry ttl 0
    e.ty = .subscribe ∧ e.sid = g.sid ∧ e.iid = g.iid ∧ e.maj = g.maj ∧ e.ttl = ttl ∧ e.val = g.egid ∧ e.opts2 = [] ∧
    e.opts1 = [if g.sockname.addr.length = 4 then .ipv4 .endpoint g.sockname.addr g.proto g.sockname.port
               else .ipv6 .endpoint g.sockname.addr g.proto g.sockname.port] := by
  simp [Eventgroup.createSubscribeEntry, sockaddrToEndpoint]

/-- a StopSubscribe is the same entry with TTL 0 -/
theorem c14_stop_is_ttl0 (s : Stack) (d : Addr) (egs : List Eventgroup) :
    s.runCb (.sendStopSubscribe d egs) =
      ({ s with subLog := s.subLog ++ [(d, 0, egs)] } : Stack).sendSd (egs.map (fun g => g.createSubscribeEntry 0 0)) (some d) := by
  simp [runCb, sendSubscribe]
theorem c14_start_uses_ttl (s : Stack) (d : Addr) (egs : List Eventgroup) :
    s.runCb (.sendStartSubscribe d egs) =
      ({ s with subLog := s.subLog ++ [(d, s.tm.subscribeTtl, egs)] } : Stack).sendSd
        (egs.map (fun g => g.createSubscribeEntry s.tm.subscribeTtl 0)) (some d) := by
  simp [runCb, sendSubscribe]

/-- every subscription message goes only to the server it was requested for -/
theorem c14_only_to_server (s : Stack) (ttl : Nat) (d : Addr) (egs : List Eventgroup) (hne : egs ≠ []) :
    ∃ o, (s.sendSubscribe ttl d egs).outs = s.outs ++ [(s.loop.now, o)] ∧ ((∃ b, o = .send (some d) b) ∨ (∃ e, o = .raised e)) := by
  obtain ⟨o, h1, _, _, h4⟩ := sendSd_cases ({ s with subLog := s.subLog ++ [(d, ttl, egs)] } : Stack) (egs.map (fun g => g.createSubscribeEntry ttl 0)) (some d) (by simpa using hne)
  exact ⟨o, h1, h4⟩

/-- requesting while running: recorded, and one Subscribe for it is queued for the next loop turn -/
theorem c14_subscribe_running (s : Stack) (g : Eventgroup) (d : Addr) (h : s.alive = true) :
    (s.subscribeEventgroup g d).subEntries = s.subEntries ++ [(g, d)] ∧
    (s.subscribeEventgroup g d).loop.ready = s.loop.ready ++ [⟨none, .sendStartSubscribe d [g]⟩] := by
  simp [subscribeEventgroup, h]

/-- requesting while stopped: recorded only (sent by the next start) -/
theorem c14_subscribe_stopped (s : Stack) (g : Eventgroup) (d : Addr) (h : s.alive = false) :
    s.subscribeEventgroup g d =
      { s with subDup := s.subDup || decide ((g, d) ∈ s.subEntries), subEntries := s.subEntries ++ [(g, d)] } := by
  simp [subscribeEventgroup, h]

/-- withdrawing a requested subscription removes it and queues exactly one StopSubscribe for that server -/
theorem c14_stop_subscribe (s : Stack) (g : Eventgroup) (d : Addr) (h : (g, d) ∈ s.subEntries) :
    (s.stopSubscribeEventgroup g d).subEntries = s.subEntries.erase (g, d) ∧
    (s.stopSubscribeEventgroup g d).loop.ready = s.loop.ready ++ [⟨none, .sendStopSubscribe d [g]⟩] := by
  simp [stopSubscribeEventgroup, h]

/-- withdrawing something that was not requested does nothing -/
theorem c14_stop_unknown (s : Stack) (g : Eventgroup) (d : Addr) (h : (g, d) ∉ s.subEntries) :
    s.stopSubscribeEventgroup g d = s := by
  simp [stopSubscribeEventgroup, h]

/-- grouping keeps every requested pair exactly under its own server -/
theorem c14_group_members (es : List (Eventgroup × Addr)) (g : Eventgroup) (d : Addr) :
    (∃ l, (d, l) ∈ groupEntries es ∧ g ∈ l) ↔ (g, d) ∈ es := by
  unfold groupEntries
  suffices h : ∀ (acc : List (Addr × List Eventgroup)),
      (∃ l, (d, l) ∈ es.foldl (fun acc p =>
          if acc.any (fun q => decide (q.1 = p.2)) then acc.map (fun q => if q.1 = p.2 then (q.1, q.2 ++ [p.1]) else q)
          else acc ++ [(p.2, [p.1])]) acc ∧ g ∈ l) ↔ ((∃ l, (d, l) ∈ acc ∧ g ∈ l) ∨ (g, d) ∈ es) by
    simpa using h []
  induction es with
  | nil => intro acc; simp
  | cons p t ih =>
    intro acc
    rw [List.foldl_cons, ih]
    by_cases hany : acc.any (fun q => decide (q.1 = p.2)) = true
    · simp only [hany, if_true, List.mem_map, List.mem_cons]
      constructor
      · rintro (⟨l, ⟨q, hq, hql⟩, hg⟩ | h)
        · by_cases hq2 : q.1 = p.2
          · simp only [hq2, if_true, Prod.mk.injEq] at hql
            obtain ⟨rfl, rfl⟩ := hql
            simp only [List.mem_append, List.mem_cons, List.not_mem_nil, or_false] at hg
            rcases hg with hg | hg
            · exact Or.inl ⟨q.2, by rw [← hq2]; exact hq, hg⟩
            · subst hg; exact Or.inr (Or.inl rfl)
          · simp only [hq2, if_false] at hql
            subst hql; exact Or.inl ⟨_, hq, hg⟩
        · exact Or.inr (Or.inr h)
      · rintro (⟨l, hl, hg⟩ | h | h)
        · by_cases hd : d = p.2
          · exact Or.inl ⟨l ++ [p.1], ⟨(d, l), hl, by simp [hd]⟩, by simp [hg]⟩
          · exact Or.inl ⟨l, ⟨(d, l), hl, by simp [hd]⟩, hg⟩
        · obtain ⟨rfl, rfl⟩ : g = p.1 ∧ d = p.2 := by cases p; simpa using h
          simp only [List.any_eq_true, decide_eq_true_eq] at hany
          obtain ⟨q, hq, hq2⟩ := hany
          exact Or.inl ⟨q.2 ++ [p.1], ⟨q, hq, by simp [hq2]⟩, by simp⟩
        · exact Or.inr h
    · simp only [hany, Bool.false_eq_true, if_false, List.mem_append, List.mem_cons, List.not_mem_nil, or_false, Prod.mk.injEq]
      constructor
      · rintro (⟨l, (hl | ⟨rfl, rfl⟩), hg⟩ | h)
        · exact Or.inl ⟨l, hl, hg⟩
        · simp at hg; subst hg; exact Or.inr (Or.inl rfl)
        · exact Or.inr (Or.inr h)
      · rintro (⟨l, hl, hg⟩ | h | h)
        · exact Or.inl ⟨l, Or.inl hl, hg⟩
        · obtain ⟨rfl, rfl⟩ : g = p.1 ∧ d = p.2 := by cases p; simpa using h
          exact Or.inl ⟨[p.1], Or.inr ⟨rfl, rfl⟩, by simp⟩
        · exact Or.inr h

/-- stopping the subscriber gracefully queues one StopSubscribe per server covering everything requested from it;
stopping after a connection loss queues nothing -/
theorem c14_stop_all (s : Stack) (h : s.alive = true) (ht : s.subTask = none) :
    (s.subscriberStop true).loop.ready =
      s.loop.ready ++ (groupEntries s.subEntries).map (fun p => ⟨none, .sendStopSubscribe p.1 p.2⟩) ∧
    (s.subscriberStop true).alive = false := by
  simp only [subscriberStop, h, ht, Bool.not_true, Bool.false_eq_true, if_false, if_true]
  generalize groupEntries s.subEntries = gs
  constructor
  · suffices hh : ∀ (st : Stack), (gs.foldl (fun s p => s.callSoon (.sendStopSubscribe p.1 p.2)) st).loop.ready =
        st.loop.ready ++ gs.map (fun p => ⟨none, .sendStopSubscribe p.1 p.2⟩) by simpa using hh _
    induction gs with
    | nil => intro st; simp
    | cons p t ih => intro st; simp [List.foldl_cons, ih]
  · suffices hh : ∀ (st : Stack), (gs.foldl (fun s p => s.callSoon (.sendStopSubscribe p.1 p.2)) st).alive = st.alive by
      simpa using hh _
    induction gs with
    | nil => intro st; rfl
    | cons p t ih => intro st; rw [List.foldl_cons, ih]; rfl

theorem c14_connection_lost_silent (s : Stack) (ht : s.subTask = none) :
    (s.subscriberStop false).loop = s.loop ∧ (s.subscriberStop false).outs = s.outs := by
  unfold subscriberStop
  by_cases h : s.alive = true <;> simp [h, ht]

/-- no refresh interval: the subscribe task sends one round and ends; with an interval it sleeps exactly that long -/
theorem c14_no_refresh_one_round (s : Stack) (tid : Tid) (t : TaskSt) (hpc : t.pc = .created) (hc : t.cancelled = false)
    (hr : s.tm.subscribeRefresh = none) :
    ∃ s' : Stack, s.stepSubscribe tid t = s'.finish tid t := by
  have key : ∀ (gs : List (Addr × List Eventgroup)) (st : Stack), st.tm.subscribeRefresh = none →
      (gs.foldl (fun s p => s.sendSubscribe s.tm.subscribeTtl p.1 p.2) st).tm.subscribeRefresh = none := by
    intro gs; induction gs with
    | nil => intro st h; simpa using h
    | cons p tl ih => intro st h; rw [List.foldl_cons]; apply ih; simp [sendSubscribe, h]
  refine ⟨((groupEntries s.subEntries).foldl (fun s p => s.sendSubscribe s.tm.subscribeTtl p.1 p.2) s).markRound tid.2, ?_⟩
  simp only [stepSubscribe, hpc, hc, Bool.false_eq_true, if_false]
  have : (((groupEntries s.subEntries).foldl (fun s p => s.sendSubscribe s.tm.subscribeTtl p.1 p.2) s).markRound tid.2).tm.subscribeRefresh = none :=
    key _ _ hr
  rw [this]

end Someip
