/-
  C12 — FindService is answered only by matching, ready instances, by unicast, in time.
-/
import SomeipModel.Lemmas.StackBasic
namespace Someip
open Stack
set_option linter.unusedSimpArgs false

/-- WHO / WHEN (unicast): exactly the answering instances get one callback each, queued for the same
instant (one ready hop, no timer); nobody else -/
theorem c12_unicast (s : Stack) (e : SDEntry) (a : Addr) :
    s.handleFind e a false = (answering s e).foldl (fun s i => s.callSoon (.sendOfferTo i a)) s := by
  unfold handleFind
  simp only [Bool.false_eq_true, if_false]
  split
  · rename_i h
    have h' := List.isEmpty_iff.mp h
    rw [h']; rfl
  · rfl

/-- WHO / WHEN (multicast): one delay is drawn inside the request-response window and each answering
instance gets one timer at now + delay -/
theorem c12_multicast (s : Stack) (e : SDEntry) (a : Addr) (hne : answering s e ≠ []) :
    s.handleFind e a true =
      (answering s e).foldl (fun st i => ((st.logAnswer i a (s.draw s.tm.reqRespDelayMin s.tm.reqRespDelayMax).2).callLater (s.draw s.tm.reqRespDelayMin s.tm.reqRespDelayMax).2 (.sendOfferTo i a)).1)
        (s.draw s.tm.reqRespDelayMin s.tm.reqRespDelayMax).1 := by
  unfold handleFind
  have : ¬ ((answering s e).isEmpty = true) := by simpa using hne
  simp [this]

theorem c12_delay_window (s : Stack) (h : s.tm.reqRespDelayMin ≤ s.tm.reqRespDelayMax) :
    s.tm.reqRespDelayMin ≤ (s.draw s.tm.reqRespDelayMin s.tm.reqRespDelayMax).2 ∧
    (s.draw s.tm.reqRespDelayMin s.tm.reqRespDelayMax).2 ≤ s.tm.reqRespDelayMax := draw_in_window s _ _ h

/-- nobody matches or nobody is ready: complete silence, no state change -/
theorem c12_silent (s : Stack) (e : SDEntry) (a : Addr) (mc : Bool) (h : answering s e = []) :
    s.handleFind e a mc = s := by
  unfold handleFind; simp [h]

/-- instances in their initial wait phase (no offer sent yet) or stopped are never among the answering ones -/
theorem c12_not_ready_silent (s : Stack) (e : SDEntry) (i : Nat) (x : Instance) (hx : s.getInst i = some x)
    (h : x.canAnswer = false) : i ∉ answering s e := by
  simp [answering, hx, h]

/-- an answering instance matches the request: service id exactly, the rest exactly or wildcarded by the request -/
theorem c12_answer_matches (s : Stack) (e : SDEntry) (i : Nat) (x : Instance) (hx : s.getInst i = some x)
    (h : i ∈ answering s e) : x.canAnswer = true ∧ x.service.matchesFind e = .ok true := by
  simp only [answering, List.mem_filter, hx, Bool.and_eq_true] at h
  refine ⟨h.2.1, ?_⟩
  have := h.2.2
  split at this
  · rename_i b hb; simp_all
  · cases this

/-- WHAT: the answer callback queues exactly one offer with the configured TTL and options for the
requester's address, provided the instance is still running and ready -/
theorem c12_answer_content (s : Stack) (i : Nat) (x : Instance) (a : Addr) (tid : Nat) (hx : s.getInst i = some x)
    (hrun : x.task = some tid) (hready : x.canAnswer = true) :
    s.runCb (.sendOfferTo i a) = (s.logOffer i (.offer true)).queueSend (x.service.createOfferEntry s.tm.announceTtl) (some a) := by
  simp [runCb, sendOffer, hx, hrun, hready]

/-- stopped after the request (or restarted and again in the initial wait phase): the answer is dropped -/
theorem c12_stopped_silent (s : Stack) (i : Nat) (x : Instance) (a : Addr) (hx : s.getInst i = some x)
    (h : x.task = none ∨ x.canAnswer = false) : s.runCb (.sendOfferTo i a) = s := by
  rcases h with h | h <;> simp [runCb, sendOffer, hx, h]

end Someip
