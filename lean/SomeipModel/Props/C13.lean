/-
  C13 — FindService is sent only for watched services not yet found, bounded in number.
-/
import SomeipModel.Lemmas.StackBasic
namespace Someip
open Stack
set_option linter.unusedSimpArgs false

/-- CONTENT: the entries of a FindService round are exactly one entry per watched filter for which no
stored service matches, in registration order, with the filter's ids (wildcards preserved) and FIND_TTL -/
theorem c13_content (s : Stack) :
    s.findEntries = (s.watched.filter (fun p => !s.serviceFound p.1)).map (fun p => p.1.createFindEntry s.tm.findTtl) := rfl

theorem c13_entry_fields (f : Service) (ttl : Nat) :
    let e := f.createFindEntry ttl
    e.ty = .find ∧ e.sid = f.sid ∧ e.iid = f.iid ∧ e.maj = f.maj ∧ e.val = f.min ∧ e.ttl = ttl ∧ e.opts1 = [] ∧ e.opts2 = [] := by
  simp [Service.createFindEntry]

/-- ONLY: every entry asked for belongs to a watched filter without a matching stored service ... -/
theorem c13_only_unfound (s : Stack) (e : SDEntry) (he : e ∈ s.findEntries) :
    ∃ q ∈ s.watched, s.serviceFound q.1 = false ∧ e = q.1.createFindEntry s.tm.findTtl := by
  simp only [findEntries, List.mem_map, List.mem_filter] at he
  obtain ⟨q, ⟨hq, hq2⟩, rfl⟩ := he
  exact ⟨q, hq, by simpa using hq2, rfl⟩

/-- ... and ALL of them are asked for -/
theorem c13_all_unfound (s : Stack) (q : Service × List Listener) (hq : q ∈ s.watched) (h : s.serviceFound q.1 = false) :
    q.1.createFindEntry s.tm.findTtl ∈ s.findEntries := by
  simp only [findEntries, List.mem_map, List.mem_filter]
  exact ⟨q, ⟨hq, by simp [h]⟩, rfl⟩

/-- nothing watched at the first step: the task ends at once, nothing is ever sent -/
theorem c13_nothing_watched (s : Stack) (tid : Tid) (t : TaskSt) (hpc : t.pc = .created) (hw : s.watched = []) :
    (s.stepFind tid t).outs = s.outs ∧ (s.stepFind tid t).loop = s.loop := by
  by_cases hc : t.cancelled = true <;> simp [stepFind, hpc, hc, hw, finish, setTask]

/-- STOPS WHEN FOUND: a round that finds nothing to ask for sends nothing and ends the task for good -/
theorem c13_stops_when_found (s : Stack) (tid : Tid) (t : TaskSt) (k : Nat) (hpc : t.pc = .initial ∨ t.pc = .rep k)
    (hc : t.cancelled = false) (he : s.findEntries = []) :
    s.stepFind tid t = (s.markFind tid.2).finish tid t := by
  have he' : (s.markFind tid.2).findEntries = [] := he
  rcases hpc with h | h <;> simp [stepFind, h, hc, he']

/-- a round with something to ask sends ONE message, to the multicast group, with exactly those entries -/
theorem c13_round (s : Stack) (tid : Tid) (t : TaskSt) (hpc : t.pc = .initial) (hc : t.cancelled = false)
    (he : s.findEntries ≠ []) :
    ∃ s', s' = ({ (s.markFind tid.2) with findLog := s.findLog ++ [(tid.2, 0)] } : Stack).sendSd s.findEntries none ∧
      s.stepFind tid t = (if 0 < s'.tm.repetitionsMax then s'.sleepFor tid t (pow2 0 * s'.tm.repetitionsBaseDelay) (.rep 0)
                           else s'.finish tid t) := by
  refine ⟨_, rfl, ?_⟩
  have : ¬ ((s.markFind tid.2).findEntries.isEmpty = true) := by
    show ¬ (s.findEntries.isEmpty = true); simpa using he
  simp [stepFind, hpc, hc, this]
  rfl

/-- TIMES / BOUND: round i+1 follows round i after base * 2^i, and after REPETITIONS_MAX repetitions the
task ends: at most 1 + REPETITIONS_MAX messages per start -/
theorem c13_next_round (s : Stack) (tid : Tid) (t : TaskSt) (k : Nat) (hpc : t.pc = .rep k) (hc : t.cancelled = false)
    (he : s.findEntries ≠ []) :
    s.stepFind tid t =
      (if k + 1 < s.tm.repetitionsMax then
         (({ (s.markFind tid.2) with findLog := s.findLog ++ [(tid.2, k + 1)] } : Stack).sendSd s.findEntries none).sleepFor tid t (pow2 (k + 1) * s.tm.repetitionsBaseDelay) (.rep (k + 1))
       else (({ (s.markFind tid.2) with findLog := s.findLog ++ [(tid.2, k + 1)] } : Stack).sendSd s.findEntries none).finish tid t) := by
  have : ¬ ((s.markFind tid.2).findEntries.isEmpty = true) := by
    show ¬ (s.findEntries.isEmpty = true); simpa using he
  simp [stepFind, hpc, hc, this]
  rfl

/-- a cancelled find task never sends -/
theorem c13_cancelled_silent (s : Stack) (tid : Tid) (t : TaskSt) (hc : t.cancelled = true) :
    (s.stepFind tid t).outs = s.outs := by
  unfold stepFind
  cases hpc : t.pc <;> simp [hc, finish, setTask]

end Someip
