/-
  Static tie: when `ServiceInstance._send_offer(remote, stop)` queues nothing.  The guard is translated from sd.py on every
  run (GenTie.lean); it is proved equal to the model's condition for all arguments, and the model function is proved to
  branch on exactly the generated condition.
-/
import SomeipModel.GenTie
import SomeipModel.Lemmas.StackBasic
namespace Someip
open Stack
set_option linter.unusedSimpArgs false

theorem gen_offerSuppressed_eq (task remote : Option Nat) (canAnswer stop : Bool) :
    Gen.offerSuppressed task remote canAnswer stop = (!stop && (task.isNone || (remote.isSome && !canAnswer))) := by
  unfold Gen.offerSuppressed
  cases task <;> cases remote <;> cases canAnswer <;> cases stop <;> first | rfl | simp | grind

/-- `_send_offer(remote, stop)` of the model does nothing exactly when the generated guard says so, and otherwise queues the
offer entry (TTL 0 for a StopOffer) for `remote` -/
theorem gen_sendOffer_tie (s : Stack) (i : Nat) (x : Instance) (remote : Dest) (stop : Bool) (hx : s.getInst i = some x) :
    s.sendOffer i remote stop =
      if Gen.offerSuppressed x.task remote x.canAnswer stop = true then s
      else (s.logOffer i (if stop then .stopOffer else .offer remote.isSome)).queueSend
        (x.service.createOfferEntry (if stop then 0 else s.tm.announceTtl)) remote := by
  rw [gen_offerSuppressed_eq]
  simp [sendOffer, hx]

end Someip
