/-
  Static tie: `ServiceAnnouncer.queue_send` - sent at once iff the collection timeout is zero; a new collection window iff
  the destination has no collector or its collector is done.  Generated from sd.py on every run.
-/
import SomeipModel.GenTie
import SomeipModel.Lemmas.StackBasic
namespace Someip
open Stack
set_option linter.unusedSimpArgs false

theorem gen_queueImmediate_eq (coll : Nat) : Gen.queueImmediate coll = decide (coll = 0) := by
  unfold Gen.queueImmediate
  first | rfl | simp | grind
theorem gen_queueNewWindow_eq (qNone done : Bool) : Gen.queueNewWindow qNone done = (qNone || done) := by
  unfold Gen.queueNewWindow
  cases qNone <;> cases done <;> first | rfl | simp | grind

/-- `queue_send` of the model: sent at once / appended to a new window / appended to the open one, decided by the generated
conditions on the collection timeout and on the latest collector of the destination -/
theorem gen_queueSend_tie (s : Stack) (e : SDEntry) (d : Dest) :
    s.queueSend e d =
      let s1 := s.emit (.queued d e)
      if Gen.queueImmediate s1.tm.sendCollectionTimeout = true then s1.flushTo [e] d
      else if Gen.queueNewWindow (s1.latestCollector d).isNone (((s1.latestCollector d).map (·.done)).getD false) = true then
        (s1.newCollector d).1.appendCollector (s1.newCollector d).2 e
      else s1.appendCollector (((s1.latestCollector d).map (·.cid)).getD 0) e := by
  simp only [gen_queueImmediate_eq, gen_queueNewWindow_eq]
  unfold queueSend
  simp only []
  have htm : (s.emit (.queued d e)).tm = s.tm := rfl
  by_cases h0 : s.tm.sendCollectionTimeout = 0
  · simp [h0, htm]
  · simp only [htm, h0, decide_false, Bool.false_eq_true, if_false]
    cases hl : (s.emit (.queued d e)).latestCollector d with
    | none => simp
    | some c => cases hd : c.done <;> simp [hd]

end Someip
