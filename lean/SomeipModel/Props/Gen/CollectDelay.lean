/-
  Static tie of a DELAY expression, extracted from sd.py on every run: `ServiceAnnouncer.queue_send` -> `SendCollector`: the collection window.
  The generated definition is proved equal to the model's expression for all arguments, and the model function is proved to
  sleep / arm exactly the generated amount: a changed exponent, base, bound, window or unit in the source breaks a proof here
  before any scenario runs.
-/
import SomeipModel.GenTie
import SomeipModel.Lemmas.StackBasic
namespace Someip
open Stack
set_option linter.unusedSimpArgs false

theorem gen_collectDelay_eq (coll : Nat) : Gen.collectDelay coll = coll := by
  unfold Gen.collectDelay; first | rfl | simp | grind
/-- `SendCollector(...)`: the collection window's handle is armed for the generated timeout -/
theorem gen_collector_tie (s : Stack) (d : Dest) :
    (s.newCollector d).1.loop.timers =
      s.loop.timers ++ [⟨s.loop.nextSeq, s.loop.now + Gen.collectDelay s.tm.sendCollectionTimeout, .collectorTimeout s.nextCid⟩] := by
  rw [gen_collectDelay_eq]
  simp [newCollector, callLater, Loop.callLater]


end Someip
