/-
  Static tie (see harness/pytolean.py and SomeipModel/GenTie.lean): the definition translated from the Python source on
  every run equals the hand-written model function, for ALL arguments.  One module per function, so that a change of
  one function breaks exactly the obligations of the properties that rest on it.
-/
import SomeipModel.GenTie
namespace Someip
set_option linter.unusedSimpArgs false

/-- the reboot condition of `_SessionStorage.check_received`, as the model uses it -/
theorem gen_rebootCond_eq (inc : Incoming) (sender : Addr) (mc flag : Bool) (sid : Nat) :
    (checkReceived inc sender mc flag sid).1 =
      match alookup inc (sender, mc) with
      | none => false
      | some (oldFlag, oldSid) => Gen.rebootCond flag oldFlag oldSid sid := by
  unfold checkReceived Gen.rebootCond
  first
  | rfl
  | (simp only []; done)
  | (simp only []; split <;> first | (simp_all; done) | (simp_all; omega) | grind)
  | (simp_all; done)
  | grind

end Someip
