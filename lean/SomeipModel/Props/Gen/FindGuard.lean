/-
  Static tie: `ServiceInstance.matches_find` (silent during the initial wait phase, else the service's wildcard match).
  Generated from sd.py on every run.
-/
import SomeipModel.GenTie
import SomeipModel.Lemmas.StackBasic
namespace Someip
open Stack
set_option linter.unusedSimpArgs false

theorem gen_instMatchesFind_eq (canAnswer m : Bool) : Gen.instMatchesFind canAnswer m = (canAnswer && m) := by
  unfold Gen.instMatchesFind
  cases canAnswer <;> cases m <;> first | rfl | simp | grind

/-- who answers a FindService entry: the announced instances for which the generated `matches_find` holds -/
theorem gen_answering_tie (s : Stack) (e : SDEntry) :
    s.answering e = s.announceOrder.filter (fun i =>
      match s.getInst i with
      | some x => Gen.instMatchesFind x.canAnswer (match x.service.matchesFind e with | .ok b => b | _ => false)
      | none => false) := by
  unfold answering
  apply List.filter_congr
  intro i _
  cases s.getInst i with
  | none => rfl
  | some x => simp only [gen_instMatchesFind_eq] <;> rfl

end Someip
