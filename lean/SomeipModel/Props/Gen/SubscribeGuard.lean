/-
  Static tie: when `ServiceInstance.handle_subscribe` declines an entry (not running, or the service / eventgroup does not
  match).  Generated from sd.py on every run.
-/
import SomeipModel.GenTie
import SomeipModel.Lemmas.StackBasic
namespace Someip
open Stack
set_option linter.unusedSimpArgs false

theorem gen_subscribeRefused_eq (task : Option Nat) (m : Bool) : Gen.subscribeRefused task m = (task.isNone || !m) := by
  unfold Gen.subscribeRefused
  cases task <;> cases m <;> first | rfl | simp | grind

/-- `handle_subscribe` of an instance declines the entry (returns False, changes nothing) when the generated guard holds -/
theorem gen_instHandleSubscribe_tie (s : Stack) (i : Nat) (x : Instance) (e : SDEntry) (a : Addr) (hx : s.getInst i = some x)
    (h : Gen.subscribeRefused x.task (match x.service.matchesSubscribe e with | .ok true => true | _ => false) = true) :
    s.instHandleSubscribe i e a = (s, false) := by
  rw [gen_subscribeRefused_eq] at h
  unfold instHandleSubscribe
  simp only [hx]
  cases ht : x.task.isNone
  · simp only [ht, Bool.false_or, Bool.not_eq_true'] at h
    simp only [Bool.false_eq_true, if_false]
    split
    · rename_i hm; rw [hm] at h; cases h
    · rfl
  · simp

end Someip
