/-
  Static tie of a DELAY expression, extracted from sd.py on every run: `ServiceInstance._offer_task`: initial window, repetition count and delay, cyclic sleep.
  The generated definition is proved equal to the model's expression for all arguments, and the model function is proved to
  sleep / arm exactly the generated amount: a changed exponent, base, bound, window or unit in the source breaks a proof here
  before any scenario runs.
-/
import SomeipModel.GenTie
import SomeipModel.Props.C10
namespace Someip
open Stack
set_option linter.unusedSimpArgs false

theorem gen_offerInitialWindow_eq (lo hi : Nat) : Gen.offerInitialWindow lo hi = (lo, hi) := by
  unfold Gen.offerInitialWindow; first | rfl | simp | grind
theorem gen_offerRepCount_eq (rmax : Nat) : Gen.offerRepCount rmax = rmax := by
  unfold Gen.offerRepCount; first | rfl | simp | grind
theorem gen_offerRepDelay_eq (i base : Nat) : Gen.offerRepDelay i base = pow2 i * base := by
  unfold Gen.offerRepDelay pow2; first | rfl | simp | grind
theorem gen_offerCyclicSleep_eq (cyc : Nat) : Gen.offerCyclicSleep cyc = cyc := by
  unfold Gen.offerCyclicSleep; first | rfl | simp | grind
/-- `_offer_task`, first step: the initial delay is drawn from the generated window -/
theorem gen_offer_initial_tie (s : Stack) (tid : Tid) (i : Nat) (t : TaskSt) (hpc : t.pc = .created) (hc : t.cancelled = false) :
    s.stepOffer tid t i =
      (s.draw (Gen.offerInitialWindow s.tm.initialDelayMin s.tm.initialDelayMax).1 (Gen.offerInitialWindow s.tm.initialDelayMin s.tm.initialDelayMax).2).1.sleepFor tid t
        (s.draw (Gen.offerInitialWindow s.tm.initialDelayMin s.tm.initialDelayMax).1 (Gen.offerInitialWindow s.tm.initialDelayMin s.tm.initialDelayMax).2).2 .initial := by
  rw [gen_offerInitialWindow_eq]
  simp [stepOffer, hpc, hc]

/-- `_offer_task`, after repetition k: the next sleep is the generated repetition delay while the generated count is not
reached, then the generated cyclic sleep (or the task ends when there is no cyclic period) -/
theorem gen_offer_repetition_tie (s : Stack) (tid : Tid) (i : Nat) (t : TaskSt) (k : Nat) (hpc : t.pc = .rep k) (hc : t.cancelled = false) :
    s.stepOffer tid t i =
      (if k + 1 < Gen.offerRepCount (s.sendOffer i none false).tm.repetitionsMax
       then (s.sendOffer i none false).sleepFor tid t (Gen.offerRepDelay (k + 1) (s.sendOffer i none false).tm.repetitionsBaseDelay) (.rep (k + 1))
       else if (s.sendOffer i none false).tm.cyclicOfferDelay = 0 then (s.sendOffer i none false).finish tid t
       else (s.sendOffer i none false).sleepFor tid t (Gen.offerCyclicSleep (s.sendOffer i none false).tm.cyclicOfferDelay) .cyclic) := by
  simp only [gen_offerRepCount_eq, gen_offerRepDelay_eq, gen_offerCyclicSleep_eq]
  simp [stepOffer, hpc, hc]

/-- `_offer_task`, cyclic phase: the generated cyclic sleep -/
theorem gen_offer_cyclic_tie (s : Stack) (tid : Tid) (i : Nat) (t : TaskSt) (hpc : t.pc = .cyclic) (hc : t.cancelled = false) :
    s.stepOffer tid t i = (s.sendOffer i none false).sleepFor tid t (Gen.offerCyclicSleep s.tm.cyclicOfferDelay) .cyclic := by
  rw [gen_offerCyclicSleep_eq]
  simp [stepOffer, hpc, hc]


end Someip
