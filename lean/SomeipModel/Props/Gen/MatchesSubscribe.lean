/-
  Static tie (see harness/pytolean.py and SomeipModel/GenTie.lean): the definition translated from the Python source on
  every run equals the hand-written model function, for ALL arguments.  One module per function, so that a change of
  one function breaks exactly the obligations of the properties that rest on it.
-/
import SomeipModel.GenTie
namespace Someip
set_option linter.unusedSimpArgs false

/-- `Service.matches_subscribe` -/
theorem gen_matchesSubscribe_eq (s : Service) (e : SDEntry) : Gen.matchesSubscribe s e = s.matchesSubscribe e := by
  unfold Gen.matchesSubscribe Service.matchesSubscribe
  first
  | rfl
  | (repeat' split
     all_goals first | (simp_all; done) | (simp_all; omega) | (simp_all; intros; omega) | grind)

end Someip
