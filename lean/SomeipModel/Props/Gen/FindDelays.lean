/-
  Static tie of a DELAY expression, extracted from sd.py on every run: `ServiceDiscover.send_find_services`: initial window, repetition count and delay.
  The generated definition is proved equal to the model's expression for all arguments, and the model function is proved to
  sleep / arm exactly the generated amount: a changed exponent, base, bound, window or unit in the source breaks a proof here
  before any scenario runs.
-/
import SomeipModel.GenTie
import SomeipModel.Props.C13
namespace Someip
open Stack
set_option linter.unusedSimpArgs false

theorem gen_findInitialWindow_eq (lo hi : Nat) : Gen.findInitialWindow lo hi = (lo, hi) := by
  unfold Gen.findInitialWindow; first | rfl | simp | grind
theorem gen_findRepCount_eq (rmax : Nat) : Gen.findRepCount rmax = rmax := by
  unfold Gen.findRepCount; first | rfl | simp | grind
theorem gen_findRepDelay_eq (i base : Nat) : Gen.findRepDelay i base = pow2 i * base := by
  unfold Gen.findRepDelay pow2; first | rfl | simp | grind
/-- `send_find_services`, first step: the generated window -/
theorem gen_find_initial_tie (s : Stack) (tid : Tid) (t : TaskSt) (hpc : t.pc = .created) (hc : t.cancelled = false)
    (hw : s.watched.isEmpty = false) :
    s.stepFind tid t =
      (s.draw (Gen.findInitialWindow s.tm.initialDelayMin s.tm.initialDelayMax).1 (Gen.findInitialWindow s.tm.initialDelayMin s.tm.initialDelayMax).2).1.sleepFor tid t
        (s.draw (Gen.findInitialWindow s.tm.initialDelayMin s.tm.initialDelayMax).1 (Gen.findInitialWindow s.tm.initialDelayMin s.tm.initialDelayMax).2).2 .initial := by
  rw [gen_findInitialWindow_eq]
  simp [stepFind, hpc, hc, hw]

/-- `send_find_services`, after round k+1: the generated repetition delay while the generated count is not reached -/
theorem gen_find_repetition_tie (s : Stack) (tid : Tid) (t : TaskSt) (k : Nat) (hpc : t.pc = .rep k) (hc : t.cancelled = false)
    (he : s.findEntries ≠ []) :
    s.stepFind tid t =
      (if k + 1 < Gen.findRepCount s.tm.repetitionsMax then
         (({ (s.markFind tid.2) with findLog := s.findLog ++ [(tid.2, k + 1)] } : Stack).sendSd s.findEntries none).sleepFor tid t
           (Gen.findRepDelay (k + 1) s.tm.repetitionsBaseDelay) (.rep (k + 1))
       else (({ (s.markFind tid.2) with findLog := s.findLog ++ [(tid.2, k + 1)] } : Stack).sendSd s.findEntries none).finish tid t) := by
  rw [gen_findRepCount_eq, gen_findRepDelay_eq]
  exact c13_next_round s tid t k hpc hc he


end Someip
