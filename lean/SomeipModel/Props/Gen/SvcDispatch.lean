/-
  Static tie (see harness/pytolean.py and SomeipModel/GenTie.lean): the definition translated from the Python source on
  every run equals the hand-written model function, for ALL arguments.  One module per function, so that a change of
  one function breaks exactly the obligations of the properties that rest on it.
-/
import SomeipModel.GenTie
namespace Someip
set_option linter.unusedSimpArgs false

/-- `SimpleService.message_received`: the translated chain of checks (which check wins, which return code it sends),
the translated code for a malformed message and the translated positive-reply condition reproduce the model's
reply list for every configuration, message and reception mode -/
theorem gen_svcDispatch_eq (c : SvcCfg) (m : Header) (multicast : Bool) :
    c.messageReceived m multicast =
      match Gen.svcPrecheck c m multicast (c.method m.mid).isSome with
      | none => []
      | some (some rc) => [errorReply m rc]
      | some none =>
        match c.method m.mid with
        | none => []
        | some .malformed => [errorReply m Gen.svcMalformedCode]
        | some .nothing => if Gen.svcPositive m false = true then [positiveReply m []] else []
        | some (.bytes b) => if Gen.svcPositive m true = true then [positiveReply m b] else [] := by
  unfold SvcCfg.messageReceived Gen.svcPrecheck Gen.svcMalformedCode Gen.svcPositive
  cases hm : c.method m.mid with
  | none =>
    simp only [Option.isSome_none]
    repeat' split
    all_goals first | rfl | (simp_all; done) | grind
  | some h =>
    simp only [Option.isSome_some]
    cases h <;> (repeat' split) <;> first | rfl | (simp_all; done) | grind

end Someip
