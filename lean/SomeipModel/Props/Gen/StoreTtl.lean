/-
  Static tie of a DELAY expression, extracted from sd.py on every run: `TimedStore.refresh`: when a handle is armed and for how long.
  The generated definition is proved equal to the model's expression for all arguments, and the model function is proved to
  sleep / arm exactly the generated amount: a changed exponent, base, bound, window or unit in the source breaks a proof here
  before any scenario runs.
-/
import SomeipModel.GenTie
import SomeipModel.Lemmas.StackBasic
namespace Someip
open Stack
set_option linter.unusedSimpArgs false

theorem gen_storeArms_eq (ttl : Nat) : Gen.storeArms ttl = decide (ttl ≠ TTL_FOREVER) := by
  unfold Gen.storeArms TTL_FOREVER; first | rfl | simp | grind
theorem gen_storeTtlDelay_eq (ttl : Nat) : Gen.storeTtlDelay ttl = ttl := by
  unfold Gen.storeTtlDelay; first | rfl | simp | grind
/-- `TimedStore.refresh`: a handle is armed exactly when the generated guard says so, for the generated number of seconds -/
theorem gen_store_arm_tie (s : Stack) (ttl : Nat) (cb : Cb) :
    (s.armTtl ttl cb).2.isSome = Gen.storeArms ttl ∧
    (Gen.storeArms ttl = true →
      (s.armTtl ttl cb).1.loop.timers = s.loop.timers ++ [⟨s.loop.nextSeq, s.loop.now + Gen.storeTtlDelay ttl * TICKS_PER_S, cb⟩]) := by
  rw [gen_storeArms_eq, gen_storeTtlDelay_eq]
  unfold armTtl
  by_cases h : ttl = TTL_FOREVER
  · simp [h]
  · simp [h, callLater, Loop.callLater]


end Someip
