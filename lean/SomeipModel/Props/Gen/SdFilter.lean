/-
  Static tie (see harness/pytolean.py and SomeipModel/GenTie.lean): the definition translated from the Python source on
  every run equals the hand-written model function, for ALL arguments.  One module per function, so that a change of
  one function breaks exactly the obligations of the properties that rest on it.
-/
import SomeipModel.GenTie
import SomeipModel.Model.Stack
namespace Someip
open Stack
set_option linter.unusedSimpArgs false

/-- `ServiceDiscoveryProtocol.message_received`: the translated test for "not an SD notification" is exactly the model's -/
theorem gen_sdForeign_iff (h : Header) :
    Gen.sdForeign h = true ↔
      (h.sid ≠ SD_SERVICE ∨ h.mid ≠ SD_METHOD ∨ h.iv ≠ SD_INTERFACE_VERSION ∨ h.rc ≠ .ok ∨ h.mt ≠ .notification) := by
  unfold Gen.sdForeign
  first
  | (simp; done)
  | (constructor <;> intro q <;> simp_all <;> omega)
  | grind

/-- ... and what it decides in the model: a foreign message changes nothing, anything else is looked at -/
theorem gen_sdForeign_drops (s : Stack) (h : Header) (a : Addr) (mc : Bool) (hf : Gen.sdForeign h = true) :
    s.messageReceived h a mc = s := by
  have := (gen_sdForeign_iff h).mp hf
  unfold messageReceived
  rw [if_pos this]

end Someip
