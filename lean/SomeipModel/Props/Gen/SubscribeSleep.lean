/-
  Static tie of a DELAY expression, extracted from sd.py on every run: `ServiceSubscriber._subscribe`: the refresh sleep.
  The generated definition is proved equal to the model's expression for all arguments, and the model function is proved to
  sleep / arm exactly the generated amount: a changed exponent, base, bound, window or unit in the source breaks a proof here
  before any scenario runs.
-/
import SomeipModel.GenTie
import SomeipModel.Props.C14
namespace Someip
open Stack
set_option linter.unusedSimpArgs false

theorem gen_subscribeSleep_eq (refresh : Nat) : Gen.subscribeSleep refresh = refresh := by
  unfold Gen.subscribeSleep; first | rfl | simp | grind
/-- `_subscribe`: after a round the task sleeps the generated refresh interval -/
theorem gen_subscribe_sleep_tie (s : Stack) (tid : Tid) (t : TaskSt) (hpc : t.pc = .created ∨ t.pc = .cyclic) (hc : t.cancelled = false)
    (r : Nat) (hr : s.tm.subscribeRefresh = some r) :
    s.stepSubscribe tid t =
      (((groupEntries s.subEntries).foldl (fun s p => s.sendSubscribe s.tm.subscribeTtl p.1 p.2) s).markRound tid.2).sleepFor tid t
        (Gen.subscribeSleep r) .cyclic := by
  rw [gen_subscribeSleep_eq]
  have key : ∀ (gs : List (Addr × List Eventgroup)) (st : Stack),
      (gs.foldl (fun s p => s.sendSubscribe s.tm.subscribeTtl p.1 p.2) st).tm = st.tm := by
    intro gs; induction gs with
    | nil => intro st; rfl
    | cons p tl ih => intro st; rw [List.foldl_cons, ih]; simp [sendSubscribe]
  have h1 : (((groupEntries s.subEntries).foldl (fun s p => s.sendSubscribe s.tm.subscribeTtl p.1 p.2) s).markRound tid.2).tm.subscribeRefresh = some r := by
    show ((groupEntries s.subEntries).foldl (fun s p => s.sendSubscribe s.tm.subscribeTtl p.1 p.2) s).tm.subscribeRefresh = some r
    rw [key]; exact hr
  rcases hpc with h | h <;> simp only [stepSubscribe, h, hc, Bool.false_eq_true, if_false] <;> rw [h1]


end Someip
