/-
  Static tie of a DELAY expression, extracted from sd.py on every run: `ServiceAnnouncer.handle_findservice`: the request-response window.
  The generated definition is proved equal to the model's expression for all arguments, and the model function is proved to
  sleep / arm exactly the generated amount: a changed exponent, base, bound, window or unit in the source breaks a proof here
  before any scenario runs.
-/
import SomeipModel.GenTie
import SomeipModel.Props.C12
namespace Someip
open Stack
set_option linter.unusedSimpArgs false

theorem gen_answerWindow_eq (lo hi : Nat) : Gen.answerWindow lo hi = (lo, hi) := by
  unfold Gen.answerWindow; first | rfl | simp | grind

/-- `handle_findservice` (multicast): the answer's delay is drawn from the generated window -/
theorem gen_answer_window_tie (s : Stack) (e : SDEntry) (a : Addr) (hne : answering s e ≠ []) :
    s.handleFind e a true =
      (answering s e).foldl (fun st i => ((st.logAnswer i a
          (s.draw (Gen.answerWindow s.tm.reqRespDelayMin s.tm.reqRespDelayMax).1 (Gen.answerWindow s.tm.reqRespDelayMin s.tm.reqRespDelayMax).2).2).callLater
          (s.draw (Gen.answerWindow s.tm.reqRespDelayMin s.tm.reqRespDelayMax).1 (Gen.answerWindow s.tm.reqRespDelayMin s.tm.reqRespDelayMax).2).2 (.sendOfferTo i a)).1)
        (s.draw (Gen.answerWindow s.tm.reqRespDelayMin s.tm.reqRespDelayMax).1 (Gen.answerWindow s.tm.reqRespDelayMin s.tm.reqRespDelayMax).2).1 := by
  rw [gen_answerWindow_eq]
  exact c12_multicast s e a hne


end Someip
