/-
  Static tie (see harness/pytolean.py and SomeipModel/GenTie.lean): the definition translated from the Python source on
  every run equals the hand-written model function, for ALL arguments.  One module per function, so that a change of
  one function breaks exactly the obligations of the properties that rest on it.
-/
import SomeipModel.GenTie
namespace Someip
set_option linter.unusedSimpArgs false

/-- the counter step and the initial value of `_SessionStorage.assign_outgoing`, as the model uses them -/
theorem gen_assignOutgoing_eq (out : Outgoing) (d : Dest) :
    assignOutgoing out d =
      let cur := (alookup out d).getD Gen.outgoingDefault
      (cur, aset out d (Gen.nextOutgoing cur.1 cur.2)) := by
  unfold assignOutgoing Gen.outgoingDefault Gen.nextOutgoing
  first
  | rfl
  | (simp only []; done)
  | (simp only []; split <;> first | (simp_all; done) | (simp_all; omega) | grind)
  | (simp_all; done)
  | grind

end Someip
