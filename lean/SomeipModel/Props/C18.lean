/-
  C18 — Stream and datagram framing agree under arbitrary segmentation.
  The stream reader is modelled over the feed / readexactly contract of asyncio.StreamReader (that the
  real class implements this contract is exercised by the correspondence check, not proved).
-/
import SomeipModel.Model.Stream
import SomeipModel.Props.C01
namespace Someip
set_option linter.unusedSimpArgs false

theorem headerOf16_append (buf c : Bytes) (h : 16 ≤ buf.length) : headerOf16 (buf ++ c) = headerOf16 buf := by
  match buf, h with
  | s1 :: s0 :: m1 :: m0 :: l3 :: l2 :: l1 :: l0 :: c1 :: c0 :: e1 :: e0 :: pv :: iv :: mtb :: rcb :: rest, _ => rfl

/-- a completed read is not affected by whatever arrives later (or by eof) -/
theorem readOne_append_msg (e1 e2 : Bool) (buf c : Bytes) (h : Header) (rest : Bytes)
    (hr : readOne e1 buf = .msg h rest) : readOne e2 (buf ++ c) = .msg h (rest ++ c) := by
  unfold readOne at hr ⊢
  split at hr
  · split at hr <;> cases hr
  · rename_i hlen
    have h16 : 16 ≤ buf.length := by omega
    have hlen' : ¬ ((buf ++ c).length < 16) := by rw [List.length_append]; omega
    simp only [hlen', if_false, headerOf16_append buf c h16]
    split at hr
    · cases hr
    · rename_i size hd hh
      split at hr
      · split at hr <;> cases hr
      · rename_i hpl
        have hpl' : ¬ ((buf ++ c).length - 16 < size - 8) := by rw [List.length_append]; omega
        simp only [hpl', if_false]
        cases hr
        have t1 : List.take (size - 8) (List.drop 16 (buf ++ c)) = List.take (size - 8) (List.drop 16 buf) := by
          rw [List.drop_append_of_le_length h16, List.take_append_of_le_length (by simp; omega)]
        have t2 : List.drop (16 + (size - 8)) (buf ++ c) = List.drop (16 + (size - 8)) buf ++ c := by
          rw [List.drop_append_of_le_length (by omega)]
        rw [t1, t2]

/-- a rejected header stays rejected -/
theorem readOne_append_parse (e1 e2 : Bool) (buf c : Bytes) (hr : readOne e1 buf = .ended .parseError) :
    readOne e2 (buf ++ c) = .ended .parseError := by
  unfold readOne at hr ⊢
  split at hr
  · split at hr
    · split at hr <;> cases hr
    · cases hr
  · rename_i hlen
    have h16 : 16 ≤ buf.length := by omega
    have hlen' : ¬ ((buf ++ c).length < 16) := by rw [List.length_append]; omega
    simp only [hlen', if_false, headerOf16_append buf c h16]
    split at hr
    · rfl
    · split at hr
      · split at hr <;> cases hr
      · cases hr

theorem readOne_msg_shorter (e : Bool) (buf : Bytes) (h : Header) (rest : Bytes) (hr : readOne e buf = .msg h rest) :
    rest.length + 16 ≤ buf.length := by
  unfold readOne at hr
  split at hr
  · split at hr <;> cases hr
  · split at hr
    · cases hr
    · split at hr
      · split at hr <;> cases hr
      · cases hr; simp; omega

/-- without eof the only way to end is a parse error -/
theorem readOne_false_ended (buf : Bytes) (e : StreamEnd) (hr : readOne false buf = .ended e) : e = .parseError := by
  unfold readOne at hr
  split at hr
  · simp at hr
  · split at hr
    · cases hr; rfl
    · split at hr
      · simp at hr
      · cases hr

/-- enough fuel is enough: the result does not depend on it -/
theorem pump_fuel (eof : Bool) (f1 f2 : Nat) (buf : Bytes) (h1 : buf.length < f1) (h2 : buf.length < f2) :
    pump eof f1 { buf := buf, stop := none } = pump eof f2 { buf := buf, stop := none } := by
  induction f1 generalizing f2 buf with
  | zero => omega
  | succ n ih =>
    cases f2 with
    | zero => omega
    | succ m =>
      simp only [pump, Option.isSome_none, Bool.false_eq_true, if_false]
      cases hr : readOne eof buf with
      | msg h rest =>
        have := readOne_msg_shorter eof buf h rest hr
        simp only []
        rw [ih m rest (by omega) (by omega)]
      | blocked => rfl
      | ended e => rfl

/-- once stopped, nothing more is read -/
theorem pump_stopped (eof : Bool) (f : Nat) (s : SRState) (e : StreamEnd) (h : s.stop = some e) : pump eof f s = ([], s) := by
  cases f <;> simp [pump, h]

/-- GREEDY = BATCH: reading as far as possible, then receiving more bytes `c` and reading on, gives the same
messages and the same final state as receiving everything first -/
theorem pump_append (eof : Bool) (f1 : Nat) (buf c : Bytes) (h1 : buf.length < f1) :
    ((pump false f1 { buf := buf, stop := none }).2.stop = none →
      ∀ f2 f3, (buf ++ c).length < f2 → ((pump false f1 { buf := buf, stop := none }).2.buf ++ c).length < f3 →
        pump eof f2 { buf := buf ++ c, stop := none } =
          ((pump false f1 { buf := buf, stop := none }).1 ++
             (pump eof f3 { buf := (pump false f1 { buf := buf, stop := none }).2.buf ++ c, stop := none }).1,
           (pump eof f3 { buf := (pump false f1 { buf := buf, stop := none }).2.buf ++ c, stop := none }).2)) ∧
    (∀ e, (pump false f1 { buf := buf, stop := none }).2.stop = some e →
      ∀ f2, (buf ++ c).length < f2 → pump eof f2 { buf := buf ++ c, stop := none } = pump false f1 { buf := buf, stop := none }) := by
  induction f1 generalizing buf with
  | zero => omega
  | succ n ih =>
    simp only [pump, Option.isSome_none, Bool.false_eq_true, if_false]
    cases hr : readOne false buf with
    | msg h rest =>
      have hsh := readOne_msg_shorter false buf h rest hr
      have hih := ih rest (by omega)
      simp only []
      constructor
      · intro hstop f2 f3 hf2 hf3
        cases f2 with
        | zero => omega
        | succ m =>
          simp only [pump, Option.isSome_none, Bool.false_eq_true, if_false, readOne_append_msg false eof buf c h rest hr]
          rw [hih.1 hstop m f3 (by rw [List.length_append] at hf2 ⊢; omega) hf3]
          simp
      · intro e hstop f2 hf2
        cases f2 with
        | zero => omega
        | succ m =>
          simp only [pump, Option.isSome_none, Bool.false_eq_true, if_false, readOne_append_msg false eof buf c h rest hr]
          rw [hih.2 e hstop m (by rw [List.length_append] at hf2 ⊢; omega)]
    | blocked =>
      simp only []
      constructor
      · intro _ f2 f3 hf2 hf3
        simp only [List.nil_append]
        rw [pump_fuel eof f2 f3 _ hf2 hf3]
      · intro e he; cases he
    | ended e =>
      have he := readOne_false_ended buf e hr
      subst he
      simp only []
      constructor
      · intro h; cases h
      · intro e' _ f2 hf2
        cases f2 with
        | zero => omega
        | succ m =>
          simp only [pump, Option.isSome_none, Bool.false_eq_true, if_false, readOne_append_parse false eof buf c hr]

theorem feedChunks_stopped (s : SRState) (e : StreamEnd) (h : s.stop = some e) (cs : List Bytes) :
    (feedChunks s cs).1 = [] ∧ (feedChunks s cs).2.stop = some e := by
  induction cs generalizing s with
  | nil => exact ⟨rfl, h⟩
  | cons c t ih =>
    simp only [feedChunks, pumpAll]
    rw [pump_stopped false _ { s with buf := s.buf ++ c } e h]
    simp only [List.nil_append]
    exact ih _ h

/-- the state after pumping keeps `stop = none` or records the end -/
theorem pump_state_eta (eof : Bool) (f : Nat) (s : SRState) (h : (pump eof f s).2.stop = none) :
    (pump eof f s).2 = { buf := (pump eof f s).2.buf, stop := none } := by
  cases hp : (pump eof f s).2 with
  | mk b st => rw [hp] at h; simp at h; subst h; rfl

/-- feeding chunk by chunk and then eof = having everything in the buffer at eof -/
theorem feed_then_eof (buf : Bytes) (cs : List Bytes) :
    ((feedChunks { buf := buf, stop := none } cs).1 ++ (pumpAll true (feedChunks { buf := buf, stop := none } cs).2).1,
      (pumpAll true (feedChunks { buf := buf, stop := none } cs).2).2.stop) =
    ((pumpAll true { buf := buf ++ cs.flatten, stop := none }).1, (pumpAll true { buf := buf ++ cs.flatten, stop := none }).2.stop) := by
  induction cs generalizing buf with
  | nil => simp [feedChunks]
  | cons c t ih =>
    simp only [feedChunks, List.flatten_cons, pumpAll]
    have hp := pump_append true ((buf ++ c).length + 1) (buf ++ c) t.flatten (by simp)
    cases hstop : (pump false ((buf ++ c).length + 1) { buf := buf ++ c, stop := none }).2.stop with
    | none =>
      have heta := pump_state_eta false ((buf ++ c).length + 1) { buf := buf ++ c, stop := none } hstop
      have ih' := ih (pump false ((buf ++ c).length + 1) { buf := buf ++ c, stop := none }).2.buf
      simp only [pumpAll] at ih'
      rw [← heta] at ih'
      have h1 := hp.1 hstop (((buf ++ c) ++ t.flatten).length + 1)
        (((pump false ((buf ++ c).length + 1) { buf := buf ++ c, stop := none }).2.buf ++ t.flatten).length + 1) (by simp) (by simp)
      rw [List.append_assoc] at h1
      rw [h1]
      simp only [List.append_assoc, Prod.mk.injEq] at ih' ⊢
      exact ⟨by rw [ih'.1], ih'.2⟩
    | some e =>
      have h2 := hp.2 e hstop (((buf ++ c) ++ t.flatten).length + 1) (by simp)
      rw [List.append_assoc] at h2
      obtain ⟨hf1, hf2⟩ := feedChunks_stopped _ e hstop t
      rw [h2, hf1, pump_stopped true _ _ e hf2, hf2, hstop]
      simp

/-- CHUNKING IS IRRELEVANT: the messages read and the way reading ends depend only on the bytes of the
stream, not on how it was cut into chunks (1-byte chunks, empty chunks, one chunk, ...) -/
theorem c18_chunking_irrelevant (chunks : List Bytes) : readStream chunks = readStream [chunks.flatten] := by
  have h1 := feed_then_eof [] chunks
  have h2 := feed_then_eof [] [chunks.flatten]
  simp only [List.flatten_cons, List.flatten_nil, List.append_nil, List.nil_append] at h1 h2
  show ((feedChunks { buf := [], stop := none } chunks).1 ++ (pumpAll true (feedChunks { buf := [], stop := none } chunks).2).1,
      (pumpAll true (feedChunks { buf := [], stop := none } chunks).2).2.stop) =
    ((feedChunks { buf := [], stop := none } [chunks.flatten]).1 ++ (pumpAll true (feedChunks { buf := [], stop := none } [chunks.flatten]).2).1,
      (pumpAll true (feedChunks { buf := [], stop := none } [chunks.flatten]).2).2.stop)
  rw [h1, h2]

theorem parseFields_error {sid mid size cid sess pv iv mtb rcb : Nat} {e : Err}
    (h : Header.parseFields sid mid size cid sess pv iv mtb rcb = .error e) : e = .parse := by
  unfold Header.parseFields at h
  split at h
  · cases h; rfl
  · split at h
    · cases h; rfl
    · split at h
      · cases h; rfl
      · split at h
        · cases h; rfl
        · cases h

theorem long_pattern (b : Bytes) (h : 16 ≤ b.length) :
    ∃ s1 s0 m1 m0 l3 l2 l1 l0 c1 c0 e1 e0 pv iv mtb rcb rest,
      b = s1 :: s0 :: m1 :: m0 :: l3 :: l2 :: l1 :: l0 :: c1 :: c0 :: e1 :: e0 :: pv :: iv :: mtb :: rcb :: rest := by
  match b, h with
  | s1 :: s0 :: m1 :: m0 :: l3 :: l2 :: l1 :: l0 :: c1 :: c0 :: e1 :: e0 :: pv :: iv :: mtb :: rcb :: rest, _ =>
    exact ⟨s1, s0, m1, m0, l3, l2, l1, l0, c1, c0, e1, e0, pv, iv, mtb, rcb, rest, rfl⟩

theorem parse_short (b : Bytes) (h : b.length < 16) : Header.parse b = .error .incomplete := by
  unfold Header.parse
  split
  · simp at h; omega
  · rfl

/-- one `read()` at eof on the unread bytes is the datagram decoder's `parse` on the same bytes -/
theorem parse_readOne (b : Bytes) (hne : b ≠ []) :
    (∀ h r, Header.parse b = .ok (h, r) → readOne true b = .msg h r) ∧
    (Header.parse b = .error .parse → readOne true b = .ended .parseError) ∧
    (Header.parse b = .error .incomplete → readOne true b = .ended .incomplete) ∧
    (∀ e, Header.parse b = .error e → e = .parse ∨ e = .incomplete) := by
  by_cases hl : b.length < 16
  · have hemp : b.isEmpty = false := by cases b <;> simp_all
    rw [parse_short b hl]
    refine ⟨fun h r hh => (by cases hh), fun hh => (by cases hh), fun _ => (by simp [readOne, hl, hemp]), fun e he => ?_⟩
    cases he; exact Or.inr rfl
  · obtain ⟨s1, s0, m1, m0, l3, l2, l1, l0, c1, c0, e1, e0, pv, iv, mtb, rcb, rest, rfl⟩ := long_pattern b (by omega)
    have hro : readOne true (s1 :: s0 :: m1 :: m0 :: l3 :: l2 :: l1 :: l0 :: c1 :: c0 :: e1 :: e0 :: pv :: iv :: mtb :: rcb :: rest) =
        match Header.parseFields (u16 s1 s0) (u16 m1 m0) (u32 l3 l2 l1 l0) (u16 c1 c0) (u16 e1 e0) pv iv mtb rcb with
        | .error _ => .ended .parseError
        | .ok (size, h) =>
          if rest.length < size - 8 then .ended .incomplete
          else .msg { h with payload := rest.take (size - 8) } (rest.drop (size - 8)) := by
      unfold readOne
      simp only [hl, if_false, headerOf16]
      cases hpf : Header.parseFields (u16 s1 s0) (u16 m1 m0) (u32 l3 l2 l1 l0) (u16 c1 c0) (u16 e1 e0) pv iv mtb rcb with
      | error e => rfl
      | ok v =>
        obtain ⟨size, h⟩ := v
        have q1 : (s1 :: s0 :: m1 :: m0 :: l3 :: l2 :: l1 :: l0 :: c1 :: c0 :: e1 :: e0 :: pv :: iv :: mtb :: rcb :: rest).length - 16 = rest.length := by
          simp
        have q2 : List.drop 16 (s1 :: s0 :: m1 :: m0 :: l3 :: l2 :: l1 :: l0 :: c1 :: c0 :: e1 :: e0 :: pv :: iv :: mtb :: rcb :: rest) = rest := rfl
        have q3 : List.drop (16 + (size - 8)) (s1 :: s0 :: m1 :: m0 :: l3 :: l2 :: l1 :: l0 :: c1 :: c0 :: e1 :: e0 :: pv :: iv :: mtb :: rcb :: rest) = rest.drop (size - 8) := by
          rw [Nat.add_comm]; rfl
        simp only [q1, q2, q3]
        split <;> simp
    rw [hro]
    simp only [Header.parse]
    cases hpf : Header.parseFields (u16 s1 s0) (u16 m1 m0) (u32 l3 l2 l1 l0) (u16 c1 c0) (u16 e1 e0) pv iv mtb rcb with
    | error e =>
      have := parseFields_error hpf; subst this
      simp
    | ok v =>
      obtain ⟨size, hd⟩ := v
      simp only []
      by_cases hpl : rest.length < size - 8
      · simp [hpl]
      · simp only [hpl, if_false]
        refine ⟨fun h r hh => ?_, fun hh => (by cases hh), fun hh => (by cases hh), fun e he => (by cases he)⟩
        simp only [Except.ok.injEq, Prod.mk.injEq] at hh
        obtain ⟨rfl, rfl⟩ := hh; rfl

/-- the end of a stream read to exhaustion, as the datagram loop would report it -/
def endOfDatagram : Option Err → Option StreamEnd
  | none => some .eofClean
  | some .parse => some .parseError
  | some .incomplete => some .incomplete
  | some _ => none

/-- reading all unread bytes at eof = the datagram loop on the same bytes -/
theorem pump_true_datagram (f g : Nat) (b : Bytes) (hf : b.length < f) (hg : b.length ≤ g) :
    (pump true f { buf := b, stop := none }).1 = (datagramAux g b).1 ∧
    (b ≠ [] → (pump true f { buf := b, stop := none }).2.stop = endOfDatagram (datagramAux g b).2) := by
  induction f generalizing g b with
  | zero => omega
  | succ n ih =>
    by_cases hb : b = []
    · subst hb
      refine ⟨?_, fun h => absurd rfl h⟩
      cases g <;> simp [pump, readOne, datagramAux]
    · cases g with
      | zero => simp at hg; exact absurd hg hb
      | succ m =>
        have hemp : b.isEmpty = false := by cases b <;> simp_all
        simp only [pump, Option.isSome_none, Bool.false_eq_true, if_false, datagramAux, hemp]
        obtain ⟨p1, p2, p3, p4⟩ := parse_readOne b hb
        cases hp : Header.parse b with
        | ok v =>
          obtain ⟨h, r⟩ := v
          have hpr := p1 h r hp
          have hsh := readOne_msg_shorter true b h r hpr
          simp only [hpr]
          obtain ⟨e1, e2⟩ := ih m r (by omega) (by omega)
          refine ⟨by rw [e1], fun _ => ?_⟩
          by_cases hr : r = []
          · subst hr
            cases n with
            | zero => omega
            | succ k => cases m <;> simp [pump, readOne, datagramAux, endOfDatagram]
          · exact e2 hr
        | error e =>
          rcases p4 e hp with rfl | rfl
          · simp [p2 hp, endOfDatagram]
          · simp [p3 hp, endOfDatagram]

/-- AGREEMENT WITH DATAGRAM DECODING: reading the stream to exhaustion yields exactly the messages that
datagram decoding yields from the same bytes, in order; a header the datagram decoder rejects is rejected
with the parse error at the same message position; a stream that ends inside a message ends with the
incomplete-read error and never with a truncated message -/
theorem c18_agrees_with_datagram (b : Bytes) :
    (readStream [b]).1 = (datagram b).1 ∧ (readStream [b]).2 = endOfDatagram (datagram b).2 := by
  have h := feed_then_eof [] [b]
  simp only [List.flatten_cons, List.flatten_nil, List.append_nil, List.nil_append] at h
  have hh : (readStream [b]) = ((pumpAll true { buf := b, stop := none }).1, (pumpAll true { buf := b, stop := none }).2.stop) := h
  rw [hh]
  unfold pumpAll datagram
  obtain ⟨e1, e2⟩ := pump_true_datagram (b.length + 1) b.length b (by simp) (Nat.le_refl _)
  refine ⟨e1, ?_⟩
  by_cases hb : b = []
  · subst hb; simp [pump, readOne, datagramAux, endOfDatagram]
  · exact e2 hb

/-- with any chunking: the combination of the two theorems above -/
theorem c18_any_chunking_agrees (chunks : List Bytes) :
    (readStream chunks).1 = (datagram chunks.flatten).1 ∧ (readStream chunks).2 = endOfDatagram (datagram chunks.flatten).2 := by
  rw [c18_chunking_irrelevant]; exact c18_agrees_with_datagram _

end Someip
