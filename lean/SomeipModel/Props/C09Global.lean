/-
  C09 — whole-run theorems about the TTL handles of the discovery store.
  For EVERY list of events (datagrams incl. malformed ones, API calls, ready callbacks in queue order, timer firings
  in any order the loop allows, clock jumps, reboots, connection loss, server and subscriber activity in between):

    * a stored service with a finite TTL holds the number of exactly ONE pending expiry handle of its
      (address, service) pair - scheduled, or fired and waiting in the ready queue; no second handle exists;
    * a stored service with the infinite TTL and a service that is not stored have NO pending expiry handle:
      infinite entries never expire, and nothing is reported for an entry after it was stopped, flushed by reboot
      detection or connection loss, or has expired;
    * an expiry callback that reaches the head of the ready queue always finds the entry it was armed for, holding
      exactly that handle: a handle that belonged to a removed or refreshed entry can never remove its successor
      (such a handle does not exist any more - it was cancelled when the entry was removed or refreshed).
  Together with `c09_fire_not_early`, `c09_adv_not_past_deadline`, `c09_arm_finite` (deadline = now + ttl at the most
  recent refresh, because every refresh cancels and re-arms) this is the statement of C09 for the discovery store.
-/
import SomeipModel.Lemmas.TimerInv
import SomeipModel.Props.C05Global
namespace Someip
open Stack
set_option linter.unusedSimpArgs false

theorem inv2_runAll (s s' : Stack) (es : List Event) (h : runAll s es = some s') (hi : Inv2 s) : Inv2 s' := by
  induction es generalizing s with
  | nil => simp [runAll] at h; subst h; exact hi
  | cons e t ih =>
    simp only [runAll] at h
    split at h
    · cases h
    · rename_i s1 hs
      exact ih s1 h (inv2_step s s1 e hs hi)

theorem inv2_init (s0 : Stack) (h0 : s0.found = []) (hl : s0.storeLog = [])
    (ht : ∀ t ∈ s0.loop.timers, isSvcExpiry t.cb = false) (hr : ∀ r ∈ s0.loop.ready, isSvcExpiry r.cb = false) : Inv2 s0 := by
  refine ⟨⟨fun a => by simp [keysAt, h0, TStore.get], fun k a => by simp [hl, trackS, keysAt, h0, TStore.get]⟩, ?_⟩
  intro a k
  have h1 : held s0 a k = none := by simp [held, h0, TStore.get, TStore.findKey]
  have h2 : hT s0 a k = [] := by
    unfold hT
    simp only [List.map_eq_nil_iff, List.filter_eq_nil_iff]
    intro t hm hf
    have := ht t hm
    rw [for_svc hf] at this; cases this
  have h3 : hR s0 a k = [] := by
    unfold hR
    simp only [List.map_eq_nil_iff, List.filter_eq_nil_iff]
    intro t hm hf
    have := hr t hm
    rw [for_svc hf] at this; cases this
  rw [h1, h2, h3]; exact ⟨rfl, rfl⟩

/-- WHOLE-RUN TIMER INVARIANT.  `hT s a k` / `hR s a k` are the sequence numbers of the scheduled / already fired
expiry handles of the pair (a, k); `held s a k` is the handle number the stored entry holds (none: not stored or
stored with the infinite TTL). -/
theorem c09_timer_invariant (s0 s : Stack) (es : List Event) (h0 : s0.found = []) (hl : s0.storeLog = [])
    (ht : ∀ t ∈ s0.loop.timers, isSvcExpiry t.cb = false) (hr : ∀ r ∈ s0.loop.ready, isSvcExpiry r.cb = false)
    (hrun : runAll s0 es = some s) (a : Addr) (k : SvcKey) :
    match held s a k with
    | some q => (hT s a k = [q] ∧ hR s a k = []) ∨ (hT s a k = [] ∧ hR s a k = [some q])
    | none => hT s a k = [] ∧ hR s a k = [] := by
  have := (inv2_runAll s0 s es hrun (inv2_init s0 h0 hl ht hr)).2 a k
  unfold Good at this
  split <;> simp_all

/-- a service that is not stored (never offered, stopped, flushed, expired) or stored with the infinite TTL has no
pending expiry handle in any reachable state: it cannot expire -/
theorem c09_no_handle_unless_finite (s0 s : Stack) (es : List Event) (h0 : s0.found = []) (hl : s0.storeLog = [])
    (ht : ∀ t ∈ s0.loop.timers, isSvcExpiry t.cb = false) (hr : ∀ r ∈ s0.loop.ready, isSvcExpiry r.cb = false)
    (hrun : runAll s0 es = some s) (a : Addr) (k : SvcKey) (hnone : held s a k = none) :
    (∀ t ∈ s.loop.timers, t.cb ≠ .expiredSvc a k) ∧ (∀ r ∈ s.loop.ready, r.cb ≠ .expiredSvc a k) := by
  have := c09_timer_invariant s0 s es h0 hl ht hr hrun a k
  rw [hnone] at this
  obtain ⟨h1, h2⟩ := this
  unfold hT at h1; unfold hR at h2
  simp only [List.map_eq_nil_iff, List.filter_eq_nil_iff] at h1 h2
  exact ⟨fun t hm he => h1 t hm (for_iff.mpr he), fun r hm he => h2 r hm (for_iff.mpr he)⟩

/-- an expiry callback at the head of the ready queue belongs to an entry that is stored and holds exactly this
handle - so running it removes the entry it was armed for, never a successor; and a fired handle always carries a
sequence number (it came from `call_later`) -/
theorem c09_expiry_finds_its_entry (s0 s : Stack) (es : List Event) (h0 : s0.found = []) (hl : s0.storeLog = [])
    (ht : ∀ t ∈ s0.loop.timers, isSvcExpiry t.cb = false) (hr : ∀ r ∈ s0.loop.ready, isSvcExpiry r.cb = false)
    (hrun : runAll s0 es = some s) (q : Option Nat) (a : Addr) (k : SvcKey) (rest : List (RItem Cb))
    (hhead : s.loop.ready = ⟨q, .expiredSvc a k⟩ :: rest) :
    ∃ old, TStore.findKey (· == ·) (s.found.get a) k = some old ∧ old.timer = q ∧ q ≠ none :=
  (timerInv_run_expiredSvc s q a k rest hhead (inv2_runAll s0 s es hrun (inv2_init s0 h0 hl ht hr)).2).1

/-- non-vacuity: offer with TTL 3 s, refresh, clock to the deadline, fire, run - the entry expires; the run is
accepted by `runAll` and ends with an empty store, no handles and the log offered, stopped -/
example :
    (runAll ({ watchAll := [0] } : Stack)
      [.input (.dgram 1 true offerDgram), .adv 3000, .fire 0, .run]).map
        (fun s => (s.storeLog.map (·.1), s.loop.timers.length, s.loop.ready.length, s.found.map (·.2.length))) =
      some ([true, false], 0, 0, [0]) := by
  decide +kernel

end Someip
