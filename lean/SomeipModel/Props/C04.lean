/-
  C04 — Two SD stacks converge: offers are discovered, subscriptions established.
  PARTIAL: proved here are (1) the projection lemma that makes every single-stack theorem apply to either
  side of any composed execution (with loss, duplication, reordering and crashes), (2) the coupling of
  discovery to subscription by the auto-subscribe listener, and (3) the restart-first-message theorems:
  the first message of a restarted peer - reboot evidence together with its new Subscribe / Offer - leaves
  the receiver with the new subscription stored, reported and positively acknowledged, resp. the new offer
  stored and reported.  The full convergence bound over all fault schedules is not proved (see DESIGN.md).
-/
import SomeipModel.Model.Net
import SomeipModel.Props.C06
namespace Someip
open Stack
set_option linter.unusedSimpArgs false

/-- PROJECTION: a local step of the composed system is exactly a step of that side's stack model, and does
not touch the other side -/
theorem c04_proj_local_a (n n' : Net) (e : Event) (h : n.step (.sideA e) = some n') :
    n.a.step e = some n'.a ∧ n'.b = n.b := by
  simp only [Net.step] at h
  split at h
  · cases h
  · cases hs : n.a.step e with
    | none => rw [hs] at h; cases h
    | some a' => rw [hs] at h; simp at h; subst h; exact ⟨rfl, rfl⟩

theorem c04_proj_local_b (n n' : Net) (e : Event) (h : n.step (.sideB e) = some n') :
    n.b.step e = some n'.b ∧ n'.a = n.a := by
  simp only [Net.step] at h
  split at h
  · cases h
  · cases hs : n.b.step e with
    | none => rw [hs] at h; cases h
    | some b' => rw [hs] at h; simp at h; subst h; exact ⟨rfl, rfl⟩

/-- PROJECTION: a delivery is an `input (dgram ..)` event of the receiving side - whatever the network did
to the datagram before (delay, reordering, duplication) -/
theorem c04_proj_deliver (n n' : Net) (i : Nat) (h : n.step (.deliver i) = some n') :
    ∃ f, n.flight[i]? = some f ∧
      ((f.toB = true ∧ n.b.step (.input (.dgram f.src f.mc f.bytes)) = some n'.b ∧ n'.a = n.a) ∨
       (f.toB = false ∧ n.a.step (.input (.dgram f.src f.mc f.bytes)) = some n'.a ∧ n'.b = n.b)) := by
  simp only [Net.step] at h
  split at h
  · cases h
  · rename_i f hf
    refine ⟨f, hf, ?_⟩
    split at h
    · rename_i hb; simp at h; subst h; exact Or.inl ⟨hb, rfl, rfl⟩
    · rename_i hb; simp at h; subst h; exact Or.inr ⟨by simpa using hb, rfl, rfl⟩

/-- PROJECTION: loss and duplication only change what is in flight -/
theorem c04_proj_network (n n' : Net) (i : Nat) (h : n.step (.drop i) = some n' ∨ n.step (.dup i) = some n') :
    n'.a = n.a ∧ n'.b = n.b := by
  rcases h with h | h <;> simp only [Net.step] at h
  · split at h
    · simp at h; subst h; exact ⟨rfl, rfl⟩
    · cases h
  · split at h
    · cases h
    · simp at h; subst h; exact ⟨rfl, rfl⟩

/-- PROJECTION: the shared clock advances only when BOTH sides allow it (both idle, no deadline passed) -/
theorem c04_proj_adv (n n' : Net) (t : Nat) (h : n.step (.adv t) = some n') :
    n.a.step (.adv t) = some n'.a ∧ n.b.step (.adv t) = some n'.b := by
  simp only [Net.step] at h
  split at h
  · rename_i a' b' ha hb; simp at h; subst h; exact ⟨ha, hb⟩
  · cases h

/-- COUPLING: the auto-subscribe listener turns 'offered' into a subscription request for the offering
server (with the offer's instance id and major version) and 'stopped' into its withdrawal -/
theorem c04_autosubscribe (s : Stack) (g g' : Eventgroup) (k : SvcKey) (a : Addr) (h : g.forService k.toService = some g') :
    s.listenerOffered (.auto g) k a = s.subscribeEventgroup g' a ∧
    s.listenerStopped (.auto g) k a = s.stopSubscribeEventgroup g' a := by
  simp [listenerOffered, listenerStopped, h]

theorem tstore_get_touch {K : Type} (st : TStore K) (a : Addr) : (st.touch a).get a = st.get a := by
  unfold TStore.touch
  split
  · rfl
  · rename_i h
    unfold TStore.get
    have : st.find? (fun p => decide (p.1 = a)) = none := by
      simp only [List.find?_eq_none]; intro p hp
      simp only [List.any_eq_true, not_exists, not_and] at h
      exact h p hp
    simp [List.find?_append, this]

/-- instance bookkeeping is untouched by the discovery flush -/
theorem getInst_foundStopAllFor (s : Stack) (a : Addr) (i : Nat) : (s.foundStopAllFor a).getInst i = s.getInst i := by
  have hi : (s.foundStopAllFor a).instances = s.instances := by
    unfold foundStopAllFor; simp only []
    rw [foldl_pres (fun s => s.instances) _ (fun s e => ?_)]
    -- notifyService does not touch instances
    show (notifyService (s.cancelTimer (isSvcExpiryFor a e.key) e.timer) false e.key a).instances = s.instances
    unfold notifyService; simp only []
    have hl : ∀ (s : Stack) (l : Listener), (if false = true then s.listenerOffered l e.key a else s.listenerStopped l e.key a).instances = s.instances := by
      intro s l; simp only [Bool.false_eq_true, if_false]
      unfold listenerStopped; split
      · rfl
      · split
        · rfl
        · unfold stopSubscribeEventgroup; split
          · simp only []; split <;> rfl
          · rfl
    rw [foldl_pres (fun s => s.instances) _ (fun s id => hl s _)]
    rw [foldl_pres (fun s => s.instances) _ (fun s p => by
      split
      · rw [foldl_pres (fun s => s.instances) _ (fun s l => hl s l)]
      · rfl)]
    rfl
  unfold getInst; rw [hi]

/-- RESTART, FIRST MESSAGE (server side): the receiver detects the reboot of a subscriber and the same
message carries its new Subscribe.  With one announced, running instance declaring the eventgroup and an
accepting listener, after the message: the flush has emptied the old record, the new subscription is
reported 'subscribed' AFTER everything the flush reported, and exactly one positive acknowledgement with
the requested TTL is queued for the subscriber. -/
theorem c04_restart_first_message_server (s : Stack) (i : Nat) (x : Instance) (tid : Nat) (e : SDEntry) (a : Addr)
    (ho : s.announceOrder = [i]) (hx : s.getInst i = some x) (hrun : x.task = some tid)
    (hm : x.service.matchesSubscribe e = .ok true) (httl : e.ttl ≠ 0) (hacc : (SubKey.ofEntry e).egid ∉ x.nakEgs) :
    ∃ s1 s2 : Stack, s1 = s.rebootDetected a ∧ Grows s s1 ∧
      s1.handleSubscribe e a = s2.queueSend ((SubKey.ofEntry e).ackEntry e.ttl) (some a) ∧
      s2.outs = s1.outs ++ [(s1.loop.now, .subscribed i (SubKey.ofEntry e) a)] := by
  -- state of the instance after the flush
  have h1 : (s.foundStopAllFor a).getInst i = some x := by rw [getInst_foundStopAllFor]; exact hx
  have hao : (s.foundStopAllFor a).announceOrder = [i] := by
    have : (s.foundStopAllFor a).announceOrder = s.announceOrder := by
      unfold foundStopAllFor; simp only []
      rw [foldl_pres (fun s => s.announceOrder) _ (fun s e => ?_)]
      show (notifyService (s.cancelTimer (isSvcExpiryFor a e.key) e.timer) false e.key a).announceOrder = s.announceOrder
      unfold notifyService; simp only []
      have hl : ∀ (s : Stack) (l : Listener), (if false = true then s.listenerOffered l e.key a else s.listenerStopped l e.key a).announceOrder = s.announceOrder := by
        intro s l; simp only [Bool.false_eq_true, if_false]
        unfold listenerStopped; split
        · rfl
        · split
          · rfl
          · unfold stopSubscribeEventgroup; split
            · simp only []; split <;> rfl
            · rfl
      rw [foldl_pres (fun s => s.announceOrder) _ (fun s id => hl s _)]
      rw [foldl_pres (fun s => s.announceOrder) _ (fun s p => by
        split
        · rw [foldl_pres (fun s => s.announceOrder) _ (fun s l => hl s l)]
        · rfl)]
      rfl
    rw [this, ho]
  -- rebootDetected = subsStopAllFor i a after the discovery flush (single announced instance)
  have hrb : s.rebootDetected a = (s.foundStopAllFor a).subsStopAllFor i a := by
    simp [rebootDetected, announcerReboot, hao]
  -- after subsStopAllFor the instance is unchanged except for its (emptied) record of `a`
  have h2 : ∃ x', (s.rebootDetected a).getInst i = some x' ∧ x'.subs.get a = [] ∧ x'.task = x.task ∧
      x'.service = x.service ∧ x'.nakEgs = x.nakEgs := by
    rw [hrb]
    unfold subsStopAllFor
    simp only [h1]
    have hi : i < (s.foundStopAllFor a).instances.length := by
      unfold getInst at h1; exact (List.getElem?_eq_some_iff.mp h1).1
    have key : ∀ (es : List (TSEntry SubKey)) (st : Stack) (y : Instance), st.getInst i = some y →
        (es.foldl (fun s e => (s.cancelTimer (isSubExpiryFor i a e.key) e.timer).emit (.unsubscribed i e.key a)) st).getInst i = some y := by
      intro es; induction es with
      | nil => intro st y h; exact h
      | cons e t ih => intro st y h; rw [List.foldl_cons]; exact ih _ y h
    refine ⟨{ x with subs := (x.subs.touch a).set a [] }, ?_, tstore_get_set_nil _ _, rfl, rfl, rfl⟩
    apply key; simp [getInst, setInst, hi]
  obtain ⟨x', hx', hempty, htask, hsvc, hnak⟩ := h2
  have hao' : (s.rebootDetected a).announceOrder = [i] := by
    rw [hrb]
    have : ((s.foundStopAllFor a).subsStopAllFor i a).announceOrder = (s.foundStopAllFor a).announceOrder := by
      unfold subsStopAllFor; split; rfl; simp only []
      exact (foldl_pres (fun s => s.announceOrder) (fun (s : Stack) (e : TSEntry SubKey) => (s.cancelTimer (isSubExpiryFor i a e.key) e.timer).emit (Out.unsubscribed i e.key a)) (fun s e => rfl) _ _).trans rfl
    rw [this, hao]
  have hnew : TStore.findKey SubKey.same ((x'.subs.touch a).get a) (SubKey.ofEntry e) = none := by
    rw [tstore_get_touch, hempty]; rfl
  obtain ⟨s2, hs2, houts⟩ := c11_accept_new (s.rebootDetected a) i x' e a tid hx' (by rw [htask, hrun])
    (by rw [hsvc]; exact hm) httl hnew (by rw [hnak]; exact hacc)
  refine ⟨_, s2, rfl, grows_rebootDetected s a, ?_, houts⟩
  exact c11_single_instance_match _ _ i e a hao' hs2

/-- RESTART, FIRST MESSAGE (client side): after the flush for sender `a`, an offer of the same message for
a watched service is treated as NEW: it is stored and reported 'offered' (after the 'stopped' reports of
the flush), even if the same service had been stored from the sender's previous incarnation -/
theorem c04_restart_first_message_client (s : Stack) (e : SDEntry) (a : Addr)
    (hw : (s.rebootDetected a).isWatching e = true) (httl : e.ttl ≠ 0) :
    ∃ s1 : Stack, s1 = s.rebootDetected a ∧ Grows s s1 ∧ s1.found.get a = [] ∧
      s1.handleOffer e a = s1.foundRefresh e.ttl a ⟨e.sid, e.iid, e.maj, e.val⟩ ∧
      TStore.findKey (· == ·) ((s1.found.touch a).get a) (⟨e.sid, e.iid, e.maj, e.val⟩ : SvcKey) = none := by
  refine ⟨_, rfl, grows_rebootDetected s a, c05_reboot_flushes s a, ?_, ?_⟩
  · simp [handleOffer, hw, httl]
  · rw [tstore_get_touch, c05_reboot_flushes]; rfl

end Someip
