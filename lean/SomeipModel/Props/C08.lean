/-
  C08 — Outgoing session ids count 1..0xFFFF per destination; reboot flag clears on wrap.
  (The wire-level corollaries for send_sd / notifications live with the stack model.)
-/
import SomeipModel.Spec.Session
import SomeipModel.Lemmas.AList
namespace Someip
open Spec

/-- per destination the memory is (flag, id) of the NEXT transmission: determined by the count so far -/
def SendInv (out : Outgoing) (hist : List Dest) : Prop :=
  ∀ d, (alookup out d).getD (true, 1) = (kthFlag (countBefore hist d), kthId (countBefore hist d))

theorem countBefore_append (hist : List Dest) (d x : Dest) :
    countBefore (hist ++ [d]) x = countBefore hist x + (if d = x then 1 else 0) := by
  simp only [countBefore, List.filter_append, List.length_append, List.filter_cons, List.filter_nil]
  by_cases h : d = x <;> simp [h]

theorem kth_step (n : Nat) :
    (if kthId n ≥ 0xFFFF then (false, 1) else (kthFlag n, kthId n + 1)) = (kthFlag (n + 1), kthId (n + 1)) := by
  unfold kthId kthFlag
  by_cases h : n % 65535 + 1 ≥ 0xFFFF
  · have h1 : (n + 1) % 65535 = 0 := by omega
    have h2 : ¬ (n + 1 < 65535) := by omega
    simp [h, h1, h2]
  · have h1 : (n + 1) % 65535 = n % 65535 + 1 := by omega
    have h2 : (n + 1 < 65535) ↔ (n < 65535) := by omega
    simp [h, h1, h2]

theorem sendInv_step (out : Outgoing) (hist : List Dest) (d : Dest) (h : SendInv out hist) :
    SendInv (assignOutgoing out d).2 (hist ++ [d]) := by
  intro x
  simp only [assignOutgoing, alookup_aset, countBefore_append]
  by_cases hx : x = d
  · subst hx
    simp only [if_true, Option.getD_some, h x, Nat.add_one]
    exact kth_step _
  · have : ¬ (d = x) := fun e => hx e.symm
    simp [hx, this, h x]

theorem runSend_eq (out : Outgoing) (hist ds : List Dest) (h : SendInv out hist) :
    runSend out ds = expectedSends hist ds := by
  induction ds generalizing out hist with
  | nil => rfl
  | cons d r ih =>
    simp only [runSend, expectedSends]
    congr 1
    · simp only [assignOutgoing]; exact h d
    · exact ih _ _ (sendInv_step out hist d h)

/-- for EVERY interleaving of transmissions to any mix of destinations, the k-th message to a
destination carries id k % 65535 + 1 and the reboot flag iff k < 65535, where k counts only the
earlier transmissions to that same destination -/
theorem c08_kth (ds : List Dest) : runSend [] ds = expectedSends [] ds :=
  runSend_eq [] [] ds (fun _ => by simp [alookup_nil, kthFlag, kthId, countBefore])

/-- ids are never 0 and never exceed 0xFFFF -/
theorem c08_never_zero (k : Nat) : 1 ≤ kthId k ∧ kthId k ≤ 0xFFFF := by unfold kthId; omega

/-- no gap, no repeat: the successor of id i is i + 1, except 0xFFFF -> 1 -/
theorem c08_no_gap (k : Nat) : kthId (k + 1) = if kthId k = 0xFFFF then 1 else kthId k + 1 := by
  unfold kthId; split <;> omega

/-- the first 65535 messages to a destination carry the reboot flag, none after the first wrap -/
theorem c08_flag (k : Nat) : kthFlag k = true ↔ k < 65535 := by simp [kthFlag]

/-- independence: traffic to other destinations does not change what destination d sees -/
theorem c08_independent (hist : List Dest) (d : Dest) :
    countBefore hist d = countBefore (hist.filter (fun x => decide (x = d))) d := by
  simp [countBefore, List.filter_filter]

/-- non-vacuity -/
example : runSend [] [none, some 1, none, some 1, some 2] = [(true, 1), (true, 1), (true, 2), (true, 2), (true, 1)] := by decide
example : kthId 65534 = 0xFFFF ∧ kthId 65535 = 1 ∧ kthFlag 65534 = true ∧ kthFlag 65535 = false := by decide

end Someip
