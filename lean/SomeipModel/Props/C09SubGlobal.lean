/-
  C09 / C06 — whole-run theorems about the TTL handles of the per-instance subscription stores (the same TimedStore
  code as for discovered services, second user).  For EVERY list of events, every instance i, subscriber address a and
  subscription key k:
    * a stored subscription with a finite TTL holds exactly one pending expiry handle armed for (i, a, its key) - scheduled
      or fired -, one stored with the infinite TTL and anything not stored has none (so an acknowledged subscription is
      held until its TTL runs out, a StopSubscribe, a reboot of the subscriber or a stop of the service removes it, and is
      then never reported again);
    * an expiry callback at the head of the ready queue finds the entry it was armed for, holding exactly that handle.
-/
import SomeipModel.Lemmas.SubTimerLift
import SomeipModel.Props.C06Global
namespace Someip
open Stack
set_option linter.unusedSimpArgs false

theorem inv6_runAll (s s' : Stack) (es : List Event) (h : runAll s es = some s') (hi : Inv6 s) : Inv6 s' := by
  induction es generalizing s with
  | nil => simp [runAll] at h; subst h; exact hi
  | cons e t ih =>
    simp only [runAll] at h
    split at h
    · cases h
    · rename_i s1 hs
      exact ih s1 h (inv6_event s s1 e hs hi)

theorem inv6_init (s0 : Stack) (ho : s0.outs = []) (hs : ∀ x ∈ s0.instances, x.subs = [])
    (ht : ∀ t ∈ s0.loop.timers, isSubExpiry t.cb = false) (hr : ∀ r ∈ s0.loop.ready, isSubExpiry r.cb = false) : Inv6 s0 := by
  refine ⟨subInv_init s0 ho hs, ?_⟩
  intro i a k
  have h1 : heldU s0 i a k = none := by
    unfold heldU
    cases hsa : subsAt s0 i with
    | none => rfl
    | some st =>
      unfold subsAt at hsa
      simp only [List.getElem?_map, Option.map_eq_some_iff] at hsa
      obtain ⟨x, hx, rfl⟩ := hsa
      rw [hs x (List.mem_of_getElem? hx)]
      rfl
  have h2 : hTU s0 i a k = [] := by
    unfold hTU
    simp only [List.map_eq_nil_iff, List.filter_eq_nil_iff]
    intro t hm hf
    have := ht t hm
    rw [forU_sub hf] at this; cases this
  have h3 : hRU s0 i a k = [] := by
    unfold hRU
    simp only [List.map_eq_nil_iff, List.filter_eq_nil_iff]
    intro t hm hf
    have := hr t hm
    rw [forU_sub hf] at this; cases this
  rw [h1, h2, h3]; exact ⟨rfl, rfl⟩

/-- WHOLE-RUN TIMER INVARIANT of the subscription stores.  `heldU s i a k`: the handle number held by instance i's entry
with exactly the key k at address a; `hTU` / `hRU`: the scheduled / fired expiry handles armed for (i, a, k). -/
theorem c09_sub_timer_invariant (s0 s : Stack) (es : List Event) (ho : s0.outs = []) (hs : ∀ x ∈ s0.instances, x.subs = [])
    (ht : ∀ t ∈ s0.loop.timers, isSubExpiry t.cb = false) (hr : ∀ r ∈ s0.loop.ready, isSubExpiry r.cb = false)
    (hrun : runAll s0 es = some s) (i : Nat) (a : Addr) (k : SubKey) :
    match heldU s i a k with
    | some q => (hTU s i a k = [q] ∧ hRU s i a k = []) ∨ (hTU s i a k = [] ∧ hRU s i a k = [some q])
    | none => hTU s i a k = [] ∧ hRU s i a k = [] := by
  have := (inv6_runAll s0 s es hrun (inv6_init s0 ho hs ht hr)).2 i a k
  unfold Good at this
  split <;> simp_all

/-- a subscription-expiry callback at the head of the ready queue belongs to a stored subscription that holds exactly
this handle: it removes the entry it was armed for, never a successor -/
theorem c09_sub_expiry_finds_its_entry (s0 s : Stack) (es : List Event) (ho : s0.outs = []) (hs : ∀ x ∈ s0.instances, x.subs = [])
    (ht : ∀ t ∈ s0.loop.timers, isSubExpiry t.cb = false) (hr : ∀ r ∈ s0.loop.ready, isSubExpiry r.cb = false)
    (hrun : runAll s0 es = some s) (q : Option Nat) (i : Nat) (a : Addr) (k : SubKey) (rest : List (RItem Cb))
    (hhead : s.loop.ready = ⟨q, .expiredSub i a k⟩ :: rest) :
    ∃ x old, s.getInst i = some x ∧ TStore.findKey SubKey.same (x.subs.get a) k = some old ∧ old.key = k ∧ old.timer = q ∧ q ≠ none :=
  let hi := inv6_runAll s0 s es hrun (inv6_init s0 ho hs ht hr)
  (subTimer_run_expiredSub s q i a k rest hhead hi.1 hi.2).1

end Someip
