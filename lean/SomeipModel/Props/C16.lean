/-
  C16 — Method calls get exactly one correctly correlated reply.
-/
import SomeipModel.Spec.Reply
import SomeipModel.Spec.Wire
set_option linter.unusedSimpArgs false
namespace Someip
open Spec

/-- the dispatch chain of the code produces exactly the reply table of the statement, for every
message, every handler behaviour and both channels -/
theorem c16_reply_spec (c : SvcCfg) (m : Header) (mc : Bool) :
    c.messageReceived m mc = Spec.reply c m mc := by
  unfold SvcCfg.messageReceived Spec.reply
  by_cases hmc : mc = true
  · simp [hmc]
  · simp only [hmc, Bool.false_eq_true, if_false]
    unfold firstFailing checks
    by_cases h1 : m.sid ≠ c.serviceId
    · simp [h1, errorReply, echo]
    · by_cases h2 : m.iv ≠ c.versionMajor
      · simp [h1, h2, errorReply, echo]
      · cases hm : c.method m.mid with
        | none => simp [h1, h2, hm, errorReply, echo]
        | some h =>
          by_cases h3 : m.mt ≠ .request ∧ m.mt ≠ .requestNoReturn
          · simp [h1, h2, hm, h3, errorReply, echo]
          · by_cases h4 : m.rc ≠ .ok
            · simp [h1, h2, hm, h3, h4, errorReply, echo]
            · simp only [ne_eq, Decidable.not_not] at h1 h2 h4
              cases h with
              | malformed => simp [h1, h2, hm, h3, h4, errorReply, echo]
              | nothing => simp [h1, h2, hm, h3, h4]
              | bytes b =>
                by_cases h5 : m.mt = .request
                · simp [h1, h2, hm, h4, h5, positiveReply, echo]
                · simp [h1, h2, hm, h3, h4, h5]
                  cases hmt : m.mt <;> simp_all

/-- at most one reply per message -/
theorem c16_at_most_one (c : SvcCfg) (m : Header) (mc : Bool) : (c.messageReceived m mc).length ≤ 1 := by
  rw [c16_reply_spec]; unfold Spec.reply
  split
  · simp
  · split
    · simp
    · split <;> simp

/-- messages received over multicast are never answered -/
theorem c16_multicast_silent (c : SvcCfg) (m : Header) : c.messageReceived m true = [] := by
  simp [SvcCfg.messageReceived]

/-- every reply echoes service, method, client and session id, protocol and interface version -/
theorem c16_correlated (c : SvcCfg) (m r : Header) (mc : Bool) (h : r ∈ c.messageReceived m mc) :
    r.sid = m.sid ∧ r.mid = m.mid ∧ r.cid = m.cid ∧ r.sess = m.sess ∧ r.iv = m.iv ∧ r.pv = m.pv := by
  rw [c16_reply_spec] at h; unfold Spec.reply at h
  split at h
  · simp at h
  · split at h
    · simp at h; subst h; simp [echo]
    · split at h <;> simp at h
      subst h; simp [echo]

/-- a RESPONSE is sent only for a REQUEST to a registered method whose handler returned a payload,
and carries return code OK and that payload; ERROR replies have an empty payload -/
theorem c16_response_iff (c : SvcCfg) (m r : Header) (mc : Bool) (h : r ∈ c.messageReceived m mc) :
    (r.mt = .response → m.mt = .request ∧ r.rc = .ok ∧ c.method m.mid = some (.bytes r.payload)) ∧
    (r.mt ≠ .response → r.mt = .error ∧ r.payload = []) := by
  rw [c16_reply_spec] at h; unfold Spec.reply at h
  split at h
  · simp at h
  · split at h
    · simp at h; subst h; simp [echo]
    · split at h
      · rename_i b hm hmt
        simp at h; subst h; simp [echo, hm, hmt]
      · simp at h

/-- fire-and-forget requests never get a RESPONSE -/
theorem c16_no_return_no_response (c : SvcCfg) (m r : Header) (mc : Bool) (hm : m.mt = .requestNoReturn)
    (h : r ∈ c.messageReceived m mc) : r.mt ≠ .response := by
  intro hr
  have := (c16_response_iff c m r mc h).1 hr
  rw [hm] at this; exact absurd this.1 (by decide)

/-- precedence: the first failing check decides, also when several fail at once -/
theorem c16_precedence_service (c : SvcCfg) (m : Header) (h : m.sid ≠ c.serviceId) :
    c.messageReceived m false = [echo m .error .unknownService []] := by
  rw [c16_reply_spec]; simp [Spec.reply, firstFailing, checks, h]
theorem c16_precedence_version (c : SvcCfg) (m : Header) (h1 : m.sid = c.serviceId) (h : m.iv ≠ c.versionMajor) :
    c.messageReceived m false = [echo m .error .wrongInterfaceVersion []] := by
  rw [c16_reply_spec]; simp [Spec.reply, firstFailing, checks, h, h1]
theorem c16_precedence_method (c : SvcCfg) (m : Header) (h1 : m.sid = c.serviceId) (h2 : m.iv = c.versionMajor)
    (h : c.method m.mid = none) : c.messageReceived m false = [echo m .error .unknownMethod []] := by
  rw [c16_reply_spec]; simp [Spec.reply, firstFailing, checks, h, h1, h2]

/-- a reply to a decodable message is itself representable (so C01 applies to what is sent) -/
theorem c16_reply_fits (c : SvcCfg) (m r : Header) (mc : Bool) (hm : FitsNum m)
    (hb : ∀ mid b, c.method mid = some (.bytes b) → b.length + 8 < 4294967296)
    (h : r ∈ c.messageReceived m mc) : FitsNum r := by
  obtain ⟨h1, h2, h3, h4, h5, h6⟩ := c16_correlated c m r mc h
  obtain ⟨m1, m2, m3, m4, m5, m6, _⟩ := hm
  refine ⟨by omega, by omega, by omega, by omega, by omega, by omega, ?_⟩
  by_cases hr : r.mt = .response
  · have := (c16_response_iff c m r mc h).1 hr
    exact hb _ _ this.2.2
  · have := (c16_response_iff c m r mc h).2 hr
    simp [this.2]

/-- non-vacuity: a request that gets a RESPONSE, and one failing two checks at once -/
def c16_cfg : SvcCfg := { serviceId := 0x1234, versionMajor := 3, methods := [(1, .bytes [1, 2, 3]), (2, .nothing), (3, .malformed)] }
example : c16_cfg.messageReceived { sid := 0x1234, mid := 1, cid := 9, sess := 7, iv := 3, mt := .request } false =
    [{ sid := 0x1234, mid := 1, cid := 9, sess := 7, iv := 3, mt := .response, payload := [1, 2, 3] }] := by decide
example : c16_cfg.messageReceived { sid := 0x9999, mid := 77, cid := 9, sess := 7, iv := 8, mt := .error, rc := .notOk } false =
    [{ sid := 0x9999, mid := 77, cid := 9, sess := 7, iv := 8, mt := .error, rc := .unknownService }] := by decide

end Someip
