/-
  C13 — whole runs: the number of FindService messages is bounded per start.

  `s.findLog`        : ghost - (find task, round index) of every FindService message handed to `send_sd`, in order
                       (what such a message contains is `c13_round`: exactly the watched filters without a stored match);
  `rounds log n`     : the round indices task `n` has sent.
  For EVERY list of events from a fresh stack:
   * every find task has sent the rounds 0, 1, 2, ... m-1 in this order, each once, with m ≤ 1 + REPETITIONS_MAX
     (`c13_rounds_bounded`): at most the configured number of repetitions after the first round, none twice, none skipped;
   * a find task that can still send (not finished, not cancelled) is the task the discovery holds: there is at most one
     such task at any time (`c13_one_live_find_task`), so between two starts at most 1 + REPETITIONS_MAX FindService
     messages leave;
   * a task standing before its first round has sent nothing, a task at repetition k has sent exactly rounds 0..k
     (`c13_sent_matches_phase`).
  The timing of the rounds (initial delay window, doubling delays) is per operation: c13_first_delay, c13_next_round.
-/
import SomeipModel.Lemmas.FindSteps
import SomeipModel.Props.C05Global
namespace Someip
open Stack
set_option linter.unusedSimpArgs false

theorem finv_runAll (s s' : Stack) (es : List Event) (h : runAll s es = some s') (hi : FInv s) : FInv s' := by
  induction es generalizing s with
  | nil => simp [runAll] at h; subst h; exact hi
  | cons e t ih =>
    simp only [runAll] at h
    split at h
    · cases h
    · rename_i s1 hs
      exact ih s1 h (finv_step s s1 e hs hi)

theorem finv_fresh (s0 : Stack) (ht : s0.tasks = []) (hl : s0.findLog = []) : FInv s0 := by
  have e : ftasks s0 = [] := by unfold ftasks; rw [ht]; rfl
  refine ⟨?_, ?_, ?_, ?_, ?_⟩
  · rw [e]; intro p hp; cases hp
  · rw [e]; intro p hp; cases hp
  · intro n _; rw [hl]; rfl
  · intro n t h; unfold ftask at h; rw [e] at h; simp [alookup] at h
  · intro n t h; unfold ftask at h; rw [e] at h; simp [alookup] at h

/-- BOUNDED, IN ORDER, EACH ONCE: whatever happened, find task `n` has sent the rounds 0 .. m-1 with m ≤ 1 + REPETITIONS_MAX -/
theorem c13_rounds_bounded (s0 s : Stack) (es : List Event) (ht : s0.tasks = []) (hl : s0.findLog = [])
    (hrun : runAll s0 es = some s) (n : Nat) :
    ∃ m, m ≤ s.tm.repetitionsMax + 1 ∧ rounds s.findLog n = List.range m := by
  have hi := finv_runAll s0 s es hrun (finv_fresh s0 ht hl)
  cases hft : ftask s n with
  | none => exact ⟨0, Nat.zero_le _, hi.nolog n hft⟩
  | some t => exact sentAt_done (hi.log n t hft)

/-- what a task has sent matches where it stands: nothing before its first round, exactly the rounds 0..k at repetition k
(and then k < REPETITIONS_MAX) -/
theorem c13_sent_matches_phase (s0 s : Stack) (es : List Event) (ht : s0.tasks = []) (hl : s0.findLog = [])
    (hrun : runAll s0 es = some s) (n : Nat) (t : TaskSt) (h : s.getTask (.find, n) = some t) :
    sentAt s.tm.repetitionsMax t.pc (rounds s.findLog n) := by
  have hi := finv_runAll s0 s es hrun (finv_fresh s0 ht hl)
  rw [getTask_find] at h
  exact hi.log n t h

/-- a find task that can still send a round is the one the discovery holds - so at most one such task exists -/
theorem c13_one_live_find_task (s0 s : Stack) (es : List Event) (ht : s0.tasks = []) (hl : s0.findLog = [])
    (hrun : runAll s0 es = some s) (n : Nat) (t : TaskSt) (h : s.getTask (.find, n) = some t)
    (hpc : t.pc ≠ .done) (hc : t.cancelled = false) : s.findTask = some n := by
  have hi := finv_runAll s0 s es hrun (finv_fresh s0 ht hl)
  rw [getTask_find] at h
  exact hi.own n t h hpc hc

/-! non-vacuity: a watched service that is never offered, default timings (3 repetitions): the task sends rounds 0,1,2,3 -/
def watchedX : Service := { sid := 0x1234, iid := 1, maj := 1, min := 0 }
def watchX : List Event := [.input (.watch watchedX (.ext 0)), .input .start, .run, .run, .run,
  .adv 10, .fire 1, .run, .run, .adv 30, .fire 2, .run, .run, .adv 70, .fire 3, .run, .run]
example : (runAll {} watchX).map (fun s => (rounds s.findLog 0, s.tm.repetitionsMax)) = some ([0, 1, 2, 3], 3) := by
  decide +kernel

end Someip
