/-
  C10 / C12 — whole runs: who can send offers and who answers FindService requests.

  For EVERY list of events from a fresh stack:
   * an offer task that can still send (not finished, not cancelled) is the task its instance holds
     (`c10_live_offer_task_is_owned`); hence a STOPPED instance has no task that can send an offer
     (`c10_stopped_instance_has_no_live_task`) - what remains of its old task can only run the cancellation handler (the
     StopOffer of a cyclic instance: c10_cancel_after_offer_cyclic) - and a running instance has exactly one;
   * an instance whose `_can_answer_offers` flag is set is running, and the task it holds has sent the first offer
     (`c12_can_answer_means_offered`); so every instance that answers a FindService entry (`answering`) is running and past
     its initial wait phase (`c12_answering_instances_have_offered`), and a stopped instance or one in its initial wait
     phase answers nobody - in every reachable state, not only right after the stop;
   * with the guard of `_send_offer` (gen_sendOffer_tie) this is the statement's "from then until it is started again no
     offer with a non-zero TTL for it is sent to anyone, not even as a delayed answer": a delayed answer runs `sendOffer`
     with stop = false, which is suppressed while the instance holds no task or cannot answer.
  Not part of these theorems: the timing of the phases (per operation: c10_next_delay, c10_sleep_timer) and the count of
  StopOffers per stop (per operation + oracle).
-/
import SomeipModel.Lemmas.OffSteps
import SomeipModel.Props.C05Global
namespace Someip
open Stack
set_option linter.unusedSimpArgs false

theorem offinv_runAll (s s' : Stack) (es : List Event) (h : runAll s es = some s') (hi : OffInv s) : OffInv s' := by
  induction es generalizing s with
  | nil => simp [runAll] at h; subst h; exact hi
  | cons e t ih =>
    simp only [runAll] at h
    split at h
    · cases h
    · rename_i s1 hs
      exact ih s1 h (offinv_step s s1 e hs hi)

/-- a stack whose instances have not been started and that has no tasks yet -/
structure FreshOff (s0 : Stack) : Prop where
  tasks : s0.tasks = []
  stopped : ∀ x ∈ s0.instances, x.task = none ∧ x.canAnswer = false

theorem offinv_fresh (s0 : Stack) (h : FreshOff s0) : OffInv s0 := by
  have e : otasks s0 = [] := by unfold otasks; rw [h.tasks]; rfl
  refine ⟨?_, ?_, ?_, ?_⟩
  · rw [e]; intro p hp; cases hp
  · rw [e]; intro p hp; cases hp
  · intro i n t ht; unfold otask at ht; rw [e] at ht; simp [alookup] at ht
  · intro i r hr
    unfold itc at hr
    rw [List.getElem?_map] at hr
    cases hx : s0.instances[i]? with
    | none => rw [hx] at hr; cases hr
    | some x =>
      rw [hx] at hr
      have hm : x ∈ s0.instances := List.mem_of_getElem? hx
      have := (h.stopped x hm).2
      simp at hr; rw [this] at hr; cases hr.2

/-- an offer task that can still send is the task its instance holds -/
theorem c10_live_offer_task_is_owned (s0 s : Stack) (es : List Event) (h0 : FreshOff s0) (hrun : runAll s0 es = some s)
    (i n : Nat) (t : TaskSt) (ht : s.getTask (.offer i, n) = some t) (hpc : t.pc ≠ .done) (hc : t.cancelled = false) :
    ∃ x, s.getInst i = some x ∧ x.task = some n := by
  have hi := offinv_runAll s0 s es hrun (offinv_fresh s0 h0)
  rw [getTask_offer] at ht
  obtain ⟨c, h1⟩ := hi.own i n t ht hpc hc
  cases hx : s.getInst i with
  | none => rw [itc_none hx] at h1; cases h1
  | some x =>
    rw [itc_getInst hx] at h1
    exact ⟨x, rfl, by simpa using (Prod.mk.inj (Option.some.inj h1)).1⟩

/-- NOTHING FOLLOWS A STOP: a stopped instance has no offer task that can still send an offer -/
theorem c10_stopped_instance_has_no_live_task (s0 s : Stack) (es : List Event) (h0 : FreshOff s0) (hrun : runAll s0 es = some s)
    (i : Nat) (x : Instance) (hx : s.getInst i = some x) (hstopped : x.task = none)
    (n : Nat) (t : TaskSt) (ht : s.getTask (.offer i, n) = some t) : t.pc = .done ∨ t.cancelled = true := by
  by_cases hpc : t.pc = .done
  · exact Or.inl hpc
  · cases hc : t.cancelled
    · obtain ⟨x', hx', hn⟩ := c10_live_offer_task_is_owned s0 s es h0 hrun i n t ht hpc hc
      rw [hx] at hx'; cases hx'; rw [hstopped] at hn; cases hn
    · exact Or.inr rfl

/-- an instance that answers requests is running and its task has sent the first offer -/
theorem c12_can_answer_means_offered (s0 s : Stack) (es : List Event) (h0 : FreshOff s0) (hrun : runAll s0 es = some s)
    (i : Nat) (x : Instance) (hx : s.getInst i = some x) (hca : x.canAnswer = true) :
    ∃ n t, x.task = some n ∧ s.getTask (.offer i, n) = some t ∧ offeredPc t.pc = true := by
  have hi := offinv_runAll s0 s es hrun (offinv_fresh s0 h0)
  have h1 : itc s i = some (x.task, true) := by rw [itc_getInst hx, hca]
  obtain ⟨n, t, h2, h3, h4⟩ := hi.ans i x.task h1
  exact ⟨n, t, h2, by rw [getTask_offer]; exact h3, h4⟩

/-- WHO ANSWERS A FINDSERVICE ENTRY: only running instances past their initial wait phase -/
theorem c12_answering_instances_have_offered (s0 s : Stack) (es : List Event) (h0 : FreshOff s0) (hrun : runAll s0 es = some s)
    (e : SDEntry) (i : Nat) (hi : i ∈ s.answering e) :
    ∃ x n t, s.getInst i = some x ∧ x.task = some n ∧ s.getTask (.offer i, n) = some t ∧ offeredPc t.pc = true := by
  unfold answering at hi
  rw [List.mem_filter] at hi
  obtain ⟨_, h2⟩ := hi
  cases hx : s.getInst i with
  | none => rw [hx] at h2; cases h2
  | some x =>
    rw [hx] at h2
    simp only [Bool.and_eq_true] at h2
    obtain ⟨n, t, h3, h4, h5⟩ := c12_can_answer_means_offered s0 s es h0 hrun i x hx h2.1
    exact ⟨x, n, t, rfl, h3, h4, h5⟩

/-! non-vacuity: one announced instance, default timings: after its first offer it answers; after a stop it has no live task -/
def svcY : Service := { sid := 0x1111, iid := 1, maj := 1, min := 1 }
def stackY : Stack := { instances := [{ service := svcY }] }
def runY : List Event := [.input (.announce 0), .input .start, .run, .run, .run, .run]
example : FreshOff stackY := ⟨rfl, by intro x hx; simp [stackY] at hx; subst hx; exact ⟨rfl, rfl⟩⟩
example : (runAll stackY runY).map (fun s => s.instances.map (fun x => (x.task, x.canAnswer))) = some [(some 0, true)] := by
  decide +kernel
example : (runAll stackY (runY ++ [.input (.stopAnnounce 0 true)])).map
    (fun s => (s.instances.map (fun x => (x.task, x.canAnswer)), (s.getTask (.offer 0, 0)).map (fun t => t.cancelled))) =
    some ([(none, false)], some true) := by
  decide +kernel

end Someip
