/-
  C05 — the 'whenever' direction: what makes a service stored, and what alone can remove it.
  Together with the whole-run theorems `c05_store_history_truthful_alternating` (stored <=> the store said 'offered'
  last), `c05_listener_history_truthful_alternating` (a listener was told 'offered' last <=> stored and registered) and
  `c05_stored_is_within_ttl` (stored => within the TTL of the most recent accepted offer) this closes the chain
  "a live offer that arrived while the listener was registered  =>  the listener's latest word is 'offered'":
    * an offer (TTL > 0) that is not ignored is stored afterwards and every listener registered for it has 'offered'
      as its latest word right then (`c05_watched_offer_is_stored`, `c05_registered_listener_told_on_offer`);
    * a stop-offer removes exactly that service of that sender, an expiry callback exactly its own service, a reboot
      everything of that sender (`c05_stop_offer_is_unstored`, `keysAt_*`);
    * nothing else ever changes the store: only datagrams, the expiry callback of a service and the discovery part of
      connection loss do (`c05_store_changes_only_by`) - no API call, no timer of another component, no task step.
  The one gap is known finding D10b: an offer that is *ignored* because nobody watches (isWatching = false) does not
  update a stored entry.
-/
import SomeipModel.Props.C05Listener
namespace Someip
open Stack
set_option linter.unusedSimpArgs false
set_option linter.unusedVariables false

namespace Stack

theorem keysAt_foundRefresh (s : Stack) (ttl : Nat) (a : Addr) (k : SvcKey) (hk : (keysAt s a).Nodup) (a' : Addr) :
    keysAt (s.foundRefresh ttl a k) a' =
      if a' = a then (keysAt s a).filter (fun y => decide (y ≠ k)) ++ [k] else keysAt s a' := by
  unfold foundRefresh
  simp only []
  cases hf : TStore.findKey (· == ·) ((s.found.touch a).get a) k with
  | some old =>
    simp only []
    have hd : disc ((({ s with found := s.found.touch a } : Stack).cancelTimer (isSvcExpiryFor a k) old.timer).armTtl ttl (.expiredSvc a k)).1
        = (s.found.touch a, s.storeLog) := by rw [disc_armTtl, disc_cancelTimer]; rfl
    have hfound : ((({ s with found := s.found.touch a } : Stack).cancelTimer (isSvcExpiryFor a k) old.timer).armTtl ttl (.expiredSvc a k)).1.found = s.found.touch a := congrArg Prod.fst hd
    unfold keysAt; simp only [hfound]
    by_cases ha : a' = a
    · subst ha
      simp only [if_true, tget_set_same, List.map_append, List.map_cons, List.map_nil, keys_eraseKey, tget_touch]
    · rw [if_neg ha, tget_set_other _ _ _ _ ha, tget_touch, tget_touch]
  | none =>
    simp only []
    have hkn : k ∉ keysAt s a := by
      have := findKey_none hf; rw [tget_touch] at this; exact this
    have hd0 := disc_notifyService ({ s with found := s.found.touch a } : Stack) true k a
    have hd : disc ((({ s with found := s.found.touch a } : Stack).notifyService true k a).armTtl ttl (.expiredSvc a k)).1
        = (s.found.touch a, s.storeLog ++ [(true, k, a)]) := by rw [disc_armTtl, hd0]
    have hfound : ((({ s with found := s.found.touch a } : Stack).notifyService true k a).armTtl ttl (.expiredSvc a k)).1.found = s.found.touch a := congrArg Prod.fst hd
    unfold keysAt; simp only [hfound]
    by_cases ha : a' = a
    · subst ha
      simp only [if_true, tget_set_same, List.map_append, List.map_cons, List.map_nil, tget_touch]
      congr 1
      symm
      apply List.filter_eq_self.mpr
      intro y hy
      simp only [decide_eq_true_eq]
      intro e; subst e; exact hkn hy
    · rw [if_neg ha, tget_set_other _ _ _ _ ha, tget_touch, tget_touch]

theorem keysAt_erased {s s' : Stack} (a : Addr) (k : SvcKey)
    (hfound : s'.found = (s.found.touch a).set a (TStore.eraseKey (· == ·) ((s.found.touch a).get a) k)) (a' : Addr) :
    keysAt s' a' = if a' = a then (keysAt s a).filter (fun y => decide (y ≠ k)) else keysAt s a' := by
  unfold keysAt; rw [hfound]
  by_cases ha : a' = a
  · subst ha; simp only [if_true, tget_set_same, keys_eraseKey, tget_touch]
  · simp only [ha, if_false, tget_set_other _ _ _ _ ha, tget_touch]

theorem filter_ne_of_not_mem {k : SvcKey} {l : List SvcKey} (h : k ∉ l) : l.filter (fun y => decide (y ≠ k)) = l := by
  apply List.filter_eq_self.mpr
  intro y hy
  simp only [decide_eq_true_eq]
  intro e; subst e; exact h hy

theorem keysAt_foundStop (s : Stack) (a : Addr) (k : SvcKey) (a' : Addr) :
    keysAt (s.foundStop a k) a' = if a' = a then (keysAt s a).filter (fun y => decide (y ≠ k)) else keysAt s a' := by
  unfold foundStop
  simp only []
  cases hf : TStore.findKey (· == ·) ((s.found.touch a).get a) k with
  | none =>
    simp only []
    have hkn : k ∉ keysAt s a := by
      have := findKey_none hf; rw [tget_touch] at this; exact this
    rw [filter_ne_of_not_mem hkn]
    unfold keysAt
    simp only [tget_touch]
    split <;> simp_all
  | some old =>
    simp only []
    have hd := disc_notifyService (({ s with found := (s.found.touch a).set a (TStore.eraseKey (· == ·) ((s.found.touch a).get a) k) } : Stack).cancelTimer (isSvcExpiryFor a k) old.timer) false k a
    exact keysAt_erased a k (congrArg Prod.fst hd) a'

theorem keysAt_expiredSvc (s : Stack) (a : Addr) (k : SvcKey) (a' : Addr) :
    keysAt (s.expiredSvc a k) a' = if a' = a then (keysAt s a).filter (fun y => decide (y ≠ k)) else keysAt s a' := by
  unfold expiredSvc
  simp only []
  cases hf : TStore.findKey (· == ·) ((s.found.touch a).get a) k with
  | none =>
    simp only []
    have hkn : k ∉ keysAt s a := by
      have := findKey_none hf; rw [tget_touch] at this; exact this
    rw [filter_ne_of_not_mem hkn]
    unfold keysAt
    simp only [tget_touch]
    split <;> simp_all
  | some old =>
    simp only []
    have hd := disc_notifyService ({ s with found := (s.found.touch a).set a (TStore.eraseKey (· == ·) ((s.found.touch a).get a) k) } : Stack) false k a
    exact keysAt_erased a k (congrArg Prod.fst hd) a'

end Stack

/-- the key an offer entry is about -/
def offerKey (e : SDEntry) : SvcKey := ⟨e.sid, e.iid, e.maj, e.val⟩

/-- STORED ON ARRIVAL: an offer with a non-zero TTL that is not ignored (somebody's filter accepts it, or somebody
watches everything) is stored for its sender afterwards; no other service and no other sender is affected -/
theorem c05_watched_offer_is_stored (s : Stack) (e : SDEntry) (a : Addr) (hS : StoreInv s)
    (hw : s.isWatching e = true) (httl : e.ttl ≠ 0) :
    offerKey e ∈ keysAt (s.handleOffer e a) a ∧
    ∀ k' a', (a' ≠ a ∨ k' ≠ offerKey e) → (k' ∈ keysAt (s.handleOffer e a) a' ↔ k' ∈ keysAt s a') := by
  have he : s.handleOffer e a = s.foundRefresh e.ttl a (offerKey e) := by
    simp [handleOffer, hw, httl, offerKey]
  rw [he]
  refine ⟨?_, ?_⟩
  · rw [keysAt_foundRefresh s _ a _ (hS.1 a), if_pos rfl]; simp
  · intro k' a' hne
    rw [keysAt_foundRefresh s _ a _ (hS.1 a)]
    by_cases ha : a' = a
    · subst ha
      have hk : k' ≠ offerKey e := by rcases hne with h | h; exact absurd rfl h; exact h
      simp [mem_filter_ne, hk]
    · rw [if_neg ha]

/-- WITHDRAWN: a stop-offer (TTL 0) leaves its service not stored for its sender - watched or not -, and touches
nothing else -/
theorem c05_stop_offer_is_unstored (s : Stack) (e : SDEntry) (a : Addr) (httl : e.ttl = 0) :
    offerKey e ∉ keysAt (s.handleOffer e a) a ∧
    ∀ k' a', (a' ≠ a ∨ k' ≠ offerKey e) → (k' ∈ keysAt (s.handleOffer e a) a' ↔ k' ∈ keysAt s a') := by
  have he : s.handleOffer e a = s.foundStop a (offerKey e) := by
    unfold handleOffer offerKey; simp only [httl, if_true]; split <;> rfl
  rw [he]
  refine ⟨?_, ?_⟩
  · rw [keysAt_foundStop, if_pos rfl]; simp [mem_filter_ne]
  · intro k' a' hne
    rw [keysAt_foundStop]
    by_cases ha : a' = a
    · subst ha
      have hk : k' ≠ offerKey e := by rcases hne with h | h; exact absurd rfl h; exact h
      simp [mem_filter_ne, hk]
    · rw [if_neg ha]

/-- EXPIRY removes exactly its own service of its own sender -/
theorem c05_expiry_removes_only_its_service (s : Stack) (a : Addr) (k : SvcKey) :
    k ∉ keysAt (s.expiredSvc a k) a ∧
    ∀ k' a', (a' ≠ a ∨ k' ≠ k) → (k' ∈ keysAt (s.expiredSvc a k) a' ↔ k' ∈ keysAt s a') := by
  refine ⟨?_, ?_⟩
  · rw [keysAt_expiredSvc, if_pos rfl]; simp [mem_filter_ne]
  · intro k' a' hne
    rw [keysAt_expiredSvc]
    by_cases ha : a' = a
    · subst ha
      have hk : k' ≠ k := by rcases hne with h | h; exact absurd rfl h; exact h
      simp [mem_filter_ne, hk]
    · rw [if_neg ha]

/-- TOLD ON ARRIVAL: in any state reached by a run (the invariant `SL` holds there), when an offer that is not ignored
arrives, every application listener registered for its service (holding one registration) has 'offered' as its latest
word for (service, sender) immediately afterwards, with the alternation intact -/
theorem c05_registered_listener_told_on_offer (s : Stack) (hi : SL s) (e : SDEntry) (a : Addr)
    (hw : s.isWatching e = true) (httl : e.ttl ≠ 0) (hdup : s.lisDup = false) (l : LId) (hreg : regsK s l (offerKey e) = 1) :
    trackS (offerKey e) a (some false) (llog (s.handleOffer e a) l) = some true := by
  have hS' := storeInv_handleOffer s e a hi.1
  have hR := noteRel_handleOffer s e a
  have hi' := sl_of_noteRel hS' hR (an_handleOffer s e a hi.2.an) hi
  have hd' : (s.handleOffer e a).lisDup = false := by rw [hR.2.2.1]; exact hdup
  have ht := (hi'.2.told hd').2 l (offerKey e) a
  have hreg' : regsK (s.handleOffer e a) l (offerKey e) = 1 := by
    unfold regsK; rw [watchersOf_congr hR.1 hR.2.1]; exact hreg
  rw [ht, hreg']
  have := (c05_watched_offer_is_stored s e a hi.1 hw httl).1
  simp [this]

/-- NOTHING ELSE: the store of found services changes only through a datagram, the expiry callback of a found service
or the discovery part of a connection loss.  Every other event - every API call, every other callback, every timer
firing, every clock step - leaves it exactly as it is. -/
theorem c05_store_changes_only_by (s s' : Stack) (e : Event) (h : s.step e = some s') :
    s'.found = s.found ∨ (∃ a mc b, e = .input (.dgram a mc b)) ∨
      (e = .run ∧ ∃ cb l, s.loop.pop = some (cb, l) ∧ (cb = .connLost .discovery ∨ ∃ a k, cb = .expiredSvc a k)) := by
  have fd : ∀ {x y : Stack}, disc x = disc y → x.found = y.found := fun h => congrArg Prod.fst h
  cases e with
  | input x =>
    simp only [step, Option.some.injEq] at h; subst h
    cases x with
    | dgram a mc b => exact Or.inr (Or.inl ⟨a, mc, b, rfl⟩)
    | start => exact Or.inl (fd (disc_start s))
    | stop => exact Or.inl (fd (disc_stop s))
    | connLost => exact Or.inl (fd (disc_connectionLost s))
    | watch f l => exact Or.inl (fd (disc_watchService s f l))
    | unwatch f l => exact Or.inl (fd (disc_stopWatchService s f l))
    | watchAll id => exact Or.inl (fd (disc_watchAllServices s id))
    | unwatchAll id => exact Or.inl (fd (disc_stopWatchAllServices s id))
    | subscribe g d => exact Or.inl (fd (disc_subscribeEventgroup s g d))
    | stopSubscribe g d => exact Or.inl (fd (disc_stopSubscribeEventgroup s g d true))
    | announce i => exact Or.inl (fd (disc_announceService s i))
    | stopAnnounce i b => exact Or.inl (fd (disc_stopAnnounceService s i b))
    | setNak i egs =>
      simp only [applyInput]
      split
      · exact Or.inl (fd (disc_setInst s i _))
      · exact Or.inl rfl
    | draws ds => exact Or.inl rfl
    | announcerStop => exact Or.inl (fd (disc_announcerStop s))
    | announcerStart => exact Or.inl (fd (disc_announcerStart s))
  | run =>
    simp only [step] at h
    cases hp : s.loop.pop with
    | none => rw [hp] at h; cases h
    | some p =>
      obtain ⟨cb, l⟩ := p
      rw [hp] at h
      simp only [Option.some.injEq] at h; subst h
      cases cb with
      | connLost p =>
        cases p with
        | subscriber => exact Or.inl (fd (disc_subscriberStop _ false))
        | discovery => exact Or.inr (Or.inr ⟨rfl, _, _, rfl, Or.inl rfl⟩)
        | announcer => exact Or.inl (fd (disc_announcerStop _))
      | expiredSvc a k => exact Or.inr (Or.inr ⟨rfl, _, _, rfl, Or.inr ⟨a, k, rfl⟩⟩)
      | expiredSub i a k => exact Or.inl (fd (disc_expiredSub _ i a k))
      | sendStartSubscribe d egs => exact Or.inl (fd (disc_sendSubscribe _ _ d egs))
      | sendStopSubscribe d egs => exact Or.inl (fd (disc_sendSubscribe _ _ d egs))
      | sendOfferTo i a => exact Or.inl (fd (disc_sendOffer _ i _ _))
      | collectorTimeout cid => exact Or.inl (fd (disc_collectorTimeout _ cid))
      | sleepDone tid => exact Or.inl (fd (disc_sleepDone _ tid))
      | taskStep tid =>
        left
        simp only [runCb]
        split
        · rfl
        · split
          · rfl
          · split
            · exact fd ((disc_stepOffer _ _ _ _).trans (disc_cancelTimer _ _ _))
            · exact fd ((disc_stepFind _ _ _).trans (disc_cancelTimer _ _ _))
            · exact fd ((disc_stepSubscribe _ _ _).trans (disc_cancelTimer _ _ _))
  | fire q =>
    simp only [step] at h
    cases hf : s.loop.fire q with
    | none => rw [hf] at h; cases h
    | some l => rw [hf] at h; simp at h; subst h; exact Or.inl rfl
  | adv t =>
    simp only [step] at h
    cases hf : s.loop.adv t with
    | none => rw [hf] at h; cases h
    | some l => rw [hf] at h; simp at h; subst h; exact Or.inl rfl

/-- IDENTITY OF A FOUND SERVICE: the options an offer carries (endpoints, configuration, their index bookkeeping) play no
part in what `handle_offer` does - the same service offered, refreshed or withdrawn with other options is the same
service (in the code: `compare=False` on the option fields of `config.Service`; a flipped flag there is the seeded change
s01, which the scenarios with varying options report) -/
theorem c05_offer_options_irrelevant (s : Stack) (e : SDEntry) (a : Addr) (o1 o2 : List SDOption) (i : Option OptIdx) :
    s.handleOffer { e with opts1 := o1, opts2 := o2, idx := i } a = s.handleOffer e a := by
  have hw : s.isWatching { e with opts1 := o1, opts2 := o2, idx := i } = s.isWatching e := by
    unfold isWatching Service.matchesOffer
    rfl
  unfold handleOffer
  rw [hw]

/-- non-vacuity: the premises of `c05_registered_listener_told_on_offer` are met by the state after listener 3
registered for service 7 and an offer of 7.1 -/
example :
    let s := (({} : Stack).watchService { sid := 7 } (.ext 3))
    let e : SDEntry := { ty := .offer, sid := 7, iid := 1, maj := 1, ttl := 3, val := 0 }
    s.isWatching e = true ∧ e.ttl ≠ 0 ∧ s.lisDup = false ∧ regsK s 3 (offerKey e) = 1 ∧
      (llog (s.handleOffer e 9) 3).map (·.1) = [true] := by
  decide +kernel

end Someip
