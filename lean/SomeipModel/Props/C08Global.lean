/-
  C08 — whole-run theorem at stack level.  `sendLog` is the (ghost) list of (destination, (reboot flag, session id)) that
  `send_sd` drew from the session storage, one per transmission, in order.  For EVERY list of events (offers, finds,
  subscriptions, acknowledgements, answers, collection windows, stops, restarts, reboots of peers, malformed input ...)
  the k-th transmission to a destination carries id k % 65535 + 1 and the reboot flag iff k < 65535, where k counts the
  earlier transmissions to that same destination only - whatever else the stack did in between, and however the
  transmissions to different destinations interleave.
-/
import SomeipModel.Lemmas.SendInv
import SomeipModel.Props.C05Global
namespace Someip
open Stack Spec
set_option linter.unusedSimpArgs false

theorem p8_runAll (s s' : Stack) (es : List Event) (h : runAll s es = some s') (hp : P8c (pi8 s)) : P8c (pi8 s') := by
  induction es generalizing s with
  | nil => simp [runAll] at h; subst h; exact hp
  | cons e t ih =>
    simp only [runAll] at h
    split at h
    · cases h
    · rename_i s1 hs
      exact ih s1 h (p8_step s s1 e hs hp)

/-- WHOLE-RUN: the ids and flags drawn for the transmissions of a run are exactly the specified ones -/
theorem c08_stack_sends_follow_spec (s0 s : Stack) (es : List Event) (ho : s0.outgoing = []) (hl : s0.sendLog = [])
    (hrun : runAll s0 es = some s) :
    s.sendLog.map (·.2) = expectedSends [] (s.sendLog.map (·.1)) := by
  have h0 : P8c (pi8 s0) := by
    simp only [P8c, pi8, ho, hl, List.map_nil, expectedSends, and_true]
    intro d
    simp [alookup_nil, kthFlag, kthId, countBefore]
  exact (p8_runAll s0 s es hrun h0).2

/-- what is on the wire: `send_sd` puts exactly the drawn session id into the SOME/IP header and the drawn reboot flag
into the SD header of the datagram it emits (when the message is representable) -/
theorem c08_sendSd_uses_drawn (s : Stack) (es : List SDEntry) (d : Dest) (hne : es.isEmpty = false) :
    let r := assignOutgoing s.outgoing d
    (s.sendSd es d).sendLog = s.sendLog ++ [(d, r.1)] ∧
    ∀ payload b,
      ({ entries := es, flagReboot := r.1.1, flagUnicast := true } : SDHeader).assignOptionIndexes.build = .ok payload →
      Header.build { sid := SD_SERVICE, mid := SD_METHOD, cid := 0, sess := r.1.2, iv := 1, mt := .notification, payload } = some b →
      (s.sendSd es d).outs = s.outs ++ [(s.loop.now, .send d b)] := by
  simp only [sendSd, hne, Bool.false_eq_true, if_false]
  refine ⟨?_, ?_⟩
  · split
    · rfl
    · split <;> rfl
  · intro payload b h1 h2
    simp only [h1, h2]
    rfl

/-- non-vacuity: two instances offering twice each (multicast), the log follows the specification -/
example : expectedSends [] [none, some 3, none, none, some 3] = [(true, 1), (true, 1), (true, 2), (true, 3), (true, 2)] := by decide

end Someip
