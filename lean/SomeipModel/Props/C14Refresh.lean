/-
  C14, last clause — whole-run theorem: "while a subscription stays requested it is sent again at least once per refresh
  interval".

  `s.subMarks`  : ghost - `(none, time)` for every start of the subscriber, `(some n, time)` for every refresh round, appended
                  by the very step that hands the round's Subscribe batches to `send_sd` (`c14_round_marks_and_sends`:
                  that step sends one batch per server covering every requested pair, and nothing else adds a mark but `start`);
  `lastMark s`  : the time of the most recent of these.

  For EVERY list of events (API calls of all three components, datagrams, callbacks in any admissible order, timers, clock
  steps) from a fresh stack, while the subscriber runs with a refresh interval r:
   * virtual time never gets further than r past the subscriber's most recent round (or its start, before the first
     round) - `c14_refresh_gap`;
   * the task the subscriber holds is alive (not cancelled, not finished) and its next round is on its way: a step of it is
     in the ready queue, or it sleeps and its wake-up handle is scheduled no later than (last round) + r, or that handle has
     fired and the wake-up is in the ready queue - `c14_next_round_on_its_way`;
   * at an idle loop the wake-up handle exists and is due no later than (last round) + r - `c14_idle_has_wakeup`.
  Time is the model's virtual clock, which moves only at an idle loop and never past a scheduled deadline (C09's loop
  discipline, `Loop.adv`); what the real event loop adds on top is its scheduling latency, which no model exhibits.
-/
import SomeipModel.Lemmas.RSteps
import SomeipModel.Props.C14Global
namespace Someip
open Stack MV
set_option linter.unusedSimpArgs false

theorem rl_runAll (s s' : Stack) (es : List Event) (h : runAll s es = some s') (hm : MirInv s) (hi : RL s) : MirInv s' ∧ RL s' := by
  induction es generalizing s with
  | nil => simp [runAll] at h; subst h; exact ⟨hm, hi⟩
  | cons e t ih =>
    simp only [runAll] at h
    split at h
    · cases h
    · rename_i s1 hs
      exact ih s1 h (mir_step s s1 e hs hm) (rl_step s s1 e hs hm hi)

theorem rl_fresh (s0 : Stack) (h : Fresh s0) : RL s0 := by
  intro ha; rw [h.alive] at ha; cases ha

/-- the step that runs a refresh round: it hands `send_sd` one Subscribe batch per server, together covering exactly the
requested pairs, and notes the round - both or neither -/
theorem c14_round_marks_and_sends (s : Stack) (n : Nat) (t : TaskSt) (hc : t.cancelled = false) (hpc : t.pc = .created ∨ t.pc = .cyclic) :
    (s.stepSubscribe (.subscribe, n) t).subMarks = s.subMarks ++ [(some n, s.loop.now)] ∧
    (s.stepSubscribe (.subscribe, n) t).subLog = s.subLog ++ roundMsgs s.tm.subscribeTtl (groupEntries s.subEntries) := by
  have hv := view_round (groupEntries s.subEntries) s
  have hm : ∀ (gs : List (Addr × List Eventgroup)) (X : Stack),
      (gs.foldl (fun s p => s.sendSubscribe s.tm.subscribeTtl p.1 p.2) X).subMarks = X.subMarks ∧
      (gs.foldl (fun s p => s.sendSubscribe s.tm.subscribeTtl p.1 p.2) X).loop.now = X.loop.now :=
    fun gs X => ⟨congrArg (fun p => p.1) (rpi_round gs X), congrArg (fun p => p.2.2.2.2.1) (rpi_round gs X)⟩
  have hlog : (List.foldl (fun s p => s.sendSubscribe s.tm.subscribeTtl p.1 p.2) s (groupEntries s.subEntries)).subLog =
      s.subLog ++ roundMsgs s.tm.subscribeTtl (groupEntries s.subEntries) := congrArg MV.log hv
  obtain ⟨hm1, hm2⟩ := hm (groupEntries s.subEntries) s
  have hfin : ∀ (X : Stack) (t' : TaskSt), (X.finish (.subscribe, n) t').subMarks = X.subMarks ∧ (X.finish (.subscribe, n) t').subLog = X.subLog :=
    fun _ _ => ⟨rfl, rfl⟩
  have hsl : ∀ (X : Stack) (t' : TaskSt) (d : Nat) (pc : Pc), (X.sleepFor (.subscribe, n) t' d pc).subMarks = X.subMarks ∧
      (X.sleepFor (.subscribe, n) t' d pc).subLog = X.subLog := by
    intro X t' d pc; unfold sleepFor; split <;> exact ⟨rfl, rfl⟩
  have hround : ∀ (Y : Stack), (Y = (match ((List.foldl (fun s p => s.sendSubscribe s.tm.subscribeTtl p.1 p.2) s (groupEntries s.subEntries)).markRound n).tm.subscribeRefresh with
      | none => ((List.foldl (fun s p => s.sendSubscribe s.tm.subscribeTtl p.1 p.2) s (groupEntries s.subEntries)).markRound n).finish (.subscribe, n) t
      | some r => ((List.foldl (fun s p => s.sendSubscribe s.tm.subscribeTtl p.1 p.2) s (groupEntries s.subEntries)).markRound n).sleepFor (.subscribe, n) t r .cyclic)) →
      Y.subMarks = s.subMarks ++ [(some n, s.loop.now)] ∧ Y.subLog = s.subLog ++ roundMsgs s.tm.subscribeTtl (groupEntries s.subEntries) := by
    intro Y hY
    subst hY
    have e1 : ((List.foldl (fun s p => s.sendSubscribe s.tm.subscribeTtl p.1 p.2) s (groupEntries s.subEntries)).markRound n).subMarks =
        s.subMarks ++ [(some n, s.loop.now)] := by
      show _ ++ [(some n, _)] = _; rw [hm1, hm2]
    have e2 : ((List.foldl (fun s p => s.sendSubscribe s.tm.subscribeTtl p.1 p.2) s (groupEntries s.subEntries)).markRound n).subLog =
        s.subLog ++ roundMsgs s.tm.subscribeTtl (groupEntries s.subEntries) := hlog
    split
    · exact ⟨(hfin _ _).1.trans e1, (hfin _ _).2.trans e2⟩
    · exact ⟨(hsl _ _ _ _).1.trans e1, (hsl _ _ _ _).2.trans e2⟩
  unfold stepSubscribe
  simp only []
  rcases hpc with hpc | hpc
  · simp only [hpc, hc, Bool.false_eq_true, if_false]; exact hround _ rfl
  · simp only [hpc, hc, Bool.false_eq_true, if_false]; exact hround _ rfl

/-- a cancelled or finished task sends nothing and notes nothing -/
theorem c14_no_round_no_mark (s : Stack) (n : Nat) (t : TaskSt) (hc : t.cancelled = true ∨ (t.pc ≠ .created ∧ t.pc ≠ .cyclic)) :
    (s.stepSubscribe (.subscribe, n) t).subMarks = s.subMarks ∧ (s.stepSubscribe (.subscribe, n) t).subLog = s.subLog := by
  unfold stepSubscribe
  simp only []
  split
  · next h =>
    rcases hc with hc | ⟨hc, _⟩
    · simp only [hc, if_true]; exact ⟨rfl, rfl⟩
    · exact absurd h hc
  · next h =>
    rcases hc with hc | ⟨_, hc⟩
    · simp only [hc, if_true]; exact ⟨rfl, rfl⟩
    · exact absurd h hc
  · exact ⟨rfl, rfl⟩

/-- **C14 (refresh clause, whole run)**: while the subscriber runs with refresh interval r, virtual time is never more than r
past its most recent round (its start, before the first round) -/
theorem c14_refresh_gap (s0 s : Stack) (es : List Event) (h0 : Fresh s0) (hrun : runAll s0 es = some s)
    (ha : s.alive = true) (r : Nat) (hr : s.tm.subscribeRefresh = some r) :
    ∃ T, lastMark s = some T ∧ s.loop.now ≤ T + r := by
  obtain ⟨_, hi⟩ := rl_runAll s0 s es hrun (mirInv_fresh s0 h0) (rl_fresh s0 h0)
  obtain ⟨n, t, T, _, hT, hnow, _⟩ := hi ha r hr
  exact ⟨T, hT, hnow⟩

/-- the subscriber's task is alive and its next round is on its way, due no later than (last round) + r -/
theorem c14_next_round_on_its_way (s0 s : Stack) (es : List Event) (h0 : Fresh s0) (hrun : runAll s0 es = some s)
    (ha : s.alive = true) (r : Nat) (hr : s.tm.subscribeRefresh = some r) :
    ∃ n t T, s.subTask = some n ∧ s.getTask (.subscribe, n) = some t ∧ t.cancelled = false ∧ (t.pc = .created ∨ t.pc = .cyclic) ∧
      lastMark s = some T ∧ NextRound s n t (T + r) := by
  obtain ⟨_, hi⟩ := rl_runAll s0 s es hrun (mirInv_fresh s0 h0) (rl_fresh s0 h0)
  obtain ⟨n, t, T, ⟨h1, h2, h3, h4⟩, hT, _, h5⟩ := hi ha r hr
  exact ⟨n, t, T, h1, h2, h3, h4, hT, h5⟩

/-- at an idle loop: the subscriber's task sleeps and its wake-up handle is scheduled no later than (last round) + r -/
theorem c14_idle_has_wakeup (s0 s : Stack) (es : List Event) (h0 : Fresh s0) (hrun : runAll s0 es = some s)
    (ha : s.alive = true) (r : Nat) (hr : s.tm.subscribeRefresh = some r) (hidle : s.loop.ready = []) :
    ∃ n T, s.subTask = some n ∧ lastMark s = some T ∧
      ∃ x ∈ s.loop.timers, x.cb = .sleepDone (.subscribe, n) ∧ x.deadline ≤ T + r := by
  obtain ⟨n, t, T, h1, _, _, _, hT, h5⟩ := c14_next_round_on_its_way s0 s es h0 hrun ha r hr
  refine ⟨n, T, h1, hT, ?_⟩
  rcases h5 with ⟨x, hx, _⟩ | ⟨_, ⟨x, hx, h6, h7⟩ | ⟨x, hx, _⟩⟩
  · rw [hidle] at hx; cases hx
  · refine ⟨x, hx, ?_, h7⟩
    cases hcb : x.cb with
    | sleepDone tid =>
      rw [hcb] at h6
      have : tid = (.subscribe, n) := by simpa [isSleepFor] using h6
      rw [this]
    | _ => rw [hcb] at h6; simp [isSleepFor] at h6
  · rw [hidle] at hx; cases hx

/-! non-vacuity: start with refresh interval 5, request (g, server 7), let the loop run; the clock can reach 5 but `adv 6` is
refused while the wake-up handle (deadline 5) is pending; after the second round (at 5) it can go on to 8 -/
def tmR : Timings := { ({} : Timings) with subscribeRefresh := some 5 }
def runR : List Event := [.input .start, .input (.subscribe egX 7), .run, .run, .run]
example : Fresh ({ tm := tmR } : Stack) := ⟨by decide, rfl, rfl, rfl, rfl, rfl, rfl, rfl, rfl, rfl⟩
example : (runAll ({ tm := tmR } : Stack) (runR ++ [.adv 5])).map (fun s => (s.alive, s.subMarks, s.loop.now, lastMark s)) =
    some (true, [(none, 0), (some 0, 0)], 5, some 0) := by decide +kernel
example : (runAll ({ tm := tmR } : Stack) (runR ++ [.adv 6])).isNone = true := by decide +kernel
example : (runAll ({ tm := tmR } : Stack) (runR ++ [.adv 5, .fire 0, .run, .run, .adv 8])).map
    (fun s => (s.subMarks, s.loop.now, lastMark s, s.subLog.length)) = some ([(none, 0), (some 0, 0), (some 0, 5)], 8, some 5, 3) := by
  decide +kernel

end Someip
