/-
  C03 — Malformed or foreign input is rejected cleanly and changes nothing.
  Decoders are total functions (termination by construction) whose only errors are the library's parse
  error (or its incomplete-read subclass) and, for configuration text only, the Unicode error; the SD
  receive path ignores whatever is not a decodable SD notification and never raises.
-/
import SomeipModel.Props.C05
import SomeipModel.Props.C20
namespace Someip
open Stack
set_option linter.unusedSimpArgs false

/-- the errors a decoder may produce -/
def Err.isDecodeError : Err → Bool
  | .parse => true | .incomplete => true | .unicode => true | _ => false

/-- SOME/IP message decoder: a value plus a SUFFIX of the input, or the library's parse error -/
theorem c03_header_total (b : Bytes) :
    (∃ h r, Header.parse b = .ok (h, r) ∧ r <:+ b) ∨ Header.parse b = .error .parse ∨ Header.parse b = .error .incomplete := by
  unfold Header.parse
  split
  · rename_i s1 s0 m1 m0 l3 l2 l1 l0 c1 c0 e1 e0 pv iv mtb rcb rest
    unfold Header.parseFields
    by_cases h1 : pv ≠ 1
    · simp [h1]
    · simp only [h1, if_false]
      cases MsgType.ofNat? mtb with
      | none => simp
      | some mt =>
        cases RetCode.ofNat? rcb with
        | none => simp
        | some rc =>
          by_cases hsz : u32 l3 l2 l1 l0 < 8
          · simp [hsz]
          · simp only [hsz, if_false]
            by_cases hlen : rest.length < u32 l3 l2 l1 l0 - 8
            · simp [hlen]
            · left
              simp only [hlen, if_false]
              refine ⟨_, _, rfl, ?_⟩
              exact (List.drop_suffix _ rest).trans ⟨[s1, s0, m1, m0, l3, l2, l1, l0, c1, c0, e1, e0, pv, iv, mtb, rcb], rfl⟩
  · right; right; rfl

/-- SD entry decoder -/
theorem c03_entry_total (n : Nat) (b : Bytes) :
    (∃ e r, SDEntry.parse n b = .ok (e, r) ∧ r <:+ b) ∨ SDEntry.parse n b = .error .parse ∨ SDEntry.parse n b = .error .incomplete := by
  cases hp : SDEntry.parse n b with
  | ok v =>
    left
    obtain ⟨e, r⟩ := v
    obtain ⟨tyb, oi1, oi2, numopt, s1, s0, i1, i0, maj, t2, t1, t0, v3, v2, v1, v0, ty, hb, _⟩ := SDEntry.parse_ok hp
    exact ⟨e, r, rfl, ⟨[tyb, oi1, oi2, numopt, s1, s0, i1, i0, maj, t2, t1, t0, v3, v2, v1, v0], by rw [hb]; rfl⟩⟩
  | error err =>
    right
    unfold SDEntry.parse at hp
    split at hp
    · split at hp
      · cases hp; exact Or.inl rfl
      · simp only [] at hp
        split at hp
        · cases hp; exact Or.inl rfl
        · split at hp
          · cases hp; exact Or.inl rfl
          · split at hp
            · cases hp; exact Or.inl rfl
            · cases hp
    · cases hp; exact Or.inr rfl

/-- the datagram loop delivers only what the message decoder accepted and stops at the first error,
which is always a parse error: `datagram_received` catches it (never raises) -/
theorem c03_datagram_errors (fuel : Nat) (b : Bytes) (e : Err) (h : (datagramAux fuel b).2 = some e) : e.isParse = true := by
  induction fuel generalizing b with
  | zero => simp [datagramAux] at h
  | succ n ih =>
    unfold datagramAux at h
    split at h
    · simp at h
    · split at h
      · rename_i e' hp
        simp at h; subst h
        rcases c03_header_total b with ⟨_, _, hok, _⟩ | hpe | hpe
        · rw [hok] at hp; cases hp
        · rw [hpe] at hp; cases hp; rfl
        · rw [hpe] at hp; cases hp; rfl
      · exact ih _ h

/-- FOREIGN messages (wrong service, method, interface version, message type or return code) cause no
listener callback, no change of discovery, subscription or session state and no transmission: the state
is literally unchanged -/
theorem c03_foreign_no_effect (s : Stack) (h : Header) (a : Addr) (mc : Bool)
    (hf : h.sid ≠ SD_SERVICE ∨ h.mid ≠ SD_METHOD ∨ h.iv ≠ SD_INTERFACE_VERSION ∨ h.rc ≠ .ok ∨ h.mt ≠ .notification) :
    s.messageReceived h a mc = s := by
  unfold messageReceived; simp [hf]

/-- an UNDECODABLE SD payload (any decoder error, including the Unicode error of a configuration string)
likewise leaves the state unchanged - in particular the session memory: a malformed message can neither
trigger nor mask a reboot detection -/
theorem c03_undecodable_no_effect (s : Stack) (h : Header) (a : Addr) (mc : Bool) (e : Err)
    (hp : SDHeader.parse h.payload = .error e) : s.messageReceived h a mc = s := by
  unfold messageReceived; split
  · rfl
  · simp [hp]

/-- the entries of an SD message whose unicast flag is clear are ignored (session handling still applies) -/
theorem c03_no_unicast_flag_ignored (s : Stack) (m : SDHeader) (a : Addr) (mc : Bool) (h : m.flagUnicast = false) :
    s.sdMessageReceived m a mc = s := c05_no_unicast_flag_ignored s m a mc h

/-- a datagram consisting only of foreign / undecodable messages changes nothing at all -/
theorem c03_datagram_no_effect (s : Stack) (b : Bytes) (a : Addr) (mc : Bool)
    (h : ∀ m ∈ (datagram b).1, (m.sid ≠ SD_SERVICE ∨ m.mid ≠ SD_METHOD ∨ m.iv ≠ SD_INTERFACE_VERSION ∨ m.rc ≠ .ok ∨ m.mt ≠ .notification)
        ∨ ∃ e, SDHeader.parse m.payload = .error e) :
    s.datagramReceived b a mc = s := by
  unfold datagramReceived
  generalize (datagram b).1 = ms at h
  induction ms with
  | nil => rfl
  | cons m t ih =>
    rw [List.foldl_cons]
    have hm : s.messageReceived m a mc = s := by
      rcases h m (by simp) with hf | ⟨e, he⟩
      · exact c03_foreign_no_effect s m a mc hf
      · exact c03_undecodable_no_effect s m a mc e he
    rw [hm]; exact ih (fun x hx => h x (by simp [hx]))

end Someip
