/-
  C15 — Queued SD entries are sent exactly once, in order, to the right peer, in time.
  Per-operation theorems (valid in every state); the conservation invariant over whole runs is in
  Props/C15Global.lean when present.
-/
import SomeipModel.Lemmas.StackBasic
namespace Someip
open Stack
set_option linter.unusedSimpArgs false

/-- with a collection timeout of zero every queue request is transmitted at once, alone -/
theorem c15_zero_timeout (s : Stack) (e : SDEntry) (d : Dest) (h : s.tm.sendCollectionTimeout = 0) :
    s.queueSend e d = (s.emit (.queued d e)).flushTo [e] d := by
  simp [queueSend, h]

/-- ... and that transmission is exactly one effect, addressed to the destination the entry was queued for -/
theorem c15_zero_timeout_one_message (s : Stack) (e : SDEntry) (d : Dest) (h : s.tm.sendCollectionTimeout = 0) :
    ∃ o, (s.queueSend e d).outs = s.outs ++ [(s.loop.now, .queued d e), (s.loop.now, o)] ∧
      ((∃ b, o = .send d b) ∨ (∃ err, o = .raised err)) := by
  rw [c15_zero_timeout s e d h]
  obtain ⟨o, h1, _, _, h4⟩ := sendSd_cases ({ s.emit (.queued d e) with flushLog := (s.emit (.queued d e)).flushLog ++ [(d, [e])] }) [e] d (by simp)
  refine ⟨o, ?_, h4⟩
  unfold flushTo
  rw [h1]
  simp [emit]

/-- a send-collection window closing: everything collected is handed to send_sd in one call, in the
order it was queued, for the collector's own destination; the collector is marked done -/
theorem c15_timeout_sends_collected (s : Stack) (cid : Nat) (c : Collector)
    (h : s.collectors.find? (fun c => decide (c.cid = cid)) = some c) :
    s.collectorTimeout cid =
      ({ s with collectors := s.collectors.map (fun (c : Collector) => if c.cid = cid then { c with done := true } else c) }).flushTo c.data c.dest := by
  simp [collectorTimeout, h]

/-- send_sd never splits or reorders: one call = at most one datagram to that destination -/
theorem c15_one_datagram_per_window (s : Stack) (es : List SDEntry) (d : Dest) :
    (s.sendSd es d).outs.length ≤ s.outs.length + 1 := by
  by_cases h : es = []
  · subst h; simp
  · obtain ⟨o, h1, _⟩ := sendSd_cases s es d h
    simp [h1]

/-- with a non-zero timeout a queue request transmits nothing yet: it is only recorded -/
theorem c15_queue_defers (s : Stack) (e : SDEntry) (d : Dest) (h : s.tm.sendCollectionTimeout ≠ 0) :
    (s.queueSend e d).outs = s.outs ++ [(s.loop.now, .queued d e)] := by
  unfold queueSend
  simp only [emit_tm, h, if_false]
  split
  · split <;> simp [appendCollector, newCollector, callLater, emit]
  · simp [appendCollector, newCollector, callLater, emit]

/-- queueing never transmits to another destination: every `send` effect of a queue request is for `d` -/
theorem c15_right_peer (s : Stack) (e : SDEntry) (d : Dest) (t : Nat) (d' : Dest) (b : Bytes)
    (h : (t, Out.send d' b) ∈ (s.queueSend e d).outs) (hold : (t, Out.send d' b) ∉ s.outs) : d' = d := by
  by_cases h0 : s.tm.sendCollectionTimeout = 0
  · obtain ⟨o, h1, h4⟩ := c15_zero_timeout_one_message s e d h0
    rw [h1] at h
    simp only [List.mem_append, List.mem_cons, List.not_mem_nil, or_false, Prod.mk.injEq] at h
    rcases h with h | h | h
    · exact absurd h hold
    · exact absurd h.2 (by simp)
    · rcases h4 with ⟨b', hb⟩ | ⟨e', he⟩
      · rw [hb] at h; cases h.2; rfl
      · rw [he] at h; exact absurd h.2 (by simp)
  · rw [c15_queue_defers s e d h0] at h
    simp only [List.mem_append, List.mem_cons, List.not_mem_nil, or_false, Prod.mk.injEq] at h
    rcases h with h | h
    · exact absurd h hold
    · exact absurd h.2 (by simp)

/-- non-vacuity: a concrete stack with timeout 0 sends a queued entry immediately -/
example : ((({ tm := { sendCollectionTimeout := 0 } } : Stack).queueSend
    { ty := .offer, sid := 1, iid := 1, maj := 1, ttl := 3, val := 0 } none).outs.length) = 2 := by decide

end Someip
