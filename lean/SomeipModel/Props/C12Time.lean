/-
  C12 — whole runs: "the answer leaves ... after a delay inside the configured request-response window when [the request]
  arrived by multicast".

  `s.ansLog` : ghost - (instance, requester, time T, delay d), appended by `handle_findservice` for every answering instance when
               it defers the answer to a FindService received by multicast (the one place where such a handle is armed).
  For EVERY list of events from a fresh stack:
   * `c12_deferred_answer_on_schedule`: every scheduled deferred answer `_send_offer(remote = a)` of instance i belongs to a logged
     request (i, a, T, d): d lies inside [REQUEST_RESPONSE_DELAY_MIN, REQUEST_RESPONSE_DELAY_MAX] and the handle's deadline is T + d;
   * `c12_deferred_answer_fires_in_window`: when that handle fires the clock reads exactly T + d - the answer callback runs in the
     same instant (c09_no_time_while_ready) and sends the offer if the instance is still running and ready (c12_answer_content),
     nothing otherwise (c12_stopped_silent; on whole runs: c10_nothing_follows_stop).
  A request received by unicast is answered by a `call_soon` callback: no timer, no added delay (c12_unicast).
-/
import SomeipModel.Lemmas.AQInv
import SomeipModel.Props.C09Time
import SomeipModel.Props.C10Time
namespace Someip
open Stack
set_option linter.unusedSimpArgs false

theorem aq_runAll (s s' : Stack) (es : List Event) (h : runAll s es = some s') (hi : AQ s) : AQ s' := by
  induction es generalizing s with
  | nil => simp [runAll] at h; subst h; exact hi
  | cons e t ih =>
    simp only [runAll] at h
    split at h
    · cases h
    · rename_i s1 hs
      exact ih s1 h (aq_step s s1 e hs hi)

/-- every scheduled deferred answer is on its logged schedule: deadline = (time of the request) + (a delay inside the window) -/
theorem c12_deferred_answer_on_schedule (s0 s : Stack) (es : List Event) (h0 : s0.loop.timers = []) (hrun : runAll s0 es = some s)
    (t : Timer Cb) (ht : t ∈ s.loop.timers) (i : Nat) (a : Addr) (hcb : t.cb = .sendOfferTo i a) :
    ∃ T d, (i, a, T, d) ∈ s.ansLog ∧ s.tm.reqRespDelayMin ≤ d ∧ (s.tm.reqRespDelayMin ≤ s.tm.reqRespDelayMax → d ≤ s.tm.reqRespDelayMax) ∧
      t.deadline = T + d :=
  aq_runAll s0 s es hrun (by intro t ht; rw [h0] at ht; cases ht) t ht i a hcb

/-- IN TIME: when the handle of a deferred answer fires, the clock reads exactly (time of the request) + (its delay inside the
request-response window) -/
theorem c12_deferred_answer_fires_in_window (s0 s : Stack) (es : List Event) (h0 : s0.loop.timers = []) (hrun : runAll s0 es = some s)
    (q : Nat) (l : Loop Cb) (hf : s.loop.fire q = some l)
    (t : Timer Cb) (hfind : s.loop.timers.find? (fun t => decide (t.seq = q)) = some t) (i : Nat) (a : Addr)
    (hcb : t.cb = .sendOfferTo i a) :
    ∃ T d, (i, a, T, d) ∈ s.ansLog ∧ s.tm.reqRespDelayMin ≤ d ∧ (s.tm.reqRespDelayMin ≤ s.tm.reqRespDelayMax → d ≤ s.tm.reqRespDelayMax) ∧
      s.loop.now = T + d := by
  obtain ⟨t', h1, h2⟩ := c09_fires_exactly_at_deadline s0 s es h0 hrun q l hf
  rw [hfind] at h1; cases h1
  obtain ⟨T, d, h3, h4, h5, h6⟩ := c12_deferred_answer_on_schedule s0 s es h0 hrun t (List.mem_of_find?_eq_some hfind) i a hcb
  exact ⟨T, d, h3, h4, h5, by rw [← h2]; exact h6⟩

/-! non-vacuity: the instance of C10Time has sent its first offer at 10; a FindService for it arrives by multicast from peer 5 at
time 10; the request-response window is [10, 50]: the answer handle (seq 4) is scheduled for 20 = 10 + 10, cannot fire at 19 and
fires at 20 -/
def findDgram : Bytes := [0xff,0xff,0x81,0x00, 0,0,0,0x24, 0,0,0,1, 1,1,2,0, 0xc0,0,0,0, 0,0,0,16, 0,0,0,0, 0x11,0x11,0,1, 1,0,0,3, 0,0,0,1, 0,0,0,0]
def evsA : List Event := evsT.take 9 ++ [.input (.dgram 5 true findDgram)]
example : (runAll stackT evsA).map (fun s => (s.ansLog, s.loop.now, (s.tm.reqRespDelayMin, s.tm.reqRespDelayMax))) =
    some ([(0, 5, 10, 10)], 10, (10, 50)) := by decide +kernel
example : (runAll stackT evsA).map (fun s => (s.loop.timers.filter (fun t => isAnswerCb t.cb)).map (fun t => (t.seq, t.deadline))) =
    some [(4, 20)] := by decide +kernel
example : (runAll stackT (evsA ++ [.adv 15, .fire 2, .run, .adv 19, .fire 4])).isNone = true := by decide +kernel
example : (runAll stackT (evsA ++ [.adv 15, .fire 2, .run, .adv 20, .fire 4, .run])).map
    (fun s => (s.loop.now, s.offLog.map (fun e => (e.2.1, e.2.2)))) = some (20, [(.start, 0), (.offer false, 10), (.offer true, 20)]) := by
  decide +kernel

end Someip
