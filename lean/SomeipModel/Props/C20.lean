/-
  C20 — Decoding canonicalises: decode-encode-decode equals decode.
  Proved for SOME/IP messages and SD entries (any accepted input); SD options / SD messages: see the
  `…_partial` notes in DESIGN.md (their idempotence is exercised by the correspondence check).
-/
import SomeipModel.Props.C01
import SomeipModel.Model.SDEntry
namespace Someip
open Spec
set_option linter.unusedSimpArgs false

/-- SOME/IP message: whatever decodes can be encoded again, the new bytes decode to the same value with
nothing left over, and together with the rest they ARE the input -/
theorem c20_header (b : Bytes) (hb : AllBytes b) (h : Header) (r : Bytes) (hp : Header.parse b = .ok (h, r)) :
    ∃ b', h.build = some b' ∧ Header.parse b' = .ok (h, []) ∧ b' ++ r = b := by
  obtain ⟨hl, hf, hpv⟩ := c01_parse_sound b hb h r hp
  refine ⟨layout h, c01_build_layout h hf.1, ?_, hl.symm⟩
  have := c01_parse_layout h [] hf.1 hpv
  simpa using this

theorem EntryType.ofNat_some {n : Nat} {m : EntryType} (h : EntryType.ofNat? n = some m) : m.toNat = n := by
  have := List.find?_some h; simpa using this
theorem EntryType.ofNat_toNat (m : EntryType) : EntryType.ofNat? m.toNat = some m := by cases m <;> rfl

/-- characterisation of a successful entry decode -/
theorem SDEntry.parse_ok {n : Nat} {b : Bytes} {e : SDEntry} {r : Bytes} (hp : SDEntry.parse n b = .ok (e, r)) :
    ∃ tyb oi1 oi2 numopt s1 s0 i1 i0 maj t2 t1 t0 v3 v2 v1 v0 ty,
      b = tyb :: oi1 :: oi2 :: numopt :: s1 :: s0 :: i1 :: i0 :: maj :: t2 :: t1 :: t0 :: v3 :: v2 :: v1 :: v0 :: r ∧
      EntryType.ofNat? tyb = some ty ∧ oi1 + numopt / 16 ≤ n ∧ oi2 + numopt % 16 ≤ n ∧
      ¬ (ty.isEventgroup = true ∧ u32 v3 v2 v1 v0 / 1048576 % 4096 ≠ 0) ∧
      e = { ty, sid := u16 s1 s0, iid := u16 i1 i0, maj, ttl := u24 t2 t1 t0, val := u32 v3 v2 v1 v0,
            idx := some ⟨oi1, oi2, numopt / 16, numopt % 16⟩ } := by
  unfold SDEntry.parse at hp
  split at hp
  · rename_i tyb oi1 oi2 numopt s1 s0 i1 i0 maj t2 t1 t0 v3 v2 v1 v0 rest
    cases hty : EntryType.ofNat? tyb with
    | none => simp [hty] at hp
    | some ty =>
      simp only [hty] at hp
      by_cases h1 : oi1 + numopt / 16 > n
      · simp [h1] at hp
      · by_cases h2 : oi2 + numopt % 16 > n
        · simp [h1, h2] at hp
        · by_cases h3 : ty.isEventgroup = true ∧ u32 v3 v2 v1 v0 / 1048576 % 4096 ≠ 0
          · simp [h1, h2, h3] at hp
          · simp only [h1, h2, h3, if_false, Except.ok.injEq, Prod.mk.injEq] at hp
            obtain ⟨he, hr⟩ := hp
            exact ⟨tyb, oi1, oi2, numopt, s1, s0, i1, i0, maj, t2, t1, t0, v3, v2, v1, v0, ty, by rw [hr], hty,
              by omega, by omega, h3, he.symm⟩
  · cases hp

/-- SD entry (with the number of options it was decoded against): raw indexes and counts, unknown-looking
values, everything the decoder keeps survives re-encoding and re-decoding -/
theorem c20_entry (n : Nat) (b : Bytes) (hb : AllBytes b) (e : SDEntry) (r : Bytes) (hp : SDEntry.parse n b = .ok (e, r)) :
    ∃ b', e.build = .ok b' ∧ SDEntry.parse n b' = .ok (e, []) := by
  obtain ⟨tyb, oi1, oi2, numopt, s1, s0, i1, i0, maj, t2, t1, t0, v3, v2, v1, v0, ty, hbq, hty, hc1, hc2, hc3, he⟩ :=
    SDEntry.parse_ok hp
  subst hbq he
  simp only [allBytes_cons] at hb
  obtain ⟨a1, a2, a3, a4, a5, a6, a7, a8, a9, a10, a11, a12, a13, a14, a15, a16, _⟩ := hb
  have hty' := EntryType.ofNat_some hty
  have e1 := u16_lt a5 a6
  have e2 := u16_lt a7 a8
  have e3 := u24_lt a10 a11 a12
  have e4 := u32_lt a13 a14 a15 a16
  have hn1 : numopt / 16 < 16 := by omega
  have hn2 : numopt % 16 < 16 := by omega
  have hn3 : numopt / 16 * 16 + numopt % 16 = numopt := by omega
  refine ⟨[ty.toNat, oi1, oi2, numopt / 16 * 16 + numopt % 16] ++ be16 (u16 s1 s0) ++ be16 (u16 i1 i0) ++ [maj] ++
    be24 (u24 t2 t1 t0) ++ be32 (u32 v3 v2 v1 v0), ?_, ?_⟩
  · simp only [SDEntry.build]
    rw [if_pos ⟨hn1, hn2, a2, a3, e1, e2, a9, e3, e4⟩]
  · simp only [hn3, hty', be16_u16 a5 a6, be16_u16 a7 a8, be24_u24 a10 a11 a12, be32_u32 a13 a14 a15 a16,
      List.cons_append, List.nil_append, SDEntry.parse, hty]
    have g1 : ¬ (oi1 + numopt / 16 > n) := by omega
    have g2 : ¬ (oi2 + numopt % 16 > n) := by omega
    simp only [g1, g2, hc3, if_false, List.append_nil]

/-- what the decoder keeps of an entry: the raw indexes and counts, always within the option array -/
theorem c20_entry_keeps_raw (n : Nat) (b : Bytes) (e : SDEntry) (r : Bytes) (hp : SDEntry.parse n b = .ok (e, r)) :
    ∃ i, e.idx = some i ∧ i.oi1 + i.no1 ≤ n ∧ i.oi2 + i.no2 ≤ n ∧ e.opts1 = [] ∧ e.opts2 = [] := by
  obtain ⟨tyb, oi1, oi2, numopt, s1, s0, i1, i0, maj, t2, t1, t0, v3, v2, v1, v0, ty, _, _, hc1, hc2, _, he⟩ :=
    SDEntry.parse_ok hp
  subst he
  exact ⟨_, rfl, hc1, hc2, rfl, rfl⟩

end Someip
