/-
  C01 — SOME/IP message encoding round-trips and matches the wire layout.
  Property theorems only (helper lemmas about enums are local and tiny).
-/
import SomeipModel.Spec.Wire
import SomeipModel.Lemmas.Bytes
namespace Someip
open Spec

theorem MsgType.ofNat_toNat (m : MsgType) : MsgType.ofNat? m.toNat = some m := by
  cases m <;> rfl
theorem RetCode.ofNat_toNat (m : RetCode) : RetCode.ofNat? m.toNat = some m := by
  cases m <;> rfl
theorem MsgType.toNat_lt (m : MsgType) : m.toNat < 256 := by cases m <;> decide
theorem RetCode.toNat_lt (m : RetCode) : m.toNat < 256 := by cases m <;> decide
theorem MsgType.ofNat_some {n : Nat} {m : MsgType} (h : MsgType.ofNat? n = some m) : m.toNat = n := by
  have := List.find?_some h; simpa using this
theorem RetCode.ofNat_some {n : Nat} {m : RetCode} (h : RetCode.ofNat? n = some m) : m.toNat = n := by
  have := List.find?_some h; simpa using this

/-- every message whose fields fit is encoded to exactly the specification's layout -/
theorem c01_build_layout (h : Header) (hf : FitsNum h) : h.build = some (layout h) := by
  obtain ⟨h1, h2, h3, h4, h5, h6, h7⟩ := hf
  have := h.mt.toNat_lt; have := h.rc.toNat_lt
  simp [Header.build, layout, pack16, pack32, pack8, be8, *]

/-- a message with a field beyond its wire width is refused (no bytes are emitted) -/
theorem c01_build_rejects (h : Header) (hf : ¬ FitsNum h) : h.build = none := by
  unfold FitsNum at hf
  simp only [Header.build, pack16, pack32, pack8]
  by_cases h1 : h.sid < 65536
  · by_cases h2 : h.mid < 65536
    · by_cases h7 : h.payload.length + 8 < 4294967296
      · by_cases h3 : h.cid < 65536
        · by_cases h4 : h.sess < 65536
          · by_cases h5 : h.pv < 256
            · by_cases h6 : h.iv < 256
              · exact absurd ⟨h1, h2, h3, h4, h5, h6, h7⟩ hf
              · simp [*]
            · simp [*]
          · simp [*]
        · simp [*]
      · simp [*]
    · simp [*]
  · simp [*]

/-- decoding the layout of a version-1 message, followed by ANY suffix, returns the message and
exactly that suffix -/
theorem c01_parse_layout (h : Header) (r : Bytes) (hf : FitsNum h) (hpv : h.pv = 1) :
    Header.parse (layout h ++ r) = .ok (h, r) := by
  obtain ⟨h1, h2, h3, h4, h5, h6, h7⟩ := hf
  have h8 : ¬ (h.payload.length + 8 < 8) := by omega
  simp [layout, be16, be32, Header.parse, Header.parseFields, u16_be16, u32_be32,
    MsgType.ofNat_toNat, RetCode.ofNat_toNat, *]
  cases h; simp_all

theorem c01_roundtrip (h : Header) (r : Bytes) (hf : FitsNum h) (hpv : h.pv = 1) :
    ∃ b, h.build = some b ∧ Header.parse (b ++ r) = .ok (h, r) :=
  ⟨layout h, c01_build_layout h hf, c01_parse_layout h r hf hpv⟩

/-- a fitting message with another protocol version is rejected by the decoder, never mis-decoded -/
theorem c01_parse_other_version (h : Header) (r : Bytes) (hpv : h.pv ≠ 1) :
    Header.parse (layout h ++ r) = .error .parse := by
  simp [layout, be16, be32, Header.parse, Header.parseFields, hpv]

/-- whatever the decoder accepts is the layout of the value it returns followed by the rest it
returns: the length field is payload length + 8 (hence ≥ 8), nothing is invented or dropped -/
theorem c01_parse_sound (b : Bytes) (hb : AllBytes b) (h : Header) (r : Bytes)
    (hp : Header.parse b = .ok (h, r)) : b = layout h ++ r ∧ Fits h ∧ h.pv = 1 := by
  unfold Header.parse at hp
  split at hp
  · rename_i s1 s0 m1 m0 l3 l2 l1 l0 c1 c0 e1 e0 pv iv mtb rcb rest
    simp only [allBytes_cons] at hb
    obtain ⟨a1, a2, a3, a4, a5, a6, a7, a8, a9, a10, a11, a12, a13, a14, a15, a16, hrest⟩ := hb
    unfold Header.parseFields at hp
    split at hp
    · cases hp
    · rename_i size h0 hpf
      split at hpf
      · cases hpf
      · rename_i hpv
        split at hpf
        · cases hpf
        · rename_i mt hmt
          split at hpf
          · cases hpf
          · rename_i rc hrc
            split at hpf
            · cases hpf
            · rename_i hsz
              simp only [Except.ok.injEq, Prod.mk.injEq] at hpf
              obtain ⟨hsize, hh0⟩ := hpf
              split at hp
              · cases hp
              · rename_i hlen
                simp only [Except.ok.injEq, Prod.mk.injEq] at hp
                obtain ⟨hh, hr⟩ := hp
                subst hh hr hh0
                have hmt' := MsgType.ofNat_some hmt
                have hrc' := RetCode.ofNat_some hrc
                have hpv' : pv = 1 := by omega
                have hlen' : (rest.take (size - 8)).length = size - 8 := by
                  simp [List.length_take]; omega
                have hsz' : size - 8 + 8 = size := by omega
                have hlt := u32_lt a5 a6 a7 a8
                refine ⟨?_, ⟨⟨u16_lt a1 a2, u16_lt a3 a4, u16_lt a9 a10, u16_lt a11 a12, a13, a14, ?_⟩, ?_⟩, hpv'⟩
                · simp only [layout, hlen', hmt', hrc', hsz']
                  rw [← hsize, be16_u16 a1 a2, be16_u16 a3 a4, be16_u16 a9 a10, be16_u16 a11 a12,
                    be32_u32 a5 a6 a7 a8]
                  simp
                · simp only [hlen', hsz']; omega
                · exact allBytes_take _ hrest
  · cases hp

/-- the datagram loop has always enough fuel -/
theorem datagramAux_layouts (hs : List Header) (hf : ∀ h ∈ hs, Fits h ∧ h.pv = 1) (fuel : Nat)
    (hfuel : (hs.flatMap layout).length ≤ fuel) :
    datagramAux fuel (hs.flatMap layout) = (hs, none) := by
  induction hs generalizing fuel with
  | nil => cases fuel <;> simp [datagramAux]
  | cons h t ih =>
    obtain ⟨hfh, hpv⟩ := hf h (by simp)
    have hlen : 16 ≤ (layout h).length := by simp [layout, be16, be32]
    cases fuel with
    | zero => simp only [List.flatMap_cons, List.length_append] at hfuel; omega
    | succ fuel =>
      have hne : ¬ ((layout h ++ List.flatMap layout t).isEmpty = true) := by
        simp; intro h0; rw [h0] at hlen; simp at hlen
      simp only [List.flatMap_cons, datagramAux, hne, c01_parse_layout h _ hfh.1 hpv]
      rw [ih (fun x hx => hf x (by simp [hx])) fuel
        (by simp only [List.flatMap_cons, List.length_append] at hfuel; omega)]
      simp

/-- any number of well-formed messages concatenated in one datagram are delivered one by one,
in order, with no error -/
theorem c01_datagram_concat (hs : List Header) (hf : ∀ h ∈ hs, Fits h ∧ h.pv = 1) :
    datagram (hs.flatMap layout) = (hs, none) :=
  datagramAux_layouts hs hf _ (Nat.le_refl _)

/-- messages in front of an undecodable tail are still delivered, in order, then one error -/
theorem c01_datagram_prefix (hs : List Header) (hf : ∀ h ∈ hs, Fits h ∧ h.pv = 1) (tail : Bytes)
    (e : Err) (ht : Header.parse tail = .error e) (hne : tail ≠ []) :
    datagram (hs.flatMap layout ++ tail) = (hs, some e) := by
  unfold datagram
  generalize hfu : (hs.flatMap layout ++ tail).length = fuel
  have hfuel : (hs.flatMap layout ++ tail).length ≤ fuel := by omega
  clear hfu
  induction hs generalizing fuel with
  | nil =>
    cases fuel with
    | zero => cases tail <;> simp at hfuel; exact absurd rfl hne
    | succ fuel =>
      have : ¬ (tail.isEmpty = true) := by simpa using hne
      simp [datagramAux, this, ht]
  | cons h t ih =>
    obtain ⟨hfh, hpv⟩ := hf h (by simp)
    have hlen : 16 ≤ (layout h).length := by simp [layout, be16, be32]
    cases fuel with
    | zero => simp only [List.flatMap_cons, List.length_append] at hfuel; omega
    | succ fuel =>
      have hne' : ¬ ((layout h ++ (List.flatMap layout t ++ tail)).isEmpty = true) := by
        simp; intro h0; rw [h0] at hlen; simp at hlen
      simp only [List.flatMap_cons, List.append_assoc, datagramAux, hne',
        c01_parse_layout h _ hfh.1 hpv]
      rw [ih (fun x hx => hf x (by simp [hx])) fuel
        (by simp only [List.flatMap_cons, List.length_append] at hfuel ⊢; omega)]
      simp

/-- non-vacuity: messages at the boundaries of every width, with payloads of any length up to the
32-bit limit (e.g. 65528 bytes), meet the hypotheses of the theorems above -/
def c01_witness (n : Nat) : Header :=
  { sid := 0xFFFF, mid := 0xFFFF, cid := 0xFFFF, sess := 0xFFFF, iv := 0xFF, mt := MsgType.errorAck,
    rc := RetCode.wrongMessageType, payload := List.replicate n 255 }
example (n : Nat) (hn : n + 8 < 4294967296) : Fits (c01_witness n) ∧ (c01_witness n).pv = 1 := by
  refine ⟨⟨⟨by simp [c01_witness], by simp [c01_witness], by simp [c01_witness], by simp [c01_witness], by simp [c01_witness], by simp [c01_witness], ?_⟩, ?_⟩, rfl⟩
  · simpa [c01_witness] using hn
  · intro x hx; simp only [c01_witness, List.mem_replicate] at hx; omega

end Someip
