/-
  C10 — whole runs: the timing of the phases.

  `anchor i log` : the time of instance i's last `start()` or multicast offer in the ghost log (Props/C10Count).
  `Sch tm pc A B`: the due time B of the next step of an offer task at position pc, from the anchor A:
                   just created - A; initial wait - A + d for a d inside the initial-delay window (at least the minimum; at
                   most the maximum when the window is not empty); k-th repetition - A + 2^k * base delay; cyclic - A + period.
  `Pend s i n t B`: where the next step of offer task (i, n) stands: not suspended - exactly one step callback is queued, no
                   wake-up is pending and the clock reads exactly B; suspended - no step is queued and exactly one wake-up
                   exists, scheduled with deadline B, or fired (then the clock reads B).

  For EVERY list of events (API calls of all three components, datagrams, callbacks in any admissible order, timers, clock
  steps) from a fresh stack, for every instance and the task it holds:
   * `c10_held_task_on_schedule`: `Pend` holds with a due time on schedule - one pending activation, never two, never none;
   * `c10_offer_step_on_schedule`: whenever the step of that task is at the head of the ready queue - the step that sends the
     first offer (position initial), the next repetition (rep k), the next cyclic offer (cyclic) - the clock reads exactly
     (time of the previous offer, resp. of start()) + (the delay of that position).  With the per-operation theorems
     (the step at these positions hands exactly one offer to `queue_send`, c10_offer_is_queued) and "no time passes while a
     callback is queued" (c09_no_time_while_ready) this is the statement's schedule: first offer inside the initial-delay
     window after start, repetitions at doubling intervals, then the cyclic period - neither early nor late;
   * `c10_wakeup_deadline_on_schedule`: while the task sleeps its wake-up handle is scheduled for exactly that time.
  The invariant is carried with the offer-task invariant (C10Global), the log invariant (C10Count), the loop discipline
  (C09Time: no pending handle is overdue) and "no timer carries a task step" (NTInv).  Virtual time; the scheduling latency
  of a real event loop is outside any model.
-/
import SomeipModel.Lemmas.OTLift
import SomeipModel.Props.C10Count
import SomeipModel.Props.C09Time
namespace Someip
open Stack
set_option linter.unusedSimpArgs false

theorem otp_runAll (s s' : Stack) (es : List Event) (h : runAll s es = some s') (hi : OTP s) : OTP s' := by
  induction es generalizing s with
  | nil => simp [runAll] at h; subst h; exact hi
  | cons e t ih =>
    simp only [runAll] at h
    split at h
    · cases h
    · rename_i s1 hs
      exact ih s1 h (otp_step s s1 e hs hi)

/-- a fresh stack with an idle loop -/
structure FreshTime (s0 : Stack) : Prop where
  log : FreshLog s0
  ready : s0.loop.ready = []
  timers : s0.loop.timers = []

theorem otp_fresh (s0 : Stack) (h : FreshTime s0) : OTP s0 := by
  have hol := ol_fresh s0 h.log
  refine ⟨⟨offinv_fresh s0 h.log.off, hol, ?_⟩, ?_, ?_⟩
  · refine ⟨?_, ?_⟩
    · intro i n hn
      obtain ⟨t, ht, _⟩ := hol.own i n hn
      have e : otasks s0 = [] := by unfold otasks; rw [h.log.off.tasks]; rfl
      rw [lview_tasks_otask] at ht; unfold otask at ht; rw [e] at ht; simp [alookup] at ht
    · intro i m _
      simp [nS, nWR, wT, h.ready, h.timers]
  · intro t ht; rw [h.timers] at ht; cases ht
  · intro t ht; rw [h.timers] at ht; cases ht

/-- **the task an instance holds has exactly one pending activation, due on schedule** -/
theorem c10_held_task_on_schedule (s0 s : Stack) (es : List Event) (h0 : FreshTime s0) (hrun : runAll s0 es = some s)
    (i n : Nat) (x : Instance) (hx : s.getInst i = some x) (hn : x.task = some n) :
    ∃ t, s.getTask (.offer i, n) = some t ∧
      (t.pc ≠ .done → ∃ A B, anchor i s.offLog = some A ∧ Sch s.tm t.pc A B ∧ Pend s i n t B) := by
  have hi := (otp_runAll s0 s es hrun (otp_fresh s0 h0)).1.2.2
  obtain ⟨t, ht, hrest⟩ := hi.own i n (by rw [its_getInst hx, hn])
  exact ⟨t, by rw [getTask_offer]; exact ht, hrest⟩

/-- **ON SCHEDULE, neither early nor late**: whenever the step of the task an instance holds is about to run, the clock
reads exactly (time of the instance's last multicast offer, or of its start) + (the delay of the task's position) -/
theorem c10_offer_step_on_schedule (s0 s : Stack) (es : List Event) (h0 : FreshTime s0) (hrun : runAll s0 es = some s)
    (i n : Nat) (x : Instance) (hx : s.getInst i = some x) (hn : x.task = some n)
    (q : Option Nat) (rest : List (RItem Cb)) (hhead : s.loop.ready = ⟨q, .taskStep (.offer i, n)⟩ :: rest) :
    ∃ t, s.getTask (.offer i, n) = some t ∧ (t.pc ≠ .done → ∃ A, anchor i s.offLog = some A ∧ Sch s.tm t.pc A s.loop.now) := by
  obtain ⟨t, ht, hrest⟩ := c10_held_task_on_schedule s0 s es h0 hrun i n x hx hn
  refine ⟨t, ht, ?_⟩
  intro hpc
  obtain ⟨A, B, hA, hS, hP⟩ := hrest hpc
  have hns : nS s i n ≠ 0 := by
    obtain ⟨h1, _, _⟩ := counts_pop s q _ rest hhead i n
    rw [isOStepOf_self] at h1; simp at h1; omega
  unfold Pend at hP
  cases hw : t.waiting
  · rw [hw] at hP; simp only [Bool.false_eq_true, if_false] at hP
    exact ⟨A, hA, by rw [hP.2.2.2]; exact hS⟩
  · rw [hw] at hP; simp only [if_true] at hP
    exact absurd hP.1 hns

/-- the four positions spelt out -/
theorem c10_first_offer_in_window (s0 s : Stack) (es : List Event) (h0 : FreshTime s0) (hrun : runAll s0 es = some s)
    (i n : Nat) (x : Instance) (hx : s.getInst i = some x) (hn : x.task = some n)
    (q : Option Nat) (rest : List (RItem Cb)) (hhead : s.loop.ready = ⟨q, .taskStep (.offer i, n)⟩ :: rest)
    (t : TaskSt) (ht : s.getTask (.offer i, n) = some t) (hpc : t.pc = .initial) :
    ∃ A d, anchor i s.offLog = some A ∧ s.tm.initialDelayMin ≤ d ∧ (s.tm.initialDelayMin ≤ s.tm.initialDelayMax → d ≤ s.tm.initialDelayMax) ∧
      s.loop.now = A + d := by
  obtain ⟨t', ht', hrest⟩ := c10_offer_step_on_schedule s0 s es h0 hrun i n x hx hn q rest hhead
  rw [ht] at ht'; cases ht'
  obtain ⟨A, hA, hS⟩ := hrest (by rw [hpc]; decide)
  rw [hpc] at hS
  obtain ⟨d, h1, h2, h3⟩ := hS
  exact ⟨A, d, hA, h1, h2, h3⟩

theorem c10_repetition_at_doubling_interval (s0 s : Stack) (es : List Event) (h0 : FreshTime s0) (hrun : runAll s0 es = some s)
    (i n : Nat) (x : Instance) (hx : s.getInst i = some x) (hn : x.task = some n)
    (q : Option Nat) (rest : List (RItem Cb)) (hhead : s.loop.ready = ⟨q, .taskStep (.offer i, n)⟩ :: rest)
    (t : TaskSt) (ht : s.getTask (.offer i, n) = some t) (k : Nat) (hpc : t.pc = .rep k) :
    ∃ A, anchor i s.offLog = some A ∧ s.loop.now = A + 2 ^ k * s.tm.repetitionsBaseDelay := by
  obtain ⟨t', ht', hrest⟩ := c10_offer_step_on_schedule s0 s es h0 hrun i n x hx hn q rest hhead
  rw [ht] at ht'; cases ht'
  obtain ⟨A, hA, hS⟩ := hrest (by rw [hpc]; intro h; cases h)
  rw [hpc] at hS
  exact ⟨A, hA, hS⟩

theorem c10_cyclic_offer_at_period (s0 s : Stack) (es : List Event) (h0 : FreshTime s0) (hrun : runAll s0 es = some s)
    (i n : Nat) (x : Instance) (hx : s.getInst i = some x) (hn : x.task = some n)
    (q : Option Nat) (rest : List (RItem Cb)) (hhead : s.loop.ready = ⟨q, .taskStep (.offer i, n)⟩ :: rest)
    (t : TaskSt) (ht : s.getTask (.offer i, n) = some t) (hpc : t.pc = .cyclic) :
    ∃ A, anchor i s.offLog = some A ∧ s.loop.now = A + s.tm.cyclicOfferDelay := by
  obtain ⟨t', ht', hrest⟩ := c10_offer_step_on_schedule s0 s es h0 hrun i n x hx hn q rest hhead
  rw [ht] at ht'; cases ht'
  obtain ⟨A, hA, hS⟩ := hrest (by rw [hpc]; decide)
  rw [hpc] at hS
  exact ⟨A, hA, hS⟩

/-- **NEVER LATE, as a state invariant**: at every reachable state the next step of the task an instance holds is due at a
time B on schedule that the clock has not passed - the time since the instance's last multicast offer (or its start) never
exceeds the delay of the task's position.  (The clock cannot pass a pending wake-up, a fired wake-up or a queued step
stops the clock until it has run.) -/
theorem c10_next_offer_not_overdue (s0 s : Stack) (es : List Event) (h0 : FreshTime s0) (hrun : runAll s0 es = some s)
    (i n : Nat) (x : Instance) (hx : s.getInst i = some x) (hn : x.task = some n)
    (t : TaskSt) (ht : s.getTask (.offer i, n) = some t) (hpc : t.pc ≠ .done) :
    ∃ A B, anchor i s.offLog = some A ∧ Sch s.tm t.pc A B ∧ s.loop.now ≤ B := by
  obtain ⟨t', ht', hrest⟩ := c10_held_task_on_schedule s0 s es h0 hrun i n x hx hn
  rw [ht] at ht'; cases ht'
  obtain ⟨A, B, hA, hS, hP⟩ := hrest hpc
  refine ⟨A, B, hA, hS, ?_⟩
  have hld := c09_clock_never_passes_a_deadline s0 s es h0.timers hrun
  unfold Pend at hP
  cases hw : t.waiting
  · rw [hw] at hP; simp only [Bool.false_eq_true, if_false] at hP
    exact Nat.le_of_eq hP.2.2.2
  · rw [hw] at hP; simp only [if_true] at hP
    obtain ⟨_, h2, h3, h4⟩ := hP
    by_cases hq : nWR s i n = 0
    · have hlen : (wT s i n).length = 1 := by omega
      match hwt : wT s i n, hlen with
      | [y], _ =>
        have hy : y ∈ wT s i n := by rw [hwt]; exact List.mem_cons_self
        have hyt : y ∈ s.loop.timers := (List.mem_filter.mp hy).1
        rw [← h3 y hy]; exact hld y hyt
    · exact Nat.le_of_eq (h4 hq)

/-- in the cyclic phase: the last multicast offer of an offering instance is never older than one cyclic period -/
theorem c10_last_offer_is_fresh (s0 s : Stack) (es : List Event) (h0 : FreshTime s0) (hrun : runAll s0 es = some s)
    (i n : Nat) (x : Instance) (hx : s.getInst i = some x) (hn : x.task = some n)
    (t : TaskSt) (ht : s.getTask (.offer i, n) = some t) (hpc : t.pc = .cyclic) :
    ∃ A, anchor i s.offLog = some A ∧ s.loop.now ≤ A + s.tm.cyclicOfferDelay := by
  obtain ⟨A, B, hA, hS, hB⟩ := c10_next_offer_not_overdue s0 s es h0 hrun i n x hx hn t ht (by rw [hpc]; decide)
  rw [hpc] at hS
  exact ⟨A, hA, by rw [← (show B = A + s.tm.cyclicOfferDelay from hS)]; exact hB⟩

/-- while the task sleeps, every scheduled wake-up handle of it carries exactly the due time -/
theorem c10_wakeup_deadline_on_schedule (s0 s : Stack) (es : List Event) (h0 : FreshTime s0) (hrun : runAll s0 es = some s)
    (i n : Nat) (x : Instance) (hx : s.getInst i = some x) (hn : x.task = some n)
    (t : TaskSt) (ht : s.getTask (.offer i, n) = some t) (hpc : t.pc ≠ .done) (hw : t.waiting = true)
    (y : Timer Cb) (hy : y ∈ s.loop.timers) (hcb : y.cb = .sleepDone (.offer i, n)) :
    ∃ A, anchor i s.offLog = some A ∧ Sch s.tm t.pc A y.deadline := by
  obtain ⟨t', ht', hrest⟩ := c10_held_task_on_schedule s0 s es h0 hrun i n x hx hn
  rw [ht] at ht'; cases ht'
  obtain ⟨A, B, hA, hS, hP⟩ := hrest hpc
  unfold Pend at hP
  rw [hw] at hP; simp only [if_true] at hP
  have hm : y ∈ wT s i n := List.mem_filter.mpr ⟨hy, by rw [hcb]; simp [isSleepFor]⟩
  exact ⟨A, hA, by rw [hP.2.2.1 y hm]; exact hS⟩

/-! non-vacuity: initial delay 10, two repetitions with base delay 30, cyclic period 1000: start at 0, offers at 10, 40 = 10 + 30,
100 = 40 + 2 * 30, the next wake-up is scheduled for 1100 = 100 + 1000 -/
def tmT : Timings := { ({} : Timings) with initialDelayMin := 10, initialDelayMax := 10, repetitionsMax := 2, repetitionsBaseDelay := 30, cyclicOfferDelay := 1000 }
def stackT : Stack := { tm := tmT, instances := [{ service := svcY }] }
def evsT : List Event := [.input (.announce 0), .input .start, .run, .run, .run, .adv 10, .fire 1, .run, .run, .adv 15, .fire 2, .run,
  .adv 40, .fire 3, .run, .run, .adv 45, .fire 4, .run, .adv 100, .fire 5, .run, .run]
example : FreshTime stackT := ⟨⟨⟨rfl, by intro x hx; simp [stackT] at hx; subst hx; exact ⟨rfl, rfl⟩⟩, rfl⟩, rfl, rfl⟩
example : (runAll stackT evsT).map (fun s => (s.offLog.map (fun e => (e.2.1, e.2.2)), s.loop.now, anchor 0 s.offLog,
    (s.loop.timers.filter (fun t => isSleepFor (.offer 0, 0) t.cb)).map (·.deadline))) =
    some ([(.start, 0), (.offer false, 10), (.offer false, 40), (.offer false, 100)], 100, some 100, [1100]) := by decide +kernel
/-- the wake-up of the first repetition cannot fire before 40, and the clock cannot pass 40 while it is pending -/
example : (runAll stackT (evsT.take 12 ++ [.adv 39, .fire 3])).isNone = true := by decide +kernel
example : (runAll stackT (evsT.take 12 ++ [.adv 41])).isNone = true := by decide +kernel

end Someip
