/-
  C10 — whole runs, on the ghost log of the service instances: nothing follows a stop, and StopOffers are counted.

  `s.offLog`     : ghost - (instance, event, time), appended by `ServiceInstance.start()` (`start`), `stop()` (`stop`) and by
                   `_send_offer` whenever it hands an entry to `queue_send`: `offer false` to the multicast group, `offer true`
                   as a unicast answer to a FindService, `stopOffer` for a StopOffer (TTL 0).  Nothing else writes it
                   (LogFrame.lean: one frame lemma per other function of the model).
  `oa i log`     : what the log says about instance i: running (last of start / stop), offered (a multicast offer since the
                   last start), stops (number of stop() calls after having offered), allStops, sos (number of StopOffers).
  `owed tasks i` : the offer tasks of instance i that were cancelled inside their try block and have not run their
                   cancellation handler yet.

  For EVERY list of events (API calls of all three components, datagrams, callbacks in any admissible order, timers, clock
  steps) from a fresh stack:
   * NOTHING FOLLOWS A STOP: every offer with a non-zero TTL in the log - cyclic, repetition, or the delayed unicast answer
     to an earlier FindService - was handed to `queue_send` while the log said the instance was running, i.e. after a
     `start` with no `stop` in between (`c10_nothing_follows_stop`); and the log's "running" is the instance's `_task is
     not None` (`c10_log_running_iff_task`);
   * with a cyclic period: #StopOffers + #owed = #stops-after-an-offer (`c10_stopoffers_cyclic`) - never more than one
     StopOffer per stop (`c10_at_most_one_stopoffer_per_stop`), none for a stop before the first offer ("stopping before the
     first offer of a cyclic instance sends nothing": such a stop does not count, and no handler is owed), and what is
     missing is exactly the cancelled tasks whose handler is still to run;
   * without a cyclic period every stop hands its StopOffer to `queue_send` at once (`c10_stopoffers_noncyclic`).
   * at an idle loop no cancelled offer task is left (`c10_idle_no_cancelled_task`: OQFrame / OQInv / OQSteps - a task that is
     neither finished nor suspended has its step in the ready queue, and a cancelled one is not suspended), hence a cyclic
     instance has then sent EXACTLY one StopOffer per stop-after-offer (`c10_idle_exactly_one_stopoffer_per_stop`).
  Not part of these theorems: that `queue_send` turns the entry into a datagram (C15), the timing of the phases.
-/
import SomeipModel.Lemmas.OLSteps
import SomeipModel.Lemmas.OQSteps
import SomeipModel.Props.C10Global
namespace Someip
open Stack
set_option linter.unusedSimpArgs false

theorem olp_runAll (s s' : Stack) (es : List Event) (h : runAll s es = some s') (hi : OLP s) : OLP s' := by
  induction es generalizing s with
  | nil => simp [runAll] at h; subst h; exact hi
  | cons e t ih =>
    simp only [runAll] at h
    split at h
    · cases h
    · rename_i s1 hs
      exact ih s1 h (olp_step s s1 e hs hi)

/-- a stack whose instances have not been started, with no tasks and an empty instance log -/
structure FreshLog (s0 : Stack) : Prop where
  off : FreshOff s0
  log : s0.offLog = []

theorem ol_fresh (s0 : Stack) (h : FreshLog s0) : OL s0 := by
  have e : otasks s0 = [] := by unfold otasks; rw [h.off.tasks]; rfl
  have hits : ∀ (i : Nat) (r : Option Nat), (lview s0).its[i]? = some r → r = none := by
    intro i r hr
    rw [lview_its] at hr
    cases hx : s0.getInst i with
    | none => rw [hx] at hr; cases hr
    | some x =>
      rw [hx] at hr
      have hm : x ∈ s0.instances := List.mem_of_getElem? hx
      have := (h.off.stopped x hm).1
      simp at hr; rw [← hr]; exact this
  have hlog : (lview s0).log = [] := h.log
  have htasks : (lview s0).tasks = [] := e
  refine ⟨?_, ?_, ?_, ?_, ?_, ?_, ?_⟩
  · rw [htasks]; exact List.nodup_nil
  · intro p hp; rw [htasks] at hp; cases hp
  · intro i r hr; rw [hlog, hits i r hr]; rfl
  · intro i n hr; have := hits i _ hr; cases this
  · intro _ i; rw [hlog, htasks]; rfl
  · intro _ i; rw [hlog]; rfl
  · rw [hlog]; exact quiet_nil

theorem olp_fresh (s0 : Stack) (h : FreshLog s0) : OLP s0 := ⟨offinv_fresh s0 h.off, ol_fresh s0 h⟩

/-- **NOTHING FOLLOWS A STOP (whole run)**: every offer in the log was handed to `queue_send` while the log said "running" -/
theorem c10_nothing_follows_stop (s0 s : Stack) (es : List Event) (h0 : FreshLog s0) (hrun : runAll s0 es = some s)
    (pre post : OLog) (i : Nat) (r : Bool) (τ : Nat) (hlog : s.offLog = pre ++ (i, .offer r, τ) :: post) :
    (oa i pre).running = true :=
  (olp_runAll s0 s es hrun (olp_fresh s0 h0)).2.quiet pre (i, .offer r, τ) post hlog rfl

/-- the log's "running" is the instance's `_task is not None` -/
theorem c10_log_running_iff_task (s0 s : Stack) (es : List Event) (h0 : FreshLog s0) (hrun : runAll s0 es = some s)
    (i : Nat) (x : Instance) (hx : s.getInst i = some x) : (oa i s.offLog).running = x.task.isSome :=
  (olp_runAll s0 s es hrun (olp_fresh s0 h0)).2.run i x.task (its_getInst hx)

/-- the task an instance holds is not cancelled, and it is past its first offer exactly when the log says "offered" -/
theorem c10_log_offered_iff_pc (s0 s : Stack) (es : List Event) (h0 : FreshLog s0) (hrun : runAll s0 es = some s)
    (i n : Nat) (x : Instance) (hx : s.getInst i = some x) (hn : x.task = some n) :
    ∃ t, s.getTask (.offer i, n) = some t ∧ t.cancelled = false ∧ (oa i s.offLog).offered = offeredPc t.pc := by
  obtain ⟨t, h1, h2, h3, _⟩ := (olp_runAll s0 s es hrun (olp_fresh s0 h0)).2.own i n (by rw [its_getInst hx, hn])
  exact ⟨t, by rw [getTask_offer]; exact h1, h2, h3⟩

/-- **StopOffers of a cyclic instance (whole run)**: one per stop after an offer - sent, or owed by a cancelled task -/
theorem c10_stopoffers_cyclic (s0 s : Stack) (es : List Event) (h0 : FreshLog s0) (hrun : runAll s0 es = some s)
    (hc : s.tm.cyclicOfferDelay ≠ 0) (i : Nat) :
    (oa i s.offLog).sos + owed (otasks s) i = (oa i s.offLog).stops :=
  (olp_runAll s0 s es hrun (olp_fresh s0 h0)).2.cnt hc i

theorem c10_at_most_one_stopoffer_per_stop (s0 s : Stack) (es : List Event) (h0 : FreshLog s0) (hrun : runAll s0 es = some s)
    (hc : s.tm.cyclicOfferDelay ≠ 0) (i : Nat) : (oa i s.offLog).sos ≤ (oa i s.offLog).stops := by
  have := c10_stopoffers_cyclic s0 s es h0 hrun hc i; omega

/-- without a cyclic period every stop hands its StopOffer to `queue_send` at once -/
theorem c10_stopoffers_noncyclic (s0 s : Stack) (es : List Event) (h0 : FreshLog s0) (hrun : runAll s0 es = some s)
    (hc : s.tm.cyclicOfferDelay = 0) (i : Nat) : (oa i s.offLog).sos = (oa i s.offLog).allStops :=
  (olp_runAll s0 s es hrun (olp_fresh s0 h0)).2.cnt0 hc i


/-! ### at an idle loop every cancellation handler has run -/

theorem oq_runAll (s s' : Stack) (es : List Event) (h : runAll s es = some s') (hi : OQ s) : OQ s' := by
  induction es generalizing s with
  | nil => simp [runAll] at h; subst h; exact hi
  | cons e t ih =>
    simp only [runAll] at h
    split at h
    · cases h
    · rename_i s1 hs
      exact ih s1 h (oq_step s s1 e hs hi)

theorem oq_fresh (s0 : Stack) (h : FreshLog s0) : OQ s0 := by
  have e : otasks s0 = [] := by unfold otasks; rw [h.off.tasks]; rfl
  refine ⟨?_, ?_⟩
  · intro i n t _ ht; unfold otask at ht; rw [e] at ht; simp [alookup] at ht
  · intro i n t ht; unfold otask at ht; rw [e] at ht; simp [alookup] at ht

theorem alookup_of_mem_nodup {l : List (Tid × TaskSt)} (hnd : (l.map (·.1)).Nodup) {p : Tid × TaskSt} (hp : p ∈ l) :
    alookup l p.1 = some p.2 := by
  induction l with
  | nil => cases hp
  | cons q r ih =>
    simp only [List.map_cons, List.nodup_cons] at hnd
    rcases List.mem_cons.mp hp with rfl | hp
    · simp [alookup]
    · have hne : q.1 ≠ p.1 := fun e => hnd.1 (by rw [e]; exact List.mem_map_of_mem hp)
      have := ih hnd.2 hp
      unfold alookup at this ⊢
      simpa [List.find?_cons, hne] using this

/-- at an idle loop no offer task is left cancelled: it has finished (its cancellation handler has run) -/
theorem c10_idle_no_cancelled_task (s0 s : Stack) (es : List Event) (h0 : FreshLog s0) (hrun : runAll s0 es = some s)
    (hidle : s.loop.ready = []) (i n : Nat) (t : TaskSt) (ht : s.getTask (.offer i, n) = some t) (hc : t.cancelled = true) :
    t.pc = .done := by
  have hq := oq_runAll s0 s es hrun (oq_fresh s0 h0)
  rw [getTask_offer] at ht
  by_cases hd : t.pc = .done
  · exact hd
  · have hw := hq.canc i n t ht hd hc
    obtain ⟨x, hx, _⟩ := hq.live i n t (by simp) ht hd hw
    rw [hidle] at hx; cases hx

/-- **exactly one StopOffer per stop (whole run)**: at an idle loop a cyclic instance has handed `queue_send` exactly one
StopOffer for every stop() that followed an offer - and none for a stop before the first offer -/
theorem c10_idle_exactly_one_stopoffer_per_stop (s0 s : Stack) (es : List Event) (h0 : FreshLog s0) (hrun : runAll s0 es = some s)
    (hidle : s.loop.ready = []) (hc : s.tm.cyclicOfferDelay ≠ 0) (i : Nat) :
    (oa i s.offLog).sos = (oa i s.offLog).stops := by
  have hp := olp_runAll s0 s es hrun (olp_fresh s0 h0)
  have h1 := hp.2.cnt hc i
  have h2 : owed (otasks s) i = 0 := by
    unfold owed
    rw [List.countP_eq_zero]
    intro p hp' hpo
    have hlk : alookup (otasks s) p.1 = some p.2 := alookup_of_mem_nodup hp.2.nodup hp'
    simp only [owedP, Bool.and_eq_true, decide_eq_true_eq] at hpo
    obtain ⟨hk, hcc, htry⟩ := hpo
    obtain ⟨⟨k, n⟩, t⟩ := p
    simp only at hk hcc htry hlk
    subst hk
    have := c10_idle_no_cancelled_task s0 s es h0 hrun hidle i n t (by rw [getTask_offer]; exact hlk) hcc
    rw [this] at htry; cases htry
  have h1' : (oa i s.offLog).sos + owed (otasks s) i = (oa i s.offLog).stops := h1
  omega

/-! non-vacuity: the instance of C10Global offers, is stopped, its cancelled task runs the handler; and a stop before the first
offer, which sends nothing -/
example : FreshLog stackY := ⟨⟨rfl, by intro x hx; simp [stackY] at hx; subst hx; exact ⟨rfl, rfl⟩⟩, rfl⟩
example : (runAll stackY (runY ++ [.input (.stopAnnounce 0 true)])).map
    (fun s => (s.offLog.map (fun e => (e.1, e.2.1)), decide (s.tm.cyclicOfferDelay ≠ 0), (oa 0 s.offLog).sos, (oa 0 s.offLog).stops, owed (otasks s) 0)) =
    some ([(0, .start), (0, .offer false), (0, .stop)], true, 0, 1, 1) := by decide +kernel
example : (runAll stackY (runY ++ [.input (.stopAnnounce 0 true), .run])).map
    (fun s => (s.offLog.map (fun e => (e.1, e.2.1)), (oa 0 s.offLog).sos, (oa 0 s.offLog).stops, owed (otasks s) 0)) =
    some ([(0, .start), (0, .offer false), (0, .stop), (0, .stopOffer)], 1, 1, 0) := by decide +kernel
example : (runAll stackY [.input (.announce 0), .input .start, .run, .input (.stopAnnounce 0 true), .run, .run]).map
    (fun s => (s.offLog.map (fun e => (e.1, e.2.1)), (oa 0 s.offLog).sos, (oa 0 s.offLog).stops, (oa 0 s.offLog).allStops, owed (otasks s) 0)) =
    some ([(0, .start), (0, .stop)], 0, 0, 1, 0) := by decide +kernel

end Someip
