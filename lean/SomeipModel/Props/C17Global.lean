/-
  C17 — whole-run theorems for the eventgroup model.
  For EVERY list of operations (subscribe / unsubscribe from any endpoints, value updates, explicit notification
  requests, single task steps, settling with any fuel, clock steps with cyclic rounds, SD-level client subscriptions,
  in any order, of any length - in particular long enough to wrap the per-destination session id):
    * the subscribers are a set and `has_clients` is true exactly while it is non-empty;
    * the k-th notification message to a destination carries session id (k mod 65535) + 1: counting up from 1,
      skipping 0, wrapping after 0xFFFF (with the reboot flag bookkeeping of C08), independently per destination;
    * notifications are never addressed to the multicast pseudo-destination.
  ROUND: from any reachable state without pending tasks, a notification round (explicit or cyclic) runs exactly one
  per-endpoint task per endpoint subscribed at that instant, in order, once each, every task transmits at most one
  datagram and only to its own endpoint, and nothing else is sent.
  WIRE: the datagram a per-endpoint task transmits is decoded by the SOME/IP datagram decoder (C01) into exactly one
  NOTIFICATION per requested event, in order, each with the service id, method id 0x8000 | event, the major version
  as interface version, the event's current value and the session ids drawn for that destination.
-/
import SomeipModel.Lemmas.EGInv
import SomeipModel.Props.C17
namespace Someip
open EG Spec
set_option linter.unusedSimpArgs false
set_option linter.unusedVariables false

inductive EGEv
  | sub (ep : Addr)
  | unsub (ep : Addr)
  | set (ev : Nat) (v : Bytes)
  | once (evs : List Nat)
  | runOne                          -- the task at the head of the queue runs
  | settle (fuel : Nat)
  | adv (fuel t : Nat)
  | client (egid : Nat) (eps : List Addr)
deriving Repr

def EG.step (g : EG) : EGEv → Option EG
  | .sub ep => some (g.subscribe ep)
  | .unsub ep => g.unsubscribe ep
  | .set ev v => some (g.setValue ev v)
  | .once evs => some (g.notifyOnce evs)
  | .runOne => match g.pending with
    | [] => none
    | t :: r => some (({ g with pending := r } : EG).runTask t)
  | .settle fuel => some (g.settle fuel)
  | .adv fuel t => some (EG.advance fuel g t)
  | .client egid eps => some (g.clientSubscribed egid eps).1

def runAllEG : EG → List EGEv → Option EG
  | g, [] => some g
  | g, e :: es => match g.step e with
    | none => none
    | some g' => runAllEG g' es

theorem egi_step (g g' : EG) (e : EGEv) (h : g.step e = some g') (hi : EGI g) : EGI g' := by
  cases e with
  | sub ep => simp only [EG.step, Option.some.injEq] at h; subst h; exact egi_subscribe g ep hi
  | unsub ep => exact egi_unsubscribe g g' ep h hi
  | set ev v => simp only [EG.step, Option.some.injEq] at h; subst h; exact egi_setValue g ev v hi
  | once evs => simp only [EG.step, Option.some.injEq] at h; subst h; exact egi_notifyOnce g evs hi
  | runOne =>
    simp only [EG.step] at h
    split at h
    · cases h
    · simp only [Option.some.injEq] at h; subst h; exact egi_runTask _ _ (egi_of_egp rfl hi)
  | settle fuel => simp only [EG.step, Option.some.injEq] at h; subst h; exact egi_settle fuel g hi
  | adv fuel t => simp only [EG.step, Option.some.injEq] at h; subst h; exact egi_advance fuel g t hi
  | client egid eps => simp only [EG.step, Option.some.injEq] at h; subst h; exact egi_clientSubscribed g egid eps hi

theorem egi_runAll (g g' : EG) (es : List EGEv) (h : runAllEG g es = some g') (hi : EGI g) : EGI g' := by
  induction es generalizing g with
  | nil => simp [runAllEG] at h; subst h; exact hi
  | cons e t ih =>
    simp only [runAllEG] at h
    split at h
    · cases h
    · rename_i g1 hs
      exact ih g1 h (egi_step g g1 e hs hi)

/-- a freshly created eventgroup: nobody subscribed, nothing sent yet -/
structure FreshEG (g : EG) : Prop where
  subscribed : g.subscribed = []
  hasClients : g.hasClients = false
  outgoing : g.outgoing = []
  idLog : g.idLog = []
  rounds : g.rounds = []

theorem egi_fresh (g : EG) (h : FreshEG g) : EGI g := by
  unfold EGI EGIc egp
  simp only [h.subscribed, h.hasClients, h.outgoing, h.idLog, h.rounds]
  refine ⟨List.nodup_nil, rfl, ⟨?_, rfl⟩, by simp, by simp⟩
  intro d
  simp [alookup_nil, kthFlag, kthId, countBefore]

/-- WHOLE-RUN THEOREM (subscribers).  After any list of operations the subscribers are a set and `has_clients` is true
exactly while somebody is subscribed; every round that was ever started saw a duplicate-free subscriber list. -/
theorem c17_subscribers_whole_run (g0 g : EG) (es : List EGEv) (h0 : FreshEG g0) (hrun : runAllEG g0 es = some g) :
    g.subscribed.Nodup ∧ (g.hasClients = true ↔ g.subscribed ≠ []) ∧ ∀ r ∈ g.rounds, r.1.Nodup := by
  obtain ⟨h1, h2, _, h4, _⟩ := egi_runAll g0 g es hrun (egi_fresh g0 h0)
  refine ⟨h1, ?_, h4⟩
  simp only [egp] at h2
  rw [h2]
  cases g.subscribed <;> simp

/-- WHOLE-RUN THEOREM (session ids).  After any list of operations, the (reboot flag, session id) pairs drawn for
notification messages are exactly the ones the session specification of C08 prescribes for that sequence of
destinations, and no notification is addressed to the multicast pseudo-destination. -/
theorem c17_ids_whole_run (g0 g : EG) (es : List EGEv) (h0 : FreshEG g0) (hrun : runAllEG g0 es = some g) :
    g.idLog.map (·.2) = expectedSends [] (g.idLog.map (·.1)) ∧ ∀ x ∈ g.idLog, x.1 ≠ none := by
  obtain ⟨_, _, h3, _, h5⟩ := egi_runAll g0 g es hrun (egi_fresh g0 h0)
  exact ⟨h3.2, h5⟩

/-- what the specification means per destination: the ids are kthId 0, kthId 1, ... in order -/
theorem expected_per_destination (log : List (Dest × (Bool × Nat))) (hist : List Dest) (d : Dest)
    (h : log.map (·.2) = expectedSends hist (log.map (·.1))) :
    ((log.filter (fun x => decide (x.1 = d))).map (·.2.2)) =
      (List.range' (countBefore hist d) (countBefore (log.map (·.1)) d)).map kthId := by
  induction log generalizing hist with
  | nil => simp [countBefore]
  | cons x r ih =>
    obtain ⟨x1, x2⟩ := x
    simp only [List.map_cons, expectedSends, List.cons.injEq] at h
    obtain ⟨hh, ht⟩ := h
    have ih' := ih (hist ++ [x1]) ht
    simp only [List.filter_cons, List.map_cons]
    by_cases hx : x1 = d
    · subst hx
      simp only [decide_true, if_true, List.map_cons]
      have e1 : countBefore (x1 :: r.map (·.1)) x1 = countBefore (r.map (·.1)) x1 + 1 := by simp [countBefore]
      have e2 : countBefore (hist ++ [x1]) x1 = countBefore hist x1 + 1 := by rw [countBefore_append]; simp
      rw [ih', e1, e2, List.range'_succ, List.map_cons, hh]
    · simp only [hx, decide_false, Bool.false_eq_true, if_false]
      have e1 : countBefore (x1 :: r.map (·.1)) d = countBefore (r.map (·.1)) d := by simp [countBefore, hx]
      have e2 : countBefore (hist ++ [x1]) d = countBefore hist d := by rw [countBefore_append]; simp [hx]
      rw [ih', e1, e2]

/-- SESSION IDS PER DESTINATION, whole run: the session ids of the notification messages sent to one endpoint, in
order, are 1, 2, ..., 0xFFFF, 1, 2, ... (`kthId k = k mod 65535 + 1`): counting up from 1 and skipping 0, however
the notifications to other endpoints are interleaved -/
theorem c17_ids_per_destination (g0 g : EG) (es : List EGEv) (h0 : FreshEG g0) (hrun : runAllEG g0 es = some g) (ep : Addr) :
    ((g.idLog.filter (fun x => decide (x.1 = some ep))).map (·.2.2)) =
      (List.range (countBefore (g.idLog.map (·.1)) (some ep))).map kthId := by
  have := expected_per_destination g.idLog [] (some ep) (c17_ids_whole_run g0 g es h0 hrun).1
  rw [this, List.range_eq_range']
  simp [countBefore]

/-- ROUND, whole run.  In any reachable state without pending tasks, a notification round over the events `sel`
(started by `notify_once` or by the cyclic task), run to completion with any sufficient fuel:
  * notes exactly the current subscribers (a duplicate-free list),
  * makes one attempt per subscriber, in order (`obs` has one entry per subscriber),
  * each attempt transmits at most one datagram, to that subscriber, at the current time,
  * nothing else is sent and no task is left pending. -/
theorem c17_round_exactly_the_subscribers (g0 g : EG) (es : List EGEv) (h0 : FreshEG g0) (hrun : runAllEG g0 es = some g)
    (sel : EvSel) (fuel : Nat) (hp : g.pending = []) (hf : g.subscribed.length < fuel) :
    g.subscribed.Nodup ∧
    ∃ obs : List (Option Bytes), obs.length = g.subscribed.length ∧
      (({ g with pending := [NTask.all sel] } : EG).settle fuel).sent =
        g.sent ++ (g.subscribed.zip obs).filterMap (fun p => p.2.map (fun b => (g.now, p.1, b))) ∧
      (({ g with pending := [NTask.all sel] } : EG).settle fuel).pending = [] ∧
      (({ g with pending := [NTask.all sel] } : EG).settle fuel).rounds = g.rounds ++ [(g.subscribed, g.sent.length)] := by
  refine ⟨(c17_subscribers_whole_run g0 g es h0 hrun).1, ?_⟩
  rw [round_unrolls g sel fuel hp hf]
  obtain ⟨obs, o1, o2, _, _, o5⟩ :=
    singles_sent sel g.subscribed ({ g.logRound with pending := g.subscribed.map (fun ep => NTask.single ep sel) })
  refine ⟨obs, o1, o2, ?_, ?_⟩
  · rw [o5]; simp
  · have key : ∀ (eps : List Addr) (x : EG), (eps.foldl (popRun sel) x).rounds = x.rounds := by
      intro eps
      induction eps with
      | nil => intro x; rfl
      | cons ep t ih =>
        intro x
        rw [List.foldl_cons, ih]
        exact congrArg (fun p => p.2.2.2.2.2.2.2.2.2.2) (runTask_single_spec ({ x with pending := x.pending.tail }) ep sel).1
    rw [key]; rfl

/-- a CYCLIC round is such a round too: when the cyclic task wakes up in a reachable state without pending tasks, exactly
one attempt per current subscriber is made, in order, each transmitting at most one datagram to its own endpoint, and no task
is left pending -/
theorem c17_cyclic_round_exactly_the_subscribers (g0 g : EG) (es : List EGEv) (h0 : FreshEG g0) (hrun : runAllEG g0 es = some g)
    (hp : g.pending = []) :
    g.subscribed.Nodup ∧
    ∃ obs : List (Option Bytes), obs.length = g.subscribed.length ∧
      g.cyclicWake.sent = g.sent ++ (g.subscribed.zip obs).filterMap (fun p => p.2.map (fun b => (g.now, p.1, b))) ∧
      g.cyclicWake.pending = [] := by
  obtain ⟨hnd, obs, o1, o2, o3, _⟩ :=
    c17_round_exactly_the_subscribers g0 g es h0 hrun .allKeys (1 + g.subscribed.length + 2) hp (by omega)
  refine ⟨hnd, obs, o1, ?_, ?_⟩
  · have : g.cyclicWake.sent = (({ g with pending := [NTask.all .allKeys] } : EG).settle (1 + g.subscribed.length + 2)).sent := by
      unfold cyclicWake
      simp only [hp, List.nil_append, List.length_singleton]
    rw [this]; exact o2
  · have : g.cyclicWake.pending = (({ g with pending := [NTask.all .allKeys] } : EG).settle (1 + g.subscribed.length + 2)).pending := by
      unfold cyclicWake
      simp only [hp, List.nil_append, List.length_singleton]
    rw [this]; exact o3

/-- an explicit request is such a round exactly when somebody is subscribed, and nothing at all otherwise -/
theorem c17_notify_once_is_a_round (g0 g : EG) (es : List EGEv) (h0 : FreshEG g0) (hrun : runAllEG g0 es = some g)
    (evs : List Nat) (hp : g.pending = []) :
    (g.subscribed ≠ [] → g.notifyOnce evs = { g with pending := [NTask.all (.list evs)] }) ∧
    (g.subscribed = [] → g.notifyOnce evs = g) := by
  have hc := (c17_subscribers_whole_run g0 g es h0 hrun).2.1
  constructor
  · intro hne
    have : g.hasClients = true := hc.mpr hne
    simp [notifyOnce, this, hp]
  · intro he
    have : g.hasClients = false := by
      cases h : g.hasClients with
      | false => rfl
      | true => exact absurd he (hc.mp h)
    simp [notifyOnce, this]

/-! ### the wire -/

theorem msgsOf_spec (g : EG) (ep : Addr) (evs : List Nat) (out : Outgoing) (hlen : (g.msgsOf ep evs out).length = evs.length) :
    (g.msgsOf ep evs out).map (fun m => (m.sid, m.mid, m.cid, m.iv, m.mt, m.rc, m.pv, some m.payload)) =
      evs.map (fun ev => (g.serviceId, 0x8000 ||| ev, 0, g.major, MsgType.notification, RetCode.ok, 1, alookup g.values ev)) := by
  induction evs generalizing out with
  | nil => rfl
  | cons ev r ih =>
    simp only [msgsOf] at hlen ⊢
    cases hv : alookup g.values ev with
    | none => rw [hv] at hlen; simp at hlen
    | some payload =>
      rw [hv] at hlen
      simp only [List.length_cons, Nat.add_right_cancel_iff] at hlen
      simp only [List.map_cons, ih _ hlen, hv]
      rfl

theorem alookup_mem {κ ν} [DecidableEq κ] (l : List (κ × ν)) (k : κ) (v : ν) (h : alookup l k = some v) : (k, v) ∈ l := by
  unfold alookup at h
  cases hf : l.find? (fun p => decide (p.1 = k)) with
  | none => rw [hf] at h; cases h
  | some p =>
    rw [hf] at h
    simp only [Option.map_some, Option.some.injEq] at h
    have h1 := List.find?_some hf
    have h2 := List.mem_of_find?_eq_some hf
    simp only [decide_eq_true_eq] at h1
    rw [← h1, ← h]; exact h2

theorem msgsOf_payload_bytes (g : EG) (ep : Addr) (evs : List Nat) (out : Outgoing) (hb : ∀ p ∈ g.values, AllBytes p.2) :
    ∀ m ∈ g.msgsOf ep evs out, AllBytes m.payload ∧ m.pv = 1 := by
  induction evs generalizing out with
  | nil => intro m hm; cases hm
  | cons ev r ih =>
    intro m hm
    simp only [msgsOf] at hm
    cases hv : alookup g.values ev with
    | none => rw [hv] at hm; cases hm
    | some payload =>
      rw [hv] at hm
      rcases List.mem_cons.mp hm with e | e
      · rw [e]; exact ⟨hb _ (alookup_mem _ _ _ hv), rfl⟩
      · exact ih _ m e

/-- WIRE.  Whenever a per-endpoint task transmits, the receiver's datagram decoder (the C01 model of
`SOMEIPDatagramProtocol.datagram_received`) turns the datagram into exactly one NOTIFICATION per requested event, in
order and without error: service id, method id 0x8000 | event id, client id 0, the major version as interface
version, return code OK, the event's current value as payload - and the session ids are the ones drawn for this
destination (`idsTaken`, which `c17_ids_per_destination` numbers) -/
theorem c17_datagram_decodes (g : EG) (ep : Addr) (sel : EvSel) (hb : ∀ p ∈ g.values, AllBytes p.2)
    (hsent : (g.runTask (.single ep sel)).sent ≠ g.sent) :
    ∃ msgs : List Header,
      (g.runTask (.single ep sel)).sent = g.sent ++ [(g.now, ep, msgs.flatMap layout)] ∧
      datagram (msgs.flatMap layout) = (msgs, none) ∧
      msgs.map (fun m => (m.sid, m.mid, m.cid, m.iv, m.mt, m.rc, m.pv, some m.payload)) =
        (g.evList sel).map (fun ev => (g.serviceId, 0x8000 ||| ev, 0, g.major, MsgType.notification, RetCode.ok, 1, alookup g.values ev)) ∧
      msgs.map (·.sess) = (g.idsTaken ep (g.evList sel) g.outgoing).map (·.2) ∧ (g.evList sel) ≠ [] := by
  obtain ⟨_, _, _, c4⟩ := runTask_single_spec g ep sel
  rcases c4 with c | ⟨c1, c2, c3, c5, c6⟩
  · exact absurd c hsent
  · refine ⟨g.msgsOf ep (g.evList sel) g.outgoing, c1, ?_, msgsOf_spec g ep _ _ c2, c6.symm, c3⟩
    apply c01_datagram_concat
    intro m hm
    obtain ⟨b1, b2⟩ := msgsOf_payload_bytes g ep _ _ hb m hm
    exact ⟨⟨c5 m hm, b1⟩, b2⟩

theorem runTask_cycStep_spec (g : EG) : ∃ c, g.runTask .cycStep = { g with cyc := c } := by
  simp only [runTask]
  split
  · exact ⟨_, rfl⟩
  · exact ⟨_, rfl⟩
  · exact ⟨g.cyc, rfl⟩

theorem subscribe_keeps (g : EG) (ep : Addr) :
    (g.subscribe ep).values = g.values ∧ (g.subscribe ep).outgoing = g.outgoing ∧ (g.subscribe ep).sent = g.sent ∧
      (g.subscribe ep).now = g.now := by
  unfold subscribe
  simp only []
  split
  · exact ⟨rfl, rfl, rfl, rfl⟩
  · split <;> exact ⟨rfl, rfl, rfl, rfl⟩

theorem settle_cons (g : EG) (n : Nat) (t : NTask) (r : List NTask) (h : g.pending = t :: r) :
    g.settle (n + 1) = (({ g with pending := r } : EG).runTask t).settle n := by
  simp only [settle, h]

/-- INITIAL NOTIFICATION, run to completion: subscribing in a state without pending tasks and letting the tasks run
is one per-endpoint task for the new subscriber over all events, on a state with the same values, session storage,
clock and history in which the endpoint is subscribed - so (previous theorems) at most one datagram, to the new
subscriber, with all events and their current values; no task is left pending -/
theorem c17_initial_notification (g : EG) (ep : Addr) (fuel : Nat) (hp : g.pending = []) (hf : 2 ≤ fuel) :
    ∃ g1 : EG, g1.values = g.values ∧ g1.outgoing = g.outgoing ∧ g1.sent = g.sent ∧ g1.now = g.now ∧ ep ∈ g1.subscribed ∧
      g1.pending = [] ∧ (g.subscribe ep).settle fuel = g1.runTask (.single ep .allKeys) := by
  obtain ⟨pre, h1, h2, h3, h4⟩ := c17_initial_task g ep
  rw [hp, List.nil_append] at h1
  obtain ⟨k1, k2, k3, k4⟩ := subscribe_keeps g ep
  have hdone : ∀ (x : EG) (n : Nat), x.pending = [] → (x.runTask (.single ep .allKeys)).settle n = x.runTask (.single ep .allKeys) := by
    intro x n hx
    apply settle_nil
    have := congrArg (fun p => p.2.2.2.2.2.2.2.1) (runTask_single_spec x ep .allKeys).1
    exact this.trans hx
  match fuel, hf with
  | n + 2, _ =>
    rcases h2 with h2 | h2
    · subst h2
      simp only [List.nil_append] at h1
      refine ⟨{ g.subscribe ep with pending := [] }, k1, k2, k3, k4, h3, rfl, ?_⟩
      rw [settle_cons _ _ _ _ h1]
      exact hdone ({ g.subscribe ep with pending := [] }) _ rfl
    · subst h2
      obtain ⟨c, hc⟩ := runTask_cycStep_spec ({ g.subscribe ep with pending := [NTask.single ep .allKeys] })
      refine ⟨{ g.subscribe ep with pending := [], cyc := c }, k1, k2, k3, k4, h3, rfl, ?_⟩
      have h1' : (g.subscribe ep).pending = [NTask.cycStep, NTask.single ep .allKeys] := h1
      rw [settle_cons _ _ _ _ h1', hc, settle_cons _ _ _ [] rfl]
      exact hdone ({ g.subscribe ep with pending := [], cyc := c }) _ rfl

/-- non-vacuity: a fresh eventgroup meets the premise; a concrete run - two events get values, endpoints 5 and 6
subscribe (initial notifications), an explicit round for event 2, endpoint 5 leaves, a round for both events - is
accepted; the destinations of the datagrams, the ids drawn per message and the subscriber lists of the two rounds -/
example : FreshEG ({ serviceId := 0x1234, major := 1, egid := 1 } : EG) := ⟨rfl, rfl, rfl, rfl, rfl⟩
example :
    (runAllEG ({ serviceId := 0x1234, major := 1, egid := 1 } : EG)
      [.set 1 [1, 2], .set 2 [3], .sub 5, .sub 6, .settle 10, .once [2], .settle 10, .unsub 5, .once [1, 2], .settle 10]).map
      (fun g => (g.sent.map (·.2.1), g.idLog.map (fun x => (x.1, x.2.2)), g.rounds.map (·.1), g.pending.length)) =
      some ([5, 6, 5, 6, 6],
            [(some 5, 1), (some 5, 2), (some 6, 1), (some 6, 2), (some 5, 3), (some 6, 3), (some 6, 4), (some 6, 5)],
            [[5, 6], [6]], 0) := by
  decide +kernel
/-- the premise of the WIRE theorem is met: the initial notification of a subscriber is transmitted and decodes -/
example :
    let g : EG := { serviceId := 0x1234, major := 1, egid := 1, values := [(1, [1, 2]), (2, [3])], subscribed := [5], hasClients := true }
    (g.runTask (.single 5 .allKeys)).sent ≠ g.sent ∧
    ((g.runTask (.single 5 .allKeys)).sent.map (fun x => (datagram x.2.2).1.map (fun m => (m.mid, m.sess, m.payload)))) =
      [[(0x8001, 1, [1, 2]), (0x8002, 2, [3])]] := by
  decide +kernel

end Someip
