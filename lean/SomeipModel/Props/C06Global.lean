/-
  C06 — whole-run theorem for the per-instance subscription stores.
  `subLogOf outs` is the sequence of listener notifications (true = client_subscribed, false = client_unsubscribed) with
  instance, subscription key and subscriber address; keys are compared like the dataclass (`SubKey.same`: ids, counter and
  the SET of endpoints).  For EVERY list of events - Subscribe / StopSubscribe entries (accepted, rejected, refreshed,
  unknown), TTL expiries, reboots of subscribers, stops and restarts of instances and of the announcer, connection loss,
  and everything the other parts of the stack do in between - and for every instance, key and address:

    * the notifications alternate subscribed, unsubscribed, ... beginning with subscribed, and
    * the last one is `subscribed` if and only if the instance's store holds an entry for that key at that address now
      (so a rejected subscription is neither recorded nor ever reported unsubscribed, a stored one is reported
      unsubscribed exactly once when it leaves the store, whatever the reason);
    * no address holds two entries with the same key.
-/
import SomeipModel.Lemmas.SubSteps
import SomeipModel.Props.C05Global
namespace Someip
open Stack
set_option linter.unusedSimpArgs false

theorem subInv_runAll (s s' : Stack) (es : List Event) (h : runAll s es = some s') (hi : SubInv s) : SubInv s' := by
  induction es generalizing s with
  | nil => simp [runAll] at h; subst h; exact hi
  | cons e t ih =>
    simp only [runAll] at h
    split at h
    · cases h
    · rename_i s1 hs
      exact ih s1 h (subInv_event s s1 e hs hi)

theorem subInv_init (s0 : Stack) (ho : s0.outs = []) (hs : ∀ x ∈ s0.instances, x.subs = []) : SubInv s0 := by
  intro i st hst
  unfold subsAt at hst
  simp only [List.getElem?_map, Option.map_eq_some_iff] at hst
  obtain ⟨x, hx, rfl⟩ := hst
  have := hs x (List.mem_of_getElem? hx)
  rw [this, ho]
  exact ⟨fun a => by simp [TStore.get]; exact List.Pairwise.nil, fun k a => by simp [subLogOf, trackU, TStore.get, hasKey]⟩

/-- WHOLE-RUN THEOREM (store level) -/
theorem c06_store_history_truthful_alternating (s0 s : Stack) (es : List Event) (ho : s0.outs = [])
    (hs : ∀ x ∈ s0.instances, x.subs = []) (hrun : runAll s0 es = some s) (i : Nat) (x : Instance) (hx : s.getInst i = some x) :
    (∀ a, NoDupSame (x.subs.get a)) ∧
    ∀ k a, trackU i k a (some false) (subLogOf s.outs) = some (hasKey (x.subs.get a) k) :=
  subInv_runAll s0 s es hrun (subInv_init s0 ho hs) i x.subs (subsAt_of_getInst hx)

/-- corollary: an `unsubscribed` can only ever be reported for an entry that is stored at that moment - appending one
more to the history of a run is consistent exactly then (no double report, none for a rejected subscription) -/
theorem c06_no_unsubscribed_unless_stored (s0 s : Stack) (es : List Event) (ho : s0.outs = [])
    (hs : ∀ x ∈ s0.instances, x.subs = []) (hrun : runAll s0 es = some s) (i : Nat) (x : Instance) (hx : s.getInst i = some x)
    (k : SubKey) (a : Addr) :
    trackU i k a (some false) (subLogOf s.outs ++ [(false, i, k, a)]) = (if hasKey (x.subs.get a) k then some false else none) := by
  have h := (c06_store_history_truthful_alternating s0 s es ho hs hrun i x hx).2 k a
  rw [trackU_append, h, trackU_single]
  simp [same_refl]

end Someip
