/-
  C04 — composed executions: every whole-run theorem of the single stack holds for BOTH sides of EVERY execution of the
  two-stack system, with loss, duplication, reordering and delay of datagrams.

  `netRunAll n es` runs a list of composed events (local events of either side, deliver / drop / dup of a datagram in flight,
  joint clock steps).  `c04_side_a_run` / `c04_side_b_run`: the state of a side after any such execution without a crash of
  that side is reached by a single-stack event list from its initial state - the deliveries are its `dgram` inputs.  So the
  theorems quantified "for every event list" (C05, C06, C08, C09, C10, C11, C12, C13, C14, C15) apply verbatim to either
  side; three instances are spelt out below: the offerer's offers are on schedule, the watcher's stored services are within
  their TTL, the subscriber's refresh is on time - in the middle of any composed execution.
  A crash replaces a side's state by a fresh one (same clock); the theorems then apply from the last crash on
  (`c04_side_a_run_after_crash`).  The convergence bound itself is not proved (DESIGN.md 5.3).
-/
import SomeipModel.Props.C04
import SomeipModel.Props.C10Time
import SomeipModel.Props.C14Refresh
import SomeipModel.Props.C09Time
namespace Someip
open Stack
set_option linter.unusedSimpArgs false

def netRunAll : Net → List NEvent → Option Net
  | n, [] => some n
  | n, e :: es => match n.step e with
    | none => none
    | some n' => netRunAll n' es

def isCrashA : NEvent → Bool | .crashA _ => true | _ => false
def isCrashB : NEvent → Bool | .crashB _ => true | _ => false

theorem runAll_append (s s' s'' : Stack) (es es' : List Event) (h1 : runAll s es = some s') (h2 : runAll s' es' = some s'') :
    runAll s (es ++ es') = some s'' := by
  induction es generalizing s with
  | nil => simp [runAll] at h1; subst h1; exact h2
  | cons e t ih =>
    simp only [runAll, List.cons_append] at h1 ⊢
    cases hs : s.step e with
    | none => rw [hs] at h1; cases h1
    | some s1 => rw [hs] at h1; simp only []; exact ih s1 h1

/-- one composed step without a crash of side A: side A makes zero or one step of its own -/
theorem side_a_step (n n' : Net) (e : NEvent) (h : n.step e = some n') (hc : isCrashA e = false) :
    ∃ esA, runAll n.a esA = some n'.a := by
  cases e with
  | sideA ev =>
    obtain ⟨h1, _⟩ := c04_proj_local_a n n' ev h
    exact ⟨[ev], by simp [runAll, h1]⟩
  | sideB ev =>
    obtain ⟨_, h2⟩ := c04_proj_local_b n n' ev h
    exact ⟨[], by rw [h2]; rfl⟩
  | deliver i =>
    obtain ⟨f, _, h1 | h1⟩ := c04_proj_deliver n n' i h
    · exact ⟨[], by rw [h1.2.2]; rfl⟩
    · exact ⟨[.input (.dgram f.src f.mc f.bytes)], by simp [runAll, h1.2.1]⟩
  | drop i => exact ⟨[], by rw [(c04_proj_network n n' i (Or.inl h)).1]; rfl⟩
  | dup i => exact ⟨[], by rw [(c04_proj_network n n' i (Or.inr h)).1]; rfl⟩
  | crashA f => cases hc
  | crashB f => simp only [Net.step, Option.some.injEq] at h; subst h; exact ⟨[], rfl⟩
  | adv t => exact ⟨[.adv t], by simp [runAll, (c04_proj_adv n n' t h).1]⟩

theorem side_b_step (n n' : Net) (e : NEvent) (h : n.step e = some n') (hc : isCrashB e = false) :
    ∃ esB, runAll n.b esB = some n'.b := by
  cases e with
  | sideA ev =>
    obtain ⟨_, h2⟩ := c04_proj_local_a n n' ev h
    exact ⟨[], by rw [h2]; rfl⟩
  | sideB ev =>
    obtain ⟨h1, _⟩ := c04_proj_local_b n n' ev h
    exact ⟨[ev], by simp [runAll, h1]⟩
  | deliver i =>
    obtain ⟨f, _, h1 | h1⟩ := c04_proj_deliver n n' i h
    · exact ⟨[.input (.dgram f.src f.mc f.bytes)], by simp [runAll, h1.2.1]⟩
    · exact ⟨[], by rw [h1.2.2]; rfl⟩
  | drop i => exact ⟨[], by rw [(c04_proj_network n n' i (Or.inl h)).2]; rfl⟩
  | dup i => exact ⟨[], by rw [(c04_proj_network n n' i (Or.inr h)).2]; rfl⟩
  | crashA f => simp only [Net.step, Option.some.injEq] at h; subst h; exact ⟨[], rfl⟩
  | crashB f => cases hc
  | adv t => exact ⟨[.adv t], by simp [runAll, (c04_proj_adv n n' t h).2]⟩

/-- PROJECTION of a whole composed execution onto side A (no crash of A) -/
theorem c04_side_a_run (n n' : Net) (es : List NEvent) (h : netRunAll n es = some n') (hc : ∀ e ∈ es, isCrashA e = false) :
    ∃ esA, runAll n.a esA = some n'.a := by
  induction es generalizing n with
  | nil => simp [netRunAll] at h; subst h; exact ⟨[], rfl⟩
  | cons e t ih =>
    simp only [netRunAll] at h
    split at h
    · cases h
    · rename_i n1 hs
      obtain ⟨e1, h1⟩ := side_a_step n n1 e hs (hc e List.mem_cons_self)
      obtain ⟨e2, h2⟩ := ih n1 h (fun x hx => hc x (List.mem_cons_of_mem _ hx))
      exact ⟨e1 ++ e2, runAll_append _ _ _ _ _ h1 h2⟩

theorem c04_side_b_run (n n' : Net) (es : List NEvent) (h : netRunAll n es = some n') (hc : ∀ e ∈ es, isCrashB e = false) :
    ∃ esB, runAll n.b esB = some n'.b := by
  induction es generalizing n with
  | nil => simp [netRunAll] at h; subst h; exact ⟨[], rfl⟩
  | cons e t ih =>
    simp only [netRunAll] at h
    split at h
    · cases h
    · rename_i n1 hs
      obtain ⟨e1, h1⟩ := side_b_step n n1 e hs (hc e List.mem_cons_self)
      obtain ⟨e2, h2⟩ := ih n1 h (fun x hx => hc x (List.mem_cons_of_mem _ hx))
      exact ⟨e1 ++ e2, runAll_append _ _ _ _ _ h1 h2⟩

/-- after a crash of side A: its state is reached from the fresh incarnation (with the clock of the moment of the crash) -/
theorem c04_side_a_run_after_crash (n n1 n' : Net) (fresh : Stack) (es : List NEvent) (hcr : n.step (.crashA fresh) = some n1)
    (h : netRunAll n1 es = some n') (hc : ∀ e ∈ es, isCrashA e = false) :
    ∃ esA, runAll ({ fresh with loop := { fresh.loop with now := n.a.loop.now } } : Stack) esA = some n'.a := by
  simp only [Net.step, Option.some.injEq] at hcr
  subst hcr
  exact c04_side_a_run _ n' es h hc

/-! three whole-run theorems read off on the sides of a composed execution -/

/-- the OFFERER (side A) in any composed execution: whenever the step of the task an instance holds is about to run, the
clock reads exactly (time of its last offer / start) + (delay of its position) - whatever the network and the peer did -/
theorem c04_offerer_on_schedule (n n' : Net) (es : List NEvent) (h0 : FreshTime n.a) (h : netRunAll n es = some n')
    (hc : ∀ e ∈ es, isCrashA e = false)
    (i k : Nat) (x : Instance) (hx : n'.a.getInst i = some x) (hn : x.task = some k)
    (q : Option Nat) (rest : List (RItem Cb)) (hhead : n'.a.loop.ready = ⟨q, .taskStep (.offer i, k)⟩ :: rest) :
    ∃ t, n'.a.getTask (.offer i, k) = some t ∧ (t.pc ≠ .done → ∃ A, anchor i n'.a.offLog = some A ∧ Sch n'.a.tm t.pc A n'.a.loop.now) := by
  obtain ⟨esA, hA⟩ := c04_side_a_run n n' es h hc
  exact c10_offer_step_on_schedule n.a n'.a esA h0 hA i k x hx hn q rest hhead

/-- the OFFERER (side A) in any composed execution, as a state invariant: an instance in its cyclic phase has sent its last
multicast offer at most one cyclic period ago - whatever the network and the peer did.  This is the offerer's half of the
convergence bound: a watcher that receives these offers is never more than one period behind; the watcher's half is
`c04_watcher_stored_is_live` (what it has stored was offered at most one TTL ago) -/
theorem c04_offerer_last_offer_is_fresh (n n' : Net) (es : List NEvent) (h0 : FreshTime n.a) (h : netRunAll n es = some n')
    (hc : ∀ e ∈ es, isCrashA e = false)
    (i k : Nat) (x : Instance) (hx : n'.a.getInst i = some x) (hn : x.task = some k)
    (t : TaskSt) (ht : n'.a.getTask (.offer i, k) = some t) (hpc : t.pc = .cyclic) :
    ∃ A, anchor i n'.a.offLog = some A ∧ n'.a.loop.now ≤ A + n'.a.tm.cyclicOfferDelay := by
  obtain ⟨esA, hA⟩ := c04_side_a_run n n' es h hc
  exact c10_last_offer_is_fresh n.a n'.a esA h0 hA i k x hx hn t ht hpc

/-- the WATCHER (side B) in any composed execution: a service it has stored with a finite TTL is within that TTL of the most
recent offer it received for it -/
theorem c04_watcher_stored_is_live (n n' : Net) (es : List NEvent) (h0 : n.b.found = []) (hl : n.b.storeLog = [])
    (htm : n.b.loop.timers = []) (hr : ∀ r ∈ n.b.loop.ready, isSvcExpiry r.cb = false)
    (h : netRunAll n es = some n') (hc : ∀ e ∈ es, isCrashB e = false)
    (a : Addr) (k : SvcKey) (q : Nat) (hheld : Stack.held n'.b a k = some q) :
    (∃ T ttl, lastRefresh n'.b.refreshLog a k = some (T, ttl) ∧ n'.b.loop.now ≤ T + ttl * TICKS_PER_S ∧
        ∃ t ∈ n'.b.loop.timers, t.seq = q ∧ t.cb = .expiredSvc a k ∧ t.deadline = T + ttl * TICKS_PER_S) ∨
    (∃ r ∈ n'.b.loop.ready, r.seq = some q ∧ r.cb = .expiredSvc a k) := by
  obtain ⟨esB, hB⟩ := c04_side_b_run n n' es h hc
  exact c05_stored_is_within_ttl n.b n'.b esB h0 hl htm hr hB a k q hheld

/-- THE SCHEDULES INTERLOCK (the arithmetic of the convergence bound, on the two real state machines).  In ANY composed
execution without a crash: let side A's instance be in its cyclic phase with period P and side B hold the service with an
expiry handle armed by an offer of TTL ttl.  IF B's most recent accepted offer arrived no earlier than A's most recent multicast offer was handed to the sender (it is
that offer or a later one: the network delivered it - the one assumption about the network, `hlink`) and P < ttl, THEN the step of A's
offer task that sends the next offer is due strictly before B's expiry handle: B's entry cannot expire before A's next
offer leaves.  Together with "an offer that is not ignored is stored and re-arms the handle" (`c05_watched_offer_is_stored`,
`c09_deadline_is_last_refresh_plus_ttl`) and "nothing but a datagram, its own expiry or connection loss removes an entry"
(`c05_store_changes_only_by`): while offers are delivered, a watcher that has learnt the service never loses it; when
they stop coming, the entry goes exactly one TTL after the last one (`c09_expiry_exactly_ttl_after_last_refresh`). -/
theorem c04_next_offer_precedes_expiry (n n' : Net) (es : List NEvent) (hA0 : FreshTime n.a)
    (hB0 : n.b.found = []) (hBl : n.b.storeLog = []) (hBt : n.b.loop.timers = []) (hBr : ∀ r ∈ n.b.loop.ready, isSvcExpiry r.cb = false)
    (h : netRunAll n es = some n') (hcA : ∀ e ∈ es, isCrashA e = false) (hcB : ∀ e ∈ es, isCrashB e = false)
    (i k : Nat) (x : Instance) (hx : n'.a.getInst i = some x) (hn : x.task = some k)
    (t : TaskSt) (ht : n'.a.getTask (.offer i, k) = some t) (hpc : t.pc = .cyclic)
    (a : Addr) (key : SvcKey) (q : Nat) (hheld : Stack.held n'.b a key = some q)
    (y : Timer Cb) (hy : y ∈ n'.b.loop.timers) (hyq : y.seq = q) (hycb : y.cb = .expiredSvc a key)
    (T ttl : Nat) (hlast : lastRefresh n'.b.refreshLog a key = some (T, ttl))
    (A0 : Nat) (hanchor : anchor i n'.a.offLog = some A0) (hlink : A0 ≤ T)
    (httl : n'.a.tm.cyclicOfferDelay < ttl * TICKS_PER_S) :
    ∃ due, Sch n'.a.tm .cyclic A0 due ∧ n'.a.loop.now ≤ due ∧ due < y.deadline := by
  obtain ⟨A, hA, hfresh⟩ := c04_offerer_last_offer_is_fresh n n' es hA0 h hcA i k x hx hn t ht hpc
  rw [hanchor] at hA
  cases hA
  have hlive := c04_watcher_stored_is_live n n' es hB0 hBl hBt hBr h hcB a key q hheld
  have hdead : y.deadline = T + ttl * TICKS_PER_S := by
    obtain ⟨esB, hB⟩ := c04_side_b_run n n' es h hcB
    have := c09_deadline_is_last_refresh_plus_ttl n.b n'.b esB hB0 hBl hBt hBr hB y hy a key hycb
    obtain ⟨T', ttl', h1, h2⟩ := this
    rw [hlast] at h1
    cases h1
    exact h2
  refine ⟨A0 + n'.a.tm.cyclicOfferDelay, rfl, hfresh, ?_⟩
  rw [hdead]
  omega

/-- non-vacuity of `c04_next_offer_precedes_expiry`: a composed run - A (the stack of C10Time: initial wait 10, two
repetitions, period 1000, collection window 5) starts and offers, the network delivers the three offer datagrams, the clock
moves on to 600 - ends in a state that meets every premise: A's instance in its cyclic phase with anchor 100, B holding the
service under handle 2 with deadline 3105 = 105 + 3 s, B's last accepted offer at 105 >= 100, period 1000 < 3000 -/
def netT : Net := { a := stackT, b := { watchAll := [0] } }
def evsNet : List NEvent :=
  evsT.map (fun e => match e with | .adv t => NEvent.adv t | e => NEvent.sideA e) ++
    [.deliver 0, .deliver 0, .adv 105, .sideA (.fire 6), .sideA .run, .deliver 0, .adv 600]
example :
    (netRunAll netT evsNet).map (fun n =>
      (n.a.loop.now, anchor 0 n.a.offLog, (n.a.getTask (.offer 0, 0)).map (·.pc), (n.a.getInst 0).map (·.task),
       n.a.tm.cyclicOfferDelay)) = some (600, some 100, some .cyclic, some (some 0), 1000) := by
  decide +kernel
example :
    (netRunAll netT evsNet).map (fun n =>
      (Stack.held n.b 1 ⟨4369, 1, 1, 1⟩, lastRefresh n.b.refreshLog 1 ⟨4369, 1, 1, 1⟩,
       n.b.loop.timers.map (fun t => (t.seq, t.deadline)))) = some (some 2, some (105, 3), [(2, 3105)]) := by
  decide +kernel
example : (∀ e ∈ evsNet, isCrashA e = false) ∧ (∀ e ∈ evsNet, isCrashB e = false) := by decide +kernel

/-- the SUBSCRIBER (side B) in any composed execution: while it runs with refresh interval r, the clock is never more than r
past its most recent refresh round -/
theorem c04_subscriber_refresh_on_time (n n' : Net) (es : List NEvent) (h0 : Fresh n.b) (h : netRunAll n es = some n')
    (hc : ∀ e ∈ es, isCrashB e = false) (ha : n'.b.alive = true) (r : Nat) (hr : n'.b.tm.subscribeRefresh = some r) :
    ∃ T, lastMark n'.b = some T ∧ n'.b.loop.now ≤ T + r := by
  obtain ⟨esB, hB⟩ := c04_side_b_run n n' es h hc
  exact c14_refresh_gap n.b n'.b esB h0 hB ha r hr

/-- THE SCHEDULES INTERLOCK, subscription half.  In any composed execution without a crash: let the subscriber (side B) run
with refresh interval r and the server (side A) hold a subscription of it with an expiry handle armed by a Subscribe of TTL
ttl.  IF the Subscribe A stored last arrived no earlier than B's most recent refresh round was sent (the network delivered
that round, `hlink`) and r < ttl, THEN B's next refresh round is due strictly before A's expiry handle: an acknowledged
subscription cannot expire at the server before the subscriber's next Subscribe leaves. -/
theorem c04_next_refresh_precedes_sub_expiry (n n' : Net) (es : List NEvent) (hB0 : Fresh n.b)
    (hAo : n.a.outs = []) (hAs : ∀ x ∈ n.a.instances, x.subs = []) (hAt : n.a.loop.timers = [])
    (hAr : ∀ r ∈ n.a.loop.ready, isSubExpiry r.cb = false)
    (h : netRunAll n es = some n') (hcA : ∀ e ∈ es, isCrashA e = false) (hcB : ∀ e ∈ es, isCrashB e = false)
    (ha : n'.b.alive = true) (r : Nat) (hr : n'.b.tm.subscribeRefresh = some r)
    (y : Timer Cb) (hy : y ∈ n'.a.loop.timers) (i : Nat) (a : Addr) (k : SubKey) (hycb : y.cb = .expiredSub i a k)
    (T ttl : Nat) (hlast : lastArm n'.a.armLog (isSubExpiryFor i a k) = some (T, ttl))
    (M : Nat) (hmark : lastMark n'.b = some M) (hlink : M ≤ T) (httl : r < ttl * TICKS_PER_S) :
    n'.b.loop.now ≤ M + r ∧ M + r < y.deadline := by
  obtain ⟨T', hT', hgap⟩ := c04_subscriber_refresh_on_time n n' es hB0 h hcB ha r hr
  rw [hmark] at hT'
  cases hT'
  obtain ⟨esA, hA⟩ := c04_side_a_run n n' es h hcA
  obtain ⟨T2, ttl2, h1, h2⟩ := c09_sub_deadline_is_last_subscribe_plus_ttl n.a n'.a esA hAo hAs hAt hAr hA y hy i a k hycb
  rw [hlast] at h1
  cases h1
  exact ⟨hgap, by rw [h2]; omega⟩

end Someip
