/-
  C17 — Event notifications reach exactly the current subscribers, correctly addressed.
  Theorems over the task-level eventgroup model (immediate address resolution; the real executor-thread
  timing of getaddrinfo is outside the model).
-/
import SomeipModel.Model.Eventgroup
import SomeipModel.Props.C08
namespace Someip
open EG
set_option linter.unusedSimpArgs false

/-- REFUSE: a subscription for another eventgroup, or naming other than exactly one endpoint, is refused
and changes nothing -/
theorem c17_refuse (g : EG) (egid : Nat) (eps : List Addr) (h : egid ≠ g.egid ∨ eps.length ≠ 1) :
    g.clientSubscribed egid eps = (g, false) := by
  unfold clientSubscribed
  rcases h with h | h
  · simp [h]
  · split
    · rfl
    · match eps, h with
      | [], _ => rfl
      | [_], h => simp at h
      | _ :: _ :: _, _ => rfl

/-- an accepted subscription is exactly `subscribe` of its single endpoint -/
theorem c17_accept (g : EG) (ep : Addr) : g.clientSubscribed g.egid [ep] = (g.subscribe ep, true) := by
  simp [clientSubscribed]

/-- INITIAL: subscribing queues exactly one initial-notification task, for the new subscriber, over all events -/
theorem c17_initial_task (g : EG) (ep : Addr) :
    ∃ pre, (g.subscribe ep).pending = g.pending ++ pre ++ [NTask.single ep .allKeys] ∧
      (pre = [] ∨ pre = [NTask.cycStep]) ∧ ep ∈ (g.subscribe ep).subscribed ∧ (g.subscribe ep).hasClients = true := by
  unfold subscribe
  simp only []
  have hmem : ep ∈ (if ep ∈ g.subscribed then g.subscribed else g.subscribed ++ [ep]) := by split <;> simp_all
  by_cases hc : g.hasClients = true
  · exact ⟨[], by simp [hc], Or.inl rfl, by simpa [hc] using hmem, by simp [hc]⟩
  · cases hcy : g.cyc with
    | waitClients => exact ⟨[NTask.cycStep], by simp [hc, hcy], Or.inr rfl, by simpa [hc, hcy] using hmem, by simp [hc, hcy]⟩
    | off => exact ⟨[], by simp [hc, hcy], Or.inl rfl, by simpa [hc, hcy] using hmem, by simp [hc, hcy]⟩
    | created => exact ⟨[], by simp [hc, hcy], Or.inl rfl, by simpa [hc, hcy] using hmem, by simp [hc, hcy]⟩
    | woken => exact ⟨[], by simp [hc, hcy], Or.inl rfl, by simpa [hc, hcy] using hmem, by simp [hc, hcy]⟩
    | sleeping d => exact ⟨[], by simp [hc, hcy], Or.inl rfl, by simpa [hc, hcy] using hmem, by simp [hc, hcy]⟩

/-- ROUND: a notification round creates exactly one per-endpoint task for each endpoint subscribed at
the instant the round starts - none for others, none at all if nobody is subscribed -/
theorem c17_round_destinations (g : EG) (sel : EvSel) :
    (g.runTask (.all sel)).pending = g.pending ++ g.subscribed.map (fun ep => NTask.single ep sel) ∧
    (g.runTask (.all sel)).sent = g.sent := by
  simp [runTask, logRound]

/-- explicit rounds are not even started while there are no subscribers -/
theorem c17_no_clients_no_round (g : EG) (evs : List Nat) (h : g.hasClients = false) : g.notifyOnce evs = g := by
  simp [notifyOnce, h]

/-- a per-endpoint task transmits at most one datagram, and only to its own endpoint -/
theorem c17_single_destination (g : EG) (ep : Addr) (sel : EvSel) :
    (g.runTask (.single ep sel)).sent = g.sent ∨
    ∃ buf, (g.runTask (.single ep sel)).sent = g.sent ++ [(g.now, ep, buf)] := by
  simp only [runTask]
  split
  · exact Or.inl rfl
  · split
    · exact Or.inl rfl
    · exact Or.inr ⟨_, rfl⟩

/-- MESSAGE: what `buildMsgs` appends for one event: a NOTIFICATION with the service id, method id
0x8000 | event, client 0, the major version as interface version, return code OK, the event's
current value, and the next session id of that destination -/
theorem c17_message (g : EG) (ep : Addr) (ev : Nat) (r : List Nat) (out : Outgoing) (acc : Bytes) (payload b : Bytes)
    (hv : alookup g.values ev = some payload)
    (hb : ({ sid := g.serviceId, mid := 0x8000 ||| ev, cid := 0, sess := (assignOutgoing out (some ep)).1.2, iv := g.major,
             mt := .notification, payload } : Header).build = some b) :
    g.buildMsgs ep (ev :: r) out acc = g.buildMsgs ep r (assignOutgoing out (some ep)).2 (acc ++ b) := by
  simp [buildMsgs, hv, notif, hb]

/-- SESSIONS: consecutive notifications to one destination take consecutive ids from that destination's
counter (the counter is the C08 one: 1..0xFFFF, skipping 0) -/
theorem c17_session_ids (out : Outgoing) (ep : Addr) :
    (assignOutgoing out (some ep)).1 = (alookup out (some ep)).getD (true, 1) := rfl

/-- an unknown event id aborts the task: nothing is sent (the ids taken so far stay consumed) -/
theorem c17_unknown_event (g : EG) (ep : Addr) (ev : Nat) (r : List Nat) (out : Outgoing) (acc : Bytes)
    (hv : alookup g.values ev = none) : (g.buildMsgs ep (ev :: r) out acc).1 = none := by
  simp [buildMsgs, hv]

/-- value updates keep the order of events (a Python dict) and never send anything -/
theorem c17_set_value_silent (g : EG) (ev : Nat) (v : Bytes) : (g.setValue ev v).sent = g.sent ∧ (g.setValue ev v).pending = g.pending := by
  unfold setValue; split <;> exact ⟨rfl, rfl⟩

/-- unsubscribing the last endpoint clears `has_clients`; unsubscribing an unknown endpoint is an error -/
theorem c17_unsubscribe (g : EG) (ep : Addr) :
    (ep ∉ g.subscribed → g.unsubscribe ep = none) ∧
    (ep ∈ g.subscribed → ∃ g', g.unsubscribe ep = some g' ∧ g'.subscribed = g.subscribed.erase ep ∧ g'.sent = g.sent) := by
  unfold unsubscribe
  constructor
  · intro h; simp [h]
  · intro h; simp [h]

end Someip
