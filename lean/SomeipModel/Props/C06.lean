/-
  C06 — Server subscription records are truthful; acknowledged subscriptions are held.
  Structural theorems (valid in every state).
-/
import SomeipModel.Props.C05
import SomeipModel.Props.C11
import SomeipModel.Props.C15
namespace Someip
open Stack
set_option linter.unusedSimpArgs false

/-- after the flush of one instance, it holds no subscription from that subscriber -/
theorem subsStopAllFor_clears (s : Stack) (i : Nat) (x : Instance) (a : Addr) (hx : s.getInst i = some x) :
    ∃ x', (s.subsStopAllFor i a).getInst i = some x' ∧ x'.subs.get a = [] := by
  unfold subsStopAllFor
  simp only [hx]
  have hi : i < s.instances.length := by
    unfold getInst at hx
    exact (List.getElem?_eq_some_iff.mp hx).1
  have key : ∀ (es : List (TSEntry SubKey)) (st : Stack) (y : Instance), st.getInst i = some y →
      (es.foldl (fun s e => (s.cancelTimer (isSubExpiryFor i a e.key) e.timer).emit (.unsubscribed i e.key a)) st).getInst i = some y := by
    intro es; induction es with
    | nil => intro st y h; exact h
    | cons e t ih => intro st y h; rw [List.foldl_cons]; exact ih _ y h
  refine ⟨{ x with subs := (x.subs.touch a).set a [] }, ?_, tstore_get_set_nil _ _⟩
  apply key
  simp [getInst, setInst, hi]

/-- REJECTED SILENT: a Subscribe the listener rejected is not recorded and nothing is reported for it -/
theorem c06_rejected_silent (s : Stack) (i : Nat) (x : Instance) (e : SDEntry) (a : Addr) (tid : Nat)
    (hx : s.getInst i = some x) (ht : x.task = some tid) (hm : x.service.matchesSubscribe e = .ok true)
    (httl : e.ttl ≠ 0) (hnew : TStore.findKey SubKey.same ((x.subs.touch a).get a) (SubKey.ofEntry e) = none)
    (hrej : (SubKey.ofEntry e).egid ∈ x.nakEgs) :
    (∀ t j k b, (t, Out.subscribed j k b) ∈ (s.instHandleSubscribe i e a).1.outs → (t, Out.subscribed j k b) ∈ s.outs) ∧
    (∀ t j k b, (t, Out.unsubscribed j k b) ∈ (s.instHandleSubscribe i e a).1.outs → (t, Out.unsubscribed j k b) ∈ s.outs) := by
  rw [c11_reject_new s i x e a tid hx ht hm httl hnew hrej]
  simp only []
  have hq : ∀ (st : Stack) (en : SDEntry) (d : Dest),
      (∀ t j k b, (t, Out.subscribed j k b) ∈ (st.queueSend en d).outs → (t, Out.subscribed j k b) ∈ st.outs) ∧
      (∀ t j k b, (t, Out.unsubscribed j k b) ∈ (st.queueSend en d).outs → (t, Out.unsubscribed j k b) ∈ st.outs) := by
    intro st en d
    by_cases h0 : st.tm.sendCollectionTimeout = 0
    · obtain ⟨o, h1, h4⟩ := c15_zero_timeout_one_message st en d h0
      constructor <;> intro t j k b hmem <;> rw [h1] at hmem <;>
        simp only [List.mem_append, List.mem_cons, List.not_mem_nil, or_false, Prod.mk.injEq] at hmem <;>
        rcases hmem with hmem | hmem | hmem
      · exact hmem
      · exact absurd hmem.2 (by simp)
      · rcases h4 with ⟨b', hb⟩ | ⟨e', he⟩ <;> simp_all
      · exact hmem
      · exact absurd hmem.2 (by simp)
      · rcases h4 with ⟨b', hb⟩ | ⟨e', he⟩ <;> simp_all
    · rw [c15_queue_defers st en d h0]
      constructor <;> intro t j k b hmem <;>
        simp only [List.mem_append, List.mem_cons, List.not_mem_nil, or_false, Prod.mk.injEq] at hmem <;>
        rcases hmem with hmem | hmem
      · exact hmem
      · exact absurd hmem.2 (by simp)
      · exact hmem
      · exact absurd hmem.2 (by simp)
  exact hq _ _ _

/-- REBOOT FIRST (server side): the reboot handlers empty every announced instance's record of that
subscriber before the Subscribe entries of the same message are handled, and their 'unsubscribed'
reports precede whatever those entries report -/
theorem c06_reboot_first (s : Stack) (h : Header) (a : Addr) (mc : Bool) (m m' : SDHeader) (r : Bytes)
    (hsd : isSdNotification h) (hp : SDHeader.parse h.payload = .ok (m, r)) (hr : m.resolveOptions = .ok m')
    (hdet : (checkReceived s.incoming a mc m.flagReboot h.sess).1 = true) :
    ∃ s1 : Stack, s1 = ({ s with incoming := (checkReceived s.incoming a mc m.flagReboot h.sess).2 }).rebootDetected a ∧
      s.messageReceived h a mc = s1.sdMessageReceived m' a mc ∧ Grows s s1 ∧ Grows s1 (s.messageReceived h a mc) := by
  obtain ⟨s1, h1, h2, _, h4, h5⟩ := c05_reboot_first s h a mc m m' r hsd hp hr hdet
  exact ⟨s1, h1, h2, h4, h5⟩

/-- a StopSubscribe for a held subscription removes it, cancels its timer and reports it exactly once -/
theorem c06_stop_reports_once (s : Stack) (i : Nat) (x : Instance) (e : SDEntry) (a : Addr) (tid : Nat) (old : TSEntry SubKey)
    (hx : s.getInst i = some x) (ht : x.task = some tid) (hm : x.service.matchesSubscribe e = .ok true)
    (httl : e.ttl = 0) (hold : TStore.findKey SubKey.same ((x.subs.touch a).get a) (SubKey.ofEntry e) = some old) :
    (s.instHandleSubscribe i e a).1.outs = s.outs ++ [(s.loop.now, .unsubscribed i (SubKey.ofEntry e) a)] := by
  unfold instHandleSubscribe
  simp [hx, ht, hm, httl, hold]

/-- ... and for one that is not held it reports nothing -/
theorem c06_stop_unknown_silent (s : Stack) (i : Nat) (x : Instance) (e : SDEntry) (a : Addr) (tid : Nat)
    (hx : s.getInst i = some x) (ht : x.task = some tid) (hm : x.service.matchesSubscribe e = .ok true)
    (httl : e.ttl = 0) (hnone : TStore.findKey SubKey.same ((x.subs.touch a).get a) (SubKey.ofEntry e) = none) :
    (s.instHandleSubscribe i e a).1.outs = s.outs := by
  unfold instHandleSubscribe
  simp [hx, ht, hm, httl, hnone]

/-- an expiry callback of a subscription that is no longer held reports nothing -/
theorem c06_expired_absent (s : Stack) (i : Nat) (x : Instance) (a : Addr) (k : SubKey) (hx : s.getInst i = some x)
    (h : TStore.findKey SubKey.same ((x.subs.touch a).get a) k = none) : (s.expiredSub i a k).outs = s.outs := by
  simp [expiredSub, hx, h]

end Someip
