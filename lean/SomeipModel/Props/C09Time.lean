/-
  C09 (and every other timed clause: C10, C13, C14, C15) — whole runs: a timer handle fires exactly at its deadline.

  For EVERY list of events from a stack without pending timers:
   * no pending handle is ever overdue (`c09_clock_never_passes_a_deadline`): all model functions create handles in the
     future only, and the clock moves only in `adv`, never past a deadline;
   * hence whenever a handle fires, the clock reads exactly its deadline (`c09_fires_exactly_at_deadline`): never early (the
     guard of `fire`), never late;
   * and no time passes between the firing of a handle and the run of its callback (`c09_no_time_while_ready`: the clock
     only moves when the ready queue is empty).
  Together with the per-operation theorems (a refresh cancels the old handle and arms a new one at now + ttl, c09_arm_finite)
  and the handle invariants (`c09_timer_invariant`: a stored entry holds exactly one pending handle, the expiry callback finds
  the entry it was armed for) this is the statement's "reported exactly t seconds after the most recent offer or subscribe".
-/
import SomeipModel.Lemmas.LoopInv
import SomeipModel.Lemmas.DeadlineInv
import SomeipModel.Props.C09Global
import SomeipModel.Lemmas.SubDeadline
import SomeipModel.Props.C09SubGlobal
import SomeipModel.Props.C05Global
namespace Someip
open Stack
set_option linter.unusedSimpArgs false

theorem ld_runAll (s s' : Stack) (es : List Event) (h : runAll s es = some s') (hi : LD s) : LD s' := by
  induction es generalizing s with
  | nil => simp [runAll] at h; subst h; exact hi
  | cons e t ih =>
    simp only [runAll] at h
    split at h
    · cases h
    · rename_i s1 hs
      exact ih s1 h (ld_step s s1 e hs hi)

/-- no pending handle is ever overdue -/
theorem c09_clock_never_passes_a_deadline (s0 s : Stack) (es : List Event) (h0 : s0.loop.timers = [])
    (hrun : runAll s0 es = some s) : ∀ t ∈ s.loop.timers, s.loop.now ≤ t.deadline :=
  ld_runAll s0 s es hrun (by intro t ht; rw [h0] at ht; cases ht)

/-- EXACTLY ON TIME: whenever handle `q` can fire, the clock reads exactly its deadline -/
theorem c09_fires_exactly_at_deadline (s0 s : Stack) (es : List Event) (h0 : s0.loop.timers = [])
    (hrun : runAll s0 es = some s) (q : Nat) (l : Loop Cb) (hf : s.loop.fire q = some l) :
    ∃ t, s.loop.timers.find? (fun t => decide (t.seq = q)) = some t ∧ t.deadline = s.loop.now := by
  have hld := c09_clock_never_passes_a_deadline s0 s es h0 hrun
  unfold Loop.fire at hf
  split at hf
  · cases hf
  · rename_i t hfind
    split at hf
    · rename_i hle
      exact ⟨t, hfind, Nat.le_antisymm hle (hld t (List.mem_of_find?_eq_some hfind))⟩
    · cases hf

/-- the clock stands still while a callback waits in the ready queue -/
theorem c09_no_time_while_ready (s : Stack) (t : Nat) (h : s.loop.ready ≠ []) : s.loop.adv t = none := by
  unfold Loop.adv
  have : ¬ (s.loop.ready.isEmpty = true) := by simpa using h
  simp [this]

/-- non-vacuity: an offer with TTL 3 received at time 0 arms handle 0 for time 3000; it can fire at 3000 and not before -/
def offerTtl3 : Bytes := [0xff,0xff,0x81,0x00, 0,0,0,0x24, 0,0,0,1, 1,1,2,0, 0xc0,0,0,0, 0,0,0,16, 1,0,0,0, 0x11,0x11,0,1, 1,0,0,3, 0,0,0,1, 0,0,0,0]
example : (runAll {} [.input (.watchAll 0), .input (.dgram 5 false offerTtl3)]).map
    (fun s => (s.loop.timers.map (fun t => (t.seq, t.deadline)), (s.loop.fire 0).isSome)) = some ([(0, 3000)], false) := by
  decide +kernel
example : (runAll {} [.input (.watchAll 0), .input (.dgram 5 false offerTtl3), .adv 3000]).map
    (fun s => (s.loop.now, (s.loop.fire 0).isSome)) = some (3000, true) := by
  decide +kernel

/-! ### the deadline of a found service's expiry handle -/

theorem inv3_runAll (s s' : Stack) (es : List Event) (h : runAll s es = some s') (hi : Inv3 s) : Inv3 s' := by
  induction es generalizing s with
  | nil => simp [runAll] at h; subst h; exact hi
  | cons e t ih =>
    simp only [runAll] at h
    split at h
    · cases h
    · rename_i s1 hs
      exact ih s1 h (inv3_step s s1 e hs hi)

/-- EVERY REFRESH REPLACES THE DEADLINE: in every reachable state, a scheduled expiry handle of (source a, service k) has
the deadline `T + ttl` seconds, where T is the time and ttl the TTL of the MOST RECENT refresh (offer) of (a, k) - also when
that TTL is shorter than what was left of the previous one -/
theorem c09_deadline_is_last_refresh_plus_ttl (s0 s : Stack) (es : List Event) (h0 : s0.found = []) (hl : s0.storeLog = [])
    (htm : s0.loop.timers = []) (hr : ∀ r ∈ s0.loop.ready, isSvcExpiry r.cb = false)
    (hrun : runAll s0 es = some s) (t : Timer Cb) (ht : t ∈ s.loop.timers) (a : Addr) (k : SvcKey) (hcb : t.cb = .expiredSvc a k) :
    ∃ T ttl, lastRefresh s.refreshLog a k = some (T, ttl) ∧ t.deadline = T + ttl * TICKS_PER_S := by
  have hi0 : Inv3 s0 := ⟨inv2_init s0 h0 hl (by intro t ht; rw [htm] at ht; cases ht) hr, by intro t ht; rw [htm] at ht; cases ht⟩
  exact (inv3_runAll s0 s es hrun hi0).2 t ht a k hcb

/-- EXACTLY ON TIME: when the expiry handle of (a, k) fires, the clock reads exactly (time of the most recent refresh of
(a, k)) + (its TTL): the service is reported stopped exactly ttl seconds after the most recent offer for it - the callback
runs in the same instant (`c09_no_time_while_ready`) and finds the entry it was armed for (`c09_expiry_finds_its_entry`) -/
theorem c09_expiry_exactly_ttl_after_last_refresh (s0 s : Stack) (es : List Event) (h0 : s0.found = []) (hl : s0.storeLog = [])
    (htm : s0.loop.timers = []) (hr : ∀ r ∈ s0.loop.ready, isSvcExpiry r.cb = false)
    (hrun : runAll s0 es = some s) (q : Nat) (l : Loop Cb) (hf : s.loop.fire q = some l)
    (t : Timer Cb) (hfind : s.loop.timers.find? (fun t => decide (t.seq = q)) = some t) (a : Addr) (k : SvcKey)
    (hcb : t.cb = .expiredSvc a k) :
    ∃ T ttl, lastRefresh s.refreshLog a k = some (T, ttl) ∧ s.loop.now = T + ttl * TICKS_PER_S := by
  obtain ⟨t', h1, h2⟩ := c09_fires_exactly_at_deadline s0 s es htm hrun q l hf
  rw [hfind] at h1; cases h1
  obtain ⟨T, ttl, h3, h4⟩ := c09_deadline_is_last_refresh_plus_ttl s0 s es h0 hl htm hr hrun t (List.mem_of_find?_eq_some hfind) a k hcb
  exact ⟨T, ttl, h3, by rw [← h2]; exact h4⟩

/-- non-vacuity: TTL 3 at time 0, refreshed with TTL 1 at time 1000: the handle's deadline is 2000, not 3000 -/
def offerTtl1 : Bytes := [0xff,0xff,0x81,0x00, 0,0,0,0x24, 0,0,0,2, 1,1,2,0, 0xc0,0,0,0, 0,0,0,16, 1,0,0,0, 0x11,0x11,0,1, 1,0,0,1, 0,0,0,1, 0,0,0,0]
example : (runAll {} [.input (.watchAll 0), .input (.dgram 5 false offerTtl3), .adv 1000, .input (.dgram 5 false offerTtl1)]).map
    (fun s => (s.loop.timers.map (fun t => t.deadline), s.refreshLog.map (fun p => (p.2.2.1, p.2.2.2)))) =
    some ([2000], [(0, 3), (1000, 1)]) := by
  decide +kernel

/-- STORED ⇒ LIVE (C05's link to the timer side): in every reachable state a stored service (source a, key k) that holds an
expiry handle q - i.e. was last offered with a finite TTL - is within that TTL of its MOST RECENT offer: the handle is
scheduled for (time of that offer) + ttl and the clock has not passed it; or the handle has fired and the expiry callback
is in the ready queue (it removes the entry in this very instant: `c09_no_time_while_ready`) -/
theorem c05_stored_is_within_ttl (s0 s : Stack) (es : List Event) (h0 : s0.found = []) (hl : s0.storeLog = [])
    (htm : s0.loop.timers = []) (hr : ∀ r ∈ s0.loop.ready, isSvcExpiry r.cb = false)
    (hrun : runAll s0 es = some s) (a : Addr) (k : SvcKey) (q : Nat) (hheld : Stack.held s a k = some q) :
    (∃ T ttl, lastRefresh s.refreshLog a k = some (T, ttl) ∧ s.loop.now ≤ T + ttl * TICKS_PER_S ∧
        ∃ t ∈ s.loop.timers, t.seq = q ∧ t.cb = .expiredSvc a k ∧ t.deadline = T + ttl * TICKS_PER_S) ∨
    (∃ r ∈ s.loop.ready, r.seq = some q ∧ r.cb = .expiredSvc a k) := by
  have hinv := c09_timer_invariant s0 s es h0 hl (by intro t ht; rw [htm] at ht; cases ht) hr hrun a k
  rw [hheld] at hinv
  simp only at hinv
  rcases hinv with ⟨hT1, _⟩ | ⟨_, hR1⟩
  · left
    have hm : q ∈ hT s a k := by rw [hT1]; exact List.mem_singleton.mpr rfl
    unfold hT at hm
    obtain ⟨t, ht, hq⟩ := List.mem_map.mp hm
    obtain ⟨htm', hfor⟩ := List.mem_filter.mp ht
    have hcb : t.cb = .expiredSvc a k := for_iff.mp hfor
    obtain ⟨T, ttl, h1, h2⟩ := c09_deadline_is_last_refresh_plus_ttl s0 s es h0 hl htm hr hrun t htm' a k hcb
    have h3 := c09_clock_never_passes_a_deadline s0 s es htm hrun t htm'
    exact ⟨T, ttl, h1, by rw [← h2]; exact h3, t, htm', hq, hcb, h2⟩
  · right
    have hm : some q ∈ hR s a k := by rw [hR1]; exact List.mem_singleton.mpr rfl
    unfold hR at hm
    obtain ⟨r, hr', hq⟩ := List.mem_map.mp hm
    obtain ⟨hrm, hfor⟩ := List.mem_filter.mp hr'
    exact ⟨r, hrm, hq, for_iff.mp hfor⟩

/-! ### the deadline of a subscription's expiry handle (C06 / C09 for the per-instance stores) -/

theorem inv7_runAll (s s' : Stack) (es : List Event) (h : runAll s es = some s') (hi : Inv7 s) : Inv7 s' := by
  induction es generalizing s with
  | nil => simp [runAll] at h; subst h; exact hi
  | cons e t ih =>
    simp only [runAll] at h
    split at h
    · cases h
    · rename_i s1 hs
      exact ih s1 h (inv7_step s s1 e hs hi)

/-- in every reachable state a scheduled expiry handle of a subscription (instance i, address a, key k) has the deadline
`T + ttl` seconds, where (T, ttl) is the MOST RECENT Subscribe stored under that handle identity -/
theorem c09_sub_deadline_is_last_subscribe_plus_ttl (s0 s : Stack) (es : List Event) (ho : s0.outs = [])
    (hs : ∀ x ∈ s0.instances, x.subs = []) (htm : s0.loop.timers = []) (hr : ∀ r ∈ s0.loop.ready, isSubExpiry r.cb = false)
    (hrun : runAll s0 es = some s) (t : Timer Cb) (ht : t ∈ s.loop.timers) (i : Nat) (a : Addr) (k : SubKey)
    (hcb : t.cb = .expiredSub i a k) :
    ∃ T ttl, lastArm s.armLog (isSubExpiryFor i a k) = some (T, ttl) ∧ t.deadline = T + ttl * TICKS_PER_S := by
  have hi0 : Inv7 s0 := ⟨inv6_init s0 ho hs (by intro t ht; rw [htm] at ht; cases ht) hr, by intro t ht; rw [htm] at ht; cases ht⟩
  exact (inv7_runAll s0 s es hrun hi0).2 t ht i a k hcb

/-- EXACTLY ON TIME: when the expiry handle of a subscription fires, the clock reads exactly (time of the most recent
Subscribe stored for it) + (its TTL) -/
theorem c09_sub_expiry_exactly_ttl_after_last_subscribe (s0 s : Stack) (es : List Event) (ho : s0.outs = [])
    (hs : ∀ x ∈ s0.instances, x.subs = []) (htm : s0.loop.timers = []) (hr : ∀ r ∈ s0.loop.ready, isSubExpiry r.cb = false)
    (hrun : runAll s0 es = some s) (q : Nat) (l : Loop Cb) (hf : s.loop.fire q = some l)
    (t : Timer Cb) (hfind : s.loop.timers.find? (fun t => decide (t.seq = q)) = some t) (i : Nat) (a : Addr) (k : SubKey)
    (hcb : t.cb = .expiredSub i a k) :
    ∃ T ttl, lastArm s.armLog (isSubExpiryFor i a k) = some (T, ttl) ∧ s.loop.now = T + ttl * TICKS_PER_S := by
  obtain ⟨t', h1, h2⟩ := c09_fires_exactly_at_deadline s0 s es htm hrun q l hf
  rw [hfind] at h1; cases h1
  obtain ⟨T, ttl, h3, h4⟩ := c09_sub_deadline_is_last_subscribe_plus_ttl s0 s es ho hs htm hr hrun t (List.mem_of_find?_eq_some hfind) i a k hcb
  exact ⟨T, ttl, h3, by rw [← h2]; exact h4⟩

end Someip
