/-
  C19 — Service and eventgroup matching obeys the wildcard laws.
-/
import SomeipModel.Model.Config
namespace Someip

/-- description-to-description matching is symmetric -/
theorem c19_service_symm (a b : Service) : a.matchesService b = b.matchesService a := by
  simp only [Service.matchesService]
  have e1 : decide (a.sid = b.sid) = decide (b.sid = a.sid) := by simp [eq_comm]
  have e2 : decide (a.iid = b.iid) = decide (b.iid = a.iid) := by simp [eq_comm]
  have e3 : decide (a.maj = b.maj) = decide (b.maj = a.maj) := by simp [eq_comm]
  have e4 : decide (a.min = b.min) = decide (b.min = a.min) := by simp [eq_comm]
  rw [e1, e2, e3, e4]
  cases decide (b.sid = a.sid) <;> cases decide (a.iid = 0xFFFF) <;> cases decide (b.iid = 0xFFFF) <;>
    cases decide (b.iid = a.iid) <;> cases decide (a.maj = 0xFF) <;> cases decide (b.maj = 0xFF) <;>
    cases decide (b.maj = a.maj) <;> cases decide (a.min = 0xFFFFFFFF) <;> cases decide (b.min = 0xFFFFFFFF) <;>
    cases decide (b.min = a.min) <;> rfl

/-- service ids are always compared exactly -/
theorem c19_exact_sid (a b : Service) (h : a.matchesService b = true) : a.sid = b.sid := by
  simp [Service.matchesService] at h; exact h.1.1.1

theorem c19_exact_sid_offer (s : Service) (e : SDEntry) (h : s.matchesOffer e = .ok true) : s.sid = e.sid := by
  unfold Service.matchesOffer at h; split at h
  · cases h
  · simp at h; exact h.1.1.1
theorem c19_exact_sid_find (s : Service) (e : SDEntry) (h : s.matchesFind e = .ok true) : s.sid = e.sid := by
  unfold Service.matchesFind at h; split at h
  · cases h
  · simp at h; exact h.1.1.1
theorem c19_exact_sid_subscribe (s : Service) (e : SDEntry) (h : s.matchesSubscribe e = .ok true) : s.sid = e.sid := by
  unfold Service.matchesSubscribe at h; split at h
  · cases h
  · simp at h; exact h.1.1.1

/-- replacing any field of a filter by its wildcard never loses a match (description matching) -/
theorem c19_wildcard_monotone_service (a b : Service) (h : a.matchesService b = true) :
    ({ a with iid := 0xFFFF }).matchesService b = true ∧ ({ a with maj := 0xFF }).matchesService b = true ∧
    ({ a with min := 0xFFFFFFFF }).matchesService b = true := by
  simp [Service.matchesService] at h ⊢
  obtain ⟨⟨⟨h1, h2⟩, h3⟩, h4⟩ := h
  exact ⟨⟨⟨h1, h3⟩, h4⟩, ⟨⟨h1, h2⟩, h4⟩, ⟨⟨h1, h2⟩, h3⟩⟩

/-- ... and for a filter matched against an offer entry -/
theorem c19_wildcard_monotone_offer (a : Service) (e : SDEntry) (h : a.matchesOffer e = .ok true) :
    ({ a with iid := 0xFFFF }).matchesOffer e = .ok true ∧ ({ a with maj := 0xFF }).matchesOffer e = .ok true ∧
    ({ a with min := 0xFFFFFFFF }).matchesOffer e = .ok true := by
  unfold Service.matchesOffer at h ⊢
  split at h
  · cases h
  · rename_i hty
    simp [hty] at h ⊢
    obtain ⟨⟨⟨h1, h2⟩, h3⟩, h4⟩ := h
    exact ⟨⟨⟨h1, h3⟩, h4⟩, ⟨⟨h1, h2⟩, h4⟩, ⟨⟨h1, h2⟩, h3⟩⟩

/-- ... and for a find entry whose fields are replaced by wildcards (the entry is the wildcard side) -/
theorem c19_wildcard_monotone_find (s : Service) (e : SDEntry) (h : s.matchesFind e = .ok true) :
    s.matchesFind { e with iid := 0xFFFF } = .ok true ∧ s.matchesFind { e with maj := 0xFF } = .ok true ∧
    s.matchesFind { e with val := 0xFFFFFFFF } = .ok true := by
  unfold Service.matchesFind at h ⊢
  split at h
  · cases h
  · rename_i hty
    simp [hty] at h ⊢
    obtain ⟨⟨⟨h1, h2⟩, h3⟩, h4⟩ := h
    exact ⟨⟨⟨h1, h3⟩, h4⟩, ⟨⟨h1, h2⟩, h4⟩, ⟨⟨h1, h2⟩, h3⟩⟩

/-- a service answers a filter's find entry exactly when the filter accepts the service's offer entry -/
theorem c19_find_offer_duality (c f : Service) (t t' : Nat) :
    c.matchesFind (f.createFindEntry t) = f.matchesOffer (c.createOfferEntry t') := by
  simp only [Service.matchesFind, Service.matchesOffer, Service.createFindEntry, Service.createOfferEntry,
    ne_eq, not_true_eq_false, if_false]
  congr 1
  rw [Bool.eq_iff_iff]
  simp only [Bool.and_eq_true, Bool.or_eq_true]
  have sym : ∀ (x y : Nat) (i1 : Decidable (x = y)) (i2 : Decidable (y = x)),
      @decide (x = y) i1 = true → @decide (y = x) i2 = true :=
    fun x y _ _ h => decide_eq_true (of_decide_eq_true h).symm
  constructor
  · rintro ⟨⟨⟨a, b⟩, c⟩, d⟩
    exact ⟨⟨⟨sym _ _ _ _ a, b.imp id (sym _ _ _ _)⟩, c.imp id (sym _ _ _ _)⟩, d.imp id (sym _ _ _ _)⟩
  · rintro ⟨⟨⟨a, b⟩, c⟩, d⟩
    exact ⟨⟨⟨sym _ _ _ _ a, b.imp id (sym _ _ _ _)⟩, c.imp id (sym _ _ _ _)⟩, d.imp id (sym _ _ _ _)⟩

/-- a subscribe entry matches exactly when the ids match (wildcards on the service side) and the
eventgroup is one the service declares -/
theorem c19_subscribe_iff (s : Service) (e : SDEntry) (hty : e.ty = .subscribe) :
    s.matchesSubscribe e = .ok true ↔
      (s.sid = e.sid ∧ (s.iid = 0xFFFF ∨ s.iid = e.iid) ∧ (s.maj = 0xFF ∨ s.maj = e.maj) ∧
       e.val % 65536 ∈ s.eventgroups) := by
  simp [Service.matchesSubscribe, hty, SDEntry.eventgroupId, and_assoc]
  intros; exact decide_eq_true_iff

/-- wrong entry kinds are refused with ValueError, never matched -/
theorem c19_wrong_entry_type (s : Service) (e : SDEntry) :
    (e.ty ≠ .offer → s.matchesOffer e = .error .value) ∧ (e.ty ≠ .find → s.matchesFind e = .error .value) ∧
    (e.ty ≠ .subscribe → s.matchesSubscribe e = .error .value) := by
  refine ⟨fun h => ?_, fun h => ?_, fun h => ?_⟩ <;> simp [Service.matchesOffer, Service.matchesFind, Service.matchesSubscribe, h]

/-- description -> offer entry -> description preserves ids, versions and both option runs -/
theorem c19_offer_roundtrip (s : Service) (t : Nat) :
    Service.fromOfferEntry (s.createOfferEntry t) = .ok { s with eventgroups := [] } ∧
    (s.createOfferEntry t).ttl = t := by
  simp [Service.fromOfferEntry, Service.createOfferEntry]

/-- specialising an eventgroup filter to an offered service succeeds exactly when the filter
accepts the service's offer, and then adopts the offer's instance id and major version -/
theorem c19_for_service_iff (g : Eventgroup) (s : Service) :
    (g.forService s).isSome = true ↔ g.asService.matchesOffer (s.createOfferEntry 3) = .ok true := by
  unfold Eventgroup.forService
  split <;> simp_all
theorem c19_for_service_adopts (g g' : Eventgroup) (s : Service) (h : g.forService s = some g') :
    g' = { g with iid := s.iid, maj := s.maj } := by
  unfold Eventgroup.forService at h
  split at h <;> simp_all

/-- non-vacuity: concrete filter / service pairs on both sides of each law -/
example : (Service.matchesService { sid := 7, iid := 0xFFFF } { sid := 7, iid := 3, maj := 1, min := 2 }) = true := by decide
example : (Service.matchesService { sid := 7, iid := 4 } { sid := 7, iid := 3, maj := 1, min := 2 }) = false := by decide
example : (Eventgroup.forService ⟨7, 0xFFFF, 0xFF, 5, ⟨[10,0,0,1], 3000⟩, 17⟩ { sid := 7, iid := 3, maj := 1, min := 2 }).isSome = true := by decide

end Someip
