/-
  C04, the wire between the two stacks (G-wire): what one stack hands to `send_sd`, the other stack's `datagram_received`
  turns into exactly the same entries - end to end through both models: option index assignment, SD payload encoding, the
  SOME/IP header, the datagram loop, header decoding, SD payload decoding, option resolution, and the receiver's
  reboot check on the sender's session id and reboot flag.
-/
import SomeipModel.Props.C04Global
import SomeipModel.Props.C02Wire
import SomeipModel.Props.C01
namespace Someip
open Stack Spec
set_option linter.unusedSimpArgs false

theorem datagram_single (h : Header) (hf : FitsNum h) (hpv : h.pv = 1) : datagram (layout h) = ([h], none) := by
  have hlen : 16 ≤ (layout h).length := by simp [layout, be16, be32]
  unfold datagram
  cases hfu : (layout h).length with
  | zero => omega
  | succ fuel =>
    have hne : ¬ ((layout h).isEmpty = true) := by
      simp; intro h0; rw [h0] at hlen; simp at hlen
    have hp := c01_parse_layout h [] hf hpv
    rw [List.append_nil] at hp
    simp only [datagramAux, hne, hp]
    cases fuel <;> simp [datagramAux]

/-- the receiver looks only at the unicast flag and the entries of a decoded message -/
theorem sdMessageReceived_congr (r : Stack) (m m' : SDHeader) (a : Addr) (mc : Bool) (he : m'.entries = m.entries)
    (hu : m'.flagUnicast = m.flagUnicast) : r.sdMessageReceived m' a mc = r.sdMessageReceived m a mc := by
  unfold sdMessageReceived; rw [he, hu]

/-- **END TO END**: the datagram `send_sd(entries, remote)` emits is decoded by ANY receiving stack to exactly these entries,
after the receiver's reboot check on the sender's reboot flag and session id -/
theorem c04_wire_end_to_end (s : Stack) (es : List SDEntry) (remote : Dest) (hne : es.isEmpty = false)
    (hwf : ({ entries := es, flagReboot := (assignOutgoing s.outgoing remote).1.1, flagUnicast := true } : SDHeader).WFresolved)
    (hsess : (assignOutgoing s.outgoing remote).1.2 < 65536)
    (hlen : ∀ p, ({ entries := es, flagReboot := (assignOutgoing s.outgoing remote).1.1, flagUnicast := true } : SDHeader).assignOptionIndexes.build = .ok p →
      p.length + 8 < 4294967296) :
    ∃ b, s.sendSd es remote =
        ({ s with outgoing := (assignOutgoing s.outgoing remote).2,
                  sendLog := s.sendLog ++ [(remote, (assignOutgoing s.outgoing remote).1)] } : Stack).emit (.send remote b) ∧
      ∀ (r : Stack) (a : Addr) (mc : Bool), r.datagramReceived b a mc =
        (if (checkReceived r.incoming a mc (assignOutgoing s.outgoing remote).1.1 (assignOutgoing s.outgoing remote).1.2).1 = true
          then ({ r with incoming := (checkReceived r.incoming a mc (assignOutgoing s.outgoing remote).1.1 (assignOutgoing s.outgoing remote).1.2).2 } : Stack).rebootDetected a
          else ({ r with incoming := (checkReceived r.incoming a mc (assignOutgoing s.outgoing remote).1.1 (assignOutgoing s.outgoing remote).1.2).2 } : Stack)).sdMessageReceived
            { entries := es, flagReboot := (assignOutgoing s.outgoing remote).1.1, flagUnicast := true } a mc := by
  generalize hfl : (assignOutgoing s.outgoing remote).1.1 = flag at hwf hlen
  generalize hse : (assignOutgoing s.outgoing remote).1.2 = sess at hsess
  obtain ⟨p, hb, hp⟩ := c02_message_wire_roundtrip _ hwf
  have hpl := hlen p hb
  obtain ⟨hparse, m', hres, hent, hfr, hfu, _⟩ := hp []
  rw [List.append_nil] at hparse
  have hfits : FitsNum ({ sid := SD_SERVICE, mid := SD_METHOD, cid := 0, sess := sess, iv := 1, mt := .notification, payload := p } : Header) := by
    refine ⟨?_, ?_, ?_, hsess, ?_, ?_, hpl⟩ <;> simp [SD_SERVICE, SD_METHOD]
  refine ⟨layout { sid := SD_SERVICE, mid := SD_METHOD, cid := 0, sess := sess, iv := 1, mt := .notification, payload := p }, ?_, ?_⟩
  · unfold sendSd
    simp only [hne, Bool.false_eq_true, if_false, hfl, hse, hb, c01_build_layout _ hfits]
  · intro r a mc
    unfold datagramReceived
    rw [datagram_single _ hfits rfl]
    simp only [List.foldl_cons, List.foldl_nil]
    unfold messageReceived
    have hcond : ¬ ((SD_SERVICE ≠ SD_SERVICE) ∨ (SD_METHOD ≠ SD_METHOD) ∨ ((1 : Nat) ≠ SD_INTERFACE_VERSION) ∨ (RetCode.ok ≠ RetCode.ok) ∨
        (MsgType.notification ≠ MsgType.notification)) := by decide
    simp only [hcond, if_false, hparse, hres]
    -- the reboot flag travels unchanged
    have hfr' : (SDHeader.assignOptionIndexes { entries := es, flagReboot := flag, flagUnicast := true }).flagReboot = flag := rfl
    rw [hfr']
    split
    · exact sdMessageReceived_congr _ _ _ a mc hent hfu
    · exact sdMessageReceived_congr _ _ _ a mc hent hfu

/-- an OfferService batch of one entry: the receiving stack runs `handle_offer` on exactly that entry (after its reboot check) -/
theorem c04_offer_reaches_watcher (A : Stack) (e : SDEntry) (hty : e.ty = .offer)
    (hwf : ({ entries := [e], flagReboot := (assignOutgoing A.outgoing none).1.1, flagUnicast := true } : SDHeader).WFresolved)
    (hsess : (assignOutgoing A.outgoing none).1.2 < 65536)
    (hlen : ∀ p, ({ entries := [e], flagReboot := (assignOutgoing A.outgoing none).1.1, flagUnicast := true } : SDHeader).assignOptionIndexes.build = .ok p →
      p.length + 8 < 4294967296) :
    ∃ b, A.sendSd [e] none =
        ({ A with outgoing := (assignOutgoing A.outgoing none).2, sendLog := A.sendLog ++ [(none, (assignOutgoing A.outgoing none).1)] } : Stack).emit (.send none b) ∧
      ∀ (B : Stack) (a : Addr) (mc : Bool), B.datagramReceived b a mc =
        (if (checkReceived B.incoming a mc (assignOutgoing A.outgoing none).1.1 (assignOutgoing A.outgoing none).1.2).1 = true
          then ({ B with incoming := (checkReceived B.incoming a mc (assignOutgoing A.outgoing none).1.1 (assignOutgoing A.outgoing none).1.2).2 } : Stack).rebootDetected a
          else ({ B with incoming := (checkReceived B.incoming a mc (assignOutgoing A.outgoing none).1.1 (assignOutgoing A.outgoing none).1.2).2 } : Stack)).handleOffer e a := by
  obtain ⟨b, h1, h2⟩ := c04_wire_end_to_end A [e] none rfl hwf hsess hlen
  refine ⟨b, h1, ?_⟩
  intro B a mc
  rw [h2 B a mc]
  unfold sdMessageReceived
  simp [hty]

theorem foldl_subscribe_only (es : List SDEntry) (a : Addr) (X : Stack) (hty : ∀ e ∈ es, e.ty = .subscribe) :
    es.foldl (fun s e => match e.ty with
      | .offer => s.handleOffer e a
      | .subscribeAck => s
      | .find => s.handleFind e a false
      | .subscribe => if false = true then s else s.handleSubscribe e a) X = es.foldl (fun s e => s.handleSubscribe e a) X := by
  induction es generalizing X with
  | nil => rfl
  | cons e t ih =>
    simp only [List.foldl_cons]
    have hte : e.ty = .subscribe := hty e List.mem_cons_self
    rw [hte]
    simp only [Bool.false_eq_true, if_false]
    exact ih _ (fun x hx => hty x (List.mem_cons_of_mem _ hx))

/-- a Subscribe batch sent by unicast: the receiving stack runs `handle_subscribe` on every entry, in order -/
theorem c04_subscribe_reaches_server (B : Stack) (es : List SDEntry) (d : Addr) (hne : es.isEmpty = false)
    (hty : ∀ e ∈ es, e.ty = .subscribe)
    (hwf : ({ entries := es, flagReboot := (assignOutgoing B.outgoing (some d)).1.1, flagUnicast := true } : SDHeader).WFresolved)
    (hsess : (assignOutgoing B.outgoing (some d)).1.2 < 65536)
    (hlen : ∀ p, ({ entries := es, flagReboot := (assignOutgoing B.outgoing (some d)).1.1, flagUnicast := true } : SDHeader).assignOptionIndexes.build = .ok p →
      p.length + 8 < 4294967296) :
    ∃ b, B.sendSd es (some d) =
        ({ B with outgoing := (assignOutgoing B.outgoing (some d)).2, sendLog := B.sendLog ++ [(some d, (assignOutgoing B.outgoing (some d)).1)] } : Stack).emit (.send (some d) b) ∧
      ∀ (A : Stack) (a : Addr), A.datagramReceived b a false =
        es.foldl (fun s e => s.handleSubscribe e a)
          (if (checkReceived A.incoming a false (assignOutgoing B.outgoing (some d)).1.1 (assignOutgoing B.outgoing (some d)).1.2).1 = true
            then ({ A with incoming := (checkReceived A.incoming a false (assignOutgoing B.outgoing (some d)).1.1 (assignOutgoing B.outgoing (some d)).1.2).2 } : Stack).rebootDetected a
            else ({ A with incoming := (checkReceived A.incoming a false (assignOutgoing B.outgoing (some d)).1.1 (assignOutgoing B.outgoing (some d)).1.2).2 } : Stack)) := by
  obtain ⟨b, h1, h2⟩ := c04_wire_end_to_end B es (some d) hne hwf hsess hlen
  refine ⟨b, h1, ?_⟩
  intro A a
  rw [h2 A a false]
  unfold sdMessageReceived
  simp only [Bool.not_true, Bool.false_eq_true, if_false]
  generalize (if (checkReceived A.incoming a false (assignOutgoing B.outgoing (some d)).1.1 (assignOutgoing B.outgoing (some d)).1.2).1 = true
      then ({ A with incoming := (checkReceived A.incoming a false (assignOutgoing B.outgoing (some d)).1.1 (assignOutgoing B.outgoing (some d)).1.2).2 } : Stack).rebootDetected a
      else ({ A with incoming := (checkReceived A.incoming a false (assignOutgoing B.outgoing (some d)).1.1 (assignOutgoing B.outgoing (some d)).1.2).2 } : Stack)) = X
  exact foldl_subscribe_only es a X hty

end Someip
