/-
  C10 — Offer lifecycle: wait, repetition and cyclic phases; nothing follows a StopOffer.
  Per-operation theorems about the offer task's steps and the stop paths (valid in every state).
-/
import SomeipModel.Lemmas.StackBasic
namespace Someip
open Stack
set_option linter.unusedSimpArgs false

/-- stopping an already stopped announcer succeeds and changes nothing -/
theorem c10_idempotent_stop (s : Stack) (h : s.started = false) : s.announcerStop = s := by
  simp [announcerStop, h]

/-- stopping twice is the same as stopping once -/
theorem c10_stop_stop (s : Stack) : s.announcerStop.announcerStop = s.announcerStop := by
  by_cases h : s.started = false
  · rw [c10_idempotent_stop s h, c10_idempotent_stop s h]
  · apply c10_idempotent_stop; simp [announcerStop, h]

/-- what `stop_announce_service(instance, send_stop=False)` does in the code as it is: the instance leaves the
announcer's list and NOTHING ELSE happens - `instance.stop()` is not called, the offer task keeps its schedule (observed on
the real code: cyclic offers continue).  The statement of C10 speaks about stopping an instance (one StopOffer, then
silence); this call does not stop it.  The scenario generators use `send_stop=True`; this theorem records the other branch of
the model, which mirrors the code. -/
theorem c10_unannounce_without_stop_only_unlists (s : Stack) (i : Nat) (h : i ∈ s.announceOrder) :
    s.stopAnnounceService i false = { s with announceOrder := s.announceOrder.erase i } := by
  simp [stopAnnounceService, h]

/-- SILENCE: while an instance is stopped (`_task is None`) no offer with a non-zero TTL is queued for
anyone - neither by a leftover step of its old task nor as a delayed answer to an earlier FindService -/
theorem c10_silence (s : Stack) (i : Nat) (x : Instance) (remote : Dest)
    (hx : s.getInst i = some x) (hstopped : x.task = none) : s.sendOffer i remote false = s := by
  simp [sendOffer, hx, hstopped]

/-- the delayed-answer callback of a stopped instance is a no-op, whatever else the state is -/
theorem c10_pending_answer_dropped (s : Stack) (i : Nat) (x : Instance) (a : Addr)
    (hx : s.getInst i = some x) (hstopped : x.task = none) : s.runCb (.sendOfferTo i a) = s := by
  simp [runCb, sendOffer, hx, hstopped]

/-- an offer entry carries the configured TTL (0 for a StopOffer), ids, minor version and both option runs -/
theorem c10_offer_content (sv : Service) (ttl : Nat) :
    let e := sv.createOfferEntry ttl
    e.ty = .offer ∧ e.sid = sv.sid ∧ e.iid = sv.iid ∧ e.maj = sv.maj ∧ e.val = sv.min ∧ e.ttl = ttl ∧
    e.opts1 = sv.opts1 ∧ e.opts2 = sv.opts2 := by
  simp [Service.createOfferEntry]

/-- a running instance's offer request is one queue request for the multicast group with the configured TTL -/
theorem c10_offer_is_queued (s : Stack) (i : Nat) (x : Instance) (tid : Nat)
    (hx : s.getInst i = some x) (hrun : x.task = some tid) :
    s.sendOffer i none false = (s.logOffer i (.offer false)).queueSend (x.service.createOfferEntry s.tm.announceTtl) none := by
  simp [sendOffer, hx, hrun]

/-- a StopOffer is one queue request with TTL 0 for the multicast group -/
theorem c10_stopoffer_is_queued (s : Stack) (i : Nat) (x : Instance) (hx : s.getInst i = some x) :
    s.sendOffer i none true = (s.logOffer i .stopOffer).queueSend (x.service.createOfferEntry 0) none := by
  simp [sendOffer, hx]

/-- cancelled before the body ran, or during the initial wait: the task ends without any effect
(no StopOffer: "stopping before the first offer of a cyclic instance sends nothing") -/
theorem c10_cancel_before_first_offer (s : Stack) (tid : Tid) (i : Nat) (t : TaskSt) (hc : t.cancelled = true)
    (hpc : t.pc = .created ∨ t.pc = .initial) :
    (s.stepOffer tid t i).outs = s.outs ∧ (s.stepOffer tid t i).loop = s.loop := by
  rcases hpc with h | h <;> simp [stepOffer, h, hc, finish, setTask]

/-- first step of the offer task: the initial delay is drawn inside the configured window -/
theorem c10_initial_delay_window (s : Stack) (h : s.tm.initialDelayMin ≤ s.tm.initialDelayMax) :
    s.tm.initialDelayMin ≤ (s.draw s.tm.initialDelayMin s.tm.initialDelayMax).2 ∧
    (s.draw s.tm.initialDelayMin s.tm.initialDelayMax).2 ≤ s.tm.initialDelayMax :=
  draw_in_window s _ _ h

/-- a positive sleep arms exactly one timer at now + d; a zero sleep is a bare yield (one hop, no timer) -/
theorem c10_sleep_timer (s : Stack) (tid : Tid) (t : TaskSt) (d : Nat) (pc : Pc) (hd : d ≠ 0) :
    (s.sleepFor tid t d pc).loop.timers = s.loop.timers ++ [⟨s.loop.nextSeq, s.loop.now + d, .sleepDone tid⟩] := by
  simp [sleepFor, hd, setTask]
theorem c10_sleep_zero (s : Stack) (tid : Tid) (t : TaskSt) (pc : Pc) :
    (s.sleepFor tid t 0 pc).loop.timers = s.loop.timers ∧
    (s.sleepFor tid t 0 pc).loop.ready = s.loop.ready ++ [⟨none, .taskStep tid⟩] := by
  simp [sleepFor, setTask]

/-- cancelled in the repetition or cyclic phase of a cyclic instance: exactly the StopOffer request
follows, and the instance stops answering FindService -/
theorem c10_cancel_after_offer_cyclic (s : Stack) (tid : Tid) (i : Nat) (t : TaskSt) (x : Instance) (k : Nat)
    (hc : t.cancelled = true) (hpc : t.pc = .rep k ∨ t.pc = .cyclic) (hx : s.getInst i = some x)
    (hcyc : s.tm.cyclicOfferDelay ≠ 0) :
    s.stepOffer tid t i =
      (((s.setInst i { x with canAnswer := false }).sendOffer i none true).finish tid t) := by
  rcases hpc with h | h <;> simp [stepOffer, h, hc, hx, hcyc]

/-- ... and of a non-cyclic instance: nothing at all (its StopOffer was sent by stop() itself) -/
theorem c10_cancel_after_offer_noncyclic (s : Stack) (tid : Tid) (i : Nat) (t : TaskSt) (x : Instance) (k : Nat)
    (hc : t.cancelled = true) (hpc : t.pc = .rep k ∨ t.pc = .cyclic) (hx : s.getInst i = some x)
    (hcyc : s.tm.cyclicOfferDelay = 0) :
    (s.stepOffer tid t i).outs = s.outs := by
  rcases hpc with h | h <;> simp [stepOffer, h, hc, hx, hcyc, finish, setTask, setInst]

/-- repetition i is followed by a sleep of base * 2^i; after the last repetition the cyclic period -/
theorem c10_next_delay (s : Stack) (tid : Tid) (i : Nat) (t : TaskSt) (k : Nat) (hc : t.cancelled = false) (hpc : t.pc = .rep k)
    (hk : k + 1 < s.tm.repetitionsMax) :
    s.stepOffer tid t i =
      (s.sendOffer i none false).sleepFor tid t (pow2 (k + 1) * (s.sendOffer i none false).tm.repetitionsBaseDelay) (.rep (k + 1)) := by
  simp [stepOffer, hpc, hc, hk]

/-- non-vacuity: a stopped instance exists in a reachable-looking state -/
example : (({ instances := [{ service := { sid := 1 } }] } : Stack).sendOffer 0 (some 7) false).outs = [] := by decide

end Someip
