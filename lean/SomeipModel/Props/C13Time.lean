/-
  C13 — whole runs: the timing of the find rounds.

  `s.findMarks`      : ghost - (find task, time) of the task's creation (`ServiceDiscover.start`) and of every round step it runs
                       (the step that hands that round's FindService message to `send_sd`, or finds nothing left to ask for).
  `anchorF n marks`  : the time of task n's last mark.
  `SchF tm pc A B`   : the due time B of the next step from the anchor A: just created - A; initial wait - A + d for a d inside the
                       initial-delay window; after round k - A + 2^k * REPETITIONS_BASE_DELAY.
  `PendF s n t B`    : exactly one pending activation of find task n: a queued step (then the clock reads B), or one wake-up,
                       scheduled with deadline B or fired at B.

  For EVERY list of events from a fresh stack, for the find task the discovery holds:
   * `c13_find_task_on_schedule`: one pending activation, due on schedule;
   * `c13_round_step_on_schedule`: whenever its step is at the head of the ready queue, the clock reads exactly (time of the
     previous round step, resp. of start) + (delay of the position) - `c13_first_round_in_window`: the first round leaves after
     a delay inside the initial-delay window; `c13_round_at_doubling_delay`: round k+1 follows round k after exactly
     2^k * base.  Neither early nor late (virtual time; C09's loop discipline).
  Same construction as Props/C10Time for the offer tasks (FCFrame / FMFrame / FTInv / FTSteps / FTLift).
-/
import SomeipModel.Lemmas.FTLift
import SomeipModel.Props.C13Global
import SomeipModel.Props.C09Time
namespace Someip
open Stack
set_option linter.unusedSimpArgs false

theorem ftp_runAll (s s' : Stack) (es : List Event) (h : runAll s es = some s') (hi : FTP s) : FTP s' := by
  induction es generalizing s with
  | nil => simp [runAll] at h; subst h; exact hi
  | cons e t ih =>
    simp only [runAll] at h
    split at h
    · cases h
    · rename_i s1 hs
      exact ih s1 h (ftp_step s s1 e hs hi)

/-- a fresh stack: no tasks, nothing logged, an idle loop, no find task held -/
structure FreshFind (s0 : Stack) : Prop where
  tasks : s0.tasks = []
  log : s0.findLog = []
  held : s0.findTask = none
  ready : s0.loop.ready = []
  timers : s0.loop.timers = []

theorem ftp_fresh (s0 : Stack) (h : FreshFind s0) : FTP s0 := by
  refine ⟨⟨finv_fresh s0 h.tasks h.log, ?_, ?_⟩, ?_, ?_⟩
  · intro n hn; rw [h.held] at hn; cases hn
  · intro m _; simp [nSF, nWRF, wTF, h.ready, h.timers]
  · intro t ht; rw [h.timers] at ht; cases ht
  · intro t ht; rw [h.timers] at ht; cases ht

/-- **the find task the discovery holds has exactly one pending activation, due on schedule** -/
theorem c13_find_task_on_schedule (s0 s : Stack) (es : List Event) (h0 : FreshFind s0) (hrun : runAll s0 es = some s)
    (n : Nat) (hn : s.findTask = some n) :
    ∃ t, s.getTask (.find, n) = some t ∧ t.cancelled = false ∧
      (t.pc ≠ .done → ∃ A B, anchorF n s.findMarks = some A ∧ SchF s.tm t.pc A B ∧ PendF s n t B) := by
  have hi := (ftp_runAll s0 s es hrun (ftp_fresh s0 h0)).1.2
  obtain ⟨t, ht, hc, _, hrest⟩ := hi.own n hn
  exact ⟨t, by rw [getTask_find]; exact ht, hc, hrest⟩

/-- **NEVER LATE, as a state invariant**: the next round step of the held find task is due at a time on schedule that the
clock has not passed -/
theorem c13_next_round_not_overdue (s0 s : Stack) (es : List Event) (h0 : FreshFind s0) (hrun : runAll s0 es = some s)
    (n : Nat) (hn : s.findTask = some n) (t : TaskSt) (ht : s.getTask (.find, n) = some t) (hpc : t.pc ≠ .done) :
    ∃ A B, anchorF n s.findMarks = some A ∧ SchF s.tm t.pc A B ∧ s.loop.now ≤ B := by
  obtain ⟨t', ht', _, hrest⟩ := c13_find_task_on_schedule s0 s es h0 hrun n hn
  rw [ht] at ht'; cases ht'
  obtain ⟨A, B, hA, hS, hP⟩ := hrest hpc
  refine ⟨A, B, hA, hS, ?_⟩
  have hld := c09_clock_never_passes_a_deadline s0 s es h0.timers hrun
  unfold PendF at hP
  cases hw : t.waiting
  · rw [hw] at hP; simp only [Bool.false_eq_true, if_false] at hP
    exact Nat.le_of_eq hP.2.2.2
  · rw [hw] at hP; simp only [if_true] at hP
    obtain ⟨_, h2, h3, h4⟩ := hP
    by_cases hq : nWRF s n = 0
    · have hlen : (wTF s n).length = 1 := by omega
      match hwt : wTF s n, hlen with
      | [y], _ =>
        have hy : y ∈ wTF s n := by rw [hwt]; exact List.mem_cons_self
        have hyt : y ∈ s.loop.timers := (List.mem_filter.mp hy).1
        rw [← h3 y hy]; exact hld y hyt
    · exact Nat.le_of_eq (h4 hq)

/-- **ON SCHEDULE, neither early nor late**: whenever the step of the held find task is about to run, the clock reads exactly
(time of its previous round step, or of its creation) + (the delay of its position) -/
theorem c13_round_step_on_schedule (s0 s : Stack) (es : List Event) (h0 : FreshFind s0) (hrun : runAll s0 es = some s)
    (n : Nat) (hn : s.findTask = some n) (q : Option Nat) (rest : List (RItem Cb))
    (hhead : s.loop.ready = ⟨q, .taskStep (.find, n)⟩ :: rest) :
    ∃ t, s.getTask (.find, n) = some t ∧ (t.pc ≠ .done → ∃ A, anchorF n s.findMarks = some A ∧ SchF s.tm t.pc A s.loop.now) := by
  obtain ⟨t, ht, _, hrest⟩ := c13_find_task_on_schedule s0 s es h0 hrun n hn
  refine ⟨t, ht, ?_⟩
  intro hpc
  obtain ⟨A, B, hA, hS, hP⟩ := hrest hpc
  have hns : nSF s n ≠ 0 := by
    obtain ⟨h1, _, _⟩ := countsF_pop s q _ rest hhead n
    rw [isFStepOf_self] at h1; simp at h1; omega
  unfold PendF at hP
  cases hw : t.waiting
  · rw [hw] at hP; simp only [Bool.false_eq_true, if_false] at hP
    exact ⟨A, hA, by rw [hP.2.2.2]; exact hS⟩
  · rw [hw] at hP; simp only [if_true] at hP
    exact absurd hP.1 hns

theorem c13_first_round_in_window (s0 s : Stack) (es : List Event) (h0 : FreshFind s0) (hrun : runAll s0 es = some s)
    (n : Nat) (hn : s.findTask = some n) (q : Option Nat) (rest : List (RItem Cb))
    (hhead : s.loop.ready = ⟨q, .taskStep (.find, n)⟩ :: rest)
    (t : TaskSt) (ht : s.getTask (.find, n) = some t) (hpc : t.pc = .initial) :
    ∃ A d, anchorF n s.findMarks = some A ∧ s.tm.initialDelayMin ≤ d ∧ (s.tm.initialDelayMin ≤ s.tm.initialDelayMax → d ≤ s.tm.initialDelayMax) ∧
      s.loop.now = A + d := by
  obtain ⟨t', ht', hrest⟩ := c13_round_step_on_schedule s0 s es h0 hrun n hn q rest hhead
  rw [ht] at ht'; cases ht'
  obtain ⟨A, hA, hS⟩ := hrest (by rw [hpc]; decide)
  rw [hpc] at hS
  obtain ⟨d, h1, h2, h3⟩ := hS
  exact ⟨A, d, hA, h1, h2, h3⟩

theorem c13_round_at_doubling_delay (s0 s : Stack) (es : List Event) (h0 : FreshFind s0) (hrun : runAll s0 es = some s)
    (n : Nat) (hn : s.findTask = some n) (q : Option Nat) (rest : List (RItem Cb))
    (hhead : s.loop.ready = ⟨q, .taskStep (.find, n)⟩ :: rest)
    (t : TaskSt) (ht : s.getTask (.find, n) = some t) (k : Nat) (hpc : t.pc = .rep k) :
    ∃ A, anchorF n s.findMarks = some A ∧ s.loop.now = A + 2 ^ k * s.tm.repetitionsBaseDelay := by
  obtain ⟨t', ht', hrest⟩ := c13_round_step_on_schedule s0 s es h0 hrun n hn q rest hhead
  rw [ht] at ht'; cases ht'
  obtain ⟨A, hA, hS⟩ := hrest (by rw [hpc]; intro h; cases h)
  rw [hpc] at hS
  exact ⟨A, hA, hS⟩

/-! non-vacuity: initial delay 10, two repetitions, base delay 30, a watched service that is never offered: created at 0, rounds at 10,
40 = 10 + 30, 100 = 40 + 2 * 30 -/
def tmF : Timings := { ({} : Timings) with initialDelayMin := 10, initialDelayMax := 10, repetitionsMax := 2, repetitionsBaseDelay := 30 }
def evsF : List Event := [.input (.watch watchedX (.ext 0)), .input .start, .run, .run, .adv 10, .fire 1, .run, .run,
  .adv 40, .fire 2, .run, .run, .adv 100, .fire 3, .run, .run]
example : FreshFind ({ tm := tmF } : Stack) := ⟨rfl, rfl, rfl, rfl, rfl⟩
example : (runAll ({ tm := tmF } : Stack) evsF).map (fun s => (s.findMarks, rounds s.findLog 0, s.loop.now)) =
    some ([(0, 0), (0, 10), (0, 40), (0, 100)], [0, 1, 2], 100) := by decide +kernel
example : (runAll ({ tm := tmF } : Stack) (evsF.take 8 ++ [.adv 39, .fire 2])).isNone = true := by decide +kernel
example : (runAll ({ tm := tmF } : Stack) (evsF.take 8 ++ [.adv 41])).isNone = true := by decide +kernel

end Someip
