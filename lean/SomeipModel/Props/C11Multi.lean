/-
  C11 for any number of announced instances: how many acknowledgements one received Subscribe entry produces, and which.

  `ackOuts s`   : the SubscribeAck entries handed to the announcer's send queue so far (ghost outputs `queued`), with their
                  destination, in order;
  `takes s i e` : announced instance `i` exists, is running and declares the entry's service / eventgroup.
  For EVERY state, entry and sender: `handle_subscribe` appends exactly
     * one negative acknowledgement when no announced instance takes the entry,
     * nothing for a StopSubscribe (TTL 0) that some instance takes,
     * one acknowledgement (the requested TTL, or TTL 0 if the listener refused) per instance that takes it - hence
       EXACTLY ONE when at most one instance matches, the situation the statement quantifies over,
  each addressed to the sender only and echoing the entry's ids (c11_ack_echo).
-/
import SomeipModel.Lemmas.QSteps
import SomeipModel.Props.C11
namespace Someip
open Stack
set_option linter.unusedSimpArgs false

def ackOf : Nat × Out → Option (Dest × SDEntry)
  | (_, .queued d e) => if e.ty = .subscribeAck then some (d, e) else none
  | _ => none
/-- the acknowledgement entries queued so far -/
def ackOuts (s : Stack) : List (Dest × SDEntry) := s.outs.filterMap ackOf

/-- the queue requests seen so far -/
def qo (s : Stack) : List (Nat × Out) := s.outs.filter (fun o => isQueued o.2)

theorem ackOuts_of_qo {s s' : Stack} (h : qo s' = qo s) : ackOuts s' = ackOuts s := by
  have key : ∀ l : List (Nat × Out), l.filterMap ackOf = (l.filter (fun o => isQueued o.2)).filterMap ackOf := by
    intro l
    induction l with
    | nil => rfl
    | cons o t ih =>
      obtain ⟨n, oo⟩ := o
      cases oo <;> simp [List.filter_cons, List.filterMap_cons, isQueued, ackOf, ih]
  unfold ackOuts
  rw [key s'.outs, key s.outs]
  exact congrArg _ h

theorem qo_of_qpi {s s' : Stack} (h : qpi s' = qpi s) : qo s' = qo s := congrArg (fun p => p.1) h

theorem qo_emit_other (s : Stack) (o : Out) (h : isQueued o = false) : qo (s.emit o) = qo s := by
  simp [qo, emit, List.filter_append, h]

theorem qo_sendSd (s : Stack) (es : List SDEntry) (d : Dest) : qo (s.sendSd es d) = qo s := by
  unfold sendSd; split; rfl; simp only []; split
  · exact qo_emit_other _ _ rfl
  · split <;> exact qo_emit_other _ _ rfl

theorem qo_flushTo (s : Stack) (es : List SDEntry) (d : Dest) : qo (s.flushTo es d) = qo s := by
  unfold flushTo; rw [qo_sendSd]; rfl

theorem qo_queueSend (s : Stack) (e : SDEntry) (d : Dest) : qo (s.queueSend e d) = qo s ++ [(s.loop.now, .queued d e)] := by
  have h0 : qo (s.emit (.queued d e)) = qo s ++ [(s.loop.now, .queued d e)] := by
    simp [qo, emit, List.filter_append, isQueued]
  unfold queueSend
  simp only []
  split
  · rw [qo_flushTo]; exact h0
  · split
    · split
      · show qo _ = _
        rw [← h0]; rfl
      · rw [← h0]; rfl
    · rw [← h0]; rfl

theorem ackOuts_append (s s' : Stack) (x : Nat × Out) (h : qo s' = qo s ++ [x]) : ackOuts s' = ackOuts s ++ (ackOf x).toList := by
  have key : ∀ l : List (Nat × Out), l.filterMap ackOf = (l.filter (fun o => isQueued o.2)).filterMap ackOf := by
    intro l
    induction l with
    | nil => rfl
    | cons o t ih =>
      obtain ⟨n, oo⟩ := o
      cases oo <;> simp [List.filter_cons, List.filterMap_cons, isQueued, ackOf, ih]
  unfold ackOuts
  rw [key s'.outs, key s.outs]
  unfold qo at h
  rw [h, List.filterMap_append]
  cases hx : ackOf x <;> simp [hx]

/-- queueing an acknowledgement entry -/
theorem ackOuts_queueSend_ack (s : Stack) (k : SubKey) (ttl : Nat) (a : Addr) :
    ackOuts (s.queueSend (k.ackEntry ttl) (some a)) = ackOuts s ++ [(some a, k.ackEntry ttl)] := by
  rw [ackOuts_append s _ _ (qo_queueSend s _ _)]
  simp [ackOf, SubKey.ackEntry]

/-- does announced instance `i` take the entry (exists, runs, declares the service and eventgroup)? -/
def takes (s : Stack) (i : Nat) (e : SDEntry) : Bool :=
  match s.getInst i with
  | none => false
  | some x => !x.task.isNone && (match x.service.matchesSubscribe e with | .ok true => true | _ => false)

/-- what decides `takes` for every instance: the task references and the services -/
def tkp (s : Stack) : List (Option Nat × Service) := s.instances.map (fun x => (x.task, x.service))
theorem takes_of_tkp {s s' : Stack} (h : tkp s' = tkp s) (i : Nat) (e : SDEntry) : takes s' i e = takes s i e := by
  unfold takes getInst
  have h1 : (s'.instances[i]?).map (fun x => (x.task, x.service)) = (s.instances[i]?).map (fun x => (x.task, x.service)) := by
    rw [← List.getElem?_map, ← List.getElem?_map]; exact congrArg (·[i]?) h
  cases h2 : s'.instances[i]? <;> cases h3 : s.instances[i]? <;> simp [h2, h3] at h1 ⊢
  obtain ⟨e1, e2⟩ := h1
  rw [e1, e2]

theorem sendSd_instances (s : Stack) (es : List SDEntry) (d : Dest) : (s.sendSd es d).instances = s.instances := by
  unfold sendSd; split; rfl; simp only []; split; rfl; split <;> rfl
theorem queueSend_instances (s : Stack) (e : SDEntry) (d : Dest) : (s.queueSend e d).instances = s.instances := by
  unfold queueSend; simp only []; split
  · unfold flushTo; rw [sendSd_instances]; rfl
  · split
    · split <;> simp [appendCollector, newCollector, callLater, emit]
    · simp [appendCollector, newCollector, callLater, emit]
theorem armTtl_instances (s : Stack) (ttl : Nat) (cb : Cb) : (s.armTtl ttl cb).1.instances = s.instances := by
  unfold armTtl; split <;> rfl

theorem tkp_setInst_same (s : Stack) (i : Nat) (x x' : Instance) (hx : s.getInst i = some x) (ht : x'.task = x.task)
    (hs : x'.service = x.service) : tkp (s.setInst i x') = tkp s := by
  have hx0 : s.instances[i]? = some x := hx
  have hlt : i < s.instances.length := (List.getElem?_eq_some_iff.mp hx0).1
  unfold tkp setInst
  simp only []
  rw [List.map_set]
  apply List.ext_getElem?
  intro j
  by_cases hj : j = i
  · subst hj
    rw [List.getElem?_set]
    simp only [List.length_map, if_true, hlt]
    rw [List.getElem?_map, hx0]; simp [ht, hs]
  · rw [List.getElem?_set_ne (fun e => hj e.symm)]

theorem tkp_of_instances {s s' : Stack} (h : s'.instances = s.instances) : tkp s' = tkp s := by unfold tkp; rw [h]

/-- ONE INSTANCE AND ONE ENTRY: the instance reports whether it took the entry; if it did not, nothing at all changed; if it did,
it queued nothing for a StopSubscribe and exactly one acknowledgement - the requested TTL or TTL 0 - for a Subscribe; which
instances run and what they declare is never changed -/
theorem instHandle_spec (s : Stack) (i : Nat) (e : SDEntry) (a : Addr) :
    (s.instHandleSubscribe i e a).2 = takes s i e ∧ tkp (s.instHandleSubscribe i e a).1 = tkp s ∧
    (takes s i e = false → (s.instHandleSubscribe i e a).1 = s) ∧
    (takes s i e = true → e.ttl = 0 → ackOuts (s.instHandleSubscribe i e a).1 = ackOuts s) ∧
    (takes s i e = true → e.ttl ≠ 0 → ∃ ttl', (ttl' = e.ttl ∨ ttl' = 0) ∧
      ackOuts (s.instHandleSubscribe i e a).1 = ackOuts s ++ [(some a, (SubKey.ofEntry e).ackEntry ttl')]) := by
  unfold instHandleSubscribe takes
  cases hx : s.getInst i with
  | none => simp
  | some x =>
    simp only []
    by_cases ht : x.task.isNone = true
    · simp [ht]
    · simp only [ht, Bool.false_eq_true, if_false, Bool.not_false, Bool.true_and]
      have hq : ∀ (X : Stack) (o : Out), isQueued o = false → ackOuts (X.emit o) = ackOuts X :=
        fun X o ho => ackOuts_of_qo (qo_emit_other X o ho)
      have hxi : ∀ X : Stack, X.instances = s.instances → X.getInst i = some x := fun X h => by
        unfold getInst; rw [h]; exact hx
      split
      · -- the instance takes the entry
        rename_i hm
        simp only [hm]
        by_cases httl : e.ttl = 0
        · simp only [httl, if_true]
          split
          · refine ⟨rfl, tkp_setInst_same _ _ _ _ hx rfl rfl, by simp, fun _ _ => rfl, fun _ h => absurd rfl h⟩
          · refine ⟨rfl, ?_, by simp, fun _ _ => ?_, fun _ h => absurd rfl h⟩
            · exact (tkp_of_instances (s' := ((s.setInst i _).cancelTimer _ _).emit _) rfl).trans (tkp_setInst_same _ _ _ _ hx rfl rfl)
            · exact hq _ _ rfl
        · simp only [httl, if_false]
          split
          · -- refresh
            refine ⟨rfl, ?_, by simp, fun _ h => (by first | exact absurd h httl | exact h.elim), fun _ _ => ⟨e.ttl, Or.inl rfl, ?_⟩⟩
            · rw [tkp_of_instances (queueSend_instances _ _ _)]
              apply Eq.trans (b := tkp s)
              · apply Eq.trans (b := tkp ((s.cancelTimer _ _).armTtl e.ttl (.expiredSub i a (SubKey.ofEntry e))).1)
                · (apply tkp_setInst_same _ i x _ (hxi _ ?_)) <;> first | rfl | (rw [armTtl_instances]; rfl)
                · exact tkp_of_instances (armTtl_instances _ _ _)
              · rfl
            · rw [ackOuts_queueSend_ack]
              congr 1
              apply ackOuts_of_qo
              show qo _ = qo s
              unfold qo; simp only [setInst_outs]
              unfold armTtl; split <;> rfl
          · split
            · -- refused by the listener
              refine ⟨rfl, ?_, by simp, fun _ h => (by first | exact absurd h httl | exact h.elim), fun _ _ => ⟨0, Or.inr rfl, ?_⟩⟩
              · rw [tkp_of_instances (queueSend_instances _ _ _)]
                exact tkp_setInst_same _ _ _ _ hx rfl rfl
              · rw [ackOuts_queueSend_ack]; rfl
            · -- accepted
              refine ⟨rfl, ?_, by simp, fun _ h => (by first | exact absurd h httl | exact h.elim), fun _ _ => ⟨e.ttl, Or.inl rfl, ?_⟩⟩
              · rw [tkp_of_instances (queueSend_instances _ _ _)]
                apply Eq.trans (b := tkp ((s.emit (.subscribed i (SubKey.ofEntry e) a)).armTtl e.ttl (.expiredSub i a (SubKey.ofEntry e))).1)
                · (apply tkp_setInst_same _ i x _ (hxi _ ?_)) <;> first | rfl | (rw [armTtl_instances]; rfl)
                · exact tkp_of_instances (armTtl_instances _ _ _)
              · rw [ackOuts_queueSend_ack]
                congr 1
                apply ackOuts_of_qo
                show qo _ = qo s
                unfold qo; simp only [setInst_outs]
                have : ((s.emit (.subscribed i (SubKey.ofEntry e) a)).armTtl e.ttl (.expiredSub i a (SubKey.ofEntry e))).1.outs =
                    (s.emit (.subscribed i (SubKey.ofEntry e) a)).outs := by unfold armTtl; split <;> rfl
                rw [this]
                exact qo_emit_other s _ rfl
      · -- it does not
        rename_i hm
        have : (match x.service.matchesSubscribe e with | .ok true => true | _ => false) = false := by
          split
          · rename_i h1; exact absurd h1 (by intro h2; exact hm h2)
          · rfl
        simp [this]

/-- an acknowledgement for entry `e` addressed to `a`: the requested TTL or TTL 0 -/
def IsAnswer (e : SDEntry) (a : Addr) (p : Dest × SDEntry) : Prop :=
  p.1 = some a ∧ ∃ ttl', (ttl' = e.ttl ∨ ttl' = 0) ∧ p.2 = (SubKey.ofEntry e).ackEntry ttl'

theorem handle_fold_spec (e : SDEntry) (a : Addr) (l : List Nat) (X : Stack) (b : Bool) :
    tkp (l.foldl (fun (acc : Stack × Bool) i => ((acc.1.instHandleSubscribe i e a).1, acc.2 || (acc.1.instHandleSubscribe i e a).2)) (X, b)).1 = tkp X ∧
    (l.foldl (fun (acc : Stack × Bool) i => ((acc.1.instHandleSubscribe i e a).1, acc.2 || (acc.1.instHandleSubscribe i e a).2)) (X, b)).2 =
      (b || l.any (fun i => takes X i e)) ∧
    ∃ L, ackOuts (l.foldl (fun (acc : Stack × Bool) i => ((acc.1.instHandleSubscribe i e a).1, acc.2 || (acc.1.instHandleSubscribe i e a).2)) (X, b)).1 =
        ackOuts X ++ L ∧
      (e.ttl = 0 → L = []) ∧ (e.ttl ≠ 0 → L.length = (l.filter (fun i => takes X i e)).length) ∧ ∀ p ∈ L, IsAnswer e a p := by
  induction l generalizing X b with
  | nil => exact ⟨rfl, by simp, [], by simp, fun _ => rfl, fun _ => rfl, fun p hp => by cases hp⟩
  | cons i t ih =>
    rw [List.foldl_cons]
    dsimp only
    obtain ⟨h2, htk, hno, hstop, hans⟩ := instHandle_spec X i e a
    obtain ⟨i1, i2, L, i3, i4, i5, i6⟩ := ih (X.instHandleSubscribe i e a).1 (b || (X.instHandleSubscribe i e a).2)
    have htakes : ∀ j, takes (X.instHandleSubscribe i e a).1 j e = takes X j e := fun j => takes_of_tkp htk j e
    simp only [htakes] at i2 i5
    refine ⟨i1.trans htk, ?_, ?_⟩
    · rw [i2, h2]; simp [Bool.or_assoc]
    · cases hti : takes X i e
      · -- instance i leaves everything as it was
        have hX : ackOuts (X.instHandleSubscribe i e a).1 = ackOuts X := by rw [hno hti]
        rw [hX] at i3
        refine ⟨L, i3, i4, ?_, i6⟩
        intro httl; rw [i5 httl]; simp [List.filter_cons, hti]
      · by_cases httl : e.ttl = 0
        · refine ⟨L, ?_, i4, fun h => absurd httl h, i6⟩
          rw [i3, hstop hti httl]
        · obtain ⟨ttl', htt, hack⟩ := hans hti httl
          refine ⟨(some a, (SubKey.ofEntry e).ackEntry ttl') :: L, ?_, fun h => absurd h httl, ?_, ?_⟩
          · rw [i3, hack]; simp
          · intro _; simp [List.filter_cons, hti, i5 httl]
          · intro p hp
            rcases List.mem_cons.mp hp with rfl | hp
            · exact ⟨rfl, ttl', htt, rfl⟩
            · exact i6 p hp

/-- HOW MANY ANSWERS ONE SUBSCRIBE ENTRY GETS, for any number of announced instances.  `takers` are the announced
instances that run and declare the entry's service and eventgroup. -/
theorem c11_answers (s : Stack) (e : SDEntry) (a : Addr) :
    ∃ L, ackOuts (s.handleSubscribe e a) = ackOuts s ++ L ∧ (∀ p ∈ L, IsAnswer e a p) ∧
      ((s.announceOrder.filter (fun i => takes s i e)) = [] → L = [(some a, (SubKey.ofEntry e).ackEntry 0)]) ∧
      ((s.announceOrder.filter (fun i => takes s i e)) ≠ [] → e.ttl = 0 → L = []) ∧
      ((s.announceOrder.filter (fun i => takes s i e)) ≠ [] → e.ttl ≠ 0 →
        L.length = (s.announceOrder.filter (fun i => takes s i e)).length) := by
  unfold handleSubscribe
  simp only []
  obtain ⟨h1, h2, L, h3, h4, h5, h6⟩ := handle_fold_spec e a s.announceOrder s false
  simp only [Bool.false_or] at h2
  have hany : (s.announceOrder.any (fun i => takes s i e)) = true ↔ s.announceOrder.filter (fun i => takes s i e) ≠ [] := by
    simp [List.filter_eq_nil_iff]
  split
  · rename_i hflag
    rw [h2] at hflag
    have hne := hany.mp hflag
    exact ⟨L, h3, h6, fun h => absurd h hne, fun _ httl => h4 httl, fun _ httl => h5 httl⟩
  · rename_i hflag
    rw [h2] at hflag
    have hnil : s.announceOrder.filter (fun i => takes s i e) = [] := by
      apply Classical.byContradiction; intro hne; exact hflag (hany.mpr hne)
    have hL : L = [] := by
      by_cases httl : e.ttl = 0
      · exact h4 httl
      · have := h5 httl; rw [hnil] at this; exact List.eq_nil_of_length_eq_zero this
    subst hL
    refine ⟨[(some a, (SubKey.ofEntry e).ackEntry 0)], ?_, ?_, fun _ => rfl, fun h => absurd hnil h, fun h => absurd hnil h⟩
    · rw [ackOuts_queueSend_ack, h3]; simp
    · intro p hp; simp at hp; subst hp; exact ⟨rfl, 0, Or.inr rfl, rfl⟩

/-- EXACTLY ONE: when at most one announced instance takes a Subscribe entry with a non-zero TTL (the statement's domain),
exactly one acknowledgement is queued, for the sender only, carrying the requested TTL or TTL 0 -/
theorem c11_exactly_one (s : Stack) (e : SDEntry) (a : Addr) (httl : e.ttl ≠ 0)
    (huniq : (s.announceOrder.filter (fun i => takes s i e)).length ≤ 1) :
    ∃ ttl', (ttl' = e.ttl ∨ ttl' = 0) ∧
      ackOuts (s.handleSubscribe e a) = ackOuts s ++ [(some a, (SubKey.ofEntry e).ackEntry ttl')] := by
  obtain ⟨L, h1, h2, h3, _, h5⟩ := c11_answers s e a
  by_cases hnil : s.announceOrder.filter (fun i => takes s i e) = []
  · exact ⟨0, Or.inr rfl, by rw [h1, h3 hnil]⟩
  · have hlen := h5 hnil httl
    have h1len : L.length = 1 := by
      have : (s.announceOrder.filter (fun i => takes s i e)).length ≠ 0 := fun h => hnil (List.eq_nil_of_length_eq_zero h)
      omega
    match L, h1len with
    | [p], _ =>
      obtain ⟨hp1, ttl', htt, hp2⟩ := h2 p (by simp)
      refine ⟨ttl', htt, ?_⟩
      rw [h1]; congr 1
      cases p; simp_all

/-- a negative acknowledgement is the only answer when nobody takes the entry - also for a StopSubscribe of an unknown
eventgroup; a StopSubscribe that an instance takes is never answered -/
theorem c11_stop_taken_silent (s : Stack) (e : SDEntry) (a : Addr) (httl : e.ttl = 0)
    (htaken : (s.announceOrder.filter (fun i => takes s i e)) ≠ []) : ackOuts (s.handleSubscribe e a) = ackOuts s := by
  obtain ⟨L, h1, _, _, h4, _⟩ := c11_answers s e a
  rw [h1, h4 htaken httl]; simp

end Someip
