/-
  C02 / C20 at BYTE level for SD options and whole SD messages (the parts that were "partial" before):

  C02  encode → decode:  for every resolved message the wire format can carry, `assign_option_indexes` + `build`
       succeed and the bytes - followed by anything - decode to exactly the indexed message, whose resolution
       gives every entry exactly its own two option runs, in order, and the same flags.
  C20  decode → encode → decode: whatever `parse` accepts (option, entry array, option array, whole SD message)
       can be built again, and the new bytes decode to the SAME value with nothing left over; unknown option
       types with their payloads, unknown flag bits, unknown protocol numbers, unreferenced options, raw indexes
       and counts all survive (they are part of the value that is proved equal).
-/
import SomeipModel.Lemmas.AssignBounds
namespace Someip
set_option linter.unusedSimpArgs false

/-- C02, one option: every well-formed option is encodable and decodes back to itself, leaving exactly the suffix -/
theorem c02_option_wire_roundtrip (o : SDOption) (h : o.WF) :
    ∃ b, o.build = .ok b ∧ ∀ r, SDOption.parse (b ++ r) = .ok (o, r) := by
  obtain ⟨b, hb, _, hp⟩ := SDOption.parse_build o h
  exact ⟨b, hb, hp⟩

/-- C02, whole message, byte level.  `WFresolved`: flags < 64, scalar fields within their widths, eventgroup
entries with zero reserved bits, runs of at most 15 options, at most 256 options in total, well-formed options. -/
theorem c02_message_wire_roundtrip (m : SDHeader) (h : m.WFresolved) :
    ∃ b, m.assignOptionIndexes.build = .ok b ∧
      ∀ r, SDHeader.parse (b ++ r) = .ok (m.assignOptionIndexes, r) ∧
        ∃ m', m.assignOptionIndexes.resolveOptions = .ok m' ∧ m'.entries = m.entries ∧
          m'.flagReboot = m.flagReboot ∧ m'.flagUnicast = m.flagUnicast ∧ m'.flagsUnknown = m.flagsUnknown := by
  obtain ⟨b, hb, hp⟩ := SDHeader.parse_build _ (SDHeader.assign_wf m h)
  exact ⟨b, hb, fun r => ⟨hp r, c02_assign_resolve m (fun e he => (h.2.1 e he).1)⟩⟩

/-- C20, one option: decode → encode → decode -/
theorem c20_option (b : Bytes) (hb : AllBytes b) (o : SDOption) (r : Bytes) (hp : SDOption.parse b = .ok (o, r)) :
    ∃ b', o.build = .ok b' ∧ SDOption.parse b' = .ok (o, []) ∧ b'.length + r.length ≤ b.length := by
  obtain ⟨hw, p, hbp, hpl⟩ := SDOption.parse_sound hb hp
  obtain ⟨b', hb', hl, hq⟩ := SDOption.parse_build o hw
  refine ⟨b', hb', by simpa using hq [], ?_⟩
  rw [hbp, hl]; simp; omega

/-- C20, whole SD message: decode → encode → decode.  The decoded value (entries with their RAW indexes and
counts, ALL options incl. unknown types and unreferenced ones, flag bits incl. unknown ones) is reproduced
exactly, with nothing left over. -/
theorem c20_sd_message (b : Bytes) (hb : AllBytes b) (m : SDHeader) (r : Bytes) (hp : SDHeader.parse b = .ok (m, r)) :
    ∃ b', m.build = .ok b' ∧ SDHeader.parse b' = .ok (m, []) := by
  obtain ⟨b', hb', hq⟩ := SDHeader.parse_build m (SDHeader.parse_sound hb hp)
  exact ⟨b', hb', by simpa using hq []⟩

/-- C20 "information the decoder keeps": the decoded message only holds wire-representable data -/
theorem c20_sd_message_keeps (b : Bytes) (hb : AllBytes b) (m : SDHeader) (r : Bytes) (hp : SDHeader.parse b = .ok (m, r)) :
    m.flagsUnknown < 64 ∧ (∀ o ∈ m.options, o.WF) ∧ ∀ e ∈ m.entries, EntryWF m.options.length e :=
  let h := SDHeader.parse_sound hb hp
  ⟨h.1, h.2.1, h.2.2.1⟩

/-! non-vacuity: concrete values meet the hypotheses -/

/-- a configuration option with key-only, key=value, key= (empty value) and =value items, an unknown option, an
IPv6 SD endpoint with an unknown protocol number -/
example : (SDOption.config [([97], none), ([98], some [99, 61, 100]), ([101], some []), ([], some [102])]).WF := by
  refine ⟨?_, by decide⟩
  intro it hit
  simp only [List.mem_cons, List.not_mem_nil, or_false] at hit
  rcases hit with h | h | h | h <;> subst h <;> simp [ItemWF, itemLen]
example : (SDOption.unknown 0x42 [1, 2, 3]).WF := by simp [SDOption.WF, registeredType, OPT_CONFIG, OPT_LOADBAL,
  OPT_V4_ENDPOINT, OPT_V4_MULTICAST, OPT_V4_SD, OPT_V6_ENDPOINT, OPT_V6_MULTICAST, OPT_V6_SD]
example : (SDOption.ipv6 .sdEndpoint (List.replicate 16 7) 200 30490).WF := by simp [SDOption.WF]

/-- a resolved message with shared, overlapping and empty runs meets `WFresolved` -/
def exLB : SDOption := .loadBal 1 2
def exUnk : SDOption := .unknown 0x42 [9]
def exMsg : SDHeader :=
  { entries := [{ ty := .offer, sid := 1, iid := 2, maj := 3, ttl := 4, val := 5, opts1 := [exLB, exUnk], opts2 := [exUnk] },
                { ty := .subscribe, sid := 1, iid := 2, maj := 3, ttl := 0xFFFFFF, val := 0x30007, opts1 := [],
                  opts2 := [exLB] }],
    options := [SDOption.unknown 0x55 []], flagsUnknown := 0x25, flagReboot := false }
example : exMsg.WFresolved := by
  unfold exMsg exLB exUnk
  refine ⟨by decide, ?_, ?_, by decide, by decide⟩
  · intro e he
    simp only [List.mem_cons, List.not_mem_nil, or_false] at he
    rcases he with h | h <;> subst h <;>
      simp [EntryFields, EntryType.isEventgroup, SDOption.WF, registeredType, OPT_CONFIG, OPT_LOADBAL,
        OPT_V4_ENDPOINT, OPT_V4_MULTICAST, OPT_V4_SD, OPT_V6_ENDPOINT, OPT_V6_MULTICAST, OPT_V6_SD]
  · intro o ho
    simp only [List.mem_cons, List.not_mem_nil, or_false] at ho
    subst ho
    simp [SDOption.WF, registeredType, OPT_CONFIG, OPT_LOADBAL,
      OPT_V4_ENDPOINT, OPT_V4_MULTICAST, OPT_V4_SD, OPT_V6_ENDPOINT, OPT_V6_MULTICAST, OPT_V6_SD]

/-- the premise is the encoder's own limit, not a count of what the entries name: 20 entries naming the same run of
15 options each (300 options named in total) share one stored run and meet `WFresolved` -/
def exRun : List SDOption := (List.range 15).map (fun i => SDOption.loadBal i 1)
def exBig : SDHeader :=
  { entries := List.replicate 20 { ty := .offer, sid := 1, iid := 2, maj := 3, ttl := 4, val := 5, opts1 := exRun, opts2 := [] } }
example : runsLen exBig.entries = 300 ∧ (assignAll exBig.entries exBig.options).2.length = 15 := by decide +kernel
example : exBig.WFresolved := by
  refine ⟨by decide, ?_, ?_, by decide +kernel, by decide +kernel⟩
  · intro e he
    have := List.eq_of_mem_replicate he
    subst this
    refine ⟨rfl, ⟨by decide, by decide, by decide, by decide, by decide, by decide, by decide, by decide⟩, ?_, ?_⟩
    · intro o ho
      obtain ⟨i, hi, rfl⟩ := List.mem_map.mp ho
      have := List.mem_range.mp hi
      simp [SDOption.WF]; omega
    · intro o ho; cases ho
  · intro o ho; cases ho

end Someip
