/-
  C05 — whole-run theorem per application listener.
  `lisLog` (ghost) records every `service_offered` / `service_stopped` call made on an application listener, in order.
  For EVERY list of events of the loop model (datagrams, API calls - watch / unwatch with any filter, watch-all, start,
  stop, connection loss -, ready callbacks, timer firings, clock jumps) and every application listener that was never
  registered while already registered (`lisDup = false`: one registration per listener object at a time - the unit of C05 is
  the registration, see DESIGN.md), the calls it received for one (service, source address) alternate offered, stopped, offered, ... beginning with
  offered, and the last one is 'offered' exactly when the service is stored for that address AND the listener is
  registered for it right now.  So a listener never hears 'stopped' for something it was not told about, never hears
  'offered' twice in a row, and what it was told last is the truth - including across its own registrations: registering
  replays exactly the stored services matching its filter, unregistering takes exactly those back.
-/
import SomeipModel.Lemmas.LisInv
import SomeipModel.Props.C05Global
namespace Someip
open Stack
set_option linter.unusedSimpArgs false
set_option linter.unusedVariables false

/-- the store invariant together with the per-listener invariant -/
def SL (s : Stack) : Prop := StoreInv s ∧ LInv s

theorem linv_of_lsp {s s' : Stack} (h : lsp s' = lsp s) (hi : LInv s) : LInv s' := by
  have e1 : s'.found = s.found := congrArg (fun p => p.1) h
  have e3 : s'.watched = s.watched := congrArg (fun p => p.2.2.1) h
  have e4 : s'.watchAll = s.watchAll := congrArg (fun p => p.2.2.2.1) h
  have e5 : s'.lisLog = s.lisLog := congrArg (fun p => p.2.2.2.2.1) h
  have e6 : s'.lisDup = s.lisDup := congrArg (fun p => p.2.2.2.2.2) h
  apply linv_of_parts hi e1 e5 e6
  · unfold WK; rw [e3]; exact hi.wk
  · intro l
    exact ⟨by rw [nreg_eq, nreg_eq, e3, e4], fun k => by rw [regsK_eq, regsK_eq, e3, e4]⟩

theorem sl_of_lsp {s s' : Stack} (h : lsp s' = lsp s) (hi : SL s) : SL s' :=
  ⟨storeInv_of_disc (by
      have e1 : s'.found = s.found := congrArg (fun p => p.1) h
      have e2 : s'.storeLog = s.storeLog := congrArg (fun p => p.2.1) h
      unfold disc; rw [e1, e2]) hi.1, linv_of_lsp h hi.2⟩

/-- a store operation -/
theorem sl_of_noteRel {s s' : Stack} (hS' : StoreInv s') (hR : NoteRel s s') (han : AN s') (hi : SL s) : SL s' :=
  ⟨hS', ⟨han, by unfold WK; rw [hR.1]; exact hi.2.wk, told_of_noteRel hi.1 hS' hR hi.2.told⟩⟩

theorem sl_applyInput (s : Stack) (x : Input) (hi : SL s) : SL (s.applyInput x) := by
  cases x with
  | dgram a mc b =>
    exact sl_of_noteRel (storeInv_datagramReceived s b a mc hi.1) (noteRel_datagramReceived s b a mc) (an_datagramReceived s b a mc hi.2.an) hi
  | start => exact sl_of_lsp (lsp_start s) hi
  | stop => exact sl_of_lsp (lsp_stop s) hi
  | connLost => exact sl_of_lsp (lsp_connectionLost s) hi
  | watch f l => exact ⟨storeInv_of_disc (disc_watchService s f l) hi.1, linv_watchService s f l hi.1 hi.2⟩
  | unwatch f l => exact ⟨storeInv_of_disc (disc_stopWatchService s f l) hi.1, linv_stopWatchService s f l hi.1 hi.2⟩
  | watchAll id => exact ⟨storeInv_of_disc (disc_watchAllServices s id) hi.1, linv_watchAllServices s id hi.1 hi.2⟩
  | unwatchAll id => exact ⟨storeInv_of_disc (disc_stopWatchAllServices s id) hi.1, linv_stopWatchAllServices s id hi.1 hi.2⟩
  | subscribe g d => exact sl_of_lsp (lsp_subscribeEventgroup s g d) hi
  | stopSubscribe g d => exact sl_of_lsp (lsp_stopSubscribeEventgroup s g d true) hi
  | announce i => exact sl_of_lsp (lsp_announceService s i) hi
  | stopAnnounce i b => exact sl_of_lsp (lsp_stopAnnounceService s i b) hi
  | setNak i egs =>
    simp only [applyInput]
    split
    · exact sl_of_lsp (lsp_setInst s i _) hi
    · exact hi
  | draws ds => exact sl_of_lsp (s := s) (s' := { s with draws := s.draws ++ ds }) rfl hi
  | announcerStop => exact sl_of_lsp (lsp_announcerStop s) hi
  | announcerStart => exact sl_of_lsp (lsp_announcerStart s) hi

theorem sl_runCb (s : Stack) (cb : Cb) (hi : SL s) : SL (s.runCb cb) := by
  cases cb with
  | connLost p =>
    cases p with
    | subscriber => exact sl_of_lsp (lsp_subscriberStop s false) hi
    | discovery => exact sl_of_noteRel (storeInv_foundStopAll s hi.1) (noteRel_foundStopAll s) (an_foundStopAll s hi.2.an) hi
    | announcer => exact sl_of_lsp (lsp_announcerStop s) hi
  | expiredSvc a k => exact sl_of_noteRel (storeInv_expiredSvc s a k hi.1) (noteRel_expiredSvc s a k) (an_expiredSvc s a k hi.2.an) hi
  | expiredSub i a k => exact sl_of_lsp (lsp_expiredSub s i a k) hi
  | sendStartSubscribe d egs => exact sl_of_lsp (lsp_sendSubscribe s _ d egs) hi
  | sendStopSubscribe d egs => exact sl_of_lsp (lsp_sendSubscribe s _ d egs) hi
  | sendOfferTo i a => exact sl_of_lsp (lsp_sendOffer s i _ _) hi
  | collectorTimeout cid => exact sl_of_lsp (lsp_collectorTimeout s cid) hi
  | sleepDone tid => exact sl_of_lsp (lsp_sleepDone s tid) hi
  | taskStep tid =>
    simp only [runCb]
    split
    · exact hi
    · split
      · exact hi
      · split
        · exact sl_of_lsp ((lsp_stepOffer _ _ _ _).trans (lsp_cancelTimer _ _ _)) hi
        · exact sl_of_lsp ((lsp_stepFind _ _ _).trans (lsp_cancelTimer _ _ _)) hi
        · exact sl_of_lsp ((lsp_stepSubscribe _ _ _).trans (lsp_cancelTimer _ _ _)) hi

theorem sl_step (s s' : Stack) (e : Event) (h : s.step e = some s') (hi : SL s) : SL s' := by
  cases e with
  | input x => simp only [step, Option.some.injEq] at h; subst h; exact sl_applyInput s x hi
  | run =>
    simp only [step] at h
    split at h
    · cases h
    · rename_i cb l _
      simp only [Option.some.injEq] at h; subst h
      exact sl_runCb _ cb (sl_of_lsp (s := s) (s' := { s with loop := l }) rfl hi)
  | fire q =>
    simp only [step] at h
    cases hf : s.loop.fire q with
    | none => rw [hf] at h; cases h
    | some l => rw [hf] at h; simp at h; subst h; exact sl_of_lsp (s := s) (s' := { s with loop := l }) rfl hi
  | adv t =>
    simp only [step] at h
    cases hf : s.loop.adv t with
    | none => rw [hf] at h; cases h
    | some l => rw [hf] at h; simp at h; subst h; exact sl_of_lsp (s := s) (s' := { s with loop := l }) rfl hi

theorem sl_runAll (s s' : Stack) (es : List Event) (h : runAll s es = some s') (hi : SL s) : SL s' := by
  induction es generalizing s with
  | nil => simp [runAll] at h; subst h; exact hi
  | cons e t ih =>
    simp only [runAll] at h
    split at h
    · cases h
    · rename_i s1 hs
      exact ih s1 h (sl_step s s1 e hs hi)

/-- a stack on which no discovery activity happened yet -/
structure FreshLis (s : Stack) : Prop where
  found : s.found = []
  storeLog : s.storeLog = []
  watched : s.watched = []
  watchAll : s.watchAll = []
  lisLog : s.lisLog = []

theorem sl_fresh (s : Stack) (h : FreshLis s) : SL s := by
  refine ⟨⟨fun a => by simp [keysAt, h.found, TStore.get], fun k a => by simp [h.storeLog, trackS, keysAt, h.found, TStore.get]⟩,
    ⟨by unfold AN; rw [h.found]; exact List.nodup_nil, by unfold WK; rw [h.watched]; exact List.nodup_nil, fun _ => ⟨fun l => ?_, fun l k a => ?_⟩⟩⟩
  · unfold nreg allWatchers; rw [h.watched, h.watchAll]; simp
  · unfold llog regsK watchersOf keysAt
    rw [h.lisLog, h.watched, h.watchAll, h.found]
    simp [trackS, TStore.get]

/-- WHOLE-RUN THEOREM, per listener.  Start from any stack on which discovery has not been used yet (any timing
configuration, any service instances).  After ANY list of enabled events in which no application listener was
registered while already registered:
  * every application listener holds at most one registration,
  * for every application listener l, service k and source address a the calls l received for (k, a) alternate
    offered, stopped, ... beginning with offered, and
  * the last one is 'offered' if and only if k is stored for a right now and l is registered for k right now. -/
theorem c05_listener_history_truthful_alternating (s0 s : Stack) (es : List Event) (h0 : FreshLis s0)
    (hrun : runAll s0 es = some s) (hdup : s.lisDup = false) :
    (∀ l, nreg s l ≤ 1) ∧
    ∀ l k a, trackS k a (some false) (llog s l) = some (decide (k ∈ keysAt s a) && decide (regsK s l k = 1)) :=
  (sl_runAll s0 s es hrun (sl_fresh s0 h0)).2.told hdup

/-- corollary: a listener that is not registered for a service has nothing outstanding: the last call it
received for it (if any) was 'stopped' -/
theorem c05_unregistered_listener_told_stopped (s0 s : Stack) (es : List Event) (h0 : FreshLis s0)
    (hrun : runAll s0 es = some s) (hdup : s.lisDup = false) (l : LId) (k : SvcKey) (a : Addr) (hreg : regsK s l k = 0) :
    trackS k a (some false) (llog s l) = some false := by
  rw [(c05_listener_history_truthful_alternating s0 s es h0 hrun hdup).2 l k a, hreg]
  simp

/-- corollary: a 'stopped' can only be delivered to a listener that was told 'offered' and is registered, in
every run - one more 'stopped' now would break the alternation unless the service is stored and watched -/
theorem c05_listener_no_unmatched_stop (s0 s : Stack) (es : List Event) (h0 : FreshLis s0)
    (hrun : runAll s0 es = some s) (hdup : s.lisDup = false) (l : LId) (k : SvcKey) (a : Addr) :
    trackS k a (some false) (llog s l ++ [(false, k, a)]) =
      (if k ∈ keysAt s a ∧ regsK s l k = 1 then some false else none) := by
  rw [trackS_append, (c05_listener_history_truthful_alternating s0 s es h0 hrun hdup).2 l k a, trackS_single]
  by_cases hk : k ∈ keysAt s a <;> by_cases hr : regsK s l k = 1 <;> simp [hk, hr]

/-- the ghost log is what the listener gets: the two functions that call an application listener record the
call in `lisLog` exactly when they emit it (the `offered` / `stopped` outputs are what the lock-step comparison
checks against the calls the real listener objects receive) -/
theorem c05_log_line_is_the_callback (s : Stack) (id : LId) (k : SvcKey) (a : Addr) :
    ((s.listenerOffered (.ext id) k a).outs = s.outs ++ [(s.loop.now, .offered id k a)] ∧
     (s.listenerOffered (.ext id) k a).lisLog = s.lisLog ++ [(id, true, k, a)]) ∧
    ((s.listenerStopped (.ext id) k a).outs = s.outs ++ [(s.loop.now, .stopped id k a)] ∧
     (s.listenerStopped (.ext id) k a).lisLog = s.lisLog ++ [(id, false, k, a)]) :=
  ⟨⟨rfl, rfl⟩, ⟨rfl, rfl⟩⟩

/-- non-vacuity: the fresh stack meets the premise; a concrete run (listener 3 registers for service 7 before the
offer, listener 4 registers for everything after it and gets the replay, the offer is refreshed, listener 3
unregisters and is told 'stopped', the StopOffer reaches listener 4 only) is accepted by `runAll`, never registers a
registered listener, and produces exactly these per-listener histories -/
example : FreshLis ({} : Stack) := ⟨rfl, rfl, rfl, rfl, rfl⟩
example :
    (runAll ({} : Stack)
      [.input (.watch { sid := 7 } (.ext 3)), .input (.dgram 1 true offerDgram), .input (.watchAll 4),
       .input (.dgram 1 true offerDgram), .input (.unwatch { sid := 7 } (.ext 3)),
       .input (.dgram 1 true stopDgram)]).map
      (fun s => (s.lisDup, (llog s 3).map (·.1), (llog s 4).map (·.1), nreg s 3, nreg s 4)) =
      some (false, [true, false, true, false], [true, false, true, false], 0, 1) := by
  decide +kernel
/-- and the hypothesis is needed: one listener object registered for all services AND for one service holds two
registrations and is told 'offered' once per registration (the real code does the same; outside C05's quantifier) -/
example :
    (runAll ({} : Stack)
      [.input (.watchAll 3), .input (.watch { sid := 7 } (.ext 3)), .input (.dgram 1 true offerDgram)]).map
      (fun s => (s.lisDup, (llog s 3).map (·.1))) = some (true, [true, true]) := by
  decide +kernel

end Someip
