/-
  C11 — Every unicast Subscribe gets exactly one correct Ack or Nack.
-/
import SomeipModel.Lemmas.StackBasic
import SomeipModel.Lemmas.Bits
namespace Someip
open Stack
set_option linter.unusedSimpArgs false

/-- MULTICAST INERT: Subscribe entries received over multicast produce neither an answer nor any change of state -/
theorem c11_multicast_inert (s : Stack) (es : List SDEntry) (a : Addr) (rb : Bool) (fu : Nat)
    (h : ∀ e ∈ es, e.ty = .subscribe) :
    s.sdMessageReceived { entries := es, flagReboot := rb, flagUnicast := true, flagsUnknown := fu } a true = s := by
  simp only [sdMessageReceived, Bool.not_true, Bool.false_eq_true, if_false]
  induction es generalizing s with
  | nil => rfl
  | cons e t ih =>
    rw [List.foldl_cons]
    have he := h e (by simp)
    simp only [he, if_true]
    exact ih s (fun x hx => h x (by simp [hx]))

/-- the acknowledgement echoes service id, instance id, major version, eventgroup id and counter -/
theorem c11_ack_echo (e : SDEntry) (ttl : Nat) (hv : e.val < 1048576) :
    let k := (SubKey.ofEntry e).ackEntry ttl
    k.ty = .subscribeAck ∧ k.sid = e.sid ∧ k.iid = e.iid ∧ k.maj = e.maj ∧ k.ttl = ttl ∧ k.val = e.val ∧
    k.opts1 = [] ∧ k.opts2 = [] := by
  simp only [SubKey.ackEntry, SubKey.ofEntry, SDEntry.eventgroupId, SDEntry.eventgroupCounter, and_self, and_true, true_and]
  have h1 : e.val / 65536 % 16 = e.val / 65536 := by omega
  rw [h1, lor_shift16 _ _ (Nat.mod_lt _ (by decide))]
  omega

/-- NO MATCH: no announced instance handled the entry => exactly one negative acknowledgement is queued, for the sender only -/
theorem c11_no_instance_nack (s : Stack) (e : SDEntry) (a : Addr) (h : s.announceOrder = []) :
    s.handleSubscribe e a = s.queueSend ((SubKey.ofEntry e).ackEntry 0) (some a) := by
  simp [handleSubscribe, h]

/-- an instance that is stopped (or was never started) does not take the entry -/
theorem c11_stopped_instance_ignores (s : Stack) (i : Nat) (x : Instance) (e : SDEntry) (a : Addr)
    (hx : s.getInst i = some x) (ht : x.task = none) : s.instHandleSubscribe i e a = (s, false) := by
  simp [instHandleSubscribe, hx, ht]

/-- an instance whose ids do not match or that does not declare the eventgroup does not take the entry -/
theorem c11_nonmatching_instance_ignores (s : Stack) (i : Nat) (x : Instance) (e : SDEntry) (a : Addr) (tid : Nat)
    (hx : s.getInst i = some x) (ht : x.task = some tid) (hm : x.service.matchesSubscribe e ≠ .ok true) :
    s.instHandleSubscribe i e a = (s, false) := by
  unfold instHandleSubscribe
  simp only [hx, ht, Option.isNone_some, Bool.false_eq_true, if_false]

/-- the single announced instance did not take it => negative acknowledgement -/
theorem c11_single_instance_nomatch (s : Stack) (i : Nat) (e : SDEntry) (a : Addr) (ho : s.announceOrder = [i])
    (h : s.instHandleSubscribe i e a = (s, false)) :
    s.handleSubscribe e a = s.queueSend ((SubKey.ofEntry e).ackEntry 0) (some a) := by
  simp [handleSubscribe, ho, h]

/-- the single announced instance took it => handle_subscribe adds nothing of its own (one answer in total) -/
theorem c11_single_instance_match (s s' : Stack) (i : Nat) (e : SDEntry) (a : Addr) (ho : s.announceOrder = [i])
    (h : s.instHandleSubscribe i e a = (s', true)) : s.handleSubscribe e a = s' := by
  simp [handleSubscribe, ho, h]

/-- ACCEPTED (new subscription, listener agrees): 'subscribed' is reported, the entry is stored with its
TTL timer, and exactly one positive acknowledgement carrying the requested TTL is queued for the sender -/
theorem c11_accept_new (s : Stack) (i : Nat) (x : Instance) (e : SDEntry) (a : Addr) (tid : Nat)
    (hx : s.getInst i = some x) (ht : x.task = some tid) (hm : x.service.matchesSubscribe e = .ok true)
    (httl : e.ttl ≠ 0) (hnew : TStore.findKey SubKey.same ((x.subs.touch a).get a) (SubKey.ofEntry e) = none)
    (hacc : (SubKey.ofEntry e).egid ∉ x.nakEgs) :
    ∃ s1 : Stack, s.instHandleSubscribe i e a = (s1.queueSend ((SubKey.ofEntry e).ackEntry e.ttl) (some a), true) ∧
      s1.outs = s.outs ++ [(s.loop.now, .subscribed i (SubKey.ofEntry e) a)] := by
  unfold instHandleSubscribe
  simp only [hx, ht, hm, httl, hnew, hacc, Option.isNone_some, Bool.false_eq_true, if_false]
  refine ⟨_, rfl, ?_⟩
  simp only [setInst_outs]
  unfold armTtl; split <;> simp

/-- REJECTED by the listener: nothing is stored or reported, exactly one negative acknowledgement (TTL 0) is queued -/
theorem c11_reject_new (s : Stack) (i : Nat) (x : Instance) (e : SDEntry) (a : Addr) (tid : Nat)
    (hx : s.getInst i = some x) (ht : x.task = some tid) (hm : x.service.matchesSubscribe e = .ok true)
    (httl : e.ttl ≠ 0) (hnew : TStore.findKey SubKey.same ((x.subs.touch a).get a) (SubKey.ofEntry e) = none)
    (hrej : (SubKey.ofEntry e).egid ∈ x.nakEgs) :
    s.instHandleSubscribe i e a =
      ((s.setInst i { x with subs := x.subs.touch a }).queueSend ((SubKey.ofEntry e).ackEntry 0) (some a), true) := by
  unfold instHandleSubscribe
  simp only [hx, ht, hm, httl, hnew, hrej, Option.isNone_some, Bool.false_eq_true, if_false, if_true]

/-- REFRESH of a held subscription: no listener call, exactly one positive acknowledgement with the new TTL -/
theorem c11_refresh (s : Stack) (i : Nat) (x : Instance) (e : SDEntry) (a : Addr) (tid : Nat) (old : TSEntry SubKey)
    (hx : s.getInst i = some x) (ht : x.task = some tid) (hm : x.service.matchesSubscribe e = .ok true)
    (httl : e.ttl ≠ 0) (hold : TStore.findKey SubKey.same ((x.subs.touch a).get a) (SubKey.ofEntry e) = some old) :
    ∃ s1 : Stack, s.instHandleSubscribe i e a = (s1.queueSend ((SubKey.ofEntry e).ackEntry e.ttl) (some a), true) ∧
      s1.outs = s.outs := by
  unfold instHandleSubscribe
  simp only [hx, ht, hm, httl, hold, Option.isNone_some, Bool.false_eq_true, if_false]
  refine ⟨_, rfl, ?_⟩
  simp only [setInst_outs]
  unfold armTtl; split <;> simp

/-- STOP SILENT: a StopSubscribe for an eventgroup a running instance declares is never answered -/
theorem c11_stop_silent (s : Stack) (i : Nat) (x : Instance) (e : SDEntry) (a : Addr) (tid : Nat)
    (hx : s.getInst i = some x) (ht : x.task = some tid) (hm : x.service.matchesSubscribe e = .ok true)
    (httl : e.ttl = 0) :
    (s.instHandleSubscribe i e a).2 = true ∧
    (∀ t d q, (t, Out.queued d q) ∈ (s.instHandleSubscribe i e a).1.outs → (t, Out.queued d q) ∈ s.outs) := by
  unfold instHandleSubscribe
  simp only [hx, ht, hm, httl, Option.isNone_some, Bool.false_eq_true, if_false, if_true]
  split
  · exact ⟨rfl, fun t d q h => by simpa using h⟩
  · refine ⟨rfl, fun t d q h => ?_⟩
    simp only [emit_outs, cancelTimer, setInst_outs, List.mem_append, List.mem_cons, List.not_mem_nil, or_false,
      Prod.mk.injEq] at h
    rcases h with h | h
    · exact h
    · exact absurd h.2 (by simp)

end Someip
