/-
  C11 — whole runs: acknowledgements are produced by unicast Subscribe handling and by nothing else.

  `ackOuts s` : the SubscribeAck entries handed to the announcer's send queue so far, with destination, in order (ghost outputs
                `queued`; C15's conservation theorem says each of them leaves exactly once, in order, for that destination).
  For EVERY list of events: every acknowledgement queued during the run is addressed to a peer from which a unicast datagram
  was delivered during that run (`c11_acks_only_to_unicast_senders`) - so datagrams received by multicast, API calls,
  timers, task steps and callbacks of all components never produce one - and one event adds acknowledgements only if it
  delivers a unicast datagram, only for that datagram's sender (`c11_event_acks`).  How many and which acknowledgements one
  Subscribe entry produces is `c11_answers` / `c11_exactly_one` (Props/C11Multi).
-/
import SomeipModel.Lemmas.AckSteps
import SomeipModel.Props.C05Global
namespace Someip
open Stack
set_option linter.unusedSimpArgs false

/-- ONE EVENT -/
theorem c11_event_acks (s s' : Stack) (e : Event) (h : s.step e = some s') :
    ∃ L, ackOuts s' = ackOuts s ++ L ∧ ∀ p ∈ L, ∃ a b, e = .input (.dgram a false b) ∧ p.1 = some a := by
  have h0 : AckTo (ackOuts s) (fun d => ∃ a b, e = .input (.dgram a false b) ∧ d = some a) s := ⟨[], by simp, fun p hp => by cases hp⟩
  exact ackTo_step s s' e h (fun a b he => ⟨a, b, he, rfl⟩) h0

/-- an event that does not deliver a unicast datagram queues no acknowledgement -/
theorem c11_other_events_silent (s s' : Stack) (e : Event) (h : s.step e = some s')
    (hne : ∀ a b, e ≠ .input (.dgram a false b)) : ackOuts s' = ackOuts s := by
  obtain ⟨L, h1, h2⟩ := c11_event_acks s s' e h
  cases L with
  | nil => simpa using h1
  | cons p t => obtain ⟨a, b, he, _⟩ := h2 p (by simp); exact absurd he (hne a b)

/-- WHOLE RUN -/
theorem c11_acks_only_to_unicast_senders (s0 s : Stack) (es : List Event) (hrun : runAll s0 es = some s) :
    ∃ L, ackOuts s = ackOuts s0 ++ L ∧ ∀ p ∈ L, ∃ a b, Event.input (.dgram a false b) ∈ es ∧ p.1 = some a := by
  induction es generalizing s0 with
  | nil => simp [runAll] at hrun; subst hrun; exact ⟨[], by simp, fun p hp => by cases hp⟩
  | cons e t ih =>
    simp only [runAll] at hrun
    split at hrun
    · cases hrun
    · rename_i s1 hs
      obtain ⟨L1, h1, h2⟩ := c11_event_acks s0 s1 e hs
      obtain ⟨L2, h3, h4⟩ := ih s1 hrun
      refine ⟨L1 ++ L2, by rw [h3, h1]; simp, ?_⟩
      intro p hp
      rcases List.mem_append.mp hp with hp | hp
      · obtain ⟨a, b, he, hd⟩ := h2 p hp
        exact ⟨a, b, by rw [he]; exact List.mem_cons_self, hd⟩
      · obtain ⟨a, b, hm, hd⟩ := h4 p hp
        exact ⟨a, b, List.mem_cons_of_mem _ hm, hd⟩

end Someip
