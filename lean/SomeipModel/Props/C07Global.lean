/-
  C07 — whole-run theorem at stack level.  The session memory of received messages (`incoming`) of the protocol object
  is written by `message_received` only, once per decodable SD notification, with exactly that message's (sender,
  channel, reboot flag, session id): for EVERY list of events (datagrams with any mix of SD and other messages, API
  calls, callbacks, task steps, timers, stops and restarts) it is the memory of the history specification run over the
  SD messages received so far, the verdict `message_received` acts on is the specification's `detects` for that
  history, and the fan-out (`reboot_detected` on the three parts) is applied once, exactly when the verdict is true,
  without disturbing the memory.
-/
import SomeipModel.Lemmas.IncInv
import SomeipModel.Props.C07
import SomeipModel.Props.C05Global
import SomeipModel.Props.C05
namespace Someip
open Stack Spec
set_option linter.unusedSimpArgs false
set_option linter.unusedVariables false

/-- what `message_received` hands to the session check: `some` exactly for a decodable SD notification -/
def sdRx (h : Header) (a : Addr) (mc : Bool) : Option RxMsg :=
  if h.sid ≠ SD_SERVICE ∨ h.mid ≠ SD_METHOD ∨ h.iv ≠ SD_INTERFACE_VERSION ∨ h.rc ≠ .ok ∨ h.mt ≠ .notification then none
  else match SDHeader.parse h.payload with
    | .error _ => none
    | .ok (m, _) => some ⟨a, mc, m.flagReboot, h.sess⟩

def record (inc : Incoming) (m : RxMsg) : Incoming := (checkReceived inc m.sender m.mc m.flag m.sid).2

/-- the SD messages of one datagram, in order -/
def rxOf (b : Bytes) (a : Addr) (mc : Bool) : List RxMsg := (datagram b).1.filterMap (fun h => sdRx h a mc)

def rxIn : Input → List RxMsg
  | .dgram a mc b => rxOf b a mc
  | _ => []

def rxEv : Event → List RxMsg
  | .input x => rxIn x
  | _ => []

/-- the receive history of a run -/
def rxHist (es : List Event) : List RxMsg := es.flatMap rxEv

theorem inc_messageReceived (s : Stack) (h : Header) (a : Addr) (mc : Bool) :
    (s.messageReceived h a mc).incoming = match sdRx h a mc with
      | none => s.incoming
      | some m => record s.incoming m := by
  by_cases hc : h.sid ≠ SD_SERVICE ∨ h.mid ≠ SD_METHOD ∨ h.iv ≠ SD_INTERFACE_VERSION ∨ h.rc ≠ .ok ∨ h.mt ≠ .notification
  · simp only [messageReceived, sdRx, hc, if_true]
  · cases hpar : SDHeader.parse h.payload with
    | error e => simp only [messageReceived, sdRx, hc, if_false, hpar]
    | ok p =>
      obtain ⟨m, r⟩ := p
      simp only [messageReceived, sdRx, hc, if_false, hpar, record]
      have h1 : P7c (checkReceived s.incoming a mc m.flagReboot h.sess).2
          (pi7 (if (checkReceived s.incoming a mc m.flagReboot h.sess).1 = true
          then ({ s with incoming := (checkReceived s.incoming a mc m.flagReboot h.sess).2 } : Stack).rebootDetected a
          else ({ s with incoming := (checkReceived s.incoming a mc m.flagReboot h.sess).2 } : Stack))) := by
        split
        · simp only [pi7_rebootDetected]; rfl
        · rfl
      show P7c (checkReceived s.incoming a mc m.flagReboot h.sess).2 (pi7 _)
      split
      · simpa using h1
      · exact p7_sdMessageReceived _ _ _ _ h1

theorem inc_foldl_messages (l : List Header) (s : Stack) (a : Addr) (mc : Bool) :
    (l.foldl (fun s h => s.messageReceived h a mc) s).incoming =
      (l.filterMap (fun h => sdRx h a mc)).foldl record s.incoming := by
  induction l generalizing s with
  | nil => rfl
  | cons h t ih =>
    rw [List.foldl_cons, ih, inc_messageReceived]
    cases hx : sdRx h a mc with
    | none => simp [List.filterMap_cons, hx]
    | some m => simp [List.filterMap_cons, hx]

theorem inc_datagramReceived (s : Stack) (b : Bytes) (a : Addr) (mc : Bool) :
    (s.datagramReceived b a mc).incoming = (rxOf b a mc).foldl record s.incoming := by
  unfold datagramReceived rxOf
  exact inc_foldl_messages _ s a mc

theorem p7_stop {v : Incoming} (s : Stack) (hp : P7c v (pi7 s)) : P7c v (pi7 s.stop) := by
  unfold Stack.stop
  exact p7_subscriberStop _ _ (p7_announcerStop _ (by simpa using hp))

theorem inc_applyInput (s : Stack) (x : Input) : (s.applyInput x).incoming = (rxIn x).foldl record s.incoming := by
  have hp : P7c s.incoming (pi7 s) := rfl
  cases x with
  | dgram a mc b => exact inc_datagramReceived s b a mc
  | stop => exact p7_stop s hp
  | stopAnnounce i b => exact p7_stopAnnounceService s i b hp
  | announcerStop => exact p7_announcerStop s hp
  | setNak i egs => show P7c s.incoming (pi7 _); simp only [applyInput]; split <;> simpa using hp
  | draws ds => exact hp
  | _ => show P7c s.incoming (pi7 _); simpa [applyInput] using hp

theorem inc_runCb (s : Stack) (cb : Cb) : (s.runCb cb).incoming = s.incoming := by
  have hp : P7c s.incoming (pi7 s) := rfl
  show P7c s.incoming (pi7 (s.runCb cb))
  cases cb with
  | connLost p =>
    cases p with
    | subscriber => exact p7_subscriberStop s false hp
    | discovery => simpa [runCb] using hp
    | announcer => exact p7_announcerStop s hp
  | expiredSvc a k => simpa [runCb] using hp
  | expiredSub i a k => simpa [runCb] using hp
  | sendStartSubscribe d egs => exact p7_sendSubscribe s _ d egs hp
  | sendStopSubscribe d egs => exact p7_sendSubscribe s _ d egs hp
  | sendOfferTo i a => exact p7_sendOffer s i _ _ hp
  | collectorTimeout cid => exact p7_collectorTimeout s cid hp
  | sleepDone tid => simpa [runCb] using hp
  | taskStep tid =>
    simp only [runCb]
    split
    · exact hp
    · split
      · exact hp
      · have h2 : ∀ (X : Stack) (q : Option Nat), P7c s.incoming (pi7 X) → P7c s.incoming (pi7 (X.cancelTimer (isSleepFor tid) q)) := fun X q h => by simpa using h
        split
        · exact p7_stepOffer _ _ _ _ (h2 _ _ hp)
        · exact p7_stepFind _ _ _ (h2 _ _ hp)
        · exact p7_stepSubscribe _ _ _ (h2 _ _ hp)

/-- ONE EVENT: only a datagram input writes the memory, and it records exactly its SD messages, in order -/
theorem c07_step_records (s s' : Stack) (e : Event) (h : s.step e = some s') :
    s'.incoming = (rxEv e).foldl record s.incoming := by
  cases e with
  | input x => simp only [step, Option.some.injEq] at h; subst h; exact inc_applyInput s x
  | run =>
    simp only [step] at h
    split at h
    · cases h
    · rename_i cb l _
      simp only [Option.some.injEq] at h; subst h
      exact inc_runCb _ cb
  | fire q =>
    simp only [step] at h
    cases hf : s.loop.fire q with
    | none => rw [hf] at h; cases h
    | some l => rw [hf] at h; simp at h; subst h; rfl
  | adv t =>
    simp only [step] at h
    cases hf : s.loop.adv t with
    | none => rw [hf] at h; cases h
    | some l => rw [hf] at h; simp at h; subst h; rfl

theorem inc_runAll (s s' : Stack) (es : List Event) (h : runAll s es = some s') :
    s'.incoming = (rxHist es).foldl record s.incoming := by
  induction es generalizing s with
  | nil => simp [runAll] at h; subst h; rfl
  | cons e t ih =>
    simp only [runAll] at h
    split at h
    · cases h
    · rename_i s1 hs
      rw [ih s1 h, c07_step_records s s1 e hs]
      simp [rxHist, List.flatMap_cons, List.foldl_append]

theorem recvInv_foldl (ms : List RxMsg) (inc : Incoming) (hist : List RxMsg) (h : RecvInv inc hist) :
    RecvInv (ms.foldl record inc) (hist ++ ms) := by
  induction ms generalizing inc hist with
  | nil => simpa using h
  | cons m t ih =>
    have := ih (record inc m) (hist ++ [m]) (recvInv_step inc hist m h)
    simpa [List.append_assoc] using this

/-- WHOLE RUN: after any list of events the protocol's session memory is the memory of the history specification for
the SD messages received so far: per (sender, channel) the flag and id of the last one -/
theorem c07_stack_memory_is_history (s0 s : Stack) (es : List Event) (h0 : s0.incoming = [])
    (hrun : runAll s0 es = some s) : RecvInv s.incoming (rxHist es) := by
  rw [inc_runAll s0 s es hrun, h0]
  simpa using recvInv_foldl (rxHist es) [] [] (fun _ _ => rfl)

/-- the verdict `message_received` acts on is the specification's: with the memory of history `hist`, the check of a
message says "reboot" exactly when `detects hist m` -/
theorem c07_verdict_is_spec (inc : Incoming) (hist : List RxMsg) (m : RxMsg) (h : RecvInv inc hist) :
    (checkReceived inc m.sender m.mc m.flag m.sid).1 = detects hist m := by
  simp only [checkReceived, detects, lastSame_key hist m, h m.sender m.mc]
  cases lastSame hist ⟨m.sender, m.mc, false, 0⟩ <;> simp [Nat.lt_iff_add_one_le]

/-- FAN-OUT, exactly once: in any reachable state a decodable SD notification is handled as - record it; call
`reboot_detected` (discovery flush, then announcer, the subscriber's is a no-op) ONCE iff the history specification
detects a reboot for it; then, and only then, its entries.  The fan-out leaves the memory as recorded. -/
theorem c07_stack_fanout_exactly_on_detection (s0 s : Stack) (es : List Event) (h0 : s0.incoming = [])
    (hrun : runAll s0 es = some s) (h : Header) (a : Addr) (mc : Bool) (m m' : SDHeader) (r : Bytes)
    (hsd : isSdNotification h) (hp : SDHeader.parse h.payload = .ok (m, r)) (hr : m.resolveOptions = .ok m') :
    s.messageReceived h a mc =
      (if detects (rxHist es) ⟨a, mc, m.flagReboot, h.sess⟩
        then ({ s with incoming := record s.incoming ⟨a, mc, m.flagReboot, h.sess⟩ } : Stack).rebootDetected a
        else { s with incoming := record s.incoming ⟨a, mc, m.flagReboot, h.sess⟩ }).sdMessageReceived m' a mc ∧
    (({ s with incoming := record s.incoming ⟨a, mc, m.flagReboot, h.sess⟩ } : Stack).rebootDetected a).incoming =
      record s.incoming ⟨a, mc, m.flagReboot, h.sess⟩ := by
  have hv := c07_verdict_is_spec s.incoming (rxHist es) ⟨a, mc, m.flagReboot, h.sess⟩
    (c07_stack_memory_is_history s0 s es h0 hrun)
  constructor
  · rw [messageReceived_sd s h a mc m m' r hsd hp hr]
    simp only [record] at hv ⊢
    rw [hv]
  · have := pi7_rebootDetected ({ s with incoming := record s.incoming ⟨a, mc, m.flagReboot, h.sess⟩ } : Stack) a
    exact this

/-- the detections of a whole run, message by message, are those of the history specification (c07_exact lifted) -/
theorem c07_stack_detections (s0 s : Stack) (es : List Event) (h0 : s0.incoming = []) (hrun : runAll s0 es = some s)
    (ms : List RxMsg) : runRecv s.incoming ms = detections (rxHist es) ms :=
  runRecv_eq s.incoming (rxHist es) ms (c07_stack_memory_is_history s0 s es h0 hrun)

/-- the OfferService datagram of C05Global (reboot flag, session 1) with the SD unicast flag CLEAR -/
def offerNoUnicastDgram : Bytes :=
  [255, 255, 129, 0, 0, 0, 0, 36, 0, 0, 0, 1, 1, 1, 2, 0, 128, 0, 0, 0, 0, 0, 0, 16, 1, 0, 0, 0, 0, 7, 0, 1, 1, 0, 0, 3,
   0, 0, 0, 0, 0, 0, 0, 0]

def c07ExampleRun : List Event :=
  [.input (.dgram 1 true offerDgram), .input (.dgram 2 true offerDgram), .input (.dgram 1 true offerNoUnicastDgram),
   .input (.dgram 1 false stopDgram), .input (.dgram 1 true stopDgram)]

/-- non-vacuity: a concrete run through the real receive path - two senders, both channels; the third datagram repeats
session id 1 under the reboot flag and has the SD unicast flag clear: it is recorded and detected all the same (its
entries are ignored), the discovery store is flushed (`false` in the store log); the other sender and the other
channel neither trigger nor mask anything -/
example :
    rxHist c07ExampleRun = [⟨1, true, true, 1⟩, ⟨2, true, true, 1⟩, ⟨1, true, true, 1⟩, ⟨1, false, true, 2⟩, ⟨1, true, true, 2⟩] ∧
    detections [] (rxHist c07ExampleRun) = [false, false, true, false, false] ∧
    (runAll ({ watchAll := [0] } : Stack) c07ExampleRun).map (fun s => (s.incoming, s.storeLog.map (·.1))) =
      some ([((1, true), true, 2), ((1, false), true, 2), ((2, true), true, 1)], [true, true, false]) := by
  decide +kernel

end Someip
