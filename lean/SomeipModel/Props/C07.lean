/-
  C07 — Peer reboot is detected exactly, per sender and per unicast/multicast channel.
-/
import SomeipModel.Spec.Session
import SomeipModel.Lemmas.AList
namespace Someip
open Spec

/-- the session memory holds, per (sender, channel), the last message's flag and id -/
def RecvInv (inc : Incoming) (hist : List RxMsg) : Prop :=
  ∀ a mc, alookup inc (a, mc) = (lastSame hist ⟨a, mc, false, 0⟩).map (fun p => (p.flag, p.sid))

theorem lastSame_key (hist : List RxMsg) (m : RxMsg) :
    lastSame hist m = lastSame hist ⟨m.sender, m.mc, false, 0⟩ := rfl

theorem lastSame_append (hist : List RxMsg) (m x : RxMsg) :
    lastSame (hist ++ [m]) x = if m.sender = x.sender ∧ m.mc = x.mc then some m else lastSame hist x := by
  simp only [lastSame, List.reverse_append, List.reverse_cons, List.reverse_nil, List.nil_append,
    List.singleton_append, List.find?_cons]
  by_cases h : m.sender = x.sender ∧ m.mc = x.mc <;> simp [h]

theorem recvInv_step (inc : Incoming) (hist : List RxMsg) (m : RxMsg) (h : RecvInv inc hist) :
    RecvInv (checkReceived inc m.sender m.mc m.flag m.sid).2 (hist ++ [m]) := by
  intro a mc
  simp only [checkReceived, alookup_aset, lastSame_append]
  by_cases hk : (a, mc) = (m.sender, m.mc)
  · simp only [Prod.mk.injEq] at hk; simp [hk.1, hk.2]
  · have hk' : ¬ (m.sender = a ∧ m.mc = mc) := by
      intro ⟨h1, h2⟩; exact hk (by simp [h1, h2])
    simp [hk, hk', h a mc]

theorem runRecv_eq (inc : Incoming) (hist ms : List RxMsg) (h : RecvInv inc hist) :
    runRecv inc ms = detections hist ms := by
  induction ms generalizing inc hist with
  | nil => rfl
  | cons m r ih =>
    simp only [runRecv, detections]
    congr 1
    · simp only [checkReceived, detects, lastSame_key hist m, h m.sender m.mc]
      cases lastSame hist ⟨m.sender, m.mc, false, 0⟩ <;> simp [Nat.lt_iff_add_one_le]
    · exact ih _ _ (recvInv_step inc hist m h)

/-- EXACTNESS: for every history, the detections of the code's state machine are those of the history
specification (flag clear -> set, or flag stays set while the id does not increase, relative to the
previous message on the same (sender, channel)) -/
theorem c07_exact (ms : List RxMsg) : runRecv [] ms = detections [] ms :=
  runRecv_eq [] [] ms (fun _ _ => rfl)

/-- for session ids ≥ 1 (the only ones a SOME/IP sender emits) the extra guard of the code is vacuous:
detection is exactly "flag set, and previously clear or id not increased" -/
theorem c07_exact_statement (hist : List RxMsg) (m p : RxMsg) (hp : lastSame hist m = some p) (hid : 1 ≤ p.sid) :
    detects hist m = (m.flag && (!p.flag || decide (m.sid ≤ p.sid))) := by
  have : decide (0 < p.sid) = true := by simp; omega
  simp [detects, hp, this]

/-- messages from other senders or on the other channel neither trigger nor mask a detection:
the verdict for `m` only depends on the earlier messages with the same (sender, channel) -/
theorem c07_independent (hist : List RxMsg) (m : RxMsg) :
    detects hist m = detects (hist.filter (fun p => decide (p.sender = m.sender ∧ p.mc = m.mc))) m := by
  have : lastSame (hist.filter (fun p => decide (p.sender = m.sender ∧ p.mc = m.mc))) m = lastSame hist m := by
    simp only [lastSame, ← List.filter_reverse]
    generalize hist.reverse = l
    induction l with
    | nil => rfl
    | cons x t ih =>
      by_cases hx : x.sender = m.sender ∧ x.mc = m.mc
      · simp [hx]
      · simp only [List.filter_cons, hx, decide_false, Bool.false_eq_true, if_false, List.find?_cons]
        exact ih
  simp only [detects, this]

/-- the first message of a (sender, channel) never signals a reboot ... -/
theorem c07_first (hist : List RxMsg) (m : RxMsg)
    (h : ∀ p ∈ hist, ¬ (p.sender = m.sender ∧ p.mc = m.mc)) : detects hist m = false := by
  have : lastSame hist m = none := by
    simp only [lastSame, List.find?_eq_none, List.mem_reverse]
    intro p hp; simpa using h p hp
  simp [detects, this]

/-- ... nor does a message whose flag is clear (set -> clear is the session-id wrap-around) -/
theorem c07_flag_clear (hist : List RxMsg) (m : RxMsg) (h : m.flag = false) : detects hist m = false := by
  simp only [detects]; split <;> simp [h]

/-- non-vacuity: a history with a detection and one without -/
example : detections [] [⟨1, false, true, 5⟩, ⟨2, false, true, 9⟩, ⟨1, true, false, 7⟩, ⟨1, false, true, 5⟩] =
    [false, false, false, true] := by decide
example : detections [] [⟨1, false, true, 0xFFFF⟩, ⟨1, false, false, 1⟩, ⟨1, false, false, 2⟩] = [false, false, false] := by decide

end Someip
