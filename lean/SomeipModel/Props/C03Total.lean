/-
  C03 — totality of the SD option and SD message decoders: for EVERY byte string the decoder either returns a value
  together with a suffix of its input, or fails with the library's parse error, its incomplete-read subclass or -
  for configuration text only - the Unicode error.  No other exception class (IndexError, struct.error, ValueError,
  ...) can escape; the receive path catches exactly these (see `c03_undecodable_no_effect`).
-/
import SomeipModel.Props.C03
namespace Someip
set_option linter.unusedSimpArgs false
set_option linter.unusedVariables false

theorem decodeAscii_err {b : Bytes} {e : Err} (h : decodeAscii b = .error e) : e = .unicode := by
  unfold decodeAscii at h
  split at h
  · cases h
  · simp only [Except.error.injEq] at h; exact h.symm

theorem parseConfigItem_err {s : Bytes} {e : Err} (h : parseConfigItem s = .error e) : e = .unicode := by
  unfold parseConfigItem at h
  split at h
  · cases hd : decodeAscii s with
    | error e' => rw [hd] at h; simp only [bind, Except.bind, Except.error.injEq] at h; rw [← h]; exact decodeAscii_err hd
    | ok k => rw [hd] at h; simp [bind, Except.bind, pure, Except.pure] at h
  · rename_i i _
    cases hd : decodeAscii (s.take i) with
    | error e' => rw [hd] at h; simp only [bind, Except.bind, Except.error.injEq] at h; rw [← h]; exact decodeAscii_err hd
    | ok k =>
      rw [hd] at h
      cases hd2 : decodeAscii (s.drop (i + 1)) with
      | error e' =>
        rw [hd2] at h; simp only [bind, Except.bind, Except.error.injEq] at h; rw [← h]; exact decodeAscii_err hd2
      | ok v => rw [hd2] at h; simp [bind, Except.bind, pure, Except.pure] at h

theorem parseConfigLoop_err : ∀ (fuel nl : Nat) (b : Bytes) (e : Err), parseConfigLoop fuel nl b = .error e →
    e = .parse ∨ e = .unicode
  | 0, nl, b, e, h => by
    unfold parseConfigLoop at h
    split at h
    · cases h
    · simp only [Except.error.injEq] at h; exact Or.inl h.symm
  | fuel + 1, nl, b, e, h => by
    unfold parseConfigLoop at h
    split at h
    · cases h
    · split at h
      · simp only [Except.error.injEq] at h; exact Or.inl h.symm
      · rename_i hlen
        cases hi : parseConfigItem (b.take nl) with
        | error e' =>
          rw [hi] at h; simp only [bind, Except.bind, Except.error.injEq] at h
          rw [← h]; exact Or.inr (parseConfigItem_err hi)
        | ok item =>
          rw [hi] at h
          simp only [bind, Except.bind] at h
          split at h
          · -- the IndexError branch is unreachable: the length check above guarantees a next length byte
            rename_i hd
            have := congrArg List.length hd
            simp at this
            omega
          · rename_i nl2 b2 hd
            cases hr : parseConfigLoop fuel nl2 b2 with
            | error e' => rw [hr] at h; simp only [Except.error.injEq] at h; rw [← h]; exact parseConfigLoop_err fuel nl2 b2 e' hr
            | ok rest => rw [hr] at h; simp [pure, Except.pure] at h

theorem parseIP_err {mk : Bytes → Nat → Nat → SDOption} {alen : Nat} {buf : Bytes} {e : Err}
    (h : parseIP mk alen buf = .error e) : e = .parse := by
  unfold parseIP at h
  split at h
  · simp only [Except.error.injEq] at h; exact h.symm
  · split at h
    · cases h
    · simp only [Except.error.injEq] at h; exact h.symm

theorem parseOptionBody_err {type : Nat} {buf : Bytes} {e : Err} (h : parseOptionBody type buf = .error e) :
    e = .parse ∨ e = .unicode := by
  unfold parseOptionBody at h
  split at h
  · unfold parseConfig at h
    split at h
    · rename_i x nl bb
      cases hl : parseConfigLoop bb.length nl bb with
      | error e' => rw [hl] at h; simp only [bind, Except.bind, Except.error.injEq] at h; rw [← h]; exact parseConfigLoop_err _ _ _ _ hl
      | ok items => rw [hl] at h; simp [bind, Except.bind, pure, Except.pure] at h
    · simp only [Except.error.injEq] at h; exact Or.inl h.symm
  · split at h
    · unfold parseLoadBal at h
      split at h
      · cases h
      · simp only [Except.error.injEq] at h; exact Or.inl h.symm
    · split at h
      · exact Or.inl (parseIP_err h)
      · split at h
        · exact Or.inl (parseIP_err h)
        · split at h
          · exact Or.inl (parseIP_err h)
          · split at h
            · exact Or.inl (parseIP_err h)
            · split at h
              · exact Or.inl (parseIP_err h)
              · split at h
                · exact Or.inl (parseIP_err h)
                · cases h

/-- SD option decoder: total, errors are parse / incomplete / unicode only, the rest is a suffix of the input -/
theorem c03_sd_option_total (b : Bytes) :
    match SDOption.parse b with
    | .ok (_, r) => r <:+ b
    | .error e => e.isDecodeError = true := by
  cases hp : SDOption.parse b with
  | error e =>
    simp only
    unfold SDOption.parse at hp
    split at hp
    · dsimp only at hp
      split at hp
      · cases hp; rfl
      · rename_i l1 l0 type rest _
        cases hb : parseOptionBody type (rest.take (u16 l1 l0)) with
        | error e' =>
          rw [hb] at hp
          simp only [Except.error.injEq] at hp
          rw [← hp]
          rcases parseOptionBody_err hb with q | q <;> rw [q] <;> rfl
        | ok o => rw [hb] at hp; cases hp
    · cases hp; rfl
  | ok v =>
    obtain ⟨o, r⟩ := v
    simp only
    unfold SDOption.parse at hp
    split at hp
    · dsimp only at hp
      split at hp
      · cases hp
      · rename_i l1 l0 type rest _
        cases hb : parseOptionBody type (rest.take (u16 l1 l0)) with
        | error e' => rw [hb] at hp; cases hp
        | ok o' =>
          rw [hb] at hp
          simp only [Except.ok.injEq, Prod.mk.injEq] at hp
          rw [← hp.2]
          exact (List.drop_suffix _ rest).trans ⟨[l1, l0, type], rfl⟩
    · cases hp

theorem parseOptions_err : ∀ (fuel : Nat) (b : Bytes) (e : Err), parseOptions fuel b = .error e → e.isDecodeError = true
  | 0, b, e, h => by simp [parseOptions] at h
  | fuel + 1, b, e, h => by
    unfold parseOptions at h
    split at h
    · cases h
    · have ht := c03_sd_option_total b
      cases hp : SDOption.parse b with
      | error e' =>
        rw [hp] at h ht
        simp only [Except.error.injEq] at h
        rw [← h]; exact ht
      | ok v =>
        obtain ⟨o, r⟩ := v
        rw [hp] at h
        simp only [bind, Except.bind] at h
        cases hr : parseOptions fuel r with
        | error e' => rw [hr] at h; simp only [Except.error.injEq] at h; rw [← h]; exact parseOptions_err fuel r e' hr
        | ok t => rw [hr] at h; simp [pure, Except.pure] at h

theorem parseEntries_err (n : Nat) : ∀ (fuel : Nat) (b : Bytes) (e : Err), parseEntries n fuel b = .error e →
    e.isDecodeError = true
  | 0, b, e, h => by simp [parseEntries] at h
  | fuel + 1, b, e, h => by
    unfold parseEntries at h
    split at h
    · cases h
    · cases hp : SDEntry.parse n b with
      | error e' =>
        rw [hp] at h
        simp only [Except.error.injEq] at h
        rw [← h]
        rcases c03_entry_total n b with ⟨_, _, q, _⟩ | q | q
        · rw [q] at hp; cases hp
        · rw [q] at hp; cases hp; rfl
        · rw [q] at hp; cases hp; rfl
      | ok v =>
        obtain ⟨x, r⟩ := v
        rw [hp] at h
        simp only [bind, Except.bind] at h
        cases hr : parseEntries n fuel r with
        | error e' => rw [hr] at h; simp only [Except.error.injEq] at h; rw [← h]; exact parseEntries_err n fuel r e' hr
        | ok t => rw [hr] at h; simp [pure, Except.pure] at h

/-- SD message decoder: total, errors are parse / incomplete / unicode only -/
theorem c03_sd_message_total (b : Bytes) :
    match SDHeader.parse b with
    | .ok (_, r) => r <:+ b
    | .error e => e.isDecodeError = true := by
  cases hp : SDHeader.parse b with
  | error e =>
    simp only
    unfold SDHeader.parse at hp
    split at hp
    · split at hp
      · cases hp; rfl
      · dsimp only at hp
        split at hp
        · cases hp; rfl
        · split at hp
          · rename_i flags x1 x2 x3 e3 e2 e1 e0 rest _ _ _ o3 o2 o1 o0 rest2 hd
            split at hp
            · cases hp; rfl
            · cases hop : parseOptions (rest2.take (u32 o3 o2 o1 o0)).length (rest2.take (u32 o3 o2 o1 o0)) with
              | error e' =>
                rw [hop] at hp; simp only [Except.error.injEq] at hp; rw [← hp]; exact parseOptions_err _ _ _ hop
              | ok options =>
                rw [hop] at hp
                dsimp only at hp
                cases hep : parseEntries options.length (rest.take (u32 e3 e2 e1 e0)).length (rest.take (u32 e3 e2 e1 e0)) with
                | error e' =>
                  rw [hep] at hp; simp only [Except.error.injEq] at hp; rw [← hp]; exact parseEntries_err _ _ _ _ hep
                | ok entries => rw [hep] at hp; cases hp
          · cases hp; rfl
    · cases hp; rfl
  | ok v =>
    obtain ⟨m, r⟩ := v
    simp only
    unfold SDHeader.parse at hp
    split at hp
    · split at hp
      · cases hp
      · dsimp only at hp
        split at hp
        · cases hp
        · split at hp
          · rename_i flags x1 x2 x3 e3 e2 e1 e0 rest _ _ _ o3 o2 o1 o0 rest2 hd
            split at hp
            · cases hp
            · cases hop : parseOptions (rest2.take (u32 o3 o2 o1 o0)).length (rest2.take (u32 o3 o2 o1 o0)) with
              | error e' => rw [hop] at hp; cases hp
              | ok options =>
                rw [hop] at hp
                dsimp only at hp
                cases hep : parseEntries options.length (rest.take (u32 e3 e2 e1 e0)).length (rest.take (u32 e3 e2 e1 e0)) with
                | error e' => rw [hep] at hp; cases hp
                | ok entries =>
                  rw [hep] at hp
                  simp only [Except.ok.injEq, Prod.mk.injEq] at hp
                  rw [← hp.2]
                  have s1 : rest2.drop (u32 o3 o2 o1 o0) <:+ rest2 := List.drop_suffix _ _
                  have s2 : rest2 <:+ rest := by
                    have : rest2 <:+ rest.drop (u32 e3 e2 e1 e0) := by rw [hd]; exact ⟨[o3, o2, o1, o0], rfl⟩
                    exact this.trans (List.drop_suffix _ _)
                  exact (s1.trans s2).trans ⟨[flags, x1, x2, x3, e3, e2, e1, e0], rfl⟩
          · cases hp
    · cases hp

end Someip
