/-
  C05 / C09 — whole-run theorem for the discovery store.
  For EVERY list of events of the loop model (every history of datagrams and API calls, every schedule of
  ready callbacks, timer firings and clock jumps, including malformed input, reboots, connection loss, server
  and subscriber activity in between) the store-level notification history alternates offered / stopped per
  (service, source address) beginning with offered, and its last word is 'offered' exactly for the services
  that are stored at that moment.  This is the store-level core of C05 (truthful, alternating) and of C09
  (exactly one 'stopped' per stored entry: an expiry, a stop, a flush can each report an entry at most once,
  and only while it is stored).
-/
import SomeipModel.Lemmas.StoreOps
namespace Someip
open Stack
set_option linter.unusedSimpArgs false

/-- run a list of events; `none` if some event was not enabled -/
def runAll : Stack → List Event → Option Stack
  | s, [] => some s
  | s, e :: es => match s.step e with
    | none => none
    | some s' => runAll s' es

theorem storeInv_applyInput (s : Stack) (x : Input) (hi : StoreInv s) : StoreInv (s.applyInput x) := by
  cases x with
  | dgram a mc b => exact storeInv_datagramReceived s b a mc hi
  | start => exact storeInv_of_disc (disc_start s) hi
  | stop => exact storeInv_of_disc (disc_stop s) hi
  | connLost => exact storeInv_of_disc (disc_connectionLost s) hi
  | watch f l => exact storeInv_of_disc (disc_watchService s f l) hi
  | unwatch f l => exact storeInv_of_disc (disc_stopWatchService s f l) hi
  | watchAll id => exact storeInv_of_disc (disc_watchAllServices s id) hi
  | unwatchAll id => exact storeInv_of_disc (disc_stopWatchAllServices s id) hi
  | subscribe g d => exact storeInv_of_disc (disc_subscribeEventgroup s g d) hi
  | stopSubscribe g d => exact storeInv_of_disc (disc_stopSubscribeEventgroup s g d true) hi
  | announce i => exact storeInv_of_disc (disc_announceService s i) hi
  | stopAnnounce i b => exact storeInv_of_disc (disc_stopAnnounceService s i b) hi
  | setNak i egs =>
    simp only [applyInput]
    split
    · exact storeInv_of_disc (disc_setInst s i _) hi
    · exact hi
  | draws ds => exact storeInv_of_disc (s := s) (s' := { s with draws := s.draws ++ ds }) rfl hi
  | announcerStop => exact storeInv_of_disc (disc_announcerStop s) hi
  | announcerStart => exact storeInv_of_disc (disc_announcerStart s) hi

theorem storeInv_runCb (s : Stack) (cb : Cb) (hi : StoreInv s) : StoreInv (s.runCb cb) := by
  cases cb with
  | connLost p =>
    cases p with
    | subscriber => exact storeInv_of_disc (disc_subscriberStop s false) hi
    | discovery => exact storeInv_foundStopAll s hi
    | announcer => exact storeInv_of_disc (disc_announcerStop s) hi
  | expiredSvc a k => exact storeInv_expiredSvc s a k hi
  | expiredSub i a k => exact storeInv_of_disc (disc_expiredSub s i a k) hi
  | sendStartSubscribe d egs => exact storeInv_of_disc (disc_sendSubscribe s _ d egs) hi
  | sendStopSubscribe d egs => exact storeInv_of_disc (disc_sendSubscribe s _ d egs) hi
  | sendOfferTo i a => exact storeInv_of_disc (disc_sendOffer s i _ _) hi
  | collectorTimeout cid => exact storeInv_of_disc (disc_collectorTimeout s cid) hi
  | sleepDone tid => exact storeInv_of_disc (disc_sleepDone s tid) hi
  | taskStep tid =>
    simp only [runCb]
    split
    · exact hi
    · split
      · exact hi
      · split
        · exact storeInv_of_disc ((disc_stepOffer _ _ _ _).trans (disc_cancelTimer _ _ _)) hi
        · exact storeInv_of_disc ((disc_stepFind _ _ _).trans (disc_cancelTimer _ _ _)) hi
        · exact storeInv_of_disc ((disc_stepSubscribe _ _ _).trans (disc_cancelTimer _ _ _)) hi

theorem storeInv_step (s s' : Stack) (e : Event) (h : s.step e = some s') (hi : StoreInv s) : StoreInv s' := by
  cases e with
  | input x => simp only [step, Option.some.injEq] at h; subst h; exact storeInv_applyInput s x hi
  | run =>
    simp only [step] at h
    split at h
    · cases h
    · rename_i cb l _
      simp only [Option.some.injEq] at h; subst h
      exact storeInv_runCb _ cb (storeInv_of_disc (s := s) (s' := { s with loop := l }) rfl hi)
  | fire q =>
    simp only [step] at h
    cases hf : s.loop.fire q with
    | none => rw [hf] at h; cases h
    | some l => rw [hf] at h; simp at h; subst h; exact storeInv_of_disc (s := s) (s' := { s with loop := l }) rfl hi
  | adv t =>
    simp only [step] at h
    cases hf : s.loop.adv t with
    | none => rw [hf] at h; cases h
    | some l => rw [hf] at h; simp at h; subst h; exact storeInv_of_disc (s := s) (s' := { s with loop := l }) rfl hi

theorem storeInv_runAll (s s' : Stack) (es : List Event) (h : runAll s es = some s') (hi : StoreInv s) : StoreInv s' := by
  induction es generalizing s with
  | nil => simp [runAll] at h; subst h; exact hi
  | cons e t ih =>
    simp only [runAll] at h
    split at h
    · cases h
    · rename_i s1 hs
      exact ih s1 h (storeInv_step s s1 e hs hi)

/-- WHOLE-RUN THEOREM.  Start from any stack whose discovery store and notification log are empty (any timing
configuration, any set of service instances).  After ANY list of enabled events:
  * for every service and source address the store-level notifications so far alternate
    offered, stopped, offered, ... beginning with offered, and
  * the latest one is 'offered' if and only if the service is stored for that address right now
(`trackS … = some b` says both: `some` = the alternation was never violated, `b` = last word is offered);
  * the keys stored for one address are pairwise distinct. -/
theorem c05_store_history_truthful_alternating (s0 s : Stack) (es : List Event)
    (h0 : s0.found = []) (hl : s0.storeLog = []) (hrun : runAll s0 es = some s) :
    (∀ a, (keysAt s a).Nodup) ∧
    ∀ k a, trackS k a (some false) s.storeLog = some (decide (k ∈ keysAt s a)) := by
  have hinit : StoreInv s0 := by
    refine ⟨fun a => by simp [keysAt, h0, TStore.get], fun k a => ?_⟩
    simp [hl, trackS, keysAt, h0, TStore.get]
  exact storeInv_runAll s0 s es hrun hinit

/-- C09 corollary: a 'stopped' can only be logged for an entry that is stored at that moment, and removes
it - so after a 'stopped' no second 'stopped' for the same (service, source) can follow without an
'offered' in between (exactly-once), in every run -/
theorem c09_store_no_double_stop (s0 s : Stack) (es : List Event) (h0 : s0.found = []) (hl : s0.storeLog = [])
    (hrun : runAll s0 es = some s) (k : SvcKey) (a : Addr) :
    trackS k a (some false) (s.storeLog ++ [(false, k, a)]) = (if k ∈ keysAt s a then some false else none) := by
  have h := (c05_store_history_truthful_alternating s0 s es h0 hl hrun).2 k a
  rw [trackS_append, h, trackS_single]
  by_cases hk : k ∈ keysAt s a <;> simp [hk]

/-- an OfferService (service 7.1 v1.0, TTL 3 s) in an SD datagram with the reboot flag, session 1 -/
def offerDgram : Bytes :=
  [255, 255, 129, 0, 0, 0, 0, 36, 0, 0, 0, 1, 1, 1, 2, 0, 192, 0, 0, 0, 0, 0, 0, 16, 1, 0, 0, 0, 0, 7, 0, 1, 1, 0, 0, 3,
   0, 0, 0, 0, 0, 0, 0, 0]
/-- the same with TTL 0 (StopOffer), session 2 -/
def stopDgram : Bytes :=
  [255, 255, 129, 0, 0, 0, 0, 36, 0, 0, 0, 2, 1, 1, 2, 0, 192, 0, 0, 0, 0, 0, 0, 16, 1, 0, 0, 0, 0, 7, 0, 1, 1, 0, 0, 0,
   0, 0, 0, 0, 0, 0, 0, 0]

/-- non-vacuity: a concrete run through the real receive path (offer, refresh, stop-offer, offer) is accepted
by `runAll`; the repeated session id 1 under the reboot flag counts as a reboot (flush + fresh offer), so the
log reads offered, stopped, offered, stopped, offered -/
example :
    (runAll ({ watchAll := [0] } : Stack)
      [.input (.dgram 1 true offerDgram), .input (.dgram 1 true offerDgram), .input (.dgram 1 true stopDgram),
       .input (.dgram 1 true offerDgram)]).map (fun s => s.storeLog.map (·.1)) = some [true, false, true, false, true] := by
  decide +kernel

end Someip
