/-
  C02 — SD messages round-trip: every entry keeps exactly its own options.
  Proved: soundness of the Boyer-Moore-Horspool search as used, the option-array invariant of
  assign_option_indexes ("the shared array only grows by appending; slices handed out earlier stay
  valid") and hence  resolve_options (assign_option_indexes m) = m  for every message; encoding failure
  for unrepresentable counts / indexes / fields.  The byte-level build/parse round trip of whole SD
  messages is validated by the correspondence check (see DESIGN.md: partial).
-/
import SomeipModel.Model.SDEntry
import SomeipModel.Lemmas.Bytes
namespace Someip
set_option linter.unusedSimpArgs false

/-- SOUNDNESS of `_find`: a reported index really is an occurrence of the needle -/
theorem bmhLoop_sound {α} [DecidableEq α] [Inhabited α] (hay nd : List α) (fuel i k : Nat)
    (h : bmhLoop hay nd fuel i = some k) : (hay.drop k).take nd.length = nd := by
  induction fuel generalizing i with
  | zero => simp [bmhLoop] at h
  | succ n ih =>
    unfold bmhLoop at h
    split at h
    · split at h
      · rename_i hm
        simp only [Option.some.injEq] at h; subst h
        simpa [matchAt] using hm
      · exact ih _ h
    · cases h

theorem c02_find_sound {α} [DecidableEq α] [Inhabited α] (hay nd : List α) (k : Nat) (h : bmhFind hay nd = some k) :
    (hay.drop k).take nd.length = nd := bmhLoop_sound hay nd _ _ k h

/-- a slice inside a list is still the same slice after the list has been extended -/
theorem slice_append {α} (l ext : List α) (i n : Nat) (h : i + n ≤ l.length) :
    ((l ++ ext).drop i).take n = (l.drop i).take n := by
  rw [List.drop_append_of_le_length (by omega), List.take_append_of_le_length (by simp; omega)]

/-- `_assign_option`: the returned (index, count) designate exactly the run inside the returned array,
which extends the given one -/
theorem assignOption_spec (run opts : List SDOption) :
    let r := assignOption run opts
    (∃ ext, r.2 = opts ++ ext) ∧ (r.2.drop r.1.1).take r.1.2 = run ∧ r.1.1 + r.1.2 ≤ r.2.length ∨
    (run = [] ∧ r = ((0, 0), opts)) := by
  unfold assignOption
  by_cases he : run.isEmpty = true
  · right; simp [he, List.isEmpty_iff.mp he]
  · left
    simp only [he, if_false]
    have hne : run ≠ [] := by simpa using he
    cases hf : bmhFind opts run with
    | some oi =>
      have hs := c02_find_sound opts run oi hf
      simp only [Bool.false_eq_true, if_false]
      refine ⟨⟨[], by simp⟩, hs, ?_⟩
      have hl : ((opts.drop oi).take run.length).length = run.length := by rw [hs]
      simp only [List.length_take, List.length_drop] at hl
      have : 0 < run.length := List.length_pos_iff.mpr hne
      omega
    | none =>
      simp only [Bool.false_eq_true, if_false]
      refine ⟨⟨run, rfl⟩, ?_, by simp⟩
      simp

theorem take_zero_drop {α} (l : List α) (i : Nat) : (l.drop i).take 0 = [] := by simp

/-- what one entry's assignment guarantees: resolving the new indexes against ANY extension of the new array
gives back the entry -/
theorem assign_entry_spec (e : SDEntry) (opts : List SDOption) (hres : e.idx = none) :
    let r := e.assign opts
    (∃ ext, r.2 = opts ++ ext) ∧ ∀ ext, r.1.resolve (r.2 ++ ext) = .ok e := by
  unfold SDEntry.assign
  simp only [hres]
  have h1 := assignOption_spec e.opts1 opts
  have h2 := assignOption_spec e.opts2 (assignOption e.opts1 opts).2
  simp only [] at h1 h2
  obtain ⟨ext1, hext1⟩ : ∃ ext, (assignOption e.opts1 opts).2 = opts ++ ext := by
    rcases h1 with ⟨h, _⟩ | ⟨_, h⟩
    · exact h
    · exact ⟨[], by rw [h]; simp⟩
  obtain ⟨ext2, hext2⟩ : ∃ ext, (assignOption e.opts2 (assignOption e.opts1 opts).2).2 = (assignOption e.opts1 opts).2 ++ ext := by
    rcases h2 with ⟨h, _⟩ | ⟨_, h⟩
    · exact h
    · exact ⟨[], by rw [h]; simp⟩
  refine ⟨⟨ext1 ++ ext2, by rw [hext2, hext1, List.append_assoc]⟩, fun ext => ?_⟩
  simp only [SDEntry.resolve]
  -- run 1 lives in the array after the first assignment, which the later array extends
  have r1 : (((assignOption e.opts2 (assignOption e.opts1 opts).2).2 ++ ext).drop (assignOption e.opts1 opts).1.1).take
      (assignOption e.opts1 opts).1.2 = e.opts1 := by
    rcases h1 with ⟨_, hs, hb⟩ | ⟨hnil, hr⟩
    · rw [hext2, List.append_assoc, slice_append _ _ _ _ hb]; exact hs
    · rw [hr, hnil]; simp
  have r2 : (((assignOption e.opts2 (assignOption e.opts1 opts).2).2 ++ ext).drop
      (assignOption e.opts2 (assignOption e.opts1 opts).2).1.1).take (assignOption e.opts2 (assignOption e.opts1 opts).2).1.2 = e.opts2 := by
    rcases h2 with ⟨_, hs, hb⟩ | ⟨hnil, hr⟩
    · rw [slice_append _ _ _ _ hb]; exact hs
    · rw [hr, hnil]; simp
  rw [r1, r2]
  cases e; simp_all

theorem resolveAll_append_ok (opts : List SDOption) (es es' : List SDEntry) (e e' : SDEntry)
    (h1 : e'.resolve opts = .ok e) (h2 : resolveAll opts es' = .ok es) : resolveAll opts (e' :: es') = .ok (e :: es) := by
  simp [resolveAll, h1, h2]; rfl

/-- the invariant over the whole entry list -/
theorem assignAll_spec (es : List SDEntry) (opts : List SDOption) (hres : ∀ e ∈ es, e.idx = none) :
    let r := assignAll es opts
    (∃ ext, r.2 = opts ++ ext) ∧ ∀ ext, resolveAll (r.2 ++ ext) r.1 = .ok es := by
  induction es generalizing opts with
  | nil => exact ⟨⟨[], by simp [assignAll]⟩, fun ext => rfl⟩
  | cons e t ih =>
    simp only [assignAll]
    obtain ⟨⟨x1, hx1⟩, he⟩ := assign_entry_spec e opts (hres e (by simp))
    obtain ⟨⟨x2, hx2⟩, ht⟩ := ih (e.assign opts).2 (fun x hx => hres x (by simp [hx]))
    refine ⟨⟨x1 ++ x2, by rw [hx2, hx1, List.append_assoc]⟩, fun ext => ?_⟩
    apply resolveAll_append_ok
    · rw [hx2, List.append_assoc]; exact he _
    · exact ht ext

/-- ROUND TRIP of the option packing: for EVERY message whose entries carry resolved option runs (any
number of entries, any runs - shared, repeated, overlapping, nested, empty), assigning indexes into the
shared array and resolving them again yields the same entries in the same order, each with exactly its
own two runs -/
theorem c02_assign_resolve (m : SDHeader) (hres : ∀ e ∈ m.entries, e.idx = none) :
    ∃ m', m.assignOptionIndexes.resolveOptions = .ok m' ∧ m'.entries = m.entries ∧
      m'.flagReboot = m.flagReboot ∧ m'.flagUnicast = m.flagUnicast ∧ m'.flagsUnknown = m.flagsUnknown := by
  obtain ⟨_, h⟩ := assignAll_spec m.entries m.options hres
  have := h []
  simp only [List.append_nil] at this
  simp only [SDHeader.assignOptionIndexes, SDHeader.resolveOptions, this]
  exact ⟨_, rfl, rfl, rfl, rfl, rfl⟩

/-- the shared array only grows: options present before (e.g. unreferenced ones) keep their place -/
theorem c02_array_extends (m : SDHeader) (hres : ∀ e ∈ m.entries, e.idx = none) :
    ∃ ext, m.assignOptionIndexes.options = m.options ++ ext :=
  (assignAll_spec m.entries m.options hres).1

/-- UNREPRESENTABLE => ERROR: an entry referencing more than 15 options in a run, an index above 255,
or with a field beyond its width is refused by the encoder (no bytes are emitted) -/
theorem c02_entry_unrepresentable (e : SDEntry) (i : OptIdx) (hi : e.idx = some i)
    (h : 15 < i.no1 ∨ 15 < i.no2 ∨ 255 < i.oi1 ∨ 255 < i.oi2 ∨ 65535 < e.sid ∨ 65535 < e.iid ∨ 255 < e.maj ∨
         16777215 < e.ttl ∨ 4294967295 < e.val) : e.build = .error .struct := by
  simp only [SDEntry.build, hi]
  rw [if_neg]
  intro hc; omega

/-- ... and so is the whole message containing it -/
theorem c02_message_unrepresentable (es1 es2 : List SDEntry) (e : SDEntry) (hok : ∀ x ∈ es1, ∃ b, x.build = .ok b)
    (he : e.build = .error .struct) : buildEntries (es1 ++ e :: es2) = .error .struct := by
  induction es1 with
  | nil => simp [buildEntries, he]; rfl
  | cons x t ih =>
    obtain ⟨b, hb⟩ := hok x (by simp)
    have := ih (fun y hy => hok y (by simp [hy]))
    simp only [List.cons_append, buildEntries, hb, this]; rfl

/-- a representable entry is encoded to the SOME/IP-SD entry layout: type, index1, index2, the two 4-bit
counts, service, instance, major version, 24-bit TTL, 32-bit minor version / counter+eventgroup -/
theorem c02_entry_layout (e : SDEntry) (i : OptIdx) (hi : e.idx = some i)
    (h : i.no1 < 16 ∧ i.no2 < 16 ∧ i.oi1 < 256 ∧ i.oi2 < 256 ∧ e.sid < 65536 ∧ e.iid < 65536 ∧ e.maj < 256 ∧
         e.ttl < 16777216 ∧ e.val < 4294967296) :
    e.build = .ok ([e.ty.toNat, i.oi1, i.oi2, i.no1 * 16 + i.no2] ++ be16 e.sid ++ be16 e.iid ++ [e.maj] ++ be24 e.ttl ++ be32 e.val) := by
  simp only [SDEntry.build, hi]
  rw [if_pos h]

/-- non-vacuity: runs that are shared, overlapping and nested -/
example : ((({ entries := [{ ty := .offer, sid := 1, iid := 1, maj := 1, ttl := 3, val := 0, opts1 := [.loadBal 1 1, .loadBal 2 2] },
                             { ty := .offer, sid := 2, iid := 1, maj := 1, ttl := 3, val := 0, opts1 := [.loadBal 2 2], opts2 := [.loadBal 1 1, .loadBal 2 2] }] } : SDHeader).assignOptionIndexes).options.length) = 2 := by
  decide

end Someip
