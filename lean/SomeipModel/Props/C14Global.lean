/-
  C14 — whole-run theorem: the client's subscription messages mirror the requested subscription set.

  `held x log`   : does a server that applies the Subscribe (TTL ≠ 0) / StopSubscribe (TTL 0) batches of `log`, in the order
                   sent, hold eventgroup `x.1` for this client - for the server `x.2` the batches were addressed to;
  `s.subLog`     : ghost - every batch (server, TTL, eventgroups) the subscriber handed to `send_sd`, in order
                   (`c14_only_to_server`: such a batch becomes one datagram to exactly that server, or an exception);
  `pend .. cbs b`: the effect the subscriber's callbacks still waiting in the ready queue will have on that;
  `s.subDup`     : ghost - some `subscribe_eventgroup` call named a pair that was already requested (the statement's domain
                   excludes such duplicates; the flag is set by nothing else and never reset);
  `s.subLost`    : ghost - the subscriber was last stopped by a connection loss, i.e. without StopSubscribe messages.

  For EVERY list of events (API calls of all three components, datagrams, callbacks in any admissible order, timers,
  clock steps; auto-subscribe listeners included) from a fresh stack with a non-zero subscription TTL:
   * while the subscriber runs and no duplicate was requested, a server ends up holding exactly the requested pairs once
     the pending callbacks have run (`c14_mirror_running`), at an idle loop: holds them now (`c14_mirror_idle`);
   * a pair that is not requested is never left at a server, running or not, duplicates or not (`c14_not_requested_not_held`);
   * after a graceful stop no server is left with anything (`c14_mirror_stopped`);
   * a refresh round is only ever sent by the task of the running subscriber (`c14_rounds_only_while_running`).
  What is not part of these theorems: the refresh-interval clause (timing; per-operation theorem `c14_no_refresh_one_round`
  and the oracle), and that `send_sd` succeeds (more than 255 distinct endpoint options in one batch cannot be encoded:
  C02 `c02_refuses_*`).
-/
import SomeipModel.Lemmas.MirSteps
import SomeipModel.Props.C05Global
namespace Someip
open Stack MV
set_option linter.unusedSimpArgs false

theorem mirInv_runAll (s s' : Stack) (es : List Event) (h : runAll s es = some s') (hi : MirInv s) : MirInv s' := by
  induction es generalizing s with
  | nil => simp [runAll] at h; subst h; exact hi
  | cons e t ih =>
    simp only [runAll] at h
    split at h
    · cases h
    · rename_i s1 hs
      exact ih s1 h (mir_step s s1 e hs hi)

/-- a stack that has not been used yet -/
structure Fresh (s0 : Stack) : Prop where
  ttl : s0.tm.subscribeTtl ≠ 0
  alive : s0.alive = false
  entries : s0.subEntries = []
  log : s0.subLog = []
  dup : s0.subDup = false
  lost : s0.subLost = false
  task : s0.subTask = none
  tasks : s0.tasks = []
  ready : s0.loop.ready = []
  timers : s0.loop.timers = []

theorem mirInv_fresh (s0 : Stack) (h : Fresh s0) : MirInv s0 := by
  unfold MirInv view
  rw [h.alive, h.entries, h.log, h.dup, h.lost, h.task, h.tasks, h.ready, h.timers]
  refine ⟨h.ttl, ?_, ?_, ?_, ?_, ?_, ?_, ?_, ?_, ?_, rfl⟩
  · intro p hp; cases hp
  · intro p hp; cases hp
  · intro _; exact List.nodup_nil
  · intro x _; rfl
  · intro ha; cases ha
  · intro _ _ x hx; cases hx
  · intro n t ht; simp [MV.task, alookup] at ht
  · rintro n ⟨hs, _⟩; cases hs
  · rintro n ⟨cb, hcb, _⟩; cases hcb

/-- the subscriber's callbacks waiting in the ready queue -/
def pendingSub (s : Stack) : List Cb := (view s).rdy
/-- what the server at `x.2` will hold of `x.1` once they have run -/
def willHold (s : Stack) (x : Req) : Bool := pend s.tm.subscribeTtl x (pendingSub s) (held x s.subLog)

/-- never a duplicate requested ⇒ the list of requests has no duplicates -/
theorem c14_requests_nodup (s0 s : Stack) (es : List Event) (h0 : Fresh s0) (hrun : runAll s0 es = some s)
    (hd : s.subDup = false) : s.subEntries.Nodup :=
  (mirInv_runAll s0 s es hrun (mirInv_fresh s0 h0)).nd hd

/-- A PAIR THAT IS NOT REQUESTED IS NOT LEFT AT ITS SERVER - in every reachable state, whether the subscriber runs or not -/
theorem c14_not_requested_not_held (s0 s : Stack) (es : List Event) (h0 : Fresh s0) (hrun : runAll s0 es = some s)
    (x : Req) (hx : x ∉ s.subEntries) : willHold s x = false :=
  (mirInv_runAll s0 s es hrun (mirInv_fresh s0 h0)).out x hx

/-- WHILE THE SUBSCRIBER RUNS every requested pair will be held once the pending callbacks have run - or the first round
of the subscriber's task is still to come (its step is in the ready queue) and what is queued behind it does not undo it -/
theorem c14_mirror_running (s0 s : Stack) (es : List Event) (h0 : Fresh s0) (hrun : runAll s0 es = some s)
    (ha : s.alive = true) (hd : s.subDup = false) (x : Req) (hx : x ∈ s.subEntries) :
    willHold s x = true ∨
    ∃ n, s.subTask = some n ∧ (∃ cb ∈ pendingSub s, isStepOf n cb = true) ∧
      pend s.tm.subscribeTtl x (afterFirst n (pendingSub s)) true = true := by
  have hi := mirInv_runAll s0 s es hrun (mirInv_fresh s0 h0)
  rcases hi.inA ha hd x hx with h1 | ⟨n, ho, h2⟩
  · exact Or.inl h1
  · exact Or.inr ⟨n, ho.1, hi.owe n ho, h2⟩

/-- THE MIRROR AT AN IDLE LOOP: with no subscriber callback waiting, the servers hold exactly the requested pairs -/
theorem c14_mirror_idle (s0 s : Stack) (es : List Event) (h0 : Fresh s0) (hrun : runAll s0 es = some s)
    (ha : s.alive = true) (hd : s.subDup = false) (hidle : pendingSub s = []) (x : Req) :
    held x s.subLog = true ↔ x ∈ s.subEntries := by
  have hi := mirInv_runAll s0 s es hrun (mirInv_fresh s0 h0)
  constructor
  · intro hh
    apply Classical.byContradiction; intro hx
    have := hi.out x hx
    unfold MV.W at this
    have hr : (view s).rdy = [] := hidle
    rw [hr] at this
    have e : held x (view s).log = held x s.subLog := rfl
    rw [pend_nil, e, hh] at this; cases this
  · intro hx
    have hr : (view s).rdy = [] := hidle
    rcases hi.inA ha hd x hx with h1 | ⟨n, ho, _⟩
    · unfold MV.W at h1; rw [hr, pend_nil] at h1; exact h1
    · obtain ⟨cb, hcb, _⟩ := hi.owe n ho
      rw [hr] at hcb; cases hcb

/-- AFTER A GRACEFUL STOP (not a connection loss) no server is left with anything once the queued StopSubscribe
callbacks have run; at an idle loop: no server holds anything -/
theorem c14_mirror_stopped (s0 s : Stack) (es : List Event) (h0 : Fresh s0) (hrun : runAll s0 es = some s)
    (ha : s.alive = false) (hl : s.subLost = false) (x : Req) : willHold s x = false := by
  have hi := mirInv_runAll s0 s es hrun (mirInv_fresh s0 h0)
  by_cases hx : x ∈ s.subEntries
  · exact hi.inD ha hl x hx
  · exact hi.out x hx

/-- a subscribe task that can still send a refresh round (not finished, not cancelled) is the task of the running subscriber -/
theorem c14_rounds_only_while_running (s0 s : Stack) (es : List Event) (h0 : Fresh s0) (hrun : runAll s0 es = some s)
    (n : Nat) (t : TaskSt) (ht : s.getTask (.subscribe, n) = some t) (hpc : t.pc ≠ .done) (hc : t.cancelled = false) :
    s.alive = true ∧ s.subTask = some n := by
  have hi := mirInv_runAll s0 s es hrun (mirInv_fresh s0 h0)
  rw [getTask_sub] at ht
  exact hi.live n t ht hpc hc

/-- no subscriber callback is ever scheduled as a timer -/
theorem c14_no_subscriber_timer (s0 s : Stack) (es : List Event) (h0 : Fresh s0) (hrun : runAll s0 es = some s) :
    ∀ t ∈ s.loop.timers, isMirCb t.cb = false := by
  have hi := mirInv_runAll s0 s es hrun (mirInv_fresh s0 h0)
  have h1 : s.loop.timers.filter (fun t => isMirCb t.cb) = [] := hi.notim
  intro t ht
  cases hc : isMirCb t.cb
  · rfl
  · have : t ∈ s.loop.timers.filter (fun t => isMirCb t.cb) := List.mem_filter.mpr ⟨ht, hc⟩
    rw [h1] at this; cases this

/-! non-vacuity: a concrete run - start, request (g, server 7), let the loop run, withdraw it again -/
def egX : Eventgroup := { sid := 0x1234, iid := 1, maj := 1, egid := 5, sockname := { addr := [10, 0, 0, 1], port := 3000 }, proto := 17 }
def runX : List Event := [.input .start, .input (.subscribe egX 7), .run, .run, .run]
example : Fresh ({} : Stack) := ⟨by decide, rfl, rfl, rfl, rfl, rfl, rfl, rfl, rfl, rfl⟩
example : (runAll {} runX).map (fun s => (s.alive, s.subDup, (pendingSub s).length, held (egX, 7) s.subLog, decide ((egX, 7) ∈ s.subEntries))) =
    some (true, false, 0, true, true) := by
  decide +kernel
example : (runAll {} (runX ++ [.input (.stopSubscribe egX 7), .run])).map
    (fun s => ((pendingSub s).length, held (egX, 7) s.subLog, decide ((egX, 7) ∈ s.subEntries))) = some (0, false, false) := by
  decide +kernel
example : (runAll {} (runX ++ [.input .stop, .run, .run])).map
    (fun s => (s.alive, s.subLost, (pendingSub s).length, held (egX, 7) s.subLog, decide ((egX, 7) ∈ s.subEntries))) =
    some (false, false, 0, false, true) := by
  decide +kernel

end Someip
