/-
  C09 — TTL expiry fires exactly once, on time, never early; a refresh postpones it.
  Per-operation theorems about the TimedStore operations (valid in every state) and about the loop's
  timing discipline.
-/
import SomeipModel.Lemmas.Frame
namespace Someip
open Stack
set_option linter.unusedSimpArgs false

/-- NEVER EARLY: the loop only moves a timer to the ready queue once its deadline has been reached -/
theorem c09_fire_not_early {Cb : Type} (l l' : Loop Cb) (q : Nat) (h : l.fire q = some l') :
    ∃ t ∈ l.timers, t.seq = q ∧ t.deadline ≤ l.now := by
  unfold Loop.fire at h
  split at h
  · cases h
  · rename_i t ht
    split at h
    · exact ⟨t, List.mem_of_find?_eq_some ht, by simpa using List.find?_some ht, by assumption⟩
    · cases h

/-- ON TIME: the clock never jumps past a pending deadline, and never while a callback is waiting to run -/
theorem c09_adv_not_past_deadline {Cb : Type} (l l' : Loop Cb) (t : Nat) (h : l.adv t = some l') :
    l.ready = [] ∧ l.now < t ∧ (∀ x ∈ l.timers, t ≤ x.deadline) ∧ l'.now = t ∧ l'.timers = l.timers := by
  unfold Loop.adv at h
  split at h
  · rename_i hc
    simp only [Option.some.injEq] at h; subst h
    refine ⟨List.isEmpty_iff.mp hc.1, hc.2.1, ?_, rfl, rfl⟩
    intro x hx; simpa using (List.all_eq_true.mp hc.2.2) x hx
  · cases h

/-- no library operation moves the clock: only `adv` does -/
theorem c09_only_adv_moves_clock (s s' : Stack) (e : Event) (h : s.step e = some s') :
    s'.loop.now = s.loop.now ∨ ∃ t, e = .adv t ∧ s'.loop.now = t := by
  cases e with
  | input x =>
    simp only [step, Option.some.injEq] at h; subst h
    exact Or.inl (congrArg Prod.snd (base_applyInput s x))
  | run =>
    simp only [step] at h
    split at h
    · cases h
    · rename_i cb l hp
      simp only [Option.some.injEq] at h; subst h
      left
      have := congrArg Prod.snd (base_runCb { s with loop := l } cb)
      simp only [base] at this
      rw [this]
      unfold Loop.pop at hp
      split at hp
      · cases hp
      · simp only [Option.some.injEq, Prod.mk.injEq] at hp; rw [← hp.2]
  | fire q =>
    simp only [step] at h
    left
    unfold Loop.fire at h
    split at h
    · cases h
    · split at h
      · simp only [Option.map_some, Option.some.injEq] at h; subst h; rfl
      · cases h
  | adv t =>
    simp only [step] at h
    right
    refine ⟨t, rfl, ?_⟩
    cases ha : s.loop.adv t with
    | none => rw [ha] at h; cases h
    | some l =>
      rw [ha] at h; simp only [Option.map_some, Option.some.injEq] at h; subst h
      exact (c09_adv_not_past_deadline _ _ _ ha).2.2.2.1

/-- a finite TTL arms exactly one timer at now + ttl seconds and the entry remembers its handle ... -/
theorem c09_arm_finite (s : Stack) (ttl : Nat) (cb : Cb) (h : ttl ≠ TTL_FOREVER) :
    (s.armTtl ttl cb).1.loop.timers = s.loop.timers ++ [⟨s.loop.nextSeq, s.loop.now + ttl * TICKS_PER_S, cb⟩] ∧
    (s.armTtl ttl cb).2 = some s.loop.nextSeq ∧ (s.armTtl ttl cb).1.loop.nextSeq = s.loop.nextSeq + 1 := by
  simp [armTtl, h, callLater, Loop.callLater]

/-- ... the infinite TTL 0xFFFFFF arms none: such an entry never expires -/
theorem c09_arm_forever (s : Stack) (cb : Cb) :
    (s.armTtl TTL_FOREVER cb).2 = none ∧ (s.armTtl TTL_FOREVER cb).1.loop = s.loop ∧ (s.armTtl TTL_FOREVER cb).1.found = s.found := by
  simp [armTtl]

/-- cancelling a handle removes it from the timer set AND from the ready queue (a fired but not yet run
expiry cannot remove a refreshed successor) -/
theorem c09_cancel_removes (s : Stack) (own : Cb → Bool) (q : Nat) :
    (∀ t ∈ (s.cancelTimer own (some q)).loop.timers, ¬ (t.seq = q ∧ own t.cb = true)) ∧
    (∀ r ∈ (s.cancelTimer own (some q)).loop.ready, ¬ (r.seq = some q ∧ own r.cb = true)) := by
  simp [cancelTimer, Loop.cancelOpt, Loop.cancel]
  exact ⟨fun t _ h1 h2 => h1.resolve_left (fun h => h h2), fun r _ h1 h2 => h1.resolve_left (fun h => h h2)⟩

/-- an expiry callback whose entry is no longer stored reports nothing and removes nothing -/
theorem c09_expired_absent (s : Stack) (a : Addr) (k : SvcKey)
    (h : TStore.findKey (· == ·) ((s.found.touch a).get a) k = none) :
    (s.expiredSvc a k).outs = s.outs ∧ (s.expiredSvc a k).found = s.found.touch a := by
  simp [expiredSvc, h]

/-- an expiry callback for a stored entry removes exactly that entry and reports it stopped -/
theorem c09_expired_present (s : Stack) (a : Addr) (k : SvcKey) (old : TSEntry SvcKey)
    (h : TStore.findKey (· == ·) ((s.found.touch a).get a) k = some old) :
    s.expiredSvc a k =
      ({ s with found := (s.found.touch a).set a (TStore.eraseKey (· == ·) ((s.found.touch a).get a) k) }).notifyService false k a := by
  simp [expiredSvc, h]

/-- an explicit stop of a stored entry cancels its timer before reporting; of an unknown entry does nothing -/
theorem c09_stop_present (s : Stack) (a : Addr) (k : SvcKey) (old : TSEntry SvcKey)
    (h : TStore.findKey (· == ·) ((s.found.touch a).get a) k = some old) :
    s.foundStop a k =
      (({ s with found := (s.found.touch a).set a (TStore.eraseKey (· == ·) ((s.found.touch a).get a) k) }).cancelTimer
        (isSvcExpiryFor a k) old.timer).notifyService false k a := by
  simp [foundStop, h]
theorem c09_stop_absent (s : Stack) (a : Addr) (k : SvcKey)
    (h : TStore.findKey (· == ·) ((s.found.touch a).get a) k = none) :
    (s.foundStop a k).outs = s.outs ∧ (s.foundStop a k).loop = s.loop := by
  simp [foundStop, h]

/-- a refresh of a stored entry cancels the old handle first (also when the new TTL is shorter or infinite)
and reports nothing -/
theorem c09_refresh_replaces (s : Stack) (ttl : Nat) (a : Addr) (k : SvcKey) (old : TSEntry SvcKey)
    (h : TStore.findKey (· == ·) ((s.found.touch a).get a) k = some old) :
    (s.foundRefresh ttl a k).outs = s.outs ∧
    ∃ r : Stack × Option Nat,
      r = (({ s with found := s.found.touch a }).cancelTimer (isSvcExpiryFor a k) old.timer).armTtl ttl (.expiredSvc a k) ∧
      (s.foundRefresh ttl a k).loop = r.1.loop := by
  unfold foundRefresh
  simp only [h]
  refine ⟨?_, _, rfl, rfl⟩
  unfold armTtl; split <;> simp

end Someip
