/-
  C15 — whole-run theorem for the announcer's send queues.
  `queuedFor d outs`   : the entries queue_send was asked to send to destination d (ghost outputs `queued`), in order;
  `flushedFor d log`   : the entries of the batches already handed to send_sd for d (ghost `flushLog`; send_sd turns one
                         batch into at most one datagram for that destination - `c15_one_datagram_per_window`), in order;
  `pendFor cs d`       : the entries waiting in d's open collection window.
  For EVERY list of events and every destination:   queued = flushed ++ pending   as lists - nothing is lost, duplicated,
  reordered, or handed to another destination.  Every open window holds exactly one pending timeout handle (so it will be
  flushed when that handle runs: c15_timeout_sends_collected), a closed one none - a window is flushed exactly once.
-/
import SomeipModel.Lemmas.QSteps
import SomeipModel.Props.C05Global
namespace Someip
open Stack
set_option linter.unusedSimpArgs false

theorem qinv_runAll (s s' : Stack) (es : List Event) (h : runAll s es = some s') (hi : QInv s) : QInv s' := by
  induction es generalizing s with
  | nil => simp [runAll] at h; subst h; exact hi
  | cons e t ih =>
    simp only [runAll] at h
    split at h
    · cases h
    · rename_i s1 hs
      exact ih s1 h (qinv_step s s1 e hs hi)

theorem qinv_init (s0 : Stack) (ho : s0.outs = []) (hf : s0.flushLog = []) (hc : s0.collectors = [])
    (ht : ∀ t ∈ s0.loop.timers, isCollTimeout t.cb = false) (hr : ∀ r ∈ s0.loop.ready, isCollTimeout r.cb = false) : QInv s0 := by
  have hn : ∀ cid, nC s0 cid = 0 := by
    intro cid
    unfold nC
    have h1 : s0.loop.timers.filter (fun t => isCollFor cid t.cb) = [] := by
      simp only [List.filter_eq_nil_iff]; intro t hm hf'
      have := ht t hm; rw [collFor_coll hf'] at this; cases this
    have h2 : s0.loop.ready.filter (fun t => isCollFor cid t.cb) = [] := by
      simp only [List.filter_eq_nil_iff]; intro t hm hf'
      have := hr t hm; rw [collFor_coll hf'] at this; cases this
    rw [h1, h2]; rfl
  refine ⟨fun _ => hc, ?_, ?_, ?_, ?_, ?_, ?_⟩
  · rw [hc]; intro c h; cases h
  · rw [hc]; simp
  · rw [hc]; intro c h; cases h
  · intro cid _; exact hn cid
  · rw [hc]; intro c h; cases h
  · intro d; rw [ho, hf, hc]; rfl

/-- WHOLE-RUN CONSERVATION -/
theorem c15_queue_conservation (s0 s : Stack) (es : List Event) (ho : s0.outs = []) (hf : s0.flushLog = []) (hc : s0.collectors = [])
    (ht : ∀ t ∈ s0.loop.timers, isCollTimeout t.cb = false) (hr : ∀ r ∈ s0.loop.ready, isCollTimeout r.cb = false)
    (hrun : runAll s0 es = some s) (d : Dest) :
    queuedFor d s.outs = flushedFor d s.flushLog ++ pendFor s.collectors d :=
  (qinv_runAll s0 s es hrun (qinv_init s0 ho hf hc ht hr)).cons d

/-- every open window is the latest collector of its destination and has exactly one pending timeout handle;
a closed window has none: each window is flushed exactly once -/
theorem c15_window_flushed_once (s0 s : Stack) (es : List Event) (ho : s0.outs = []) (hf : s0.flushLog = []) (hc : s0.collectors = [])
    (ht : ∀ t ∈ s0.loop.timers, isCollTimeout t.cb = false) (hr : ∀ r ∈ s0.loop.ready, isCollTimeout r.cb = false)
    (hrun : runAll s0 es = some s) (c : Collector) (hm : c ∈ s.collectors) :
    nC s c.cid = (if c.done then 0 else 1) ∧ (c.done = false → s.latestCollector c.dest = some c) :=
  let hi := qinv_runAll s0 s es hrun (qinv_init s0 ho hf hc ht hr)
  ⟨hi.handles c hm, hi.latest c hm⟩

/-- with a collection timeout of zero nothing ever waits: everything queued has been handed to send_sd -/
theorem c15_zero_timeout_nothing_waits (s0 s : Stack) (es : List Event) (ho : s0.outs = []) (hf : s0.flushLog = []) (hc : s0.collectors = [])
    (ht : ∀ t ∈ s0.loop.timers, isCollTimeout t.cb = false) (hr : ∀ r ∈ s0.loop.ready, isCollTimeout r.cb = false)
    (hrun : runAll s0 es = some s) (hz : s.tm.sendCollectionTimeout = 0) (d : Dest) :
    queuedFor d s.outs = flushedFor d s.flushLog := by
  have hi := qinv_runAll s0 s es hrun (qinv_init s0 ho hf hc ht hr)
  have := hi.cons d
  rw [hi.zero hz] at this
  simpa [pendFor] using this

/-- a timeout callback at the head of the ready queue belongs to an existing, open window -/
theorem c15_timeout_finds_open_window (s0 s : Stack) (es : List Event) (ho : s0.outs = []) (hf : s0.flushLog = []) (hc : s0.collectors = [])
    (ht : ∀ t ∈ s0.loop.timers, isCollTimeout t.cb = false) (hr : ∀ r ∈ s0.loop.ready, isCollTimeout r.cb = false)
    (hrun : runAll s0 es = some s) (q : Option Nat) (cid : Nat) (rest : List (RItem Cb))
    (hhead : s.loop.ready = ⟨q, .collectorTimeout cid⟩ :: rest) :
    ∃ c ∈ s.collectors, c.cid = cid ∧ c.done = false :=
  (qinv_run_collectorTimeout s q cid rest hhead (qinv_runAll s0 s es hrun (qinv_init s0 ho hf hc ht hr))).1

end Someip
