/-
  C05 — Discovery listeners see a truthful, strictly alternating service history.
  Structural theorems about the receive path (valid in every state): a detected reboot is applied -
  and completely reported - before the offers of the same message; what is reported is what is stored.
-/
import SomeipModel.Lemmas.Grows
namespace Someip
open Stack
set_option linter.unusedSimpArgs false

/-- is this header a decodable SD notification as far as the SOME/IP fields go? -/
def isSdNotification (h : Header) : Prop :=
  h.sid = SD_SERVICE ∧ h.mid = SD_METHOD ∧ h.iv = SD_INTERFACE_VERSION ∧ h.rc = .ok ∧ h.mt = .notification

/-- the receive path of a decodable SD notification: session check, then the reboot flush (if any),
then - and only then - the entries -/
theorem messageReceived_sd (s : Stack) (h : Header) (a : Addr) (mc : Bool) (m m' : SDHeader) (r : Bytes)
    (hsd : isSdNotification h) (hp : SDHeader.parse h.payload = .ok (m, r)) (hr : m.resolveOptions = .ok m') :
    s.messageReceived h a mc =
      (if (checkReceived s.incoming a mc m.flagReboot h.sess).1
        then ({ s with incoming := (checkReceived s.incoming a mc m.flagReboot h.sess).2 }).rebootDetected a
        else { s with incoming := (checkReceived s.incoming a mc m.flagReboot h.sess).2 }).sdMessageReceived m' a mc := by
  obtain ⟨h1, h2, h3, h4, h5⟩ := hsd
  unfold messageReceived
  simp only [h1, h2, h3, h4, h5, ne_eq, not_true_eq_false, or_self, if_false, hp, hr]

@[simp] theorem found_emit (s : Stack) (o : Out) : (s.emit o).found = s.found := rfl
@[simp] theorem found_cancelTimer (s : Stack) (own : Cb → Bool) (t : Option Nat) : (s.cancelTimer own t).found = s.found := rfl
@[simp] theorem found_setInst (s : Stack) (i : Nat) (x : Instance) : (s.setInst i x).found = s.found := rfl

theorem found_subsStopAllFor (s : Stack) (i : Nat) (a : Addr) : (s.subsStopAllFor i a).found = s.found := by
  unfold subsStopAllFor; split; rfl
  simp only []
  rw [foldl_pres (fun s => s.found) _ (fun s e => by simp)]; rfl

theorem found_announcerReboot (s : Stack) (a : Addr) : (s.announcerReboot a).found = s.found := by
  unfold announcerReboot; rw [foldl_pres (fun s => s.found) _ (fun s i => found_subsStopAllFor s i a)]

theorem found_callSoon (s : Stack) (cb : Cb) : (s.callSoon cb).found = s.found := rfl
theorem found_subscribeEventgroup (s : Stack) (g : Eventgroup) (d : Addr) : (s.subscribeEventgroup g d).found = s.found := by
  unfold subscribeEventgroup; simp only []; split <;> rfl
theorem found_stopSubscribeEventgroup (s : Stack) (g : Eventgroup) (d : Addr) (b : Bool) :
    (s.stopSubscribeEventgroup g d b).found = s.found := by
  unfold stopSubscribeEventgroup; split
  · simp only []; split <;> rfl
  · rfl
theorem found_listenerStopped (s : Stack) (l : Listener) (k : SvcKey) (a : Addr) : (s.listenerStopped l k a).found = s.found := by
  unfold listenerStopped; split
  · rfl
  · split
    · rfl
    · exact found_stopSubscribeEventgroup _ _ _ _
theorem found_listenerOffered (s : Stack) (l : Listener) (k : SvcKey) (a : Addr) : (s.listenerOffered l k a).found = s.found := by
  unfold listenerOffered; split
  · rfl
  · split
    · rfl
    · exact found_subscribeEventgroup _ _ _

/-- listener callbacks never modify the store they are notified about -/
theorem found_notifyService (s : Stack) (b : Bool) (k : SvcKey) (a : Addr) : (s.notifyService b k a).found = s.found := by
  unfold notifyService; simp only []
  have hf : ∀ (s : Stack) (l : Listener), (if b = true then s.listenerOffered l k a else s.listenerStopped l k a).found = s.found := by
    intro s l; split
    · exact found_listenerOffered _ _ _ _
    · exact found_listenerStopped _ _ _ _
  rw [foldl_pres (fun s => s.found) _ (fun s id => hf s _)]
  rw [foldl_pres (fun s => s.found) _ (fun s p => by
    split
    · rw [foldl_pres (fun s => s.found) _ (fun s l => hf s l)]
    · rfl)]

theorem tstore_get_set_nil {K : Type} (st : TStore K) (a : Addr) : (st.set a []).get a = [] := by
  unfold TStore.set TStore.get
  have hmem : ∃ p ∈ st.touch a, p.1 = a := by
    unfold TStore.touch; split
    · rename_i h; simpa using h
    · exact ⟨(a, []), by simp, rfl⟩
  generalize st.touch a = l at hmem
  induction l with
  | nil => obtain ⟨p, hp, _⟩ := hmem; cases hp
  | cons q t ih =>
    by_cases hq : q.1 = a
    · simp [List.find?_cons, hq]
    · obtain ⟨p, hp, hpa⟩ := hmem
      have : p ∈ t := by
        rcases List.mem_cons.mp hp with h | h
        · subst h; exact absurd hpa hq
        · exact h
      simp only [List.map_cons, hq, if_false, List.find?_cons, decide_false]
      exact ih ⟨p, this, hpa⟩

/-- FLUSH: after the reboot handlers nothing learnt from that sender is stored any more -/
theorem c05_reboot_flushes (s : Stack) (a : Addr) : ((s.rebootDetected a).found).get a = [] := by
  unfold rebootDetected
  rw [found_announcerReboot]
  unfold foundStopAllFor
  simp only []
  rw [foldl_pres (fun s => s.found) _ (fun s e => by rw [found_notifyService]; rfl)]
  exact tstore_get_set_nil _ _

/-- REBOOT FIRST: when a message reveals a reboot, the result is "flush, then handle the entries":
(1) everything reported by the flush precedes everything the entries of that same message report,
(2) the entries are handled starting from a store that holds nothing from that sender -/
theorem c05_reboot_first (s : Stack) (h : Header) (a : Addr) (mc : Bool) (m m' : SDHeader) (r : Bytes)
    (hsd : isSdNotification h) (hp : SDHeader.parse h.payload = .ok (m, r)) (hr : m.resolveOptions = .ok m')
    (hdet : (checkReceived s.incoming a mc m.flagReboot h.sess).1 = true) :
    ∃ s1 : Stack, s1 = ({ s with incoming := (checkReceived s.incoming a mc m.flagReboot h.sess).2 }).rebootDetected a ∧
      s.messageReceived h a mc = s1.sdMessageReceived m' a mc ∧
      s1.found.get a = [] ∧ Grows s s1 ∧ Grows s1 (s.messageReceived h a mc) := by
  refine ⟨_, rfl, ?_, c05_reboot_flushes _ a, ?_, ?_⟩
  · rw [messageReceived_sd s h a mc m m' r hsd hp hr]; simp [hdet]
  · exact (grows_rebootDetected _ a).pre rfl
  · rw [messageReceived_sd s h a mc m m' r hsd hp hr]; simp only [hdet, if_true]
    exact grows_sdMessageReceived _ _ _ _

/-- the flush reports EVERY stored service of that sender as stopped (one notification round each, in
store order), cancelling its TTL timer first -/
theorem c05_flush_reports_all (s : Stack) (a : Addr) :
    s.foundStopAllFor a =
      ((s.found.touch a).get a).foldl (fun s e => (s.cancelTimer (isSvcExpiryFor a e.key) e.timer).notifyService false e.key a)
        { s with found := (s.found.touch a).set a [] } := rfl

/-- an SD message whose unicast flag is clear has its entries ignored -/
theorem c05_no_unicast_flag_ignored (s : Stack) (m : SDHeader) (a : Addr) (mc : Bool) (h : m.flagUnicast = false) :
    s.sdMessageReceived m a mc = s := by
  simp [sdMessageReceived, h]

/-- a notification round reaches exactly the registered listeners whose filter accepts the service
(plus all watch-all listeners): the ext listeners notified are determined by the registrations -/
theorem c05_notify_targets (s : Stack) (b : Bool) (k : SvcKey) (a : Addr) :
    s.notifyService b k a =
      (let s0 : Stack := { s with storeLog := s.storeLog ++ [(b, k, a)] }
       let s1 := s0.watched.foldl (fun s p => if p.1.matchesService k.toService
            then p.2.foldl (fun s l => if b then s.listenerOffered l k a else s.listenerStopped l k a) s else s) s0
       s1.watchAll.foldl (fun s id => if b then s.listenerOffered (.ext id) k a else s.listenerStopped (.ext id) k a) s1) := by
  unfold notifyService; simp only []

/-- an offer for a service nobody watches and that is not stored changes nothing -/
theorem c05_unwatched_offer_ignored (s : Stack) (e : SDEntry) (a : Addr) (hw : s.isWatching e = false) (httl : e.ttl ≠ 0) :
    s.handleOffer e a = s := by
  simp [handleOffer, hw, httl]

end Someip
