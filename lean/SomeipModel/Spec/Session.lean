/-
  Specifications of reboot detection (C07) and outgoing session numbering (C08), written on the
  message history alone - no state machine.
-/
import SomeipModel.Model.Session
namespace Someip.Spec

/-- the last message of `hist` from the same sender on the same channel -/
def lastSame (hist : List RxMsg) (m : RxMsg) : Option RxMsg :=
  hist.reverse.find? (fun p => decide (p.sender = m.sender ∧ p.mc = m.mc))

/-- C07: a reboot is signalled for `m` (received after `hist`) exactly when there is a previous
message `p` on the same (sender, channel), `m` carries the reboot flag, and `p` did not carry it or
the session id did not increase.  (`0 < p.sid`: id 0 is never sent by a SOME/IP peer; with ids ≥ 1
the clause is vacuous.) -/
def detects (hist : List RxMsg) (m : RxMsg) : Bool :=
  match lastSame hist m with
  | none => false
  | some p => m.flag && (!p.flag || (decide (0 < p.sid) && decide (m.sid ≤ p.sid)))

/-- detections of a whole history, message by message -/
def detections : List RxMsg → List RxMsg → List Bool
  | _, [] => []
  | hist, m :: r => detects hist m :: detections (hist ++ [m]) r

/-- C08: the k-th (k = 0, 1, ...) transmission to one destination carries this session id ... -/
def kthId (k : Nat) : Nat := k % 65535 + 1
/-- ... and this reboot flag: set exactly before the destination's first wrap-around -/
def kthFlag (k : Nat) : Bool := decide (k < 65535)

/-- number of earlier transmissions to `d` -/
def countBefore (hist : List Dest) (d : Dest) : Nat := (hist.filter (fun x => decide (x = d))).length

def expectedSends : List Dest → List Dest → List (Bool × Nat)
  | _, [] => []
  | hist, d :: r => (kthFlag (countBefore hist d), kthId (countBefore hist d)) :: expectedSends (hist ++ [d]) r

end Someip.Spec
