/-
  C16 specification: the reply table of the property statement, written as "the first failing
  check decides", independent of the nested-if structure of the model.
-/
import SomeipModel.Model.Service
namespace Someip.Spec

/-- the ordered checks: (fails?, return code of the ERROR reply) -/
def checks (c : SvcCfg) (m : Header) : List (Bool × RetCode) :=
  [ (decide (m.sid ≠ c.serviceId), .unknownService),
    (decide (m.iv ≠ c.versionMajor), .wrongInterfaceVersion),
    ((c.method m.mid).isNone, .unknownMethod),
    (decide (m.mt ≠ .request ∧ m.mt ≠ .requestNoReturn), .wrongMessageType),
    (decide (m.rc ≠ .ok), .wrongMessageType),
    (decide (c.method m.mid = some .malformed), .malformedMessage) ]

def firstFailing (c : SvcCfg) (m : Header) : Option RetCode :=
  ((checks c m).find? (·.1)).map (·.2)

/-- ids, protocol and interface version of the request are echoed -/
def echo (m : Header) (mt : MsgType) (rc : RetCode) (payload : Bytes) : Header :=
  { sid := m.sid, mid := m.mid, cid := m.cid, sess := m.sess, iv := m.iv, pv := m.pv, mt, rc, payload }

def reply (c : SvcCfg) (m : Header) (multicast : Bool) : List Header :=
  if multicast then [] else
  match firstFailing c m with
  | some code => [echo m .error code []]
  | none =>
    match c.method m.mid, m.mt with
    | some (.bytes b), .request => [echo m .response .ok b]
    | _, _ => []

end Someip.Spec
