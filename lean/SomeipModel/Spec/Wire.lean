/-
  Wire layouts written from the SOME/IP specification (PRS_SOMEIP), independent of the
  model's packers: these are the right-hand sides of the layout theorems.
-/
import SomeipModel.Model.Header
namespace Someip.Spec

/-- the 16-byte SOME/IP header followed by the payload -/
def layout (h : Header) : Bytes :=
  be16 h.sid ++ be16 h.mid ++ be32 (h.payload.length + 8) ++ be16 h.cid ++ be16 h.sess ++
  [h.pv, h.iv, h.mt.toNat, h.rc.toNat] ++ h.payload

/-- every numeric field fits its wire width -/
def FitsNum (h : Header) : Prop :=
  h.sid < 65536 ∧ h.mid < 65536 ∧ h.cid < 65536 ∧ h.sess < 65536 ∧ h.pv < 256 ∧ h.iv < 256 ∧
  h.payload.length + 8 < 4294967296

/-- the message is representable: numeric fields fit and the payload is a byte string -/
def Fits (h : Header) : Prop := FitsNum h ∧ AllBytes h.payload

instance (h : Header) : Decidable (FitsNum h) := by unfold FitsNum; infer_instance
instance (h : Header) : Decidable (Fits h) := by unfold Fits; infer_instance

end Someip.Spec
