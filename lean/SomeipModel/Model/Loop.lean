/-
  Event-loop model: FIFO ready queue of defunctionalised callbacks, timer set, integer virtual clock.
  Mirrors asyncio's call_soon / call_later / Handle.cancel as used by someip.sd.
-/
import SomeipModel.Model.Bytes
namespace Someip

/-- an entry of `loop._ready`; `seq` identifies a fired timer handle (so that it can still be cancelled) -/
structure RItem (Cb : Type) where
  seq : Option Nat
  cb : Cb
deriving Repr

/-- an entry of `loop._scheduled` (cancelled handles are removed) -/
structure Timer (Cb : Type) where
  seq : Nat
  deadline : Nat
  cb : Cb
deriving Repr

structure Loop (Cb : Type) where
  now : Nat := 0                       -- ticks (1 tick = 1 ms)
  ready : List (RItem Cb) := []        -- head runs first
  timers : List (Timer Cb) := []
  nextSeq : Nat := 0
deriving Repr

namespace Loop
variable {Cb : Type}

/-- `loop.call_soon(cb)` -/
def callSoon (l : Loop Cb) (cb : Cb) : Loop Cb := { l with ready := l.ready ++ [⟨none, cb⟩] }

/-- `loop.call_later(delay, cb)`; returns the handle's sequence number -/
def callLater (l : Loop Cb) (delay : Nat) (cb : Cb) : Loop Cb × Nat :=
  ({ l with timers := l.timers ++ [⟨l.nextSeq, l.now + delay, cb⟩], nextSeq := l.nextSeq + 1 }, l.nextSeq)

/-- `handle.cancel()` for a timer handle, pending or already moved to the ready queue.  A handle is
identified by its sequence number; `own` says which kind of callback the caller's handle carries
(asyncio cancels by object identity: a component can only ever cancel its own handles). -/
def cancel (l : Loop Cb) (own : Cb → Bool) (seq : Nat) : Loop Cb :=
  { l with timers := l.timers.filter (fun t => !(decide (t.seq = seq) && own t.cb)),
           ready := l.ready.filter (fun r => !(decide (r.seq = some seq) && own r.cb)) }

def cancelOpt (l : Loop Cb) (own : Cb → Bool) : Option Nat → Loop Cb
  | none => l
  | some s => l.cancel own s

/-- is some timer due? -/
def anyDue (l : Loop Cb) : Bool := l.timers.any (fun t => decide (t.deadline ≤ l.now))

/-- `fire s`: move the due timer `s` (one handle: the first with that sequence number) to the tail of the ready queue -/
def fire (l : Loop Cb) (seq : Nat) : Option (Loop Cb) :=
  match l.timers.find? (fun t => decide (t.seq = seq)) with
  | none => none
  | some t =>
    if t.deadline ≤ l.now then
      some { l with timers := l.timers.eraseP (fun t => decide (t.seq = seq)), ready := l.ready ++ [⟨some seq, t.cb⟩] }
    else none

/-- `adv t`: only when idle, never past a deadline (prompt loop) -/
def adv (l : Loop Cb) (t : Nat) : Option (Loop Cb) :=
  if l.ready.isEmpty ∧ l.now < t ∧ l.timers.all (fun x => decide (t ≤ x.deadline)) then some { l with now := t } else none

/-- `run`: pop the head of the ready queue -/
def pop (l : Loop Cb) : Option (Cb × Loop Cb) :=
  match l.ready with
  | [] => none
  | r :: rest => some (r.cb, { l with ready := rest })

end Loop
end Someip
