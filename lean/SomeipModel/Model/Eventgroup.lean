/-
  Model of someip.service.SimpleEventgroup / SimpleService's subscription glue (C17), at task granularity:
  `create_task` appends to a FIFO of pending notification tasks, address resolution is immediate
  (numeric getaddrinfo), the cyclic task is a timer.  Endpoints are identified with their resolved
  socket address (a small number).
-/
import SomeipModel.Model.Header
import SomeipModel.Model.Session
namespace Someip

/-- which events a notification task iterates: the live `values.keys()` view or an explicit list -/
inductive EvSel | allKeys | list (evs : List Nat)
deriving DecidableEq, Repr, Inhabited

inductive NTask
  | single (ep : Addr) (sel : EvSel)      -- _notify_single(endpoint, events)
  | all (sel : EvSel)                     -- _notify_all(events): one _notify_single per current subscriber
  | cycStep                               -- a step of the cyclic_notify task (first step, or woken by has_clients.set())
deriving DecidableEq, Repr, Inhabited

/-- the cyclic_notify task: not present / step queued (created or woken) / waiting for has_clients / sleeping -/
inductive CycSt | off | created | woken | waitClients | sleeping (deadline : Nat)
deriving DecidableEq, Repr, Inhabited

structure EG where
  serviceId : Nat
  major : Nat
  egid : Nat
  interval : Nat := 0                      -- 0 = no cyclic task
  subscribed : List Addr := []             -- set of endpoints
  hasClients : Bool := false
  values : List (Nat × Bytes) := []        -- dict: insertion ordered
  pending : List NTask := []               -- tasks whose first step is queued, FIFO
  cyc : CycSt := .off
  outgoing : Outgoing := []
  now : Nat := 0
  sent : List (Nat × Addr × Bytes) := []   -- (time, destination, datagram): monotone history
  idLog : List (Dest × (Bool × Nat)) := [] -- ghost: every (reboot flag, session id) drawn for a notification, with its destination
  rounds : List (List Addr × Nat) := []    -- ghost: the subscribers at the start of each notification round, and the length of `sent` then
deriving Repr, Inhabited

namespace EG

def setValue (g : EG) (ev : Nat) (v : Bytes) : EG :=
  if g.values.any (fun p => decide (p.1 = ev)) then
    { g with values := g.values.map (fun p => if p.1 = ev then (ev, v) else p) }
  else { g with values := g.values ++ [(ev, v)] }

/-- the notification for event `ev` with session id `sess`: service id, method id 0x8000 | event, client 0, the major
version as interface version, type NOTIFICATION (return code OK, protocol version 1 by default) -/
def notif (g : EG) (ev sess : Nat) (payload : Bytes) : Header :=
  { sid := g.serviceId, mid := 0x8000 ||| ev, cid := 0, sess := sess, iv := g.major, mt := .notification, payload := payload }

/-- the loop body of `_notify_single`: one message per event, one session id each; an unknown event
id (KeyError, logged) aborts the task: nothing is sent but the ids already taken stay consumed -/
def buildMsgs (g : EG) (ep : Addr) : List Nat → Outgoing → Bytes → Option (Outgoing × Bytes) × Outgoing
  | [], out, acc => (some (out, acc), out)
  | ev :: r, out, acc =>
    match alookup g.values ev with
    | none => (none, out)
    | some payload =>
      let a := assignOutgoing out (some ep)
      let h : Header := g.notif ev a.1.2 payload
      match h.build with
      | none => (none, a.2)
      | some b => buildMsgs g ep r a.2 (acc ++ b)

/-- ghost mirror of `buildMsgs`: the (flag, id) pairs it draws, in order -/
def idsTaken (g : EG) (ep : Addr) : List Nat → Outgoing → List (Bool × Nat)
  | [], _ => []
  | ev :: r, out =>
    match alookup g.values ev with
    | none => []
    | some payload =>
      let a := assignOutgoing out (some ep)
      let h : Header := g.notif ev a.1.2 payload
      match h.build with
      | none => [a.1]
      | some _ => a.1 :: idsTaken g ep r a.2

def logIds (g : EG) (ep : Addr) (ids : List (Bool × Nat)) : EG := { g with idLog := g.idLog ++ ids.map (fun x => (some ep, x)) }
def logRound (g : EG) : EG := { g with rounds := g.rounds ++ [(g.subscribed, g.sent.length)] }

def evList (g : EG) : EvSel → List Nat
  | .allKeys => g.values.map (·.1)
  | .list l => l

/-- run one pending task -/
def runTask (g : EG) : NTask → EG
  | .single ep sel =>
    let r := buildMsgs g ep (g.evList sel) g.outgoing []
    let g := g.logIds ep (g.idsTaken ep (g.evList sel) g.outgoing)
    match r.1 with
    | none => { g with outgoing := r.2 }
    | some (out, buf) =>
      if buf.isEmpty then { g with outgoing := out }
      else { g with outgoing := out, sent := g.sent ++ [(g.now, ep, buf)] }
  | .all sel => { g.logRound with pending := g.pending ++ g.subscribed.map (fun ep => NTask.single ep sel) }
  | .cycStep =>
    match g.cyc with
    | .created => { g with cyc := if g.hasClients then .sleeping (g.now + g.interval) else .waitClients }
    | .woken => { g with cyc := .sleeping (g.now + g.interval) }    -- the wait() future was resolved: go on, clients or not
    | _ => g

/-- run pending tasks until none is left (tasks created meanwhile included); fuel bounds the recursion -/
def settle : Nat → EG → EG
  | 0, g => g
  | fuel + 1, g =>
    match g.pending with
    | [] => g
    | t :: r => settle fuel (({ g with pending := r }).runTask t)

/-- `SimpleEventgroup.subscribe(endpoint)` -/
def subscribe (g : EG) (ep : Addr) : EG :=
  let g := { g with subscribed := if ep ∈ g.subscribed then g.subscribed else g.subscribed ++ [ep] }
  let g := if g.hasClients then g else
    match g.cyc with
    | .waitClients => { g with hasClients := true, cyc := .woken, pending := g.pending ++ [NTask.cycStep] }
    | _ => { g with hasClients := true }
  { g with pending := g.pending ++ [NTask.single ep .allKeys] }

/-- `SimpleEventgroup.unsubscribe(endpoint)`; `none` = KeyError (endpoint was not subscribed) -/
def unsubscribe (g : EG) (ep : Addr) : Option EG :=
  if ep ∈ g.subscribed then
    let s := g.subscribed.erase ep
    some { g with subscribed := s, hasClients := if s.isEmpty then false else g.hasClients }
  else none

/-- `notify_once(events)` -/
def notifyOnce (g : EG) (evs : List Nat) : EG :=
  if g.hasClients then { g with pending := g.pending ++ [NTask.all (.list evs)] } else g

/-- the cyclic task wakes up: one round for all events, then sleep again / wait for clients -/
def cyclicWake (g : EG) : EG :=
  let g := { g with pending := g.pending ++ [NTask.all .allKeys] }
  let g := g.settle (g.pending.length + g.subscribed.length + 2)
  { g with cyc := if g.hasClients then .sleeping (g.now + g.interval) else .waitClients }

/-- let time pass up to `t`: cyclic rounds happen at their deadlines, in order -/
def advance : Nat → EG → Nat → EG
  | 0, g, t => { g with now := max g.now t }
  | fuel + 1, g, t =>
    match g.cyc with
    | .sleeping d =>
      if d ≤ t then advance fuel (({ g with now := max g.now d }).cyclicWake) t
      else { g with now := max g.now t }
    | _ => { g with now := max g.now t }

/-- `SimpleService.client_subscribed` glue: does the listener accept (false = NakSubscription)? -/
def clientSubscribed (g : EG) (egid : Nat) (endpoints : List Addr) : EG × Bool :=
  if egid ≠ g.egid then (g, false)
  else match endpoints with
    | [ep] => (g.subscribe ep, true)
    | _ => (g, false)

end EG
end Someip
