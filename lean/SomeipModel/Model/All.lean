import SomeipModel.Model.Bytes
import SomeipModel.Model.Header
