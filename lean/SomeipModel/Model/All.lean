import SomeipModel.Model.Bytes
import SomeipModel.Model.Header
import SomeipModel.Model.SDOption
import SomeipModel.Model.SDEntry
import SomeipModel.Model.Config
import SomeipModel.Model.Session
import SomeipModel.Model.Service
import SomeipModel.Model.Stream
