/-
  Model of someip/config.py: Service and Eventgroup descriptions, wildcard matching, conversions to
  and from SD entries.
-/
import SomeipModel.Model.SDEntry
namespace Someip

def WILD_IID : Nat := 0xFFFF
def WILD_MAJ : Nat := 0xFF
def WILD_MIN : Nat := 0xFFFFFFFF

structure Service where
  sid : Nat
  iid : Nat := 0xFFFF
  maj : Nat := 0xFF
  min : Nat := 0xFFFFFFFF
  opts1 : List SDOption := []       -- compare=False in the dataclass
  opts2 : List SDOption := []       -- compare=False
  eventgroups : List Nat := []      -- frozenset of eventgroup ids
deriving DecidableEq, Repr, Inhabited

/-- the fields that take part in `==` / `hash` of the dataclass (options are excluded; the
eventgroup set is compared as a set: callers keep it sorted and duplicate free) -/
def Service.key (s : Service) : Nat × Nat × Nat × Nat × List Nat :=
  (s.sid, s.iid, s.maj, s.min, s.eventgroups)

/-- `Service.matches_offer(entry)`; ValueError if the entry is no OfferService -/
def Service.matchesOffer (s : Service) (e : SDEntry) : Except Err Bool :=
  if e.ty ≠ .offer then .error .value else
  .ok (decide (s.sid = e.sid) && (decide (s.iid = 0xFFFF) || decide (s.iid = e.iid)) &&
       (decide (s.maj = 0xFF) || decide (s.maj = e.maj)) &&
       (decide (s.min = 0xFFFFFFFF) || decide (s.min = e.val)))

/-- `Service.matches_find(entry)`: the wildcards are honoured on the entry's side -/
def Service.matchesFind (s : Service) (e : SDEntry) : Except Err Bool :=
  if e.ty ≠ .find then .error .value else
  .ok (decide (s.sid = e.sid) && (decide (e.iid = 0xFFFF) || decide (s.iid = e.iid)) &&
       (decide (e.maj = 0xFF) || decide (s.maj = e.maj)) &&
       (decide (e.val = 0xFFFFFFFF) || decide (s.min = e.val)))

/-- `Service.matches_subscribe(entry)` -/
def Service.matchesSubscribe (s : Service) (e : SDEntry) : Except Err Bool :=
  if e.ty ≠ .subscribe then .error .value else
  .ok (decide (s.sid = e.sid) && (decide (s.iid = 0xFFFF) || decide (s.iid = e.iid)) &&
       (decide (s.maj = 0xFF) || decide (s.maj = e.maj)) && decide (e.eventgroupId ∈ s.eventgroups))

/-- `Service.matches_service(other)`: wildcards on either side -/
def Service.matchesService (s o : Service) : Bool :=
  decide (s.sid = o.sid) &&
  (decide (s.iid = 0xFFFF) || decide (o.iid = 0xFFFF) || decide (s.iid = o.iid)) &&
  (decide (s.maj = 0xFF) || decide (o.maj = 0xFF) || decide (s.maj = o.maj)) &&
  (decide (s.min = 0xFFFFFFFF) || decide (o.min = 0xFFFFFFFF) || decide (s.min = o.min))

def Service.createFindEntry (s : Service) (ttl : Nat) : SDEntry :=
  { ty := .find, sid := s.sid, iid := s.iid, maj := s.maj, ttl, val := s.min }

def Service.createOfferEntry (s : Service) (ttl : Nat) : SDEntry :=
  { ty := .offer, sid := s.sid, iid := s.iid, maj := s.maj, ttl, val := s.min,
    opts1 := s.opts1, opts2 := s.opts2 }

/-- `Service.from_offer_entry(entry)` -/
def Service.fromOfferEntry (e : SDEntry) : Except Err Service :=
  if e.ty ≠ .offer then .error .value
  else if e.idx.isSome then .error .value
  else .ok { sid := e.sid, iid := e.iid, maj := e.maj, min := e.val, opts1 := e.opts1, opts2 := e.opts2 }

/-- a socket name: address family by length of the packed address (4 / 16 bytes), and the port -/
structure SockName where
  addr : Bytes
  port : Nat
deriving DecidableEq, Repr, Inhabited

structure Eventgroup where
  sid : Nat
  iid : Nat
  maj : Nat
  egid : Nat
  sockname : SockName
  proto : Nat
deriving DecidableEq, Repr, Inhabited

/-- `Eventgroup._sockaddr_to_endpoint` (getnameinfo on numeric input is the identity: trusted) -/
def sockaddrToEndpoint (sn : SockName) (proto : Nat) : SDOption :=
  if sn.addr.length = 4 then .ipv4 .endpoint sn.addr proto sn.port
  else .ipv6 .endpoint sn.addr proto sn.port

def Eventgroup.createSubscribeEntry (g : Eventgroup) (ttl : Nat) (counter : Nat := 0) : SDEntry :=
  { ty := .subscribe, sid := g.sid, iid := g.iid, maj := g.maj, ttl,
    val := (counter * 65536) ||| g.egid, opts1 := [sockaddrToEndpoint g.sockname g.proto] }

def Eventgroup.asService (g : Eventgroup) : Service :=
  { sid := g.sid, iid := g.iid, maj := g.maj }

/-- `Eventgroup.for_service(service)` -/
def Eventgroup.forService (g : Eventgroup) (s : Service) : Option Eventgroup :=
  match g.asService.matchesOffer (s.createOfferEntry 3) with
  | .ok true => some { g with iid := s.iid, maj := s.maj }
  | _ => none

end Someip
