/-
  Model of someip.service.SimpleService.message_received (method dispatch and replies).
-/
import SomeipModel.Model.Header
namespace Someip

/-- what a registered method handler does with a request -/
inductive HandlerResult
  | bytes (b : Bytes)     -- returns a payload
  | nothing               -- returns None
  | malformed             -- raises MalformedMessageError
deriving DecidableEq, Repr, Inhabited

structure SvcCfg where
  serviceId : Nat
  versionMajor : Nat
  methods : List (Nat × HandlerResult)     -- registered method ids with their (scripted) handler
deriving Repr, Inhabited

def SvcCfg.method (c : SvcCfg) (mid : Nat) : Option HandlerResult :=
  (c.methods.find? (fun p => decide (p.1 = mid))).map (·.2)

def errorReply (m : Header) (rc : RetCode) : Header :=
  { m with mt := .error, rc := rc, payload := [] }
def positiveReply (m : Header) (payload : Bytes) : Header :=
  { m with mt := .response, payload := payload }

/-- `SimpleService.message_received`: the replies handed to `send` (all to the sender's address) -/
def SvcCfg.messageReceived (c : SvcCfg) (m : Header) (multicast : Bool) : List Header :=
  if multicast then []
  else if m.sid ≠ c.serviceId then [errorReply m .unknownService]
  else if m.iv ≠ c.versionMajor then [errorReply m .wrongInterfaceVersion]
  else match c.method m.mid with
  | none => [errorReply m .unknownMethod]
  | some h =>
    if m.mt ≠ .request ∧ m.mt ≠ .requestNoReturn then [errorReply m .wrongMessageType]
    else if m.rc ≠ .ok then [errorReply m .wrongMessageType]
    else match h with
    | .malformed => [errorReply m .malformedMessage]
    | .nothing => []
    | .bytes b => if m.mt = .request then [positiveReply m b] else []

end Someip
