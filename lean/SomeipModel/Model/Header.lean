/-
  Model of someip.header.SOMEIPHeader: build / parse, and of the `while data:` loop of
  SOMEIPDatagramProtocol.datagram_received (someip/sd.py).
-/
import SomeipModel.Model.Bytes
namespace Someip

def SD_SERVICE : Nat := 0xFFFF
def SD_METHOD : Nat := 0x8100
def SD_INTERFACE_VERSION : Nat := 1
/-- the `struct` format of the SOME/IP header the packers below implement (tied to the source) -/
def Header.format : String := "!HHIHHBBBB"

inductive MsgType
  | request | requestNoReturn | notification | requestAck | requestNoReturnAck
  | notificationAck | response | error | responseAck | errorAck
deriving DecidableEq, Repr, Inhabited

def MsgType.toNat : MsgType → Nat
  | .request => 0x00 | .requestNoReturn => 0x01 | .notification => 0x02
  | .requestAck => 0x40 | .requestNoReturnAck => 0x41 | .notificationAck => 0x42
  | .response => 0x80 | .error => 0x81 | .responseAck => 0xC0 | .errorAck => 0xC1

def MsgType.all : List MsgType :=
  [.request, .requestNoReturn, .notification, .requestAck, .requestNoReturnAck,
   .notificationAck, .response, .error, .responseAck, .errorAck]

/-- `SOMEIPMessageType(b)`; `none` is Python's `ValueError` -/
def MsgType.ofNat? (n : Nat) : Option MsgType := MsgType.all.find? (fun m => m.toNat == n)

inductive RetCode
  | ok | notOk | unknownService | unknownMethod | notReady | notReachable | timeout
  | wrongProtocolVersion | wrongInterfaceVersion | malformedMessage | wrongMessageType
deriving DecidableEq, Repr, Inhabited

def RetCode.toNat : RetCode → Nat
  | .ok => 0 | .notOk => 1 | .unknownService => 2 | .unknownMethod => 3 | .notReady => 4
  | .notReachable => 5 | .timeout => 6 | .wrongProtocolVersion => 7
  | .wrongInterfaceVersion => 8 | .malformedMessage => 9 | .wrongMessageType => 10

def RetCode.all : List RetCode :=
  [.ok, .notOk, .unknownService, .unknownMethod, .notReady, .notReachable, .timeout,
   .wrongProtocolVersion, .wrongInterfaceVersion, .malformedMessage, .wrongMessageType]

def RetCode.ofNat? (n : Nat) : Option RetCode := RetCode.all.find? (fun m => m.toNat == n)

structure Header where
  sid : Nat
  mid : Nat
  cid : Nat
  sess : Nat
  iv : Nat
  mt : MsgType
  pv : Nat := 1
  rc : RetCode := .ok
  payload : Bytes := []
deriving DecidableEq, Repr, Inhabited

/-- `SOMEIPHeader.build`: `struct.Struct("!HHIHHBBBB").pack(...) + payload`; `none` = `struct.error` -/
def Header.build (h : Header) : Option Bytes := do
  let a ← pack16 h.sid
  let b ← pack16 h.mid
  let c ← pack32 (h.payload.length + 8)
  let d ← pack16 h.cid
  let e ← pack16 h.sess
  let f ← pack8 h.pv
  let g ← pack8 h.iv
  let i ← pack8 h.mt.toNat
  let j ← pack8 h.rc.toNat
  pure (a ++ b ++ c ++ d ++ e ++ f ++ g ++ i ++ j ++ h.payload)

/-- result of `_parse_header`: the length field and everything but the payload -/
def Header.parseFields (sid mid size cid sess pv iv mtb rcb : Nat) : Except Err (Nat × Header) :=
  if pv ≠ 1 then .error .parse else
  match MsgType.ofNat? mtb with
  | none => .error .parse
  | some mt =>
    match RetCode.ofNat? rcb with
    | none => .error .parse
    | some rc =>
      if size < 8 then .error .parse else
      .ok (size, { sid, mid, cid, sess, iv, mt, pv, rc, payload := [] })

/-- `SOMEIPHeader.parse` -/
def Header.parse : Bytes → Except Err (Header × Bytes)
  | s1 :: s0 :: m1 :: m0 :: l3 :: l2 :: l1 :: l0 :: c1 :: c0 :: e1 :: e0 :: pv :: iv :: mtb :: rcb :: rest =>
    match Header.parseFields (u16 s1 s0) (u16 m1 m0) (u32 l3 l2 l1 l0) (u16 c1 c0) (u16 e1 e0) pv iv mtb rcb with
    | .error e => .error e
    | .ok (size, h) =>
      if rest.length < size - 8 then .error .incomplete
      else .ok ({ h with payload := rest.take (size - 8) }, rest.drop (size - 8))
  | _ => .error .incomplete

/-- the receive loop of `datagram_received`: messages delivered in order, and the error (if any)
that ended the loop.  `fuel` only makes the recursion structural; `datagram` supplies enough. -/
def datagramAux : Nat → Bytes → List Header × Option Err
  | 0, _ => ([], none)
  | fuel + 1, b =>
    if b.isEmpty then ([], none) else
    match Header.parse b with
    | .error e => ([], some e)
    | .ok (h, r) =>
      let res := datagramAux fuel r
      (h :: res.1, res.2)

def datagram (b : Bytes) : List Header × Option Err := datagramAux b.length b

end Someip
