/-
  Model of someip.sd: ServiceDiscoveryProtocol with ServiceDiscover, ServiceSubscriber,
  ServiceAnnouncer / ServiceInstance / SendCollector and TimedStore, over the event-loop model.
  Coroutines are explicit program counters; asyncio's hop structure (create_task = one hop,
  sleep(0) = bare yield, sleep(d>0) = timer + one hop, cancel = mark + hop) is kept.
-/
import SomeipModel.Model.Loop
import SomeipModel.Model.Config
import SomeipModel.Model.Session
import SomeipModel.Model.Header
namespace Someip

def TTL_FOREVER : Nat := 0xFFFFFF
def TICKS_PER_S : Nat := 1000

structure Timings where
  initialDelayMin : Nat := 0           -- all delays in ticks
  initialDelayMax : Nat := 3000
  reqRespDelayMin : Nat := 10
  reqRespDelayMax : Nat := 50
  repetitionsMax : Nat := 3
  repetitionsBaseDelay : Nat := 10
  cyclicOfferDelay : Nat := 1000        -- 0 = no cyclic offers
  findTtl : Nat := 3                    -- TTLs in seconds, as on the wire
  announceTtl : Nat := 3
  subscribeTtl : Nat := 5
  subscribeRefresh : Option Nat := some 3000
  sendCollectionTimeout : Nat := 5
deriving Repr, Inhabited

abbrev LId := Nat

inductive Listener
  | ext (id : LId)                      -- application listener (recorded)
  | auto (eg : Eventgroup)              -- AutoSubscribeServiceListener(subscriber, eg)
deriving DecidableEq, Repr, Inhabited

/-- identity of a found service (the dataclass key; eventgroups are always empty for offers) -/
structure SvcKey where
  sid : Nat
  iid : Nat
  maj : Nat
  min : Nat
deriving DecidableEq, Repr, Inhabited

def SvcKey.toService (k : SvcKey) : Service := { sid := k.sid, iid := k.iid, maj := k.maj, min := k.min }
def Service.svcKey (s : Service) : SvcKey := ⟨s.sid, s.iid, s.maj, s.min⟩

/-- identity of a server-side subscription (EventgroupSubscription without ttl / other options) -/
structure SubKey where
  sid : Nat
  iid : Nat
  maj : Nat
  egid : Nat
  counter : Nat
  endpoints : List SDOption             -- frozenset: duplicate free, compared as a set
deriving DecidableEq, Repr, Inhabited

def subset {α} [DecidableEq α] (a b : List α) : Bool := a.all (fun x => decide (x ∈ b))
def SubKey.same (a b : SubKey) : Bool :=
  decide (a.sid = b.sid ∧ a.iid = b.iid ∧ a.maj = b.maj ∧ a.egid = b.egid ∧ a.counter = b.counter) &&
  subset a.endpoints b.endpoints && subset b.endpoints a.endpoints

/-- `EventgroupSubscription.from_subscribe_entry` (key part) -/
def SubKey.ofEntry (e : SDEntry) : SubKey :=
  { sid := e.sid, iid := e.iid, maj := e.maj, egid := e.eventgroupId, counter := e.eventgroupCounter,
    endpoints := (e.options.filter SDOption.isEndpoint).eraseDups }

/-- `to_ack_entry` with the given ttl -/
def SubKey.ackEntry (k : SubKey) (ttl : Nat) : SDEntry :=
  { ty := .subscribeAck, sid := k.sid, iid := k.iid, maj := k.maj, ttl, val := (k.counter * 65536) ||| k.egid }

/-! ### TimedStore -/

structure TSEntry (K : Type) where
  key : K
  timer : Option Nat
deriving Repr

/-- `store: Dict[addr, Dict[key, (callback, handle)]]` as ordered association lists (dict order) -/
abbrev TStore (K : Type) := List (Addr × List (TSEntry K))

namespace TStore
variable {K : Type}

def get (s : TStore K) (a : Addr) : List (TSEntry K) := ((s.find? (fun p => decide (p.1 = a))).map (·.2)).getD []
/-- `self.store[address]` on a defaultdict: creates the (empty) entry if missing -/
def touch (s : TStore K) (a : Addr) : TStore K := if s.any (fun p => decide (p.1 = a)) then s else s ++ [(a, [])]
def set (s : TStore K) (a : Addr) (es : List (TSEntry K)) : TStore K :=
  (s.touch a).map (fun p => if p.1 = a then (a, es) else p)
def findKey (same : K → K → Bool) (es : List (TSEntry K)) (k : K) : Option (TSEntry K) := es.find? (fun e => same e.key k)
def eraseKey (same : K → K → Bool) (es : List (TSEntry K)) (k : K) : List (TSEntry K) := es.filter (fun e => !same e.key k)
def allKeys (s : TStore K) : List (Addr × K) := s.flatMap (fun p => p.2.map (fun e => (p.1, e.key)))

end TStore

/-! ### callbacks, tasks, state -/

inductive TaskKind | offer (inst : Nat) | find | subscribe
deriving DecidableEq, Repr, Inhabited

inductive Pc | created | initial | rep (i : Nat) | cyclic | done
deriving DecidableEq, Repr, Inhabited

/-- a task is identified by who created it and a per-creator running number: a reference to an asyncio.Task is an
object reference, only its creator holds it, and nobody can reach another component's task through its own -/
abbrev Tid := TaskKind × Nat

structure TaskSt where
  pc : Pc := .created
  cancelled : Bool := false       -- CancelledError is thrown at the next step
  waiting : Bool := false         -- suspended on a sleep future
  sleep : Option Nat := none      -- seq of that sleep's timer handle
deriving Repr, Inhabited

inductive Part | subscriber | discovery | announcer
deriving DecidableEq, Repr, Inhabited

inductive Cb
  | connLost (p : Part)
  | expiredSvc (a : Addr) (k : SvcKey)
  | expiredSub (inst : Nat) (a : Addr) (k : SubKey)
  | sendStartSubscribe (dest : Addr) (egs : List Eventgroup)
  | sendStopSubscribe (dest : Addr) (egs : List Eventgroup)
  | sendOfferTo (inst : Nat) (remote : Addr)
  | collectorTimeout (cid : Nat)
  | taskStep (tid : Tid)
  | sleepDone (tid : Tid)
deriving Repr, Inhabited

/-- ghost events of one service instance: `start()`, `stop()`, an OfferService handed to `queue_send` (to the multicast group,
or `remote` = as a unicast answer), a StopOffer handed to `queue_send` -/
inductive OEv | start | stop | offer (remote : Bool) | stopOffer
deriving DecidableEq, Repr, Inhabited

inductive Out
  | send (dest : Dest) (bytes : Bytes)
  | offered (l : LId) (k : SvcKey) (a : Addr)
  | stopped (l : LId) (k : SvcKey) (a : Addr)
  | subscribed (inst : Nat) (k : SubKey) (a : Addr)
  | unsubscribed (inst : Nat) (k : SubKey) (a : Addr)
  | raised (e : Err)
  | queued (dest : Dest) (e : SDEntry)      -- ghost: a `queue_send` request (observed by wrapping the method)
deriving Repr, Inhabited

structure Collector where
  cid : Nat
  dest : Dest
  data : List SDEntry := []
  done : Bool := false
deriving Repr, Inhabited

structure Instance where
  service : Service
  nakEgs : List Nat := []              -- eventgroups the (scripted) listener rejects
  canAnswer : Bool := false
  task : Option Nat := none            -- `_task`: none = stopped
  subs : TStore SubKey := []
  announced : Bool := false            -- member of announcer.announcing_services
deriving Repr, Inhabited

structure Stack where
  tm : Timings := {}
  loop : Loop Cb := {}
  outs : List (Nat × Out) := []        -- monotone history of observable effects, time-stamped
  draws : List Nat := []               -- values `random.uniform` will return (clamped into the window)
  incoming : Incoming := []
  outgoing : Outgoing := []
  tasks : List (Tid × TaskSt) := []
  -- ServiceDiscover
  watched : List (Service × List Listener) := []
  watchAll : List LId := []
  found : TStore SvcKey := []
  storeLog : List (Bool × SvcKey × Addr) := []   -- ghost: every store-level notification (true = offered) in order
  refreshLog : List (Addr × SvcKey × Nat × Nat) := []   -- ghost: (source, service, time, ttl) of every TimedStore.refresh of found_services
  armLog : List (Cb × Nat × Nat) := []           -- ghost: (expiry callback, time, ttl) of every TimedStore.refresh that stores an entry (both stores)
  offLog : List (Nat × OEv × Nat) := []          -- ghost: (instance, event, time) of every start / stop of an instance and of every offer / StopOffer it hands to queue_send
  lisLog : List (LId × Bool × SvcKey × Addr) := []   -- ghost: every offered (true) / stopped notification handed to an application listener, in order
  lisDup : Bool := false                             -- ghost: some application listener was registered while it was registered already
  ansLog : List (Nat × Addr × Nat × Nat) := []   -- ghost: (instance, requester, time, delay) of every deferred answer to a multicast FindService
  findMarks : List (Nat × Nat) := []             -- ghost: (find task, time) of its creation and of every round step it runs
  subMarks : List (Option Nat × Nat) := []       -- ghost: (none, time) of every subscriber start; (some n, time) of every refresh round, run by subscribe task n
  sendLog : List (Dest × (Bool × Nat)) := []     -- ghost: every (destination, (reboot flag, session id)) send_sd drew from the session storage
  flushLog : List (Dest × List SDEntry) := []    -- ghost: every batch of queued entries handed to send_sd (zero timeout: singletons; else a closed window)
  findTask : Option Nat := none
  findLog : List (Nat × Nat) := []               -- ghost: (find task, round index) of every FindService message handed to send_sd
  -- ServiceSubscriber
  alive : Bool := false
  subTask : Option Nat := none
  subEntries : List (Eventgroup × Addr) := []
  subLog : List (Addr × Nat × List Eventgroup) := []   -- ghost: every (server, TTL, eventgroups) the subscriber handed to send_sd, in order
  subDup : Bool := false                -- ghost: some subscribe_eventgroup call named a pair that was already requested (outside C14's domain)
  subLost : Bool := false               -- ghost: the subscriber was last stopped without StopSubscribe messages (connection loss)
  -- ServiceAnnouncer
  started : Bool := false
  instances : List Instance := []
  announceOrder : List Nat := []       -- announcing_services (indexes into `instances`)
  collectors : List Collector := []    -- all SendCollectors ever created; send_queues maps dest -> latest
  nextCid : Nat := 0
deriving Repr, Inhabited

namespace Stack

def emit (s : Stack) (o : Out) : Stack := { s with outs := s.outs ++ [(s.loop.now, o)] }
def callSoon (s : Stack) (cb : Cb) : Stack := { s with loop := s.loop.callSoon cb }
def callLater (s : Stack) (d : Nat) (cb : Cb) : Stack × Nat :=
  let r := s.loop.callLater d cb
  ({ s with loop := r.1 }, r.2)
/-- which kind of callback a timer handle carries -/
def isSvcExpiry : Cb → Bool | .expiredSvc _ _ => true | _ => false
/-- the TTL handle of ONE stored service: asyncio cancels by handle identity, and the handle an entry of
`found_services` holds was created for exactly this (address, service) -/
def isSvcExpiryFor (a : Addr) (k : SvcKey) : Cb → Bool | .expiredSvc a' k' => a' == a && k' == k | _ => false
def isSubExpiry : Cb → Bool | .expiredSub _ _ _ => true | _ => false
/-- the TTL handle of ONE stored subscription (handle identity, as for `isSvcExpiryFor`) -/
def isSubExpiryFor (i : Nat) (a : Addr) (k : SubKey) : Cb → Bool
  | .expiredSub i' a' k' => i' == i && a' == a && k' == k
  | _ => false
def isSleep : Cb → Bool | .sleepDone _ => true | _ => false
/-- the sleep handle of ONE task (handle identity, as for `isSvcExpiryFor`): a task cancels its own sleep only -/
def isSleepFor (tid : Tid) : Cb → Bool | .sleepDone t => t == tid | _ => false

def cancelTimer (s : Stack) (own : Cb → Bool) (t : Option Nat) : Stack := { s with loop := s.loop.cancelOpt own t }

/-- `random.uniform(a, b)`: the next scripted draw, clamped into [a, b] -/
def draw (s : Stack) (a b : Nat) : Stack × Nat :=
  match s.draws with
  | [] => (s, a)
  | d :: r => ({ s with draws := r }, max a (min d b))

/-- arm the TTL timer of a TimedStore entry: `call_later(ttl, self._expired, ...)` unless the TTL is infinite -/
def armTtl (s : Stack) (ttl : Nat) (cb : Cb) : Stack × Option Nat :=
  let s := { s with armLog := s.armLog ++ [(cb, s.loop.now, ttl)] }
  if ttl ≠ TTL_FOREVER then
    let r := s.callLater (ttl * TICKS_PER_S) cb
    (r.1, some r.2)
  else (s, none)

/-! #### sending -/

/-- `ServiceDiscoveryProtocol.send_sd(entries, remote)` -/
def sendSd (s : Stack) (entries : List SDEntry) (remote : Dest) : Stack :=
  if entries.isEmpty then s else
  let r := assignOutgoing s.outgoing remote
  let s := { s with outgoing := r.2, sendLog := s.sendLog ++ [(remote, r.1)] }
  let msg : SDHeader := { entries, flagReboot := r.1.1, flagUnicast := true }
  match msg.assignOptionIndexes.build with
  | .error e => s.emit (.raised e)
  | .ok payload =>
    let hdr : Header := { sid := SD_SERVICE, mid := SD_METHOD, cid := 0, sess := r.1.2, iv := 1,
                          mt := .notification, payload }
    match hdr.build with
    | none => s.emit (.raised .struct)
    | some b => s.emit (.send remote b)

/-- a batch of queued entries leaves the announcer: `send_sd(batch, dest)`, recorded in the ghost `flushLog` -/
def flushTo (s : Stack) (es : List SDEntry) (d : Dest) : Stack :=
  ({ s with flushLog := s.flushLog ++ [(d, es)] }).sendSd es d

def latestCollector (s : Stack) (d : Dest) : Option Collector :=
  s.collectors.reverse.find? (fun c => decide (c.dest = d))

def newCollector (s : Stack) (remote : Dest) : Stack × Nat :=
  let cid := s.nextCid
  let r := s.callLater s.tm.sendCollectionTimeout (.collectorTimeout cid)
  let c : Collector := { cid := cid, dest := remote }
  ({ r.1 with collectors := r.1.collectors ++ [c], nextCid := cid + 1 }, cid)

def appendCollector (s : Stack) (cid : Nat) (e : SDEntry) : Stack :=
  { s with collectors := s.collectors.map (fun (c : Collector) => if c.cid = cid then { c with data := c.data ++ [e] } else c) }

/-- `ServiceAnnouncer.queue_send(entry, remote)` -/
def queueSend (s : Stack) (e : SDEntry) (remote : Dest) : Stack :=
  let s := s.emit (.queued remote e)
  if s.tm.sendCollectionTimeout = 0 then s.flushTo [e] remote else
  match s.latestCollector remote with
  | some c =>
    if c.done then
      let r := s.newCollector remote
      r.1.appendCollector r.2 e
    else s.appendCollector c.cid e
  | none =>
    let r := s.newCollector remote
    r.1.appendCollector r.2 e

/-- `SendCollector._handle_timeout` -/
def collectorTimeout (s : Stack) (cid : Nat) : Stack :=
  match s.collectors.find? (fun c => decide (c.cid = cid)) with
  | none => s
  | some c =>
    let s := { s with collectors := s.collectors.map (fun (c : Collector) => if c.cid = cid then { c with done := true } else c) }
    s.flushTo c.data c.dest

/-! #### tasks -/

def getTask (s : Stack) (tid : Tid) : Option TaskSt := alookup s.tasks tid
def setTask (s : Stack) (tid : Tid) (t : TaskSt) : Stack :=
  { s with tasks := s.tasks.map (fun p => if p.1 = tid then (tid, t) else p) }

/-- `loop.create_task(coro)`: the first step is one hop away -/
def taskCount (s : Stack) (kind : TaskKind) : Nat := (s.tasks.filter (fun p => decide (p.1.1 = kind))).length
def createTask (s : Stack) (kind : TaskKind) : Stack × Nat :=
  let n := s.taskCount kind
  (({ s with tasks := s.tasks ++ [((kind, n), ({} : TaskSt))] }).callSoon (.taskStep (kind, n)), n)

/-- `task.cancel()` -/
def cancelTask (s : Stack) (tid : Tid) : Stack :=
  match s.getTask tid with
  | none => s
  | some t =>
    if t.pc = .done then s
    else if t.waiting then (s.setTask tid { t with waiting := false, cancelled := true }).callSoon (.taskStep tid)
    else s.setTask tid { t with cancelled := true }

/-- `await asyncio.sleep(d)` at the end of a step: suspend the task with the given next pc -/
def sleepFor (s : Stack) (tid : Tid) (t : TaskSt) (d : Nat) (pc : Pc) : Stack :=
  if d = 0 then (s.setTask tid { t with pc, waiting := false, sleep := none }).callSoon (.taskStep tid)
  else
    let r := s.callLater d (.sleepDone tid)
    r.1.setTask tid { t with pc, waiting := true, sleep := some r.2 }

def finish (s : Stack) (tid : Tid) (t : TaskSt) : Stack :=
  s.setTask tid { t with pc := .done, waiting := false, sleep := none, cancelled := false }

/-- the timer of a sleep fired: wake the task unless the sleep was cancelled meanwhile -/
def sleepDone (s : Stack) (tid : Tid) : Stack :=
  match s.getTask tid with
  | none => s
  | some t => if t.waiting then (s.setTask tid { t with waiting := false, sleep := none }).callSoon (.taskStep tid) else s

/-! #### service instances / announcer -/

def getInst (s : Stack) (i : Nat) : Option Instance := s.instances[i]?
def setInst (s : Stack) (i : Nat) (x : Instance) : Stack := { s with instances := s.instances.set i x }

/-- ghost: note an event of instance i -/
def logOffer (s : Stack) (i : Nat) (e : OEv) : Stack := { s with offLog := s.offLog ++ [(i, e, s.loop.now)] }

/-- `ServiceInstance._send_offer(remote, stop)` -/
def sendOffer (s : Stack) (i : Nat) (remote : Dest) (stop : Bool) : Stack :=
  match s.getInst i with
  | none => s
  | some x =>
    if !stop && (x.task.isNone || (remote.isSome && !x.canAnswer)) then s   -- nothing follows a StopOffer; no answers in the initial wait phase
    else (s.logOffer i (if stop then .stopOffer else .offer remote.isSome)).queueSend
           (x.service.createOfferEntry (if stop then 0 else s.tm.announceTtl)) remote

def pow2 (i : Nat) : Nat := 2 ^ i

/-- one step of `ServiceInstance._offer_task` -/
def stepOffer (s : Stack) (tid : Tid) (t : TaskSt) (i : Nat) : Stack :=
  let cancelHandler (s : Stack) : Stack :=
    -- except CancelledError: _can_answer_offers = False; finally: StopOffer if cyclic
    let s := match s.getInst i with
      | some x => s.setInst i { x with canAnswer := false }
      | none => s
    let s := if s.tm.cyclicOfferDelay ≠ 0 then s.sendOffer i none true else s
    s.finish tid t
  let afterSend (s : Stack) (k : Nat) : Stack :=
    -- top of the `for i in range(REPETITIONS_MAX)` loop with i = k, resp. what follows it
    if k < s.tm.repetitionsMax then s.sleepFor tid t (pow2 k * s.tm.repetitionsBaseDelay) (.rep k)
    else if s.tm.cyclicOfferDelay = 0 then s.finish tid t
    else s.sleepFor tid t s.tm.cyclicOfferDelay .cyclic
  match t.pc with
  | .created =>
    if t.cancelled then s.finish tid t else
    let r := s.draw s.tm.initialDelayMin s.tm.initialDelayMax
    r.1.sleepFor tid t r.2 .initial
  | .initial =>
    if t.cancelled then s.finish tid t else     -- the first sleep is outside the try block
    let s := s.sendOffer i none false
    let s := match s.getInst i with
      | some x => s.setInst i { x with canAnswer := true }
      | none => s
    afterSend s 0
  | .rep k =>
    if t.cancelled then cancelHandler s else afterSend (s.sendOffer i none false) (k + 1)
  | .cyclic =>
    if t.cancelled then cancelHandler s else
    (s.sendOffer i none false).sleepFor tid t s.tm.cyclicOfferDelay .cyclic
  | .done => s

/-- `ServiceInstance.start()` -/
def instStart (s : Stack) (i : Nat) : Stack :=
  match s.getInst i with
  | none => s
  | some x =>
    if x.task.isSome then s.emit (.raised .runtime) else
    let r := ((s.logOffer i .start).setInst i { x with canAnswer := false }).createTask (.offer i)
    match r.1.getInst i with
    | some x => r.1.setInst i { x with task := some r.2 }
    | none => r.1

/-- listener callbacks of a subscription store -/
def notifyUnsub (s : Stack) (i : Nat) (k : SubKey) (a : Addr) : Stack := s.emit (.unsubscribed i k a)

/-- `TimedStore.stop_all_for_address` on an instance's subscriptions -/
def subsStopAllFor (s : Stack) (i : Nat) (a : Addr) : Stack :=
  match s.getInst i with
  | none => s
  | some x =>
    let es := (x.subs.touch a).get a
    let s := s.setInst i { x with subs := (x.subs.touch a).set a [] }
    es.foldl (fun s e => (s.cancelTimer (isSubExpiryFor i a e.key) e.timer).emit (.unsubscribed i e.key a)) s

/-- `TimedStore.stop_all` -/
def subsStopAll (s : Stack) (i : Nat) : Stack :=
  match s.getInst i with
  | none => s
  | some x =>
    let s := x.subs.foldl (fun s p => s.subsStopAllFor i p.1) s
    match s.getInst i with
    | some x => s.setInst i { x with subs := [] }
    | none => s

/-- `ServiceInstance.stop()` -/
def instStop (s : Stack) (i : Nat) : Stack :=
  match s.getInst i with
  | none => s
  | some x =>
    match x.task with
    | none => s.emit (.raised .runtime)
    | some tid =>
      let s := (s.logOffer i .stop).cancelTask (.offer i, tid)
      let s := s.setInst i { x with task := none, canAnswer := false }
      let s := if s.tm.cyclicOfferDelay = 0 then s.sendOffer i none true else s
      s.subsStopAll i

/-- `ServiceInstance.handle_subscribe(entry, addr)`: did this instance match? -/
def instHandleSubscribe (s : Stack) (i : Nat) (e : SDEntry) (a : Addr) : Stack × Bool :=
  match s.getInst i with
  | none => (s, false)
  | some x =>
    if x.task.isNone then (s, false) else
    match x.service.matchesSubscribe e with
    | .ok true =>
      let k := SubKey.ofEntry e
      if e.ttl = 0 then
        -- eventgroup_subscribe_stopped -> TimedStore.stop
        let subs := x.subs.touch a
        match TStore.findKey SubKey.same (subs.get a) k with
        | none => (s.setInst i { x with subs }, true)
        | some old =>
          let s := s.setInst i { x with subs := subs.set a (TStore.eraseKey SubKey.same (subs.get a) k) }
          ((s.cancelTimer (isSubExpiryFor i a old.key) old.timer).emit (.unsubscribed i k a), true)
      else
        -- TimedStore.refresh with the listener's decision
        let subs := x.subs.touch a
        match TStore.findKey SubKey.same (subs.get a) k with
        | some old =>
          let s := s.cancelTimer (isSubExpiryFor i a old.key) old.timer
          let rest := TStore.eraseKey SubKey.same (subs.get a) k
          let r := s.armTtl e.ttl (.expiredSub i a k)
          let s := r.1.setInst i { x with subs := subs.set a (rest ++ [⟨k, r.2⟩]) }
          (s.queueSend (k.ackEntry e.ttl) (some a), true)
        | none =>
          if k.egid ∈ x.nakEgs then
            -- callback_new raised NakSubscription: nothing stored, negative acknowledgement
            let s := s.setInst i { x with subs }
            (s.queueSend (k.ackEntry 0) (some a), true)
          else
            let s := s.emit (.subscribed i k a)
            let r := s.armTtl e.ttl (.expiredSub i a k)
            let s := r.1.setInst i { x with subs := subs.set a (subs.get a ++ [⟨k, r.2⟩]) }
            (s.queueSend (k.ackEntry e.ttl) (some a), true)
    | _ => (s, false)

/-- `ServiceAnnouncer.handle_subscribe(entry, addr)` -/
def handleSubscribe (s : Stack) (e : SDEntry) (a : Addr) : Stack :=
  let r := s.announceOrder.foldl (fun (acc : Stack × Bool) i =>
      let x := acc.1.instHandleSubscribe i e a
      (x.1, acc.2 || x.2)) (s, false)
  if r.2 then r.1 else r.1.queueSend ((SubKey.ofEntry e).ackEntry 0) (some a)

/-- the instances that answer a FindService entry: announced, already sent their first offer
(`_can_answer_offers`) and matching ids / versions unless the request wildcards them -/
def answering (s : Stack) (e : SDEntry) : List Nat :=
  s.announceOrder.filter (fun i =>
    match s.getInst i with
    | some x => x.canAnswer && (match x.service.matchesFind e with | .ok b => b | _ => false)
    | none => false)

/-- ghost: note that instance i will answer requester a after delay d -/
def logAnswer (s : Stack) (i : Nat) (a : Addr) (d : Nat) : Stack := { s with ansLog := s.ansLog ++ [(i, a, s.loop.now, d)] }

/-- `ServiceAnnouncer.handle_findservice(entry, addr, received_over_multicast)` -/
def handleFind (s : Stack) (e : SDEntry) (a : Addr) (mc : Bool) : Stack :=
  let matching := s.answering e
  if matching.isEmpty then s else
  if mc then
    let r := s.draw s.tm.reqRespDelayMin s.tm.reqRespDelayMax
    matching.foldl (fun s i => ((s.logAnswer i a r.2).callLater r.2 (.sendOfferTo i a)).1) r.1
  else matching.foldl (fun s i => s.callSoon (.sendOfferTo i a)) s

/-- `TimedStore._expired` for a subscription -/
def expiredSub (s : Stack) (i : Nat) (a : Addr) (k : SubKey) : Stack :=
  match s.getInst i with
  | none => s
  | some x =>
    let subs := x.subs.touch a
    match TStore.findKey SubKey.same (subs.get a) k with
    | none => s.setInst i { x with subs }
    | some _ =>
      (s.setInst i { x with subs := subs.set a (TStore.eraseKey SubKey.same (subs.get a) k) }).emit (.unsubscribed i k a)

def announcerStart (s : Stack) : Stack :=
  let s := s.announceOrder.foldl (fun s i => s.instStart i) s
  { s with started := true }

def announcerStop (s : Stack) : Stack :=
  if !s.started then s else
  let s := s.announceOrder.foldl (fun s i => s.instStop i) s
  { s with started := false }

def announcerReboot (s : Stack) (a : Addr) : Stack :=
  s.announceOrder.foldl (fun s i => s.subsStopAllFor i a) s

/-- `announce_service(instance)` -/
def announceService (s : Stack) (i : Nat) : Stack :=
  let s := if s.started then s.instStart i else s
  { s with announceOrder := s.announceOrder ++ [i] }

/-- `stop_announce_service(instance, send_stop)`; ValueError if not announcing -/
def stopAnnounceService (s : Stack) (i : Nat) (sendStop : Bool) : Stack :=
  if i ∉ s.announceOrder then s.emit (.raised .value) else
  let s := { s with announceOrder := s.announceOrder.erase i }
  if sendStop && s.started then s.instStop i else s

/-! #### subscriber -/

/-- `_group_entries()`: eventgroups per server, in order of first appearance -/
def groupEntries (es : List (Eventgroup × Addr)) : List (Addr × List Eventgroup) :=
  es.foldl (fun acc p =>
    if acc.any (fun q => decide (q.1 = p.2)) then acc.map (fun q => if q.1 = p.2 then (q.1, q.2 ++ [p.1]) else q)
    else acc ++ [(p.2, [p.1])]) []

def sendSubscribe (s : Stack) (ttl : Nat) (dest : Addr) (egs : List Eventgroup) : Stack :=
  ({ s with subLog := s.subLog ++ [(dest, ttl, egs)] } : Stack).sendSd (egs.map (fun g => g.createSubscribeEntry ttl 0)) (some dest)

def subscribeEventgroup (s : Stack) (g : Eventgroup) (dest : Addr) : Stack :=
  let s := { s with subDup := s.subDup || decide ((g, dest) ∈ s.subEntries), subEntries := s.subEntries ++ [(g, dest)] }
  if s.alive then s.callSoon (.sendStartSubscribe dest [g]) else s

def stopSubscribeEventgroup (s : Stack) (g : Eventgroup) (dest : Addr) (send : Bool := true) : Stack :=
  if (g, dest) ∈ s.subEntries then
    let s := { s with subEntries := s.subEntries.erase (g, dest) }
    if send then s.callSoon (.sendStopSubscribe dest [g]) else s
  else s

def subscriberStart (s : Stack) : Stack :=
  if s.alive then s else
  let r := ({ s with alive := true, subLost := false, subMarks := s.subMarks ++ [(none, s.loop.now)] }).createTask .subscribe
  { r.1 with subTask := some r.2 }

def subscriberStop (s : Stack) (sendStop : Bool) : Stack :=
  if !s.alive then s else
  let s := { s with alive := false, subLost := !sendStop }
  let s := match s.subTask with
    | some tid => { s.cancelTask (.subscribe, tid) with subTask := none }
    | none => s
  if sendStop then (groupEntries s.subEntries).foldl (fun s p => s.callSoon (.sendStopSubscribe p.1 p.2)) s else s

/-- ghost: note that subscribe task n has run a refresh round now -/
def markRound (s : Stack) (n : Nat) : Stack := { s with subMarks := s.subMarks ++ [(some n, s.loop.now)] }

/-- one step of `ServiceSubscriber._subscribe` -/
def stepSubscribe (s : Stack) (tid : Tid) (t : TaskSt) : Stack :=
  let round (s : Stack) : Stack :=
    let s := (groupEntries s.subEntries).foldl (fun s p => s.sendSubscribe s.tm.subscribeTtl p.1 p.2) s
    let s := s.markRound tid.2
    match s.tm.subscribeRefresh with
    | none => s.finish tid t
    | some r => s.sleepFor tid t r .cyclic
  match t.pc with
  | .created => if t.cancelled then s.finish tid t else round s
  | .cyclic => if t.cancelled then s.finish tid t else round s
  | _ => s

/-! #### discovery -/

/-- ghost: note a notification handed to application listener id -/
def logLis (s : Stack) (id : LId) (offered : Bool) (k : SvcKey) (a : Addr) : Stack := { s with lisLog := s.lisLog ++ [(id, offered, k, a)] }

def listenerOffered (s : Stack) (l : Listener) (k : SvcKey) (a : Addr) : Stack :=
  match l with
  | .ext id => (s.logLis id true k a).emit (.offered id k a)
  | .auto g =>
    match g.forService k.toService with
    | none => s
    | some g' => s.subscribeEventgroup g' a

def listenerStopped (s : Stack) (l : Listener) (k : SvcKey) (a : Addr) : Stack :=
  match l with
  | .ext id => (s.logLis id false k a).emit (.stopped id k a)
  | .auto g =>
    match g.forService k.toService with
    | none => s
    | some g' => s.stopSubscribeEventgroup g' a

/-- `_notify_service_offered` / `_notify_service_stopped` -/
def notifyService (s : Stack) (offered : Bool) (k : SvcKey) (a : Addr) : Stack :=
  let s := { s with storeLog := s.storeLog ++ [(offered, k, a)] }
  let f := fun (s : Stack) (l : Listener) => if offered then s.listenerOffered l k a else s.listenerStopped l k a
  let s := s.watched.foldl (fun s p => if p.1.matchesService k.toService then p.2.foldl f s else s) s
  s.watchAll.foldl (fun s id => f s (.ext id)) s

def isWatching (s : Stack) (e : SDEntry) : Bool :=
  !s.watchAll.isEmpty || s.watched.any (fun p => match p.1.matchesOffer e with | .ok b => b | _ => false)

/-- `TimedStore.stop` on found_services -/
def foundStop (s : Stack) (a : Addr) (k : SvcKey) : Stack :=
  let found := s.found.touch a
  match TStore.findKey (· == ·) (found.get a) k with
  | none => { s with found }
  | some old =>
    let s := { s with found := found.set a (TStore.eraseKey (· == ·) (found.get a) k) }
    (s.cancelTimer (isSvcExpiryFor a k) old.timer).notifyService false k a

/-- `TimedStore.refresh` on found_services -/
def foundRefresh (s : Stack) (ttl : Nat) (a : Addr) (k : SvcKey) : Stack :=
  let found := s.found.touch a
  let p : Stack × List (TSEntry SvcKey) := match TStore.findKey (· == ·) (found.get a) k with
    | some old => (({ s with found }).cancelTimer (isSvcExpiryFor a k) old.timer, TStore.eraseKey (· == ·) (found.get a) k)
    | none => (({ s with found }).notifyService true k a, found.get a)
  let r := p.1.armTtl ttl (.expiredSvc a k)
  -- the store is re-read: a listener callback may have touched it (AutoSubscribe does not)
  { r.1 with found := (r.1.found.touch a).set a (p.2 ++ [⟨k, r.2⟩]),
             refreshLog := r.1.refreshLog ++ [(a, k, s.loop.now, ttl)] }

/-- `ServiceDiscover.handle_offer(entry, addr)` -/
def handleOffer (s : Stack) (e : SDEntry) (a : Addr) : Stack :=
  let k : SvcKey := ⟨e.sid, e.iid, e.maj, e.val⟩
  if !s.isWatching e then
    if e.ttl = 0 then s.foundStop a k else s
  else if e.ttl = 0 then s.foundStop a k
  else s.foundRefresh e.ttl a k

def foundStopAllFor (s : Stack) (a : Addr) : Stack :=
  let found := s.found.touch a
  let es := found.get a
  let s := { s with found := found.set a [] }
  es.foldl (fun s e => (s.cancelTimer (isSvcExpiryFor a e.key) e.timer).notifyService false e.key a) s

def foundStopAll (s : Stack) : Stack :=
  let s := s.found.foldl (fun s p => s.foundStopAllFor p.1) s
  { s with found := [] }

def expiredSvc (s : Stack) (a : Addr) (k : SvcKey) : Stack :=
  let found := s.found.touch a
  match TStore.findKey (· == ·) (found.get a) k with
  | none => { s with found }
  | some _ =>
    ({ s with found := found.set a (TStore.eraseKey (· == ·) (found.get a) k) }).notifyService false k a

/-- insertion into a listener set (`set.add`), keeping ext listeners sorted by id -/
def insertListener (ls : List Listener) (l : Listener) : List Listener :=
  if l ∈ ls then ls else
  match l with
  | .ext id =>
    let exts := ls.filter (fun x => match x with | .ext _ => true | _ => false)
    let autos := ls.filter (fun x => match x with | .ext _ => false | _ => true)
    let lo := exts.filter (fun x => match x with | .ext j => j < id | _ => false)
    let hi := exts.filter (fun x => match x with | .ext j => id < j | _ => false)
    lo ++ [l] ++ hi ++ autos
  | .auto _ => ls ++ [l]

def insertSorted (ls : List LId) (id : LId) : List LId :=
  if id ∈ ls then ls else ls.filter (· < id) ++ [id] ++ ls.filter (id < ·)

/-- replay of the stored services to one listener -/
def replay (s : Stack) (offered : Bool) (filter : Option Service) (l : Listener) : Stack :=
  s.found.allKeys.foldl (fun s p =>
    let ok := match filter with | none => true | some f => f.matchesService p.2.toService
    if ok then (if offered then s.listenerOffered l p.2 p.1 else s.listenerStopped l p.2 p.1) else s) s

def watchKey (f : Service) (p : Service × List Listener) : Bool := decide (p.1.key = f.key)

/-- is the application listener registered with some filter or for all services? -/
def isRegistered (s : Stack) (id : LId) : Bool := decide (id ∈ s.watchAll) || s.watched.any (fun p => decide (Listener.ext id ∈ p.2))
/-- ghost: note whether a registration found the listener registered already -/
def markDup (s : Stack) (dup : Bool) : Stack := { s with lisDup := s.lisDup || dup }

/-- `watch_service(service, listener)` -/
def watchService (s : Stack) (f : Service) (l : Listener) : Stack :=
  let watched := if s.watched.any (watchKey f) then
      s.watched.map (fun p => if watchKey f p then (p.1, insertListener p.2 l) else p)
    else s.watched ++ [(f, [l])]
  (({ s with watched }).replay true (some f) l).markDup (match l with | .ext id => s.isRegistered id | _ => false)

/-- `stop_watch_service(service, listener)`; KeyError if the listener is not registered -/
def stopWatchService (s : Stack) (f : Service) (l : Listener) : Stack :=
  let cur := ((s.watched.find? (watchKey f)).map (·.2)).getD []
  -- `self.watched_services[service]` creates the key on a defaultdict
  let watched := if s.watched.any (watchKey f) then s.watched else s.watched ++ [(f, [])]
  if l ∉ cur then ({ s with watched }).emit (.raised .key) else
  let watched := watched.map (fun p => if watchKey f p then (p.1, p.2.erase l) else p)
  ({ s with watched }).replay false (some f) l

def watchAllServices (s : Stack) (id : LId) : Stack :=
  (({ s with watchAll := insertSorted s.watchAll id }).replay true none (.ext id)).markDup (s.isRegistered id)

def stopWatchAllServices (s : Stack) (id : LId) : Stack :=
  if id ∉ s.watchAll then s.emit (.raised .key) else
  ({ s with watchAll := s.watchAll.erase id }).replay false none (.ext id)

def serviceFound (s : Stack) (f : Service) : Bool :=
  s.found.allKeys.any (fun p => f.matchesService p.2.toService)

def findEntries (s : Stack) : List SDEntry :=
  (s.watched.filter (fun p => !s.serviceFound p.1)).map (fun p => p.1.createFindEntry s.tm.findTtl)

/-- ghost: note that find task n was created / runs a round step now -/
def markFind (s : Stack) (n : Nat) : Stack := { s with findMarks := s.findMarks ++ [(n, s.loop.now)] }

/-- one step of `ServiceDiscover.send_find_services` -/
def stepFind (s : Stack) (tid : Tid) (t : TaskSt) : Stack :=
  let afterSend (s : Stack) (k : Nat) : Stack :=
    if k < s.tm.repetitionsMax then s.sleepFor tid t (pow2 k * s.tm.repetitionsBaseDelay) (.rep k) else s.finish tid t
  let round (s : Stack) (k : Nat) : Stack :=
    let es := s.findEntries
    if es.isEmpty then s.finish tid t else afterSend (({ s with findLog := s.findLog ++ [(tid.2, k)] } : Stack).sendSd es none) k
  match t.pc with
  | .created =>
    if t.cancelled then s.finish tid t
    else if s.watched.isEmpty then s.finish tid t
    else
      let r := s.draw s.tm.initialDelayMin s.tm.initialDelayMax
      r.1.sleepFor tid t r.2 .initial
  | .initial => if t.cancelled then s.finish tid t else round (s.markFind tid.2) 0
  | .rep k => if t.cancelled then s.finish tid t else round (s.markFind tid.2) (k + 1)
  | _ => s

def discoveryStart (s : Stack) : Stack :=
  let running : Bool := match s.findTask with
    | some tid => (match s.getTask (.find, tid) with | some t => decide (t.pc ≠ .done) | none => false)
    | none => false
  if running then s else
  let r := s.createTask .find
  ({ r.1 with findTask := some r.2 } : Stack).markFind r.2

def discoveryStop (s : Stack) : Stack :=
  match s.findTask with
  | some tid => { s.cancelTask (.find, tid) with findTask := none }
  | none => s

/-! #### protocol level -/

def rebootDetected (s : Stack) (a : Addr) : Stack :=
  -- subscriber.reboot_detected is a no-op
  (s.foundStopAllFor a).announcerReboot a

/-- `sd_message_received(sdhdr, addr, multicast)` -/
def sdMessageReceived (s : Stack) (m : SDHeader) (a : Addr) (mc : Bool) : Stack :=
  if !m.flagUnicast then s else
  m.entries.foldl (fun s e =>
    match e.ty with
    | .offer => s.handleOffer e a
    | .subscribeAck => s
    | .find => s.handleFind e a mc
    | .subscribe => if mc then s else s.handleSubscribe e a) s

/-- `ServiceDiscoveryProtocol.message_received` -/
def messageReceived (s : Stack) (h : Header) (a : Addr) (mc : Bool) : Stack :=
  if h.sid ≠ SD_SERVICE ∨ h.mid ≠ SD_METHOD ∨ h.iv ≠ SD_INTERFACE_VERSION ∨ h.rc ≠ .ok ∨ h.mt ≠ .notification then s
  else
    match SDHeader.parse h.payload with
    | .error _ => s          -- ParseError and UnicodeDecodeError are logged and dropped
    | .ok (m, _) =>
      let r := checkReceived s.incoming a mc m.flagReboot h.sess
      let s := { s with incoming := r.2 }
      let s := if r.1 then s.rebootDetected a else s
      match m.resolveOptions with
      | .error e => s.emit (.raised e)
      | .ok m' => s.sdMessageReceived m' a mc

/-- `datagram_received`: deliver message by message until the bytes are used up or a parse error -/
def datagramReceived (s : Stack) (b : Bytes) (a : Addr) (mc : Bool) : Stack :=
  (datagram b).1.foldl (fun s h => s.messageReceived h a mc) s

def start (s : Stack) : Stack := ((s.subscriberStart).announcerStart).discoveryStart
def stop (s : Stack) : Stack := ((s.discoveryStop).announcerStop).subscriberStop true

def connectionLost (s : Stack) : Stack :=
  ((s.callSoon (.connLost .subscriber)).callSoon (.connLost .discovery)).callSoon (.connLost .announcer)

/-- interpret one callback -/
def runCb (s : Stack) : Cb → Stack
  | .connLost .subscriber => s.subscriberStop false
  | .connLost .discovery => s.foundStopAll
  | .connLost .announcer => s.announcerStop
  | .expiredSvc a k => s.expiredSvc a k
  | .expiredSub i a k => s.expiredSub i a k
  | .sendStartSubscribe d egs => s.sendSubscribe s.tm.subscribeTtl d egs
  | .sendStopSubscribe d egs => s.sendSubscribe 0 d egs
  | .sendOfferTo i a => s.sendOffer i (some a) false
  | .collectorTimeout cid => s.collectorTimeout cid
  | .sleepDone tid => s.sleepDone tid
  | .taskStep tid =>
    match s.getTask tid with
    | none => s
    | some t =>
      if t.pc = .done then s else
      -- resuming from `asyncio.sleep`: its `finally` cancels the timer handle
      let s := s.cancelTimer (isSleepFor tid) t.sleep
      let t := { t with sleep := none, waiting := false }
      match tid.1 with
      | .offer i => s.stepOffer tid t i
      | .find => s.stepFind tid t
      | .subscribe => s.stepSubscribe tid t

/-! #### events -/

inductive Input
  | start | stop | connLost
  | dgram (a : Addr) (mc : Bool) (b : Bytes)
  | watch (f : Service) (l : Listener) | unwatch (f : Service) (l : Listener)
  | watchAll (id : LId) | unwatchAll (id : LId)
  | subscribe (g : Eventgroup) (d : Addr) | stopSubscribe (g : Eventgroup) (d : Addr)
  | announce (i : Nat) | stopAnnounce (i : Nat) (sendStop : Bool)
  | setNak (i : Nat) (egs : List Nat)
  | draws (ds : List Nat)
  | announcerStop | announcerStart
deriving Repr, Inhabited

inductive Event
  | input (x : Input)
  | run
  | fire (seq : Nat)
  | adv (t : Nat)
deriving Repr, Inhabited

def applyInput (s : Stack) : Input → Stack
  | .start => s.start
  | .stop => s.stop
  | .connLost => s.connectionLost
  | .dgram a mc b => s.datagramReceived b a mc
  | .watch f l => s.watchService f l
  | .unwatch f l => s.stopWatchService f l
  | .watchAll id => s.watchAllServices id
  | .unwatchAll id => s.stopWatchAllServices id
  | .subscribe g d => s.subscribeEventgroup g d
  | .stopSubscribe g d => s.stopSubscribeEventgroup g d
  | .announce i => s.announceService i
  | .stopAnnounce i b => s.stopAnnounceService i b
  | .setNak i egs => (match s.getInst i with | some x => s.setInst i { x with nakEgs := egs } | none => s)
  | .draws ds => { s with draws := s.draws ++ ds }
  | .announcerStop => s.announcerStop
  | .announcerStart => s.announcerStart

/-- one event of the loop model; `none` = the event is not enabled -/
def step (s : Stack) : Event → Option Stack
  | .input x => some (s.applyInput x)
  | .run =>
    match s.loop.pop with
    | none => none
    | some (cb, l) => some (({ s with loop := l }).runCb cb)
  | .fire q => (s.loop.fire q).map (fun l => { s with loop := l })
  | .adv t => (s.loop.adv t).map (fun l => { s with loop := l })

def idle (s : Stack) : Bool := s.loop.ready.isEmpty && !s.loop.anyDue

end Stack
end Someip
