/-
  Bytes: Python `bytes` are modelled as `List Nat` whose elements are < 256 (`AllBytes`).
  Big-endian packers (`struct.pack("!H")`, `"!I"`) with the range check of `struct.error`.
  No Mathlib import: this file is part of the compiled driver.
-/
namespace Someip

abbrev Bytes := List Nat

/-- every element is a byte value -/
def AllBytes (b : Bytes) : Prop := ∀ x ∈ b, x < 256

instance (b : Bytes) : Decidable (AllBytes b) := by unfold AllBytes; infer_instance

/-- exceptions of the Python code, one constructor per class that can arise in modelled code -/
inductive Err
  | parse        -- someip.header.ParseError
  | incomplete   -- someip.header.IncompleteReadError (subclass of ParseError)
  | unicode      -- UnicodeDecodeError
  | value        -- ValueError
  | struct       -- struct.error
  | index        -- IndexError
  | key          -- KeyError
  | type         -- TypeError
  | runtime      -- RuntimeError
deriving DecidableEq, Repr, Inhabited

def Err.name : Err → String
  | .parse => "ParseError" | .incomplete => "IncompleteReadError" | .unicode => "UnicodeDecodeError"
  | .value => "ValueError" | .struct => "struct.error" | .index => "IndexError" | .key => "KeyError"
  | .type => "TypeError" | .runtime => "RuntimeError"

/-- `ParseError` or a subclass of it (what `except ParseError` catches) -/
def Err.isParse : Err → Bool
  | .parse => true | .incomplete => true | _ => false

def be8 (n : Nat) : Bytes := [n % 256]
def be16 (n : Nat) : Bytes := [n / 256 % 256, n % 256]
def be24 (n : Nat) : Bytes := [n / 65536 % 256, n / 256 % 256, n % 256]
def be32 (n : Nat) : Bytes := [n / 16777216 % 256, n / 65536 % 256, n / 256 % 256, n % 256]

/-- `struct.pack` of one unsigned field: `none` models `struct.error` (value out of range) -/
def pack8 (n : Nat) : Option Bytes := if n < 256 then some (be8 n) else none
def pack16 (n : Nat) : Option Bytes := if n < 65536 then some (be16 n) else none
def pack32 (n : Nat) : Option Bytes := if n < 4294967296 then some (be32 n) else none

def u16 (a b : Nat) : Nat := a * 256 + b
def u24 (a b c : Nat) : Nat := (a * 256 + b) * 256 + c
def u32 (a b c d : Nat) : Nat := ((a * 256 + b) * 256 + c) * 256 + d

def hexDigit (n : Nat) : Char :=
  if n < 10 then Char.ofNat (48 + n) else Char.ofNat (87 + n)

def toHex (b : Bytes) : String :=
  if b.isEmpty then "-" else
  String.ofList (b.flatMap fun x => [hexDigit (x / 16 % 16), hexDigit (x % 16)])

def hexVal (c : Char) : Option Nat :=
  let n := c.toNat
  if 48 ≤ n ∧ n ≤ 57 then some (n - 48)
  else if 97 ≤ n ∧ n ≤ 102 then some (n - 87)
  else if 65 ≤ n ∧ n ≤ 70 then some (n - 55)
  else none

def ofHexAux : List Char → Option Bytes
  | [] => some []
  | [_] => none
  | a :: b :: r => do
    let x ← hexVal a
    let y ← hexVal b
    let t ← ofHexAux r
    pure ((x * 16 + y) :: t)

def ofHex (s : String) : Option Bytes :=
  if s = "-" then some [] else ofHexAux s.toList

end Someip
