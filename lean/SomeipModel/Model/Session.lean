/-
  Model of someip.sd._SessionStorage: reboot detection on received (flag, session id) pairs and
  per-destination outgoing session counters.
-/
import SomeipModel.Model.Bytes
namespace Someip

/-- peers are identified by small numbers in the model (socket addresses in the code) -/
abbrev Addr := Nat
/-- a destination: `none` is the default (multicast) address -/
abbrev Dest := Option Addr

/-- association list with "last write wins" (a Python dict used only through get/set) -/
def alookup {κ ν} [DecidableEq κ] (l : List (κ × ν)) (k : κ) : Option ν :=
  (l.find? (fun p => decide (p.1 = k))).map (·.2)
def aset {κ ν} [DecidableEq κ] (l : List (κ × ν)) (k : κ) (v : ν) : List (κ × ν) :=
  (k, v) :: l.filter (fun p => decide (p.1 ≠ k))

abbrev Incoming := List ((Addr × Bool) × (Bool × Nat))
abbrev Outgoing := List (Dest × (Bool × Nat))

/-- `check_received(sender, multicast, flag, session_id)`: (reboot detected?, new memory) -/
def checkReceived (inc : Incoming) (sender : Addr) (mc : Bool) (flag : Bool) (sid : Nat) : Bool × Incoming :=
  let k := (sender, mc)
  let det := match alookup inc k with
    | none => false
    | some (oldFlag, oldSid) => flag && (!oldFlag || (decide (oldSid > 0) && decide (oldSid ≥ sid)))
  (det, aset inc k (flag, sid))

/-- `assign_outgoing(remote)`: ((reboot flag, session id) to use, new memory) -/
def assignOutgoing (out : Outgoing) (d : Dest) : (Bool × Nat) × Outgoing :=
  let cur := (alookup out d).getD (true, 1)
  let next := if cur.2 ≥ 0xFFFF then (false, 1) else (cur.1, cur.2 + 1)
  (cur, aset out d next)

/-- one received SD message as far as session handling is concerned -/
structure RxMsg where
  sender : Addr
  mc : Bool
  flag : Bool
  sid : Nat
deriving DecidableEq, Repr, Inhabited

/-- the model run over a whole receive history: the detection verdict per message -/
def runRecv : Incoming → List RxMsg → List Bool
  | _, [] => []
  | inc, m :: r =>
    let x := checkReceived inc m.sender m.mc m.flag m.sid
    x.1 :: runRecv x.2 r

/-- the model run over a whole sequence of transmissions: (flag, id) per transmission -/
def runSend : Outgoing → List Dest → List (Bool × Nat)
  | _, [] => []
  | out, d :: r =>
    let x := assignOutgoing out d
    x.1 :: runSend x.2 r

end Someip
