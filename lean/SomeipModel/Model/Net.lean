/-
  Two SD stacks joined by a network (C04): product of two stack models with a shared clock and a list of
  datagrams in flight.  Network choices (deliver / drop / duplicate, in any order) and crashes are events.
-/
import SomeipModel.Model.Stack
namespace Someip

structure Flight where
  toB : Bool            -- destination side
  src : Addr            -- sender's address as the receiver sees it
  mc : Bool             -- sent to the multicast group?
  bytes : Bytes
deriving Repr, Inhabited

structure Net where
  a : Stack
  b : Stack
  addrA : Addr := 1
  addrB : Addr := 2
  flight : List Flight := []
deriving Repr, Inhabited

inductive NEvent
  | sideA (e : Stack.Event) | sideB (e : Stack.Event)    -- local events (never `adv`: the clock is shared)
  | deliver (i : Nat) | drop (i : Nat) | dup (i : Nat)    -- network choices on the i-th datagram in flight
  | crashA (fresh : Stack) | crashB (fresh : Stack)       -- the whole state is replaced by a fresh incarnation
  | adv (t : Nat)                                         -- both clocks jump together
deriving Repr, Inhabited

/-- the datagrams a side put on the wire during one step -/
def newSends (s s' : Stack) : List (Dest × Bytes) :=
  (s'.outs.drop s.outs.length).filterMap (fun p => match p.2 with | .send d b => some (d, b) | _ => none)

/-- route what side A sent: multicast and unicast-to-B datagrams fly towards B -/
def route (toB : Bool) (src peer : Addr) (sends : List (Dest × Bytes)) : List Flight :=
  sends.filterMap (fun p => match p.1 with
    | none => some ⟨toB, src, true, p.2⟩
    | some d => if d = peer then some ⟨toB, src, false, p.2⟩ else none)

def isAdv : Stack.Event → Bool | .adv _ => true | _ => false

namespace Net

def step (n : Net) : NEvent → Option Net
  | .sideA e =>
    if isAdv e then none else
    (n.a.step e).map (fun a' => { n with a := a', flight := n.flight ++ route true n.addrA n.addrB (newSends n.a a') })
  | .sideB e =>
    if isAdv e then none else
    (n.b.step e).map (fun b' => { n with b := b', flight := n.flight ++ route false n.addrB n.addrA (newSends n.b b') })
  | .deliver i =>
    match n.flight[i]? with
    | none => none
    | some f =>
      let rest := n.flight.eraseIdx i
      if f.toB then
        let b' := n.b.applyInput (.dgram f.src f.mc f.bytes)
        some { n with b := b', flight := rest ++ route false n.addrB n.addrA (newSends n.b b') }
      else
        let a' := n.a.applyInput (.dgram f.src f.mc f.bytes)
        some { n with a := a', flight := rest ++ route true n.addrA n.addrB (newSends n.a a') }
  | .drop i => if i < n.flight.length then some { n with flight := n.flight.eraseIdx i } else none
  | .dup i => match n.flight[i]? with
    | none => none
    | some f => some { n with flight := n.flight ++ [f] }
  | .crashA fresh => some { n with a := { fresh with loop := { fresh.loop with now := n.a.loop.now } } }
  | .crashB fresh => some { n with b := { fresh with loop := { fresh.loop with now := n.b.loop.now } } }
  | .adv t =>
    match n.a.step (.adv t), n.b.step (.adv t) with
    | some a', some b' => some { n with a := a', b := b' }
    | _, _ => none

end Net
end Someip
