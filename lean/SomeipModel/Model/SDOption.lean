/-
  Model of the SD option classes of someip/header.py: SOMEIPSDOption.parse / build_option and the
  registered option kinds (configuration, load balancing, IPv4/IPv6 endpoint, multicast, SD endpoint),
  plus SOMEIPSDUnknownOption.
-/
import SomeipModel.Model.Bytes
namespace Someip

def OPT_CONFIG : Nat := 0x01
def OPT_LOADBAL : Nat := 0x02
def OPT_V4_ENDPOINT : Nat := 0x04
def OPT_V6_ENDPOINT : Nat := 0x06
def OPT_V4_MULTICAST : Nat := 0x14
def OPT_V6_MULTICAST : Nat := 0x16
def OPT_V4_SD : Nat := 0x24
def OPT_V6_SD : Nat := 0x26
def L4_TCP : Nat := 6
def L4_UDP : Nat := 17
def SDOption.format : String := "!HB"
def SDOption.formatV4 : String := "!B4sBBH"
def SDOption.formatV6 : String := "!B16sBBH"

inductive IPKind | endpoint | multicast | sdEndpoint
deriving DecidableEq, Repr, Inhabited

/-- text of a configuration item: list of code points (`str`); ASCII iff all < 128 -/
abbrev Text := List Nat

inductive SDOption
  | ipv4 (kind : IPKind) (addr : Bytes) (l4 : Nat) (port : Nat)
  | ipv6 (kind : IPKind) (addr : Bytes) (l4 : Nat) (port : Nat)
  | loadBal (prio weight : Nat)
  | config (items : List (Text × Option Text))
  | unknown (type : Nat) (payload : Bytes)
deriving DecidableEq, Repr, Inhabited

def IPKind.typeV4 : IPKind → Nat
  | .endpoint => OPT_V4_ENDPOINT | .multicast => OPT_V4_MULTICAST | .sdEndpoint => OPT_V4_SD
def IPKind.typeV6 : IPKind → Nat
  | .endpoint => OPT_V6_ENDPOINT | .multicast => OPT_V6_MULTICAST | .sdEndpoint => OPT_V6_SD

/-- `isinstance(option, EndpointOption)` -/
def SDOption.isEndpoint : SDOption → Bool
  | .ipv4 .endpoint _ _ _ => true
  | .ipv6 .endpoint _ _ _ => true
  | _ => false

/-- `str.encode("ascii")` -/
def encodeAscii (t : Text) : Except Err Bytes :=
  if t.all (· < 128) then .ok t else .error .unicode
/-- `bytes.decode("ascii")` -/
def decodeAscii (b : Bytes) : Except Err Text :=
  if b.all (· < 128) then .ok b else .error .unicode

/-- `build_option`: `struct.pack("!HB", len(buf), type_b) + buf` -/
def buildOption (type : Nat) (buf : Bytes) : Except Err Bytes :=
  if buf.length < 65536 ∧ type < 256 then .ok (be16 buf.length ++ [type] ++ buf) else .error .struct

/-- body of the loop of `SOMEIPSDConfigOption.build` -/
def buildConfigItems : List (Text × Option Text) → Except Err Bytes
  | [] => .ok []
  | (k, some v) :: r => do
    if ¬ (k.length + v.length + 1 < 256) then throw .value   -- bytearray.append out of range
    let kb ← encodeAscii k
    let vb ← encodeAscii v
    let t ← buildConfigItems r
    pure ((k.length + v.length + 1) :: kb ++ [61] ++ vb ++ t)
  | (k, none) :: r => do
    if ¬ (k.length < 256) then throw .value
    let kb ← encodeAscii k
    let t ← buildConfigItems r
    pure (k.length :: kb ++ t)

def buildIP (type : Nat) (addr : Bytes) (l4 port : Nat) : Except Err Bytes :=
  if l4 < 256 ∧ port < 65536 then buildOption type ([0] ++ addr ++ [0, l4] ++ be16 port) else .error .struct

/-- `option.build()` -/
def SDOption.build : SDOption → Except Err Bytes
  | .unknown t p => buildOption t p
  | .loadBal prio w =>
    if prio < 65536 ∧ w < 65536 then buildOption OPT_LOADBAL ([0] ++ be16 prio ++ be16 w) else .error .struct
  | .config items => do
    let body ← buildConfigItems items
    buildOption OPT_CONFIG ([0] ++ body ++ [0])
  | .ipv4 k a l4 port => buildIP k.typeV4 a l4 port
  | .ipv6 k a l4 port => buildIP k.typeV6 a l4 port

/-- index of the first `=` (61), as `bytes.find(b"=")` -/
def findEq : Bytes → Option Nat
  | [] => none
  | x :: r => if x = 61 then some 0 else (findEq r).map (· + 1)

/-- one configuration string to a (key, value) item -/
def parseConfigItem (s : Bytes) : Except Err (Text × Option Text) :=
  match findEq s with
  | none => do let k ← decodeAscii s; pure (k, none)
  | some i => do
    let k ← decodeAscii (s.take i)
    let v ← decodeAscii (s.drop (i + 1))
    pure (k, some v)

/-- the `while nextlen != 0` loop of `SOMEIPSDConfigOption.parse_option`; `b` is what follows the
length byte `nextlen`.  Every iteration consumes `nextlen + 1 ≥ 2` bytes: fuel `b.length` suffices. -/
def parseConfigLoop : Nat → Nat → Bytes → Except Err (List (Text × Option Text))
  | 0, nextlen, _ => if nextlen = 0 then .ok [] else .error .parse
  | fuel + 1, nextlen, b =>
    if nextlen = 0 then .ok [] else
    if b.length < nextlen + 1 then .error .parse else do
      let item ← parseConfigItem (b.take nextlen)
      let b' := b.drop nextlen
      match b' with
      | [] => .error .index        -- unreachable (length check above)
      | nl :: b'' => do
        let rest ← parseConfigLoop fuel nl b''
        pure (item :: rest)

def parseConfig (buf : Bytes) : Except Err SDOption :=
  match buf with
  | _ :: nextlen :: b => do
    let items ← parseConfigLoop b.length nextlen b
    pure (.config items)
  | _ => .error .parse     -- len(buf) < 2

def parseLoadBal (buf : Bytes) : Except Err SDOption :=
  match buf with
  | [_, p1, p0, w1, w0] => .ok (.loadBal (u16 p1 p0) (u16 w1 w0))
  | _ => .error .parse

def parseIP (mk : Bytes → Nat → Nat → SDOption) (alen : Nat) (buf : Bytes) : Except Err SDOption :=
  if buf.length ≠ alen + 5 then .error .parse else
  match buf.drop (alen + 1) with
  | [_, l4, p1, p0] => .ok (mk ((buf.drop 1).take alen) l4 (u16 p1 p0))
  | _ => .error .parse     -- unreachable

/-- dispatch on the registered option types -/
def parseOptionBody (type : Nat) (buf : Bytes) : Except Err SDOption :=
  if type = OPT_CONFIG then parseConfig buf
  else if type = OPT_LOADBAL then parseLoadBal buf
  else if type = OPT_V4_ENDPOINT then parseIP (.ipv4 .endpoint) 4 buf
  else if type = OPT_V4_MULTICAST then parseIP (.ipv4 .multicast) 4 buf
  else if type = OPT_V4_SD then parseIP (.ipv4 .sdEndpoint) 4 buf
  else if type = OPT_V6_ENDPOINT then parseIP (.ipv6 .endpoint) 16 buf
  else if type = OPT_V6_MULTICAST then parseIP (.ipv6 .multicast) 16 buf
  else if type = OPT_V6_SD then parseIP (.ipv6 .sdEndpoint) 16 buf
  else .ok (.unknown type buf)

/-- `SOMEIPSDOption.parse` -/
def SDOption.parse : Bytes → Except Err (SDOption × Bytes)
  | l1 :: l0 :: type :: rest =>
    let len := u16 l1 l0
    if rest.length < len then .error .parse else
    match parseOptionBody type (rest.take len) with
    | .error e => .error e
    | .ok o => .ok (o, rest.drop len)
  | _ => .error .incomplete

end Someip
