/-
  Model of SOMEIPHeader.read over an asyncio.StreamReader: the reader is (buffer, eof);
  `readexactly(n)` returns n bytes, blocks, or fails with asyncio.IncompleteReadError at eof.
  The message reader is a two-phase machine (header, payload) pumped after every feed.
-/
import SomeipModel.Model.Header
namespace Someip

/-- how reading a stream to exhaustion ends -/
inductive StreamEnd
  | eofClean      -- eof exactly at a message boundary (IncompleteReadError with 0 bytes read)
  | incomplete    -- eof inside a message: asyncio.IncompleteReadError, no truncated message
  | parseError    -- someip.header.ParseError from the header checks
deriving DecidableEq, Repr, Inhabited

structure SRState where
  buf : Bytes := []
  pending : Option (Nat × Header) := none     -- header accepted, waiting for `size - 8` payload bytes
  stop : Option StreamEnd := none
deriving Repr, Inhabited

def headerOf16 : Bytes → Except Err (Nat × Header)
  | s1 :: s0 :: m1 :: m0 :: l3 :: l2 :: l1 :: l0 :: c1 :: c0 :: e1 :: e0 :: pv :: iv :: mtb :: rcb :: _ =>
    Header.parseFields (u16 s1 s0) (u16 m1 m0) (u32 l3 l2 l1 l0) (u16 c1 c0) (u16 e1 e0) pv iv mtb rcb
  | _ => .error .incomplete

/-- read as many messages as the buffer allows; `eof` says whether feed_eof() was called -/
def pump (eof : Bool) : Nat → SRState → List Header × SRState
  | 0, s => ([], s)
  | fuel + 1, s =>
    if s.stop.isSome then ([], s) else
    match s.pending with
    | none =>
      if 16 ≤ s.buf.length then
        match headerOf16 s.buf with
        | .error _ => ([], { buf := s.buf.drop 16, pending := none, stop := some .parseError })
        | .ok (size, h) => pump eof fuel { s with buf := s.buf.drop 16, pending := some (size, h) }
      else if eof then
        ([], { buf := [], pending := none, stop := some (if s.buf.isEmpty then .eofClean else .incomplete) })
      else ([], s)
    | some (size, h) =>
      if size - 8 ≤ s.buf.length then
        let r := pump eof fuel { s with buf := s.buf.drop (size - 8), pending := none }
        ({ h with payload := s.buf.take (size - 8) } :: r.1, r.2)
      else if eof then ([], { buf := [], pending := none, stop := some .incomplete })
      else ([], s)

def pumpAll (eof : Bool) (s : SRState) : List Header × SRState := pump eof (2 * s.buf.length + 3) s

/-- feed the chunks one by one (pumping after each), then eof -/
def feedChunks : SRState → List Bytes → List Header × SRState
  | s, [] => ([], s)
  | s, c :: cs =>
    let r := pumpAll false { s with buf := s.buf ++ c }
    let t := feedChunks r.2 cs
    (r.1 ++ t.1, t.2)

def readStream (chunks : List Bytes) : List Header × Option StreamEnd :=
  let r := feedChunks {} chunks
  let f := pumpAll true r.2
  (r.1 ++ f.1, f.2.stop)

end Someip
