/-
  Model of SOMEIPHeader.read over an asyncio.StreamReader.  The reader is the sequence of unread bytes
  plus the eof flag; `readexactly(n)` returns n bytes, blocks, or fails with asyncio.IncompleteReadError
  at eof.  One `read()` = header (16 bytes, checked as soon as they are there) then payload.
  (That the real coroutine has already taken the header out of the StreamReader while it waits for the
  payload is not observable: it resumes exactly where it was.)
-/
import SomeipModel.Model.Header
namespace Someip

/-- how reading a stream to exhaustion ends -/
inductive StreamEnd
  | eofClean      -- eof exactly at a message boundary (IncompleteReadError with 0 bytes read)
  | incomplete    -- eof inside a message: asyncio.IncompleteReadError, no truncated message
  | parseError    -- someip.header.ParseError from the header checks
deriving DecidableEq, Repr, Inhabited

def headerOf16 : Bytes → Except Err (Nat × Header)
  | s1 :: s0 :: m1 :: m0 :: l3 :: l2 :: l1 :: l0 :: c1 :: c0 :: e1 :: e0 :: pv :: iv :: mtb :: rcb :: _ =>
    Header.parseFields (u16 s1 s0) (u16 m1 m0) (u32 l3 l2 l1 l0) (u16 c1 c0) (u16 e1 e0) pv iv mtb rcb
  | _ => .error .incomplete

/-- outcome of one `SOMEIPHeader.read(reader)` on the unread bytes `buf` -/
inductive ReadRes
  | msg (h : Header) (rest : Bytes)   -- a complete message; `rest` stays unread
  | blocked                           -- waiting for more data (no eof yet)
  | ended (e : StreamEnd)             -- the read raised: eof (clean or inside a message) or ParseError
deriving Repr, Inhabited

def readOne (eof : Bool) (buf : Bytes) : ReadRes :=
  if buf.length < 16 then
    (if eof then .ended (if buf.isEmpty then .eofClean else .incomplete) else .blocked)
  else
    match headerOf16 buf with
    | .error _ => .ended .parseError
    | .ok (size, h) =>
      if buf.length - 16 < size - 8 then (if eof then .ended .incomplete else .blocked)
      else .msg { h with payload := (buf.drop 16).take (size - 8) } (buf.drop (16 + (size - 8)))

structure SRState where
  buf : Bytes := []
  stop : Option StreamEnd := none
deriving Repr, Inhabited

/-- read as many messages as the unread bytes allow -/
def pump (eof : Bool) : Nat → SRState → List Header × SRState
  | 0, s => ([], s)
  | fuel + 1, s =>
    if s.stop.isSome then ([], s) else
    match readOne eof s.buf with
    | .msg h rest =>
      let r := pump eof fuel { s with buf := rest }
      (h :: r.1, r.2)
    | .blocked => ([], s)
    | .ended e => ([], { buf := [], stop := some e })

def pumpAll (eof : Bool) (s : SRState) : List Header × SRState := pump eof (s.buf.length + 1) s

/-- feed the chunks one by one (the reading task runs after each `feed_data`), then eof -/
def feedChunks : SRState → List Bytes → List Header × SRState
  | s, [] => ([], s)
  | s, c :: cs =>
    let r := pumpAll false { s with buf := s.buf ++ c }
    let t := feedChunks r.2 cs
    (r.1 ++ t.1, t.2)

def readStream (chunks : List Bytes) : List Header × Option StreamEnd :=
  let r := feedChunks {} chunks
  let f := pumpAll true r.2
  (r.1 ++ f.1, f.2.stop)

end Someip
