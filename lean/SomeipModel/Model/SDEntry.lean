/-
  Model of someip.header.SOMEIPSDEntry (parse / build / resolve_options / assign_option_index),
  of the Boyer-Moore-Horspool search `_find`, and of SOMEIPSDHeader (parse / build /
  resolve_options / assign_option_indexes).
-/
import SomeipModel.Model.SDOption
namespace Someip

inductive EntryType | find | offer | subscribe | subscribeAck
deriving DecidableEq, Repr, Inhabited

def EntryType.toNat : EntryType → Nat
  | .find => 0 | .offer => 1 | .subscribe => 6 | .subscribeAck => 7
def EntryType.all : List EntryType := [.find, .offer, .subscribe, .subscribeAck]
def EntryType.ofNat? (n : Nat) : Option EntryType := EntryType.all.find? (fun m => m.toNat == n)
def EntryType.isEventgroup : EntryType → Bool
  | .subscribe => true | .subscribeAck => true | _ => false

def SDEntry.format : String := "!BBBBHHBBHI"

/-- raw option references of an unresolved entry: index1, index2, count1, count2 -/
structure OptIdx where
  oi1 : Nat
  oi2 : Nat
  no1 : Nat
  no2 : Nat
deriving DecidableEq, Repr, Inhabited

structure SDEntry where
  ty : EntryType
  sid : Nat
  iid : Nat
  maj : Nat
  ttl : Nat
  val : Nat                         -- minver_or_counter
  opts1 : List SDOption := []
  opts2 : List SDOption := []
  idx : Option OptIdx := none       -- `none` = options resolved
deriving DecidableEq, Repr, Inhabited

def SDEntry.options (e : SDEntry) : List SDOption := e.opts1 ++ e.opts2
def SDEntry.eventgroupId (e : SDEntry) : Nat := e.val % 65536
def SDEntry.eventgroupCounter (e : SDEntry) : Nat := e.val / 65536 % 16

/-- `SOMEIPSDEntry.build`; a resolved entry raises ValueError, unrepresentable fields struct.error.
The two 4-bit option counts are range-checked (more than 15 options in a run is not representable). -/
def SDEntry.build (e : SDEntry) : Except Err Bytes :=
  match e.idx with
  | none => .error .value
  | some i =>
    if i.no1 < 16 ∧ i.no2 < 16 ∧ i.oi1 < 256 ∧ i.oi2 < 256 ∧ e.sid < 65536 ∧ e.iid < 65536 ∧ e.maj < 256 ∧
       e.ttl < 16777216 ∧ e.val < 4294967296 then
      .ok ([e.ty.toNat, i.oi1, i.oi2, i.no1 * 16 + i.no2] ++ be16 e.sid ++ be16 e.iid ++ [e.maj] ++
           be24 e.ttl ++ be32 e.val)
    else .error .struct

/-- `SOMEIPSDEntry.parse(buf, num_options)` -/
def SDEntry.parse (numOptions : Nat) : Bytes → Except Err (SDEntry × Bytes)
  | tyb :: oi1 :: oi2 :: numopt :: s1 :: s0 :: i1 :: i0 :: maj :: t2 :: t1 :: t0 :: v3 :: v2 :: v1 :: v0 :: rest =>
    match EntryType.ofNat? tyb with
    | none => .error .parse
    | some ty =>
      let no1 := numopt / 16
      let no2 := numopt % 16
      if oi1 + no1 > numOptions then .error .parse
      else if oi2 + no2 > numOptions then .error .parse
      else if ty.isEventgroup ∧ u32 v3 v2 v1 v0 / 1048576 % 4096 ≠ 0 then .error .parse
      else .ok ({ ty, sid := u16 s1 s0, iid := u16 i1 i0, maj, ttl := u24 t2 t1 t0, val := u32 v3 v2 v1 v0,
                  idx := some ⟨oi1, oi2, no1, no2⟩ }, rest)
  | _ => .error .incomplete

/-- `entry.resolve_options(options)` (Python slices never fail) -/
def SDEntry.resolve (e : SDEntry) (options : List SDOption) : Except Err SDEntry :=
  match e.idx with
  | none => .error .value
  | some i => .ok { e with opts1 := (options.drop i.oi1).take i.no1,
                           opts2 := (options.drop i.oi2).take i.no2, idx := none }

/-! ### `_find`: Boyer-Moore-Horspool over hashable elements -/

/-- the skip table `{needle[i]: n - i - 1 for i in range(n - 1)}` looked up at `x`, default `n`
(later `i` overwrite earlier ones: the LAST occurrence among the first n-1 elements decides) -/
def bmhSkipGo {α} [DecidableEq α] (n : Nat) (x : α) : List α → Nat → Nat → Nat
  | [], _, acc => acc
  | [_], _, acc => acc            -- the last element is not in the table
  | y :: z :: r, i, acc => bmhSkipGo n x (z :: r) (i + 1) (if y = x then n - i - 1 else acc)

def bmhSkip {α} [DecidableEq α] (needle : List α) (x : α) : Nat :=
  bmhSkipGo needle.length x needle 0 needle.length

/-- does `needle` occur in `hay` at offset `s`? (the inner comparison loop) -/
def matchAt {α} [DecidableEq α] (hay needle : List α) (s : Nat) : Bool :=
  decide ((hay.drop s).take needle.length = needle)

def bmhLoop {α} [DecidableEq α] [Inhabited α] (hay needle : List α) : Nat → Nat → Option Nat
  | 0, _ => none
  | fuel + 1, i =>
    if i < hay.length then
      if matchAt hay needle (i + 1 - needle.length) then some (i + 1 - needle.length)
      else bmhLoop hay needle fuel (i + bmhSkip needle (hay.getD i default))
    else none

/-- `_find(haystack, needle)` for a non-empty needle -/
def bmhFind {α} [DecidableEq α] [Inhabited α] (hay needle : List α) : Option Nat :=
  bmhLoop hay needle (hay.length + 1) (needle.length - 1)

/-- `_assign_option(entry_options, hdr_options)`: returns (index, count) and the grown array -/
def assignOption (run : List SDOption) (opts : List SDOption) : (Nat × Nat) × List SDOption :=
  if run.isEmpty then ((0, 0), opts) else
  match bmhFind opts run with
  | some oi => ((oi, run.length), opts)
  | none => ((opts.length, run.length), opts ++ run)

/-- `entry.assign_option_index(options)` -/
def SDEntry.assign (e : SDEntry) (opts : List SDOption) : SDEntry × List SDOption :=
  match e.idx with
  | some _ => (e, opts)
  | none =>
    let r1 := assignOption e.opts1 opts
    let r2 := assignOption e.opts2 r1.2
    ({ e with opts1 := [], opts2 := [], idx := some ⟨r1.1.1, r2.1.1, r1.1.2, r2.1.2⟩ }, r2.2)

/-! ### SOMEIPSDHeader -/

structure SDHeader where
  entries : List SDEntry
  options : List SDOption := []
  flagReboot : Bool := false
  flagUnicast : Bool := true
  flagsUnknown : Nat := 0
deriving DecidableEq, Repr, Inhabited

def assignAll : List SDEntry → List SDOption → List SDEntry × List SDOption
  | [], opts => ([], opts)
  | e :: r, opts =>
    let a := e.assign opts
    let t := assignAll r a.2
    (a.1 :: t.1, t.2)

/-- `hdr.assign_option_indexes()` -/
def SDHeader.assignOptionIndexes (m : SDHeader) : SDHeader :=
  let r := assignAll m.entries m.options
  { m with entries := r.1, options := r.2 }

def resolveAll (opts : List SDOption) : List SDEntry → Except Err (List SDEntry)
  | [] => .ok []
  | e :: r => do
    let e' ← e.resolve opts
    let r' ← resolveAll opts r
    pure (e' :: r')

/-- `hdr.resolve_options()` -/
def SDHeader.resolveOptions (m : SDHeader) : Except Err SDHeader := do
  let es ← resolveAll m.options m.entries
  pure { m with entries := es }

def buildEntries : List SDEntry → Except Err Bytes
  | [] => .ok []
  | e :: r => do
    let a ← e.build
    let b ← buildEntries r
    pure (a ++ b)

def buildOptions : List SDOption → Except Err Bytes
  | [] => .ok []
  | o :: r => do
    let a ← o.build
    let b ← buildOptions r
    pure (a ++ b)

def SDHeader.flagsByte (m : SDHeader) : Nat :=
  (m.flagsUnknown ||| (if m.flagReboot then 0x80 else 0)) ||| (if m.flagUnicast then 0x40 else 0)

/-- `SOMEIPSDHeader.build` -/
def SDHeader.build (m : SDHeader) : Except Err Bytes := do
  if ¬ (m.flagsByte < 256) then throw .value          -- bytearray([flags, 0, 0, 0])
  let eb ← buildEntries m.entries
  let ob ← buildOptions m.options
  if ¬ (eb.length < 4294967296 ∧ ob.length < 4294967296) then throw .struct
  pure ([m.flagsByte, 0, 0, 0] ++ be32 eb.length ++ eb ++ be32 ob.length ++ ob)

/-- `while options_buffer:` loop; each option consumes ≥ 3 bytes -/
def parseOptions : Nat → Bytes → Except Err (List SDOption)
  | 0, _ => .ok []
  | fuel + 1, b =>
    if b.isEmpty then .ok [] else
    match SDOption.parse b with
    | .error e => .error e
    | .ok (o, r) => do
      let t ← parseOptions fuel r
      pure (o :: t)

/-- `while entries_buffer:` loop; each entry consumes 16 bytes -/
def parseEntries (numOptions : Nat) : Nat → Bytes → Except Err (List SDEntry)
  | 0, _ => .ok []
  | fuel + 1, b =>
    if b.isEmpty then .ok [] else
    match SDEntry.parse numOptions b with
    | .error e => .error e
    | .ok (x, r) => do
      let t ← parseEntries numOptions fuel r
      pure (x :: t)

/-- `SOMEIPSDHeader.parse` -/
def SDHeader.parse (buf : Bytes) : Except Err (SDHeader × Bytes) :=
  match buf with
  | flags :: _ :: _ :: _ :: e3 :: e2 :: e1 :: e0 :: rest =>
    if buf.length < 12 then .error .parse else
    let el := u32 e3 e2 e1 e0
    if rest.length < el + 4 then .error .parse else
    let eb := rest.take el
    match rest.drop el with
    | o3 :: o2 :: o1 :: o0 :: rest2 =>
      let ol := u32 o3 o2 o1 o0
      if rest2.length < ol then .error .parse else
      let ob := rest2.take ol
      match parseOptions ob.length ob with
      | .error e => .error e
      | .ok options =>
        match parseEntries options.length eb.length eb with
        | .error e => .error e
        | .ok entries =>
          .ok ({ entries, options, flagReboot := decide (flags / 128 % 2 = 1),
                 flagUnicast := decide (flags / 64 % 2 = 1), flagsUnknown := flags % 64 },
               rest2.drop ol)
    | _ => .error .parse     -- unreachable (length check above)
  | _ => .error .parse

end Someip
