import SomeipModel.Model.All
import SomeipModel.Spec.Wire
import SomeipModel.ConstTie
import SomeipModel.Props.C01
