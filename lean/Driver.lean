/-
  Line-protocol driver around the model: one operation per input line, one canonical answer line.
  Unverified glue (parsing/printing); everything it calls is the model the theorems are about.
-/
import SomeipModel.Model.All
import SomeipModel.Spec.Wire
import SomeipModel.Spec.Session
import SomeipModel.Spec.Reply
open Someip

/-- token-stream parser -/
abbrev P (α : Type) := List String → Option (α × List String)

def pNat : P Nat
  | t :: r => t.toNat?.map (·, r)
  | [] => none
def pBool : P Bool
  | "1" :: r => some (true, r)
  | "0" :: r => some (false, r)
  | _ => none
def pHex : P Bytes
  | t :: r => (ofHex t).map (·, r)
  | [] => none
def pOptHex : P (Option Bytes)
  | "~" :: r => some (none, r)
  | t :: r => (ofHex t).map (fun b => (some b, r))
  | [] => none
def pDest : P Dest
  | "~" :: r => some (none, r)
  | t :: r => t.toNat?.map (fun n => (some n, r))
  | [] => none

def pMany {α} (p : P α) : Nat → P (List α)
  | 0, ts => some ([], ts)
  | n + 1, ts => do
    let (x, ts) ← p ts
    let (xs, ts) ← pMany p n ts
    pure (x :: xs, ts)

def pCounted {α} (p : P α) : P (List α) := fun ts => do
  let (n, ts) ← pNat ts
  pMany p n ts

def boolStr (b : Bool) : String := if b then "1" else "0"
def joinSp (l : List String) : String := " ".intercalate l

def fmtHeader (h : Header) : String :=
  s!"{h.sid} {h.mid} {h.cid} {h.sess} {h.iv} {h.mt.toNat} {h.pv} {h.rc.toNat} {toHex h.payload}"

def pHeader : P Header := fun ts => do
  let (sid, ts) ← pNat ts; let (mid, ts) ← pNat ts; let (cid, ts) ← pNat ts; let (sess, ts) ← pNat ts
  let (iv, ts) ← pNat ts; let (mt, ts) ← pNat ts; let (pv, ts) ← pNat ts; let (rc, ts) ← pNat ts
  let (pl, ts) ← pHex ts
  let mt ← MsgType.ofNat? mt
  let rc ← RetCode.ofNat? rc
  pure ({ sid, mid, cid, sess, iv, mt, pv, rc, payload := pl }, ts)

def kindNum : IPKind → Nat | .endpoint => 0 | .multicast => 1 | .sdEndpoint => 2
def pKind : P IPKind
  | "0" :: r => some (.endpoint, r) | "1" :: r => some (.multicast, r) | "2" :: r => some (.sdEndpoint, r)
  | _ => none

def fmtOptText : Option Text → String
  | none => "~" | some t => toHex t

def fmtOption : SDOption → String
  | .ipv4 k a l4 p => s!"ip4 {kindNum k} {toHex a} {l4} {p}"
  | .ipv6 k a l4 p => s!"ip6 {kindNum k} {toHex a} {l4} {p}"
  | .loadBal p w => s!"lb {p} {w}"
  | .config items => s!"cfg {items.length}" ++ String.join (items.map fun (k, v) => s!" {toHex k} {fmtOptText v}")
  | .unknown t p => s!"unk {t} {toHex p}"

def pCfgItem : P (Text × Option Text) := fun ts => do
  let (k, ts) ← pHex ts
  let (v, ts) ← pOptHex ts
  pure ((k, v), ts)

def pOption : P SDOption
  | "ip4" :: ts => do
    let (k, ts) ← pKind ts; let (a, ts) ← pHex ts; let (l4, ts) ← pNat ts; let (p, ts) ← pNat ts
    pure (.ipv4 k a l4 p, ts)
  | "ip6" :: ts => do
    let (k, ts) ← pKind ts; let (a, ts) ← pHex ts; let (l4, ts) ← pNat ts; let (p, ts) ← pNat ts
    pure (.ipv6 k a l4 p, ts)
  | "lb" :: ts => do
    let (p, ts) ← pNat ts; let (w, ts) ← pNat ts
    pure (.loadBal p w, ts)
  | "cfg" :: ts => do
    let (items, ts) ← pCounted pCfgItem ts
    pure (.config items, ts)
  | "unk" :: ts => do
    let (t, ts) ← pNat ts; let (p, ts) ← pHex ts
    pure (.unknown t p, ts)
  | _ => none

def fmtOptions (l : List SDOption) : String :=
  s!"{l.length}" ++ String.join (l.map fun o => " " ++ fmtOption o)

def fmtEntry (e : SDEntry) : String :=
  let head := s!"e {e.ty.toNat} {e.sid} {e.iid} {e.maj} {e.ttl} {e.val}"
  match e.idx with
  | none => s!"{head} R {fmtOptions e.opts1} {fmtOptions e.opts2}"
  | some i => s!"{head} I {i.oi1} {i.oi2} {i.no1} {i.no2}"

def pEntry : P SDEntry
  | "e" :: ts => do
    let (ty, ts) ← pNat ts; let ty ← EntryType.ofNat? ty
    let (sid, ts) ← pNat ts; let (iid, ts) ← pNat ts; let (maj, ts) ← pNat ts
    let (ttl, ts) ← pNat ts; let (val, ts) ← pNat ts
    match ts with
    | "R" :: ts => do
      let (o1, ts) ← pCounted pOption ts
      let (o2, ts) ← pCounted pOption ts
      pure ({ ty, sid, iid, maj, ttl, val, opts1 := o1, opts2 := o2, idx := none }, ts)
    | "I" :: ts => do
      let (oi1, ts) ← pNat ts; let (oi2, ts) ← pNat ts; let (no1, ts) ← pNat ts; let (no2, ts) ← pNat ts
      pure ({ ty, sid, iid, maj, ttl, val, idx := some ⟨oi1, oi2, no1, no2⟩ }, ts)
    | _ => none
  | _ => none

def fmtSD (m : SDHeader) : String :=
  s!"sd {boolStr m.flagReboot} {boolStr m.flagUnicast} {m.flagsUnknown} {m.entries.length}" ++
  String.join (m.entries.map fun e => " " ++ fmtEntry e) ++ " " ++ fmtOptions m.options

def pSD : P SDHeader
  | "sd" :: ts => do
    let (rb, ts) ← pBool ts; let (uc, ts) ← pBool ts; let (fu, ts) ← pNat ts
    let (es, ts) ← pCounted pEntry ts
    let (os, ts) ← pCounted pOption ts
    pure ({ entries := es, options := os, flagReboot := rb, flagUnicast := uc, flagsUnknown := fu }, ts)
  | _ => none

def fmtService (s : Service) : String :=
  s!"svc {s.sid} {s.iid} {s.maj} {s.min} {fmtOptions s.opts1} {fmtOptions s.opts2} {s.eventgroups.length}" ++
  String.join (s.eventgroups.map fun g => s!" {g}")

def pService : P Service
  | "svc" :: ts => do
    let (sid, ts) ← pNat ts; let (iid, ts) ← pNat ts; let (maj, ts) ← pNat ts; let (min, ts) ← pNat ts
    let (o1, ts) ← pCounted pOption ts
    let (o2, ts) ← pCounted pOption ts
    let (egs, ts) ← pCounted pNat ts
    pure ({ sid, iid, maj, min, opts1 := o1, opts2 := o2, eventgroups := egs }, ts)
  | _ => none

def fmtEventgroup (g : Eventgroup) : String :=
  s!"eg {g.sid} {g.iid} {g.maj} {g.egid} {toHex g.sockname.addr} {g.sockname.port} {g.proto}"

def pEventgroup : P Eventgroup
  | "eg" :: ts => do
    let (sid, ts) ← pNat ts; let (iid, ts) ← pNat ts; let (maj, ts) ← pNat ts; let (egid, ts) ← pNat ts
    let (a, ts) ← pHex ts; let (port, ts) ← pNat ts; let (proto, ts) ← pNat ts
    pure ({ sid, iid, maj, egid, sockname := ⟨a, port⟩, proto }, ts)
  | _ => none

def exStr {α} (f : α → String) : Except Err α → String
  | .ok a => "ok " ++ f a
  | .error e => "err " ++ e.name

def fmtBoolE : Except Err Bool → String := exStr boolStr

def pHandler : P (Nat × HandlerResult) := fun ts => do
  let (mid, ts) ← pNat ts
  match ts with
  | "ret" :: ts => do let (b, ts) ← pHex ts; pure ((mid, .bytes b), ts)
  | "none" :: ts => pure ((mid, .nothing), ts)
  | "malformed" :: ts => pure ((mid, .malformed), ts)
  | _ => none

def pRecv : P (Addr × Bool × Bool × Nat) := fun ts => do
  let (a, ts) ← pNat ts; let (mc, ts) ← pBool ts; let (fl, ts) ← pBool ts; let (sid, ts) ← pNat ts
  pure ((a, mc, fl, sid), ts)

def endStr : Option StreamEnd → String
  | none => "none" | some .eofClean => "eofClean" | some .incomplete => "incomplete" | some .parseError => "parseError"

def handle (toks : List String) : Option String :=
  match toks with
  | "hdr.build" :: r => do
    let (h, []) ← pHeader r | none
    pure (match h.build with | some b => s!"ok {toHex b}" | none => "err struct.error")
  | "spec.layout" :: r => do
    let (h, []) ← pHeader r | none
    pure s!"fits={boolStr (decide (Spec.FitsNum h))} {toHex (Spec.layout h)}"
  | ["hdr.parse", hx] => do
    let b ← ofHex hx
    pure (exStr (fun (h, r) => s!"{fmtHeader h} {toHex r}") (Header.parse b))
  | ["dgram", hx] => do
    let b ← ofHex hx
    let (hs, e) := datagram b
    let es := match e with | none => "none" | some e => e.name
    pure (s!"n={hs.length} err={es}" ++ String.join (hs.map fun h => " | " ++ fmtHeader h))
  | "opt.build" :: r => do
    let (o, []) ← pOption r | none
    pure (exStr toHex o.build)
  | ["opt.parse", hx] => do
    let b ← ofHex hx
    pure (exStr (fun (o, r) => s!"{fmtOption o} | {toHex r}") (SDOption.parse b))
  | "entry.build" :: r => do
    let (e, []) ← pEntry r | none
    pure (exStr toHex e.build)
  | ["entry.parse", n, hx] => do
    let n ← n.toNat?
    let b ← ofHex hx
    pure (exStr (fun (e, r) => s!"{fmtEntry e} | {toHex r}") (SDEntry.parse n b))
  | "sd.build" :: r => do
    let (m, []) ← pSD r | none
    pure (exStr toHex m.build)
  | ["sd.parse", hx] => do
    let b ← ofHex hx
    pure (exStr (fun (m, r) => s!"{fmtSD m} | {toHex r}") (SDHeader.parse b))
  | "sd.assign" :: r => do
    let (m, []) ← pSD r | none
    pure (fmtSD m.assignOptionIndexes)
  | "sd.resolve" :: r => do
    let (m, []) ← pSD r | none
    pure (exStr fmtSD m.resolveOptions)
  | "sd.encode" :: r => do
    let (m, []) ← pSD r | none
    pure (exStr toHex m.assignOptionIndexes.build)
  | ["sd.decode", hx] => do
    let b ← ofHex hx
    pure (exStr (fun (m, r) => s!"{fmtSD m} | {toHex r}")
      (do let (m, r) ← SDHeader.parse b; let m' ← m.resolveOptions; pure (m', r)))
  | "find" :: r => do
    let (hay, r) ← pCounted pNat r
    let (nd, []) ← pCounted pNat r | none
    pure (match bmhFind hay nd with | some i => s!"{i}" | none => "none")
  | "cfg.matchOffer" :: r => do
    let (s, r) ← pService r
    let (e, []) ← pEntry r | none
    pure (fmtBoolE (s.matchesOffer e))
  | "cfg.matchFind" :: r => do
    let (s, r) ← pService r
    let (e, []) ← pEntry r | none
    pure (fmtBoolE (s.matchesFind e))
  | "cfg.matchSub" :: r => do
    let (s, r) ← pService r
    let (e, []) ← pEntry r | none
    pure (fmtBoolE (s.matchesSubscribe e))
  | "cfg.matchSvc" :: r => do
    let (s, r) ← pService r
    let (o, []) ← pService r | none
    pure (boolStr (s.matchesService o))
  | "cfg.find" :: r => do
    let (s, r) ← pService r
    let (ttl, []) ← pNat r | none
    pure (fmtEntry (s.createFindEntry ttl))
  | "cfg.offer" :: r => do
    let (s, r) ← pService r
    let (ttl, []) ← pNat r | none
    pure (fmtEntry (s.createOfferEntry ttl))
  | "cfg.fromOffer" :: r => do
    let (e, []) ← pEntry r | none
    pure (exStr fmtService (Service.fromOfferEntry e))
  | "cfg.forService" :: r => do
    let (g, r) ← pEventgroup r
    let (s, []) ← pService r | none
    pure (match g.forService s with | some g' => fmtEventgroup g' | none => "none")
  | "cfg.subEntry" :: r => do
    let (g, r) ← pEventgroup r
    let (ttl, r) ← pNat r
    let (c, []) ← pNat r | none
    pure (fmtEntry (g.createSubscribeEntry ttl c))
  | "cfg.asService" :: r => do
    let (g, []) ← pEventgroup r | none
    pure (fmtService g.asService)
  | "sess.recv" :: r => do
    let (ms, []) ← pCounted pRecv r | none
    let hist := ms.map fun (a, mc, fl, sid) => ({ sender := a, mc, flag := fl, sid } : RxMsg)
    pure (joinSp ((runRecv [] hist).map boolStr))
  | "sess.send" :: r => do
    let (ds, []) ← pCounted pDest r | none
    pure (joinSp ((runSend [] ds).map fun x => s!"{boolStr x.1}:{x.2}"))
  | "spec.recv" :: r => do
    let (ms, []) ← pCounted pRecv r | none
    let hist := ms.map fun (a, mc, fl, sid) => ({ sender := a, mc, flag := fl, sid } : RxMsg)
    pure (joinSp ((Spec.detections [] hist).map boolStr))
  | "spec.send" :: r => do
    let (ds, []) ← pCounted pDest r | none
    pure (joinSp ((Spec.expectedSends [] ds).map fun x => s!"{boolStr x.1}:{x.2}"))
  | "svc.msg" :: r => do
    let (sid, r) ← pNat r; let (maj, r) ← pNat r
    let (ms, r) ← pCounted pHandler r
    let (mc, r) ← pBool r
    let (h, []) ← pHeader r | none
    let cfg : SvcCfg := { serviceId := sid, versionMajor := maj, methods := ms }
    let out := cfg.messageReceived h mc
    pure (s!"n={out.length}" ++ String.join (out.map fun h =>
      " | " ++ (match h.build with | some b => toHex b | none => "struct.error")))
  | "spec.reply" :: r => do
    let (sid, r) ← pNat r; let (maj, r) ← pNat r
    let (ms, r) ← pCounted pHandler r
    let (mc, r) ← pBool r
    let (h, []) ← pHeader r | none
    let cfg : SvcCfg := { serviceId := sid, versionMajor := maj, methods := ms }
    let out := Spec.reply cfg h mc
    pure (s!"n={out.length}" ++ String.join (out.map fun h => " | " ++ fmtHeader h))
  | "stream" :: r => do
    let (cs, []) ← pCounted pHex r | none
    let (hs, e) := readStream cs
    pure (s!"n={hs.length} end={endStr e}" ++ String.join (hs.map fun h => " | " ++ fmtHeader h))
  | _ => none

/-! ### stateful stack sessions -/

def pOptNat : P (Option Nat)
  | "~" :: r => some (none, r)
  | t :: r => t.toNat?.map (fun n => (some n, r))
  | [] => none

def pTimings : P Timings := fun ts => do
  let (a, ts) ← pNat ts; let (b, ts) ← pNat ts; let (c, ts) ← pNat ts; let (d, ts) ← pNat ts
  let (e, ts) ← pNat ts; let (f, ts) ← pNat ts; let (g, ts) ← pNat ts; let (h, ts) ← pNat ts
  let (i, ts) ← pNat ts; let (j, ts) ← pNat ts; let (k, ts) ← pOptNat ts; let (l, ts) ← pNat ts
  pure ({ initialDelayMin := a, initialDelayMax := b, reqRespDelayMin := c, reqRespDelayMax := d,
          repetitionsMax := e, repetitionsBaseDelay := f, cyclicOfferDelay := g, findTtl := h,
          announceTtl := i, subscribeTtl := j, subscribeRefresh := k, sendCollectionTimeout := l }, ts)

def pListener : P Listener
  | "ext" :: ts => do let (id, ts) ← pNat ts; pure (.ext id, ts)
  | "auto" :: ts => do let (g, ts) ← pEventgroup ts; pure (.auto g, ts)
  | _ => none

def pInput : P Stack.Input
  | "start" :: ts => some (.start, ts)
  | "stop" :: ts => some (.stop, ts)
  | "connLost" :: ts => some (.connLost, ts)
  | "annStop" :: ts => some (.announcerStop, ts)
  | "annStart" :: ts => some (.announcerStart, ts)
  | "dgram" :: ts => do
    let (a, ts) ← pNat ts; let (mc, ts) ← pBool ts; let (b, ts) ← pHex ts
    pure (.dgram a mc b, ts)
  | "watch" :: ts => do
    let (f, ts) ← pService ts; let (l, ts) ← pListener ts
    pure (.watch f l, ts)
  | "unwatch" :: ts => do
    let (f, ts) ← pService ts; let (l, ts) ← pListener ts
    pure (.unwatch f l, ts)
  | "watchAll" :: ts => do let (id, ts) ← pNat ts; pure (.watchAll id, ts)
  | "unwatchAll" :: ts => do let (id, ts) ← pNat ts; pure (.unwatchAll id, ts)
  | "subscribe" :: ts => do
    let (g, ts) ← pEventgroup ts; let (d, ts) ← pNat ts
    pure (.subscribe g d, ts)
  | "stopSubscribe" :: ts => do
    let (g, ts) ← pEventgroup ts; let (d, ts) ← pNat ts
    pure (.stopSubscribe g d, ts)
  | "announce" :: ts => do let (i, ts) ← pNat ts; pure (.announce i, ts)
  | "stopAnnounce" :: ts => do
    let (i, ts) ← pNat ts; let (b, ts) ← pBool ts
    pure (.stopAnnounce i b, ts)
  | "setNak" :: ts => do
    let (i, ts) ← pNat ts; let (egs, ts) ← pCounted pNat ts
    pure (.setNak i egs, ts)
  | "draws" :: ts => do let (ds, ts) ← pCounted pNat ts; pure (.draws ds, ts)
  | _ => none

def fmtSvcKey (k : SvcKey) : String := s!"{k.sid} {k.iid} {k.maj} {k.min}"
def fmtSubKey (k : SubKey) : String :=
  let eps := ((k.endpoints.map fmtOption).toArray.qsort (· < ·)).toList
  s!"{k.sid} {k.iid} {k.maj} {k.egid} {k.counter} {eps.length}" ++ String.join (eps.map fun e => " [" ++ e ++ "]")
def fmtDest : Dest → String | none => "~" | some a => s!"{a}"

def fmtOut (o : Nat × Out) : String :=
  let t := o.1
  match o.2 with
  | .send d b => s!"{t} send {fmtDest d} {toHex b}"
  | .offered l k a => s!"{t} offered {l} {fmtSvcKey k} from {a}"
  | .stopped l k a => s!"{t} stopped {l} {fmtSvcKey k} from {a}"
  | .subscribed i k a => s!"{t} subscribed {i} {fmtSubKey k} from {a}"
  | .unsubscribed i k a => s!"{t} unsubscribed {i} {fmtSubKey k} from {a}"
  | .raised e => s!"{t} raised {e.name}"
  | .queued d e => s!"{t} queued {fmtDest d} {fmtEntry e}"

def taskName (s : Stack) (tid : Tid) : String :=
  match s.getTask tid with
  | some _ => (match tid.1 with | .offer _ => "task:_offer_task" | .find => "task:send_find_services" | .subscribe => "task:_subscribe")
  | none => "task:?"

def cbName (s : Stack) : Cb → String
  | .connLost .subscriber => "connection_lost:subscriber"
  | .connLost .discovery => "connection_lost:discovery"
  | .connLost .announcer => "connection_lost:announcer"
  | .expiredSvc _ _ => "_expired"
  | .expiredSub _ _ _ => "_expired"
  | .sendStartSubscribe _ _ => "_send_start_subscribe"
  | .sendStopSubscribe _ _ => "_send_stop_subscribe"
  | .sendOfferTo _ _ => "_send_offer"
  | .collectorTimeout _ => "_handle_timeout"
  | .taskStep tid => taskName s tid
  | .sleepDone _ => "sleep"

def fmtState (s : Stack) (from_ : Nat) (slogFrom : Nat := 0) (txFrom : Nat := 0) : String :=
  let outs := (s.outs.drop from_).map fmtOut
  let ready := s.loop.ready.map fun r => cbName s r.cb
  let timers := (s.loop.timers.map fun t => (t.deadline, t.seq, cbName s t.cb))
  let timers := (timers.toArray.qsort (fun a b => a.1 < b.1 || (a.1 == b.1 && a.2.1 < b.2.1))).toList
  let tm := fun (t : Option Nat) => match t with | some q => s!"{q}" | none => "~"
  let found := s.found.map fun p => s!"{p.1}:" ++ "|".intercalate (p.2.map fun e => s!"{fmtSvcKey e.key}#{tm e.timer}")
  let subs := (s.instances.zipIdx.map fun (inst, i) =>
    s!"{i}>" ++ ";".intercalate (inst.subs.map fun p => s!"{p.1}:" ++ "|".intercalate (p.2.map fun e => s!"{fmtSubKey e.key}#{tm e.timer}")))
  let slog := (s.storeLog.drop slogFrom).map fun (o, k, a) => s!"{if o then "+" else "-"}{fmtSvcKey k}@{a}"
  s!"now={s.loop.now} outs=[{" ; ".intercalate outs}] ready=[{",".intercalate ready}] timers=[" ++
    ",".intercalate (timers.map fun (d, q, n) => s!"{q}@{d}:{n}") ++ "]" ++
    s!" found=[{";".intercalate found}] subs=[{" ".intercalate subs}] slog=[{",".intercalate slog}]" ++
    s!" tx=[{",".intercalate ((s.sendLog.drop txFrom).map fun (d, f, i) => s!"{fmtDest d}:{if f then 1 else 0}:{i}")}]"

abbrev Sessions := List (String × Stack)

def sessGet (ss : Sessions) (n : String) : Option Stack := (ss.find? (·.1 == n)).map (·.2)
def sessSet (ss : Sessions) (n : String) (s : Stack) : Sessions := (n, s) :: ss.filter (·.1 != n)

def handleStack (ss : Sessions) (toks : List String) : Option (Sessions × String) :=
  match toks with
  | "stk.new" :: name :: r => do
    let (tm, r) ← pTimings r
    let (svcs, []) ← pCounted pService r | none
    let s : Stack := { tm, instances := svcs.map fun sv => { service := sv } }
    pure (sessSet ss name s, "ok " ++ fmtState s 0)
  | "stk.in" :: name :: r => do
    let s ← sessGet ss name
    let (x, []) ← pInput r | none
    let s' := s.applyInput x
    pure (sessSet ss name s', "ok " ++ fmtState s' s.outs.length s.storeLog.length s.sendLog.length)
  | ["stk.run", name] => do
    let s ← sessGet ss name
    match s.step .run with
    | some s' => pure (sessSet ss name s', "ok " ++ fmtState s' s.outs.length s.storeLog.length s.sendLog.length)
    | none => pure (ss, "disabled")
  | ["stk.fire", name, q] => do
    let s ← sessGet ss name
    let q ← q.toNat?
    match s.step (.fire q) with
    | some s' => pure (sessSet ss name s', "ok " ++ fmtState s' s.outs.length s.storeLog.length s.sendLog.length)
    | none => pure (ss, "disabled")
  | ["stk.adv", name, t] => do
    let s ← sessGet ss name
    let t ← t.toNat?
    match s.step (.adv t) with
    | some s' => pure (sessSet ss name s', "ok " ++ fmtState s' s.outs.length s.storeLog.length s.sendLog.length)
    | none => pure (ss, "disabled")
  | _ => none

/-! ### eventgroup sessions (C17) -/

abbrev EGSessions := List (String × EG)

def fmtEG (g : EG) (from_ : Nat) : String :=
  let sent := (g.sent.drop from_).map fun (t, d, b) => s!"{t} {d} {toHex b}"
  let subs := (g.subscribed.toArray.qsort (· < ·)).toList.map toString
  s!"now={g.now} sent=[{" ; ".intercalate sent}] subs=[{",".intercalate subs}] clients={boolStr g.hasClients}"

def handleEG (gs : EGSessions) (toks : List String) : Option (EGSessions × String) :=
  let get (n : String) := (gs.find? (·.1 == n)).map (·.2)
  let put (n : String) (g : EG) : EGSessions := (n, g) :: gs.filter (·.1 != n)
  match toks with
  | ["eg.new", name, sid, maj, egid, interval] => do
    let sid ← sid.toNat?; let maj ← maj.toNat?; let egid ← egid.toNat?; let iv ← interval.toNat?
    let g : EG := { serviceId := sid, major := maj, egid, interval := iv, cyc := if iv = 0 then .off else .created,
                    pending := if iv = 0 then [] else [NTask.cycStep] }
    pure (put name g, "ok " ++ fmtEG g 0)
  | ["eg.sub", name, ep] => do
    let g ← get name; let ep ← ep.toNat?
    let g' := g.subscribe ep
    pure (put name g', "ok " ++ fmtEG g' g.sent.length)
  | ["eg.unsub", name, ep] => do
    let g ← get name; let ep ← ep.toNat?
    match g.unsubscribe ep with
    | some g' => pure (put name g', "ok " ++ fmtEG g' g.sent.length)
    | none => pure (gs, "err KeyError")
  | ["eg.set", name, ev, hx] => do
    let g ← get name; let ev ← ev.toNat?; let b ← ofHex hx
    let g' := g.setValue ev b
    pure (put name g', "ok " ++ fmtEG g' g.sent.length)
  | "eg.once" :: name :: r => do
    let g ← get name
    let (evs, []) ← pCounted pNat r | none
    let g' := g.notifyOnce evs
    pure (put name g', "ok " ++ fmtEG g' g.sent.length)
  | ["eg.settle", name] => do
    let g ← get name
    let g' := g.settle (4 * (g.pending.length + g.subscribed.length) + 8)
    pure (put name g', "ok " ++ fmtEG g' g.sent.length)
  | ["eg.adv", name, t] => do
    let g ← get name; let t ← t.toNat?
    let g' := EG.advance (if g.interval = 0 then 1 else (t - g.now) / g.interval + 2) g t
    pure (put name g', "ok " ++ fmtEG g' g.sent.length)
  | "eg.client" :: name :: egid :: r => do
    let g ← get name; let egid ← egid.toNat?
    let (eps, []) ← pCounted pNat r | none
    let (g', ok) := g.clientSubscribed egid eps
    pure (put name g', (if ok then "ok " else "nak ") ++ fmtEG g' g.sent.length)
  | _ => none

partial def loop (h : IO.FS.Stream) (out : IO.FS.Stream) (ss : Sessions) (gs : EGSessions) : IO Unit := do
  let line ← h.getLine
  if line.isEmpty then return ()
  let toks := (line.trimAscii.toString.splitOn " ").filter (· ≠ "")
  match toks with
  | t :: _ =>
    if t.startsWith "stk." then
      match handleStack ss toks with
      | some (ss', ans) => out.putStrLn ans; loop h out ss' gs
      | none => out.putStrLn "bad-op"; loop h out ss gs
    else if t.startsWith "eg." then
      match handleEG gs toks with
      | some (gs', ans) => out.putStrLn ans; loop h out ss gs'
      | none => out.putStrLn "bad-op"; loop h out ss gs
    else
      out.putStrLn ((handle toks).getD "bad-op"); loop h out ss gs
  | [] => out.putStrLn "bad-op"; loop h out ss gs

def main : IO Unit := do
  let stdin ← IO.getStdin
  let stdout ← IO.getStdout
  loop stdin stdout [] []
