/-
  Line-protocol driver around the model: one operation per input line, one canonical answer line.
  Unverified glue (parsing/printing); everything it calls is the model the theorems are about.
-/
import SomeipModel.Model.Bytes
import SomeipModel.Model.Header
import SomeipModel.Spec.Wire
open Someip

def natTok (s : String) : Option Nat := s.toNat?

def fmtHeader (h : Header) : String :=
  s!"{h.sid} {h.mid} {h.cid} {h.sess} {h.iv} {h.mt.toNat} {h.pv} {h.rc.toNat} {toHex h.payload}"

def readHeader : List String → Option (Header × List String)
  | sid :: mid :: cid :: sess :: iv :: mt :: pv :: rc :: pl :: rest => do
    let sid ← natTok sid; let mid ← natTok mid; let cid ← natTok cid; let sess ← natTok sess
    let iv ← natTok iv; let mt ← (natTok mt).bind MsgType.ofNat?; let pv ← natTok pv
    let rc ← (natTok rc).bind RetCode.ofNat?; let pl ← ofHex pl
    pure ({ sid, mid, cid, sess, iv, mt, pv, rc, payload := pl }, rest)
  | _ => none

def boolStr (b : Bool) : String := if b then "1" else "0"

def handle (toks : List String) : String :=
  match toks with
  | "hdr.build" :: r =>
    match readHeader r with
    | some (h, []) =>
      match h.build with
      | some b => s!"ok {toHex b}"
      | none => "err struct.error"
    | _ => "bad-op"
  | "spec.layout" :: r =>
    match readHeader r with
    | some (h, []) => s!"fits={boolStr (decide (Spec.FitsNum h))} {toHex (Spec.layout h)}"
    | _ => "bad-op"
  | ["hdr.parse", hx] =>
    match ofHex hx with
    | some b =>
      match Header.parse b with
      | .ok (h, r) => s!"ok {fmtHeader h} {toHex r}"
      | .error e => s!"err {e.name}"
    | none => "bad-op"
  | ["dgram", hx] =>
    match ofHex hx with
    | some b =>
      let (hs, e) := datagram b
      let es := match e with | none => "none" | some e => e.name
      s!"n={hs.length} err={es}" ++ String.join (hs.map fun h => " | " ++ fmtHeader h)
    | none => "bad-op"
  | _ => "bad-op"

partial def loop (h : IO.FS.Stream) (out : IO.FS.Stream) : IO Unit := do
  let line ← h.getLine
  if line.isEmpty then return ()
  let toks := (line.trimAscii.toString.splitOn " ").filter (· ≠ "")
  out.putStrLn (handle toks)
  loop h out

def main : IO Unit := do
  let stdin ← IO.getStdin
  let stdout ← IO.getStdout
  loop stdin stdout
