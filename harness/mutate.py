"""mutators over valid encodings + an independent non-canonical SD encoder"""
from __future__ import annotations

import struct

import someip.header as H

from harness import gen, sdio


def wrap_sd(payload: bytes, session_id=1, **kw) -> bytes:
    f = dict(service_id=H.SD_SERVICE, method_id=H.SD_METHOD, client_id=0, session_id=session_id,
             interface_version=1, message_type=H.SOMEIPMessageType.NOTIFICATION, payload=payload)
    f.update(kw)
    return H.SOMEIPHeader(**f).build()


def valid_sd_payload(rng, max_entries=6) -> bytes:
    while True:
        m = sdio.gen_sd(rng, wf=True, max_entries=max_entries)
        try:
            return bytes(m.assign_option_indexes().build())
        except Exception:  # noqa: BLE001
            continue


def mutate(rng, b: bytes, offset_hint=None) -> tuple[bytes, str]:
    """one structured mutation; returns (mutant, kind)"""
    b = bytearray(b)
    n = len(b)
    kind = rng.choice(["flip", "byte", "trunc", "insert", "dup", "len", "count", "hi", "zero", "ff"])
    if n == 0:
        return bytes([rng.randrange(256)]), "insert"
    i = rng.randrange(n)
    if kind == "flip":
        b[i] ^= 1 << rng.randrange(8)
    elif kind == "byte":
        b[i] = rng.choice([0, 1, 0x3D, 0x7F, 0x80, 0xFF, rng.randrange(256)])
    elif kind == "trunc":
        cut = rng.choice([i, max(0, n - 1), max(0, n - rng.randrange(1, 5)), rng.choice([8, 12, 16, 24, 28]) % (n + 1)])
        b = b[:cut]
    elif kind == "insert":
        b[i:i] = gen.rbytes(rng, rng.choice([1, 2, 3, 16]))
    elif kind == "dup":
        j = min(n, i + rng.choice([1, 3, 16, 19]))
        b[i:i] = b[i:j]
    elif kind == "len":
        # corrupt a plausible length field: SOME/IP length (4..8), SD entries length (24..28), options length, option length
        pos = rng.choice([4, 24, 28 + (int.from_bytes(b[24:28], "big") if n >= 28 else 0), i])
        if pos + 4 <= n:
            cur = int.from_bytes(b[pos:pos + 4], "big")
            new = rng.choice([0, 1, 7, 8, cur + 1, max(0, cur - 1), cur + 16, 0xFFFFFFFF, 0x10000])
            b[pos:pos + 4] = struct.pack("!I", new & 0xFFFFFFFF)
    elif kind == "count":
        # entry index / count bytes live at entry offsets +1,+2,+3; entries start at 24 in a wrapped SD message
        if n >= 44:
            k = 24 + 4 + 16 * rng.randrange(max(1, (n - 28) // 16)) + rng.choice([1, 2, 3])
            if k < n:
                b[k] = rng.choice([0, 1, 0x0F, 0x10, 0x11, 0xF0, 0xFF, b[k] + 1 & 0xFF])
    elif kind == "hi":
        for _ in range(rng.choice([1, 2, 5])):
            b[rng.randrange(n)] |= 0x80
    elif kind == "zero":
        j = min(n, i + rng.choice([1, 4, 16]))
        b[i:j] = bytes(j - i)
    elif kind == "ff":
        j = min(n, i + rng.choice([1, 4, 16]))
        b[i:j] = b"\xff" * (j - i)
    return bytes(b), kind


def mutants(rng, b: bytes, k: int):
    out = []
    for _ in range(k):
        m, kind = mutate(rng, b)
        if rng.random() < 0.3:
            m, k2 = mutate(rng, m)
            kind += "+" + k2
        out.append((m, kind))
    return out


# ---------------------------------------------------------------- independent non-canonical encoder


def noncanon_option(rng) -> bytes:
    """legal but unusual option encodings"""
    k = rng.random()
    if k < 0.3:  # configuration option: non-zero reserved byte, garbage after the terminating zero
        body = bytes([rng.choice([0, 1, 0xFF])])
        for _ in range(rng.randrange(0, 4)):
            s = sdio.gen_text(rng, minlen=rng.choice([0, 1, 1]), allow_eq=True).encode("ascii")
            if rng.random() < 0.5:
                s += b"=" + sdio.gen_text(rng, allow_eq=True).encode("ascii")
            if not s:
                s = b"=" if rng.random() < 0.5 else b"k"
            body += bytes([len(s)]) + s
        body += b"\0" + gen.rbytes(rng, rng.choice([0, 0, 1, 5]))
        ty = 1
    elif k < 0.45:  # load balancing with non-zero reserved
        body = bytes([rng.choice([0, 7, 0xFF])]) + gen.rbytes(rng, 4)
        ty = 2
    elif k < 0.75:  # ip options: reserved bytes non-zero, unknown protocol numbers
        v6 = rng.random() < 0.4
        body = bytes([rng.choice([0, 9])]) + gen.rbytes(rng, 16 if v6 else 4) + bytes([rng.choice([0, 3]), rng.randrange(256)]) + gen.rbytes(rng, 2)
        ty = rng.choice([0x06, 0x16, 0x26] if v6 else [0x04, 0x14, 0x24])
    else:  # unknown option types 0x00..0xFF
        ty = rng.choice([t for t in range(256) if t not in (1, 2, 4, 6, 0x14, 0x16, 0x24, 0x26)])
        body = gen.rbytes(rng, rng.choice([0, 1, 3, 9, 30]))
    return struct.pack("!HB", len(body), ty) + body


def noncanon_sd(rng) -> bytes:
    nopt = rng.randrange(0, 8)
    opts = [noncanon_option(rng) for _ in range(nopt)]
    ents = b""
    for _ in range(rng.randrange(0, 6)):
        ty = rng.choice([0, 1, 6, 7])
        n1 = rng.randrange(0, min(nopt, 15) + 1)
        i1 = rng.randrange(0, nopt - n1 + 1) if n1 else rng.choice([0, 0, rng.randrange(0, nopt + 1)])
        n2 = rng.randrange(0, min(nopt, 15) + 1)
        i2 = rng.randrange(0, nopt - n2 + 1) if n2 else rng.choice([0, rng.randrange(0, nopt + 1)])
        val = gen.u32(rng) if ty in (0, 1) else (rng.randrange(16) << 16) | gen.u16(rng)
        ents += struct.pack("!BBBBHHBBHI", ty, i1, i2, (n1 << 4) | n2, gen.u16(rng), gen.u16(rng), gen.u8(rng),
                            rng.randrange(256), gen.u16(rng), val)
    ob = b"".join(opts)
    flags = rng.choice([0, 0x40, 0x80, 0xC0]) | rng.choice([0, 0, 1, 0x20, 0x3F])
    return bytes([flags]) + gen.rbytes(rng, 3) + struct.pack("!I", len(ents)) + ents + struct.pack("!I", len(ob)) + ob
