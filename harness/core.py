"""Shared machinery of the /verif checks: Lean build + audit, model driver, evidence, verdicts.

Run under /venv/bin/python with PYTHONPATH=/repo/src (set up by /verif/check).
"""
from __future__ import annotations

import collections
import fcntl
import hashlib
import json
import os
import random
import re
import subprocess
import sys
import time
import traceback

VERIF = os.path.dirname(os.path.dirname(os.path.abspath(__file__)))
LEAN = os.path.join(VERIF, "lean")
REPO = os.environ.get("VERIF_REPO", "/repo")
SRC = os.path.join(REPO, "src")
DRIVER = os.path.join(LEAN, ".lake", "build", "bin", "driver")
# tools that run the checks against a temporarily modified /repo (try_patch.sh, regress_seeded.py) redirect the evidence, so
# that /verif/evidence only ever holds runs on the unchanged tree
EVIDENCE = os.environ.get("VERIF_EVIDENCE_DIR") or os.path.join(VERIF, "evidence")
REPLAYS = os.path.join(VERIF, "replays")
ALLOWED_AXIOMS = {"propext", "Classical.choice", "Quot.sound"}
FORBIDDEN = re.compile(
    r"\bsorry\b|\badmit\b|^\s*axiom\s|native_decide|bv_decide|implemented_by|\bunsafe\s|maxHeartbeats\s+0\b"
)


class Infra(Exception):
    """infrastructure failure unrelated to /repo: exit 2"""


# ----------------------------------------------------------------------------- Lean side


def _strip_comments(text: str) -> str:
    text = re.sub(r"/-.*?-/", lambda m: "\n" * m.group(0).count("\n"), text, flags=re.S)
    return re.sub(r"--.*", "", text)


def scan_forbidden() -> list[str]:
    hits = []
    for root, _d, files in os.walk(LEAN):
        if ".lake" in root:
            continue
        for f in files:
            if not f.endswith(".lean"):
                continue
            p = os.path.join(root, f)
            for n, line in enumerate(_strip_comments(open(p).read()).split("\n"), 1):
                if FORBIDDEN.search(line):
                    hits.append(f"{os.path.relpath(p, LEAN)}:{n}: {line.strip()}")
    return hits


def scan_ghosts() -> list[str]:
    """Ghost discipline of the model: a field declared with a `-- ghost` comment in Model/*.lean may occur elsewhere in the
    model only as the target of an update whose right-hand side reads the field, if at all, as `<x>.G ++ ...` / `<x>.G || ...`
    (append-only logs, sticky flags).  So no ghost is ever read by a condition or flows into a non-ghost field: erasing the
    ghosts changes no output of the model, and what the theorems say about them is about what the model did."""
    hits = []
    mdir = os.path.join(LEAN, "SomeipModel", "Model")
    for f in sorted(os.listdir(mdir)):
        if not f.endswith(".lean"):
            continue
        raw = open(os.path.join(mdir, f)).read().split("\n")
        ghosts = [m.group(1) for l in raw for m in [re.match(r"\s+(\w+)\s*:[^=]*:=.*--\s*ghost", l)] if m]
        code = _strip_comments("\n".join(raw)).split("\n")
        for g in ghosts:
            for n, line in enumerate(code, 1):
                if not re.search(r"\b%s\b" % g, line) or re.match(r"\s+%s\s*:" % g, line):
                    continue
                ok = re.search(r"\b%s := " % g, line) is not None
                for m in re.finditer(r"\.%s\b" % g, line):
                    if not re.match(r"\.%s (\+\+|\|\|) " % g, line[m.start():]):
                        ok = False
                if len(re.findall(r"\b%s\b" % g, line)) != len(re.findall(r"\b%s := " % g, line)) + len(re.findall(r"\.%s\b" % g, line)):
                    ok = False
                if not ok:
                    hits.append(f"Model/{f}:{n}: ghost `{g}` used outside an append-only update: {line.strip()[:120]}")
    return hits


# properties whose theorems rest on the wire constants / formats extracted into ConstTie.lean
LAST_TIE: dict[str, str] = {}   # translator status of the last build: function -> 'translated' | 'UNTRANSLATED: reason'
CONST_TIE = {"SomeipModel.ConstTie": {"C01", "C02", "C03", "C09", "C16", "C18", "C20"}}


def _module_index() -> dict[str, str]:
    """short theorem name -> Lean module that states it (names of registered theorems are unique)"""
    idx: dict[str, str] = {}
    base = os.path.join(LEAN, "SomeipModel")
    for root, _dirs, files in os.walk(base):
        for f in files:
            if not f.endswith(".lean"):
                continue
            path = os.path.join(root, f)
            mod = "SomeipModel." + os.path.relpath(path, base)[:-5].replace(os.sep, ".")
            with open(path) as fh:
                for m in re.finditer(r"^theorem\s+([^\s(:{\[]+)", fh.read(), re.M):
                    idx.setdefault(m.group(1).split(".")[-1], mod)
    return idx


def modules_for(pid: str) -> list[str]:
    """the proof obligations of one property: the modules that state its registered theorems (they import what they
    need) plus the generated tie modules it rests on.  A failure anywhere else does not concern this property."""
    idx = _module_index()
    mods = {idx[t.split(".")[-1]] for t in theorems_for(pid) if t.split(".")[-1] in idx}
    mods |= {m for m, pids in CONST_TIE.items() if pid in pids}
    return sorted(mods)


def _lake(args: list[str]):
    p = subprocess.run(["lake", "build"] + args, cwd=LEAN, stdout=subprocess.PIPE, stderr=subprocess.STDOUT, text=True)
    out = "\n".join(l for l in p.stdout.split("\n") if not l.startswith("trace:"))
    return p.returncode, out


def lean_build(log: list[str], pid: str | None = None) -> tuple[bool, list[str]]:
    """regenerate ConstTie.lean and GenTie.lean from /repo/src, then build (file-locked) the driver and the modules that
    carry the property's obligations (everything when pid is None).  Returns (all built, modules that were built)."""
    os.makedirs(os.path.join(LEAN, ".lake"), exist_ok=True)
    with open(os.path.join(LEAN, ".lake", "verif.lock"), "w") as lk:
        fcntl.flock(lk, fcntl.LOCK_EX)
        try:
            from harness import extract_consts

            extract_consts.write_consttie(log)
        except Exception as exc:  # extraction problems are recorded, never fatal
            log.append(f"const extraction failed: {exc!r}")
        try:
            from harness import pytolean

            text, status = pytolean.generate()
            LAST_TIE.clear()
            LAST_TIE.update(status)
            gpath = os.path.join(LEAN, "SomeipModel", "GenTie.lean")
            if not os.path.exists(gpath) or open(gpath).read() != text:
                with open(gpath, "w") as f:
                    f.write(text)
            for name, st in status.items():
                if st != "translated":
                    log.append(f"static tie: {name} {st}")
        except Exception as exc:  # noqa: BLE001
            log.append(f"translation failed: {exc!r}")
        rc, out = _lake(["driver"])
        if rc != 0 and not os.path.exists(DRIVER):
            raise Infra("Lean driver does not build:\n" + out[-3000:])
        if rc != 0:
            log.append("lake build driver FAILED:\n" + out[-3000:])
        mods = modules_for(pid) if pid else ["SomeipModel"]
        rc2, out2 = _lake(mods)
        if rc2 == 0:
            return rc == 0, mods
        log.append("lake build FAILED:\n" + out2[-6000:])
        good = []
        for m in mods:
            r, _o = _lake([m])
            if r == 0:
                good.append(m)
            else:
                log.append(f"module does not build: {m}")
        return False, good


def audit(theorems: list[str], log: list[str], modules: list[str] | None = None) -> dict[str, list[str] | None]:
    """#print axioms for each theorem; value None = theorem missing / does not check."""
    res: dict[str, list[str] | None] = {}
    if not theorems:
        return res
    imports = "".join(f"import {m}\n" for m in (modules if modules is not None else ["SomeipModel"]))
    src = imports + "".join(f"#print axioms {t}\n" for t in theorems)
    path = os.path.join(LEAN, ".lake", f"audit_{os.getpid()}.lean")
    with open(path, "w") as f:
        f.write(src)
    try:
        p = subprocess.run(
            ["lake", "env", "lean", path], cwd=LEAN, stdout=subprocess.PIPE, stderr=subprocess.STDOUT, text=True
        )
    finally:
        os.unlink(path)
    text = p.stdout.replace("\n  ", " ")
    for t in theorems:
        m = re.search(r"'" + re.escape(t) + r"' depends on axioms: \[([^\]]*)\]", text)
        if m:
            res[t] = [a.strip() for a in m.group(1).split(",") if a.strip()]
        elif re.search(r"'" + re.escape(t) + r"' does not depend on any axioms", text):
            res[t] = []
        else:
            res[t] = None
    if any(v is None for v in res.values()):
        log.append("audit output:\n" + p.stdout[-3000:])
    return res


class Model:
    """batch interface to the compiled Lean driver"""

    def __init__(self):
        if not os.path.exists(DRIVER):
            raise Infra(f"driver binary missing: {DRIVER} (run setup_cmd)")
        self.calls = 0
        self.lines = 0

    def run(self, lines: list[str]) -> list[str]:
        if not lines:
            return []
        data = "\n".join(lines) + "\n"
        p = subprocess.run([DRIVER], input=data, stdout=subprocess.PIPE, stderr=subprocess.PIPE, text=True)
        if p.returncode != 0:
            raise Infra(f"driver crashed rc={p.returncode}: {p.stderr[-2000:]}")
        out = p.stdout.split("\n")
        if out and out[-1] == "":
            out.pop()
        if len(out) != len(lines):
            raise Infra(f"driver answered {len(out)} lines for {len(lines)} ops")
        self.calls += 1
        self.lines += len(lines)
        return out


# ----------------------------------------------------------------------------- reports


class Report:
    def __init__(self, pid: str):
        self.pid = pid
        self.evaluations = 0
        self.nontrivial: set = set()
        self.samples: list = []
        self.dist: collections.Counter = collections.Counter()
        self.violations: list[dict] = []  # oracle failed on the IMPLEMENTATION's behaviour
        self.disagreements: list[dict] = []  # model and implementation differ
        self.rule = ""
        self.notes: list[str] = []

    def sample(self, x, limit=6):
        if len(self.samples) < limit:
            self.samples.append(x)

    def violation(self, signature: str, what: str, case):
        if len(self.violations) < 50:
            self.violations.append({"signature": signature, "what": what, "case": case})
        self.dist["VIOLATION:" + signature] += 1

    def disagree(self, op: str, model, impl, case=None, in_domain=True):
        if len(self.disagreements) < 50:
            self.disagreements.append(
                {"op": op, "model": model, "impl": impl, "case": case, "in_domain": in_domain}
            )
        self.dist["DISAGREE:" + op.split(" ")[0]] += 1

    def merge(self, other: "Report"):
        self.evaluations += other.evaluations
        self.nontrivial |= other.nontrivial
        for s in other.samples:
            self.sample(s)
        self.dist.update(other.dist)
        self.violations.extend(other.violations)
        self.disagreements.extend(other.disagreements)
        self.notes.extend(other.notes)
        if other.rule:
            self.rule = other.rule


class Ctx:
    def __init__(self, pid, tier, seed, scale=1.0):
        self.pid = pid
        self.tier = tier
        self.seed = seed
        self.scale = scale  # budget multiplier (search mode raises it)
        self.rng = random.Random((seed << 8) ^ int(hashlib.sha1(pid.encode()).hexdigest()[:8], 16))
        self.model = Model()
        self.deadline = None

    def n(self, quick: int, thorough: int) -> int:
        base = quick if self.tier == "quick" else thorough
        return max(1, int(base * self.scale))


def load_known():
    p = os.path.join(VERIF, "known_findings.json")
    if not os.path.exists(p):
        return []
    return json.load(open(p)).get("findings", [])


def theorems_for(pid: str) -> list[str]:
    reg = json.load(open(os.path.join(LEAN, "theorems.json")))
    return reg.get(pid, [])


def write_replay(pid: str, tag: str, payload: dict) -> str:
    os.makedirs(REPLAYS, exist_ok=True)
    path = os.path.join(REPLAYS, f"{pid}_{tag}.json")
    with open(path, "w") as f:
        json.dump(payload, f, indent=1, default=repr)
    return path


def jsonable(x):
    try:
        json.dumps(x)
        return x
    except TypeError:
        return repr(x)


def replay(pid: str, module, data: dict) -> int:
    """Re-run, on /repo's CURRENT tree, exactly the run that produced a replay file: every random choice of a run derives
    from the one PRNG state fixed by (property, run seed, tier, scale), so the same cases are generated again.  Exit 1 and a
    VIOLATION line if the recorded violation (same signature; for a broken correspondence: any disagreement) happens again,
    exit 0 if it does not."""
    run = data.get("run") or {"seed": data.get("seed", 0), "scale": 1.0}
    tier = data.get("tier", "quick")
    log: list[str] = []
    lean_build(log, pid)   # the replay re-runs the cases; a broken obligation is reported by the check itself
    ctx = Ctx(pid, tier, int(run["seed"]), scale=float(run.get("scale", 1.0)))
    rep = module.run(ctx)
    sig = data.get("signature")
    if sig is None:
        print(f"[{pid}] replay of a broken obligation / correspondence record: {data.get('no_longer_checks')}")
        if rep.disagreements:
            d = rep.disagreements[0]
            print(f"  still diverging: {d['op'][:200]}\n    model: {str(d['model'])[:300]}\n    impl:  {str(d['impl'])[:300]}")
            print(f"VIOLATION property={pid} replay=- no-failing-input-found")
            return 1
        print("  correspondence agrees on the current tree: not reproduced")
        return 0
    hits = [v for v in rep.violations if v["signature"] == sig]
    if not hits:
        print(f"[{pid}] {sig}: not reproduced on the current tree ({rep.evaluations} cases re-run with run seed {run['seed']})")
        return 0
    same = [v for v in hits if json.loads(json.dumps(jsonable(v["case"]), default=repr)) == data.get("case")]
    v = (same or hits)[0]
    print(f"[{pid}] {sig}: REPRODUCED ({'the identical case' if same else 'same signature, another case of the run'})")
    print("  " + v["what"][:1000])
    print("  case: " + json.dumps(jsonable(v["case"]), default=repr)[:4000])
    print(f"VIOLATION property={pid} replay={data.get('_path', '-')}")
    return 1


def _guarded_run(module, ctx) -> "Report":
    """an exception that escapes a property's run (the implementation raised where the harness has no handler, or the
    harness itself is at fault) must not end the check with a stack trace: it is recorded as a broken correspondence, so
    that the verdict logic (failing-input search, VIOLATION ... no-failing-input-found, evidence) still applies"""
    try:
        return module.run(ctx)
    except Infra:
        raise
    except Exception as exc:  # noqa: BLE001
        rep = Report(ctx.pid)
        rep.rule = "run aborted"
        rep.disagree(f"run-aborted {type(exc).__name__}: {exc}"[:200], "-", traceback.format_exc()[-3000:], None)
        return rep


def check(pid: str, tier: str, seed: int, module, level_text: str) -> int:
    t0 = time.time()
    log: list[str] = []
    os.makedirs(EVIDENCE, exist_ok=True)
    ev_path = os.path.join(EVIDENCE, f"{pid}.json")
    # --- 1. proof side
    built, built_mods = lean_build(log, pid)
    forbidden = scan_forbidden() + scan_ghosts()
    thms = theorems_for(pid)
    axioms = audit(thms, log, built_mods)
    bad_thms = [t for t, a in axioms.items() if a is None or not set(a) <= ALLOWED_AXIOMS]
    proof_ok = built and not forbidden and not bad_thms and bool(thms)
    # thorough tier: the compiled modules are re-checked by the toolchain's independent kernel re-checker
    rechecked = None
    if tier == "thorough" and built_mods:
        q = subprocess.run(["lake", "env", "leanchecker"] + built_mods, cwd=LEAN, stdout=subprocess.PIPE,
                           stderr=subprocess.STDOUT, text=True)
        rechecked = q.returncode == 0
        if not rechecked:
            log.append("leanchecker FAILED:\n" + q.stdout[-2000:])
    # --- 2. correspondence + oracle
    ctx = Ctx(pid, tier, seed)
    rep = _guarded_run(module, ctx)
    known = [k for k in load_known() if k.get("property") == pid and k.get("kind") == "known"]
    known_sigs = {k["signature"]: k for k in known}
    unknown = [v for v in rep.violations if v["signature"] not in known_sigs]
    run_params = {"seed": seed, "scale": 1.0}
    searched = 0
    broken = []
    if not built:
        failed = [m for m in modules_for(pid) if m not in built_mods]
        broken.append("lean-build:" + (",".join(failed) or "driver"))
    if forbidden:
        broken.append("forbidden-construct:" + forbidden[0])
    for t in bad_thms:
        broken.append(f"theorem:{t}")
    if rechecked is False:
        broken.append("leanchecker")
    if rep.disagreements:
        broken.append("correspondence:" + rep.disagreements[0]["op"][:80])
    # --- 3. failing-input search when a proof obligation or the correspondence broke
    if broken and not unknown:
        budget = 60 if tier == "quick" else 600
        tend = time.time() + budget
        k = 0
        while time.time() < tend and not unknown and k < 8:
            k += 1
            sctx = Ctx(pid, tier, seed * 1000 + k, scale=4.0)
            srep = _guarded_run(module, sctx)
            searched += srep.evaluations
            rep.dist.update({"search:" + a: b for a, b in srep.dist.items() if a.startswith("VIOLATION")})
            unknown = [v for v in srep.violations if v["signature"] not in known_sigs]
            if unknown:
                run_params = {"seed": seed * 1000 + k, "scale": 4.0}
            if not rep.disagreements and srep.disagreements:
                rep.disagreements = srep.disagreements
    # --- 4. verdict
    lines = []
    seen_known = set()
    for v in rep.violations:
        if v["signature"] in known_sigs and v["signature"] not in seen_known:
            seen_known.add(v["signature"])
            lines.append(f"KNOWN-FINDING: property={pid} {known_sigs[v['signature']]['description']}")
    rc = 0
    nviol = 0
    if unknown:
        by_sig = {}
        for v in unknown:
            by_sig.setdefault(v["signature"], v)
        for sig, v in by_sig.items():
            tag = re.sub(r"[^A-Za-z0-9_.-]+", "_", sig)[:60]
            path = write_replay(pid, tag, {"property": pid, "signature": sig, "what": v["what"],
                                           "case": jsonable(v["case"]), "seed": seed, "tier": tier,
                                           "run": run_params, "broken_obligations": broken})
            lines.append(f"VIOLATION property={pid} replay={path}")
            nviol += 1
        rc = 1
    elif broken:
        path = write_replay(pid, "unchecked", {
            "property": pid, "no_longer_checks": broken, "log": log,
            "first_disagreements": jsonable(rep.disagreements[:5]),
            "axioms": axioms, "searched_cases": searched, "seed": seed, "tier": tier, "run": {"seed": seed, "scale": 1.0}})
        lines.append(f"VIOLATION property={pid} replay={path} no-failing-input-found")
        nviol = 1
        rc = 1
    # --- 5. evidence
    wall = time.time() - t0
    ev = {
        "property_id": pid,
        "tier": tier,
        "seed": seed,
        "level": "proof",
        "coverage": {
            "obligations": max(1, len(thms)),
            "discharged": sum(1 for t in thms if t not in bad_thms),
            "checker_cmd": "cd /verif/lean && lake build driver %s && lake env lean <#print axioms of theorems.json[%s]>" % (" ".join(modules_for(pid)), pid),
            "trusted_base": [
                "Lean 4.33.0 kernel + elaborator" + ("" if rechecked is None else
                                                    "; leanchecker re-check of %d modules: %s" % (len(built_mods), "passed" if rechecked else "FAILED")),
                "axioms used: " + ", ".join(sorted({a for v in axioms.values() if v for a in v})) if any(axioms.values()) else "axioms used: none",
                "hand-written model tied to /repo/src by this run's correspondence cases (differential test) and the constant tie",
                "translator harness/pytolean.py (decision functions regenerated from /repo/src this run: %s)" % (
                    ", ".join(f"{k}: {v}" for k, v in sorted(LAST_TIE.items())) or "not run"),
                "ghost fields of the model (logs and sticky flags the theorems speak about) are append-only and never read: syntactic audit scan_ghosts, run with the forbidden-construct scan",
                "harness/driver glue (unverified parsing/printing)",
                "CPython struct/int/slicing semantics as modelled",
            ],
            "theorems": axioms,
            "evaluations": rep.evaluations,
            "distinct_nontrivial": len(rep.nontrivial),
            "rule": rep.rule,
            "samples": [jsonable(s) for s in rep.samples] or ["(none)"],
            "distribution": dict(sorted(rep.dist.items())),
            "disagreements": len(rep.disagreements),
            "oracle_failures_on_impl": len(rep.violations),
            "known_findings_seen": sorted(seen_known),
            "search_evaluations": searched,
            "broken_obligations": broken,
            "model_driver_lines": ctx.model.lines,
            "explanation": level_text,
        },
        "assumptions": [
            "the Lean model mirrors the Python source; checked only on the generated cases of this run",
            "asyncio/CPython semantics as listed in DESIGN.md section 8",
        ] + rep.notes,
        "wall_s": round(wall, 2),
        "violations": nviol,
    }
    with open(ev_path, "w") as f:
        json.dump(ev, f, indent=1, default=repr)
    for l in lines:
        print(l)
    status = "ok" if rc == 0 else "VIOLATION"
    print(f"[{pid}] {tier} seed={seed} {status}: theorems {ev['coverage']['discharged']}/{len(thms)}, "
          f"{rep.evaluations} cases ({len(rep.nontrivial)} distinct non-trivial), "
          f"{len(rep.disagreements)} disagreements, {len(rep.violations)} oracle failures, {wall:.1f}s")
    if rc and log:
        print("\n".join(log)[-3000:], file=sys.stderr)
    return rc
