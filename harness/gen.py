"""seeded structured generators: boundary tables for every width"""
from __future__ import annotations

B8 = [0, 1, 2, 0x7F, 0x80, 0xFE, 0xFF]
B16 = [0, 1, 2, 0xFF, 0x100, 0x7FFF, 0x8000, 0xFFFE, 0xFFFF]
B24 = [0, 1, 2, 3, 0xFFFF, 0x10000, 0x7FFFFF, 0xFFFFFE, 0xFFFFFF]
B32 = [0, 1, 2, 0xFFFF, 0x10000, 0xFFFFF, 0x100000, 0x7FFFFFFF, 0xFFFFFFFE, 0xFFFFFFFF]
MSG_TYPES = [0, 1, 2, 0x40, 0x41, 0x42, 0x80, 0x81, 0xC0, 0xC1]
RET_CODES = list(range(11))
PAYLOAD_LENS = [0, 1, 2, 7, 8, 9, 15, 16, 17, 255, 256]
PAYLOAD_LENS_BIG = [65527, 65528, 65535, 65536, 65537]


def pick(rng, table, bits, p_table=0.6):
    if rng.random() < p_table:
        return rng.choice(table)
    return rng.getrandbits(bits)


def u8(rng):
    return pick(rng, B8, 8)


def u16(rng):
    return pick(rng, B16, 16)


def u24(rng):
    return pick(rng, B24, 24)


def u32(rng):
    return pick(rng, B32, 32)


def cls(v, width):
    """class of a value relative to its width, for distinctness keys"""
    m = (1 << width) - 1
    if v in (0, 1, m - 1, m):
        return v if v < 2 else ("max" if v == m else "max-1")
    return "mid"


def rbytes(rng, n):
    if n == 0:
        return b""
    k = rng.random()
    if k < 0.2:
        return bytes([rng.choice([0, 0xFF, 0x80, 0x3D])]) * n
    return rng.randbytes(n)


def hx(b) -> str:
    b = bytes(b)
    return b.hex() if b else "-"


def unhx(s: str) -> bytes:
    return b"" if s == "-" else bytes.fromhex(s)
