from __future__ import annotations

import argparse
import importlib
import json
import logging
import os
import sys
import warnings

from harness import core


def main():
    ap = argparse.ArgumentParser()
    ap.add_argument("pid")
    ap.add_argument("--tier", default=os.environ.get("VERIF_TIER") or "quick", choices=["quick", "thorough"])
    ap.add_argument("--seed", type=int, default=int(os.environ.get("VERIF_SEED") or 0))
    ap.add_argument("--replay")
    a = ap.parse_args()
    logging.disable(logging.CRITICAL)
    warnings.simplefilter("ignore")
    pid = a.pid.upper()
    try:
        mod = importlib.import_module(f"harness.props.{pid.lower()}")
    except ModuleNotFoundError as exc:
        print(f"no check for {pid}: {exc}", file=sys.stderr)
        return 2
    try:
        if a.replay:
            data = json.load(open(a.replay))
            data["_path"] = a.replay
            return core.replay(pid, mod, data)
        return core.check(pid, a.tier, a.seed, mod, getattr(mod, "LEVEL", ""))
    except core.Infra as exc:
        print(f"INFRASTRUCTURE ERROR: {exc}", file=sys.stderr)
        return 2


if __name__ == "__main__":
    sys.exit(main())
