from __future__ import annotations

import argparse
import importlib
import json
import logging
import os
import sys
import warnings

from harness import core


def _watchdog(pid, seconds):
    """A check that does not come to an end is a broken correspondence, not a reason to hang whoever runs it: a changed
    implementation can make a harness loop spin (a `read` that returns instead of raising, a callback that re-arms itself
    for ever).  The budgets are about 30 times what the tiers take on the unchanged tree (quick: 2-40 s, thorough: < 3 min
    per property, plus a cold Lean build); when one is exceeded the run is reported as a violation without a failing input,
    with the stack of every thread in the replay file."""
    import threading
    import traceback

    def fire():
        frames = {str(t): traceback.format_stack(f) for t, f in sys._current_frames().items()}
        path = os.path.join(core.VERIF, "replays", f"{pid}_watchdog.json")
        try:
            os.makedirs(os.path.dirname(path), exist_ok=True)
            json.dump({"property": pid, "no_longer_checks": [f"correspondence: the check did not terminate within {seconds} s on the "
                       "current tree (a harness case does not come to an end)"], "stacks": frames}, open(path, "w"), indent=1)
        except Exception:  # noqa: BLE001
            pass
        print(f"VIOLATION property={pid} replay={path} no-failing-input-found", flush=True)
        os._exit(1)

    t = threading.Timer(seconds, fire)
    t.daemon = True
    t.start()


def main():
    ap = argparse.ArgumentParser()
    ap.add_argument("pid")
    ap.add_argument("--tier", default=os.environ.get("VERIF_TIER") or "quick", choices=["quick", "thorough"])
    ap.add_argument("--seed", type=int, default=int(os.environ.get("VERIF_SEED") or 0))
    ap.add_argument("--replay")
    a = ap.parse_args()
    logging.disable(logging.CRITICAL)
    warnings.simplefilter("ignore")
    pid = a.pid.upper()
    try:
        mod = importlib.import_module(f"harness.props.{pid.lower()}")
    except ModuleNotFoundError as exc:
        print(f"no check for {pid}: {exc}", file=sys.stderr)
        return 2
    _watchdog(pid, int(os.environ.get("VERIF_WATCHDOG_S") or (1200 if a.tier == "quick" else 5400)))
    try:
        if a.replay:
            data = json.load(open(a.replay))
            data["_path"] = a.replay
            return core.replay(pid, mod, data)
        return core.check(pid, a.tier, a.seed, mod, getattr(mod, "LEVEL", ""))
    except core.Infra as exc:
        print(f"INFRASTRUCTURE ERROR: {exc}", file=sys.stderr)
        return 2
    except Exception as exc:  # noqa: BLE001
        # the harness itself fell over on the current tree (a changed return type, a missing attribute, ...): the
        # correspondence can no longer be evaluated - that is a broken obligation, reported like one, with the traceback
        import traceback
        tb = traceback.format_exc()
        path = os.path.join(core.VERIF, "replays", f"{pid}_harness-exception.json")
        try:
            os.makedirs(os.path.dirname(path), exist_ok=True)
            json.dump({"property": pid, "no_longer_checks": [f"correspondence: the harness raised {type(exc).__name__} while driving "
                       "the implementation (its cases can no longer be evaluated on the current tree)"], "traceback": tb.splitlines()},
                      open(path, "w"), indent=1)
        except Exception:  # noqa: BLE001
            pass
        print(tb, file=sys.stderr)
        print(f"VIOLATION property={pid} replay={path} no-failing-input-found", flush=True)
        return 1


if __name__ == "__main__":
    sys.exit(main())
