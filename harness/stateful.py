"""Common runner for the stateful properties: runs scenarios (impl + model lock-step) and applies a property oracle
to what the IMPLEMENTATION did."""
from __future__ import annotations

import someip.header as H

from harness import core, scen
from harness.gen import unhx


def decode_send(text):
    """'send <dest> <hex>' -> (dest, session_id, reboot_flag, [entries])"""
    _, dest, hexs = text.split(" ", 2)
    m, _rest = H.SOMEIPHeader.parse(unhx(hexs))
    sd, _ = H.SOMEIPSDHeader.parse(m.payload)
    sd = sd.resolve_options()
    return dest, m.session_id, sd.flag_reboot, list(sd.entries)


def run_scenarios(ctx: core.Ctx, rep: core.Report, make_scenario, oracle, n, label, sample_every=None):
    """make_scenario(rng, k) -> Scenario; oracle(sc, result, rep) adds violations"""
    names0 = scen._NAME_ONLY["count"]
    for k in range(n):
        sc = make_scenario(ctx.rng, k)
        res = scen.execute(ctx.model, sc)
        rep.evaluations += 1
        evs = res["events"]
        rep.dist[f"{label}:events"] += len(evs)
        rep.dist[f"{label}:inputs"] += sum(1 for e in evs if e.startswith("in "))
        rep.dist[f"{label}:outputs"] += sum(1 for it in sc.rec.items if it[0] == "out")
        case = {"scenario": label, "timings": sc.tm.tokens(), "services": [repr(s) for s in sc.services], "events": evs}
        if res["div"] is not None:
            d = res["div"]
            rep.disagree(f"{label} step {d}: {evs[d][:120] if d >= 0 else 'initial state'}",
                         (res["model"][d] if d >= 0 else res["first"][1])[:400],
                         (res["impl"][d] if d >= 0 else res["first"][0])[:400],
                         {**case, "events": evs[: d + 1]})
        nout = sum(1 for it in sc.rec.items if it[0] == "out")
        if nout:
            rep.nontrivial.add((label, len(evs), nout, hash(tuple(evs)) & 0xFFFFFF))
        oracle(sc, res, rep, case)
        if k < 2:
            rep.sample({"scenario": label, "events": evs[:25], "last_impl_state": res["impl"][-1][:300] if res["impl"] else ""})
    if scen._NAME_ONLY["count"] > names0:
        rep.dist[f"{label}:state-lines-equal-up-to-callback-names"] += scen._NAME_ONLY["count"] - names0
        rep.notes.append("some callbacks carry other names than the harness knows (renamed private methods?): compared by kind "
                         "and by what they do when they run")
