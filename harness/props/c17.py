"""C17 — Event notifications reach exactly the current subscribers, correctly addressed."""
from __future__ import annotations

import asyncio

import ipaddress

import someip.header as H
import someip.sd as SD
import someip.service as S

from harness import core, gen, vloop
from harness.gen import hx

LEVEL = ("Lean theorems c17_* (initial notification, rounds reach exactly the current subscribers, message fields, "
         "per-destination session ids, refusal) over the task-level eventgroup model + correspondence with a real "
         "SimpleService/SimpleEventgroup under an immediate numeric resolver; real executor-thread timing not modelled")
SID, MAJ, EGID = 0x4455, 2, 7


def ep_opt(n):
    """endpoint n: odd = IPv4, even = IPv6; endpoints n and n + 2 with n % 4 in (1, 2) share a host and differ in the port
    only (two subscribers on one machine) - the port identifies the endpoint"""
    h = n - 2 if n % 4 in (3, 0) else n
    if n % 2:
        return H.IPv4EndpointOption(address=ipaddress.IPv4Address("10.0.0.%d" % h), l4proto=H.L4Protocols.UDP, port=5000 + n)
    return H.IPv6EndpointOption(address=ipaddress.IPv6Address("fd00::%x" % h), l4proto=H.L4Protocols.UDP, port=5000 + n)


def ep_of_addr(addr):
    return addr[1] - 5000


class Tr:
    def __init__(self, world):
        self.w = world

    def sendto(self, data, addr=None):
        self.w.sent.append((self.w.loop.ticks, ep_of_addr(addr), bytes(data)))

    def get_extra_info(self, name, default=None):
        return ("127.0.0.1", 30509) if name == "sockname" else default


async def _gai(host, port, *, family=0, type=0, proto=0, flags=0):
    ip = ipaddress.ip_address(host)
    sockaddr = (host, port) if ip.version == 4 else (host, port, 0, 0)
    return [(family, type, proto, "", sockaddr)]


class World:
    def __init__(self, interval):
        self.loop = vloop.new_loop()
        self.loop.getaddrinfo = _gai
        self.sent = []
        cls = type("Svc", (S.SimpleService,), {"service_id": SID, "version_major": MAJ, "version_minor": 0})
        self.svc = self.loop.call(cls, 1)
        self.svc.transport = Tr(self)
        self.eg = self.loop.call(S.SimpleEventgroup, self.svc, EGID, (interval / 1000.0) if interval else None)
        self.svc.register_eventgroup(self.eg)

    def close(self):
        self.loop.shutdown()

    def settle(self):
        for _ in range(100000):
            if not self.loop.run_one():
                break

    def state(self, n0):
        new = sorted(self.sent[n0:], key=lambda x: (x[0], x[1]))
        subs = sorted(ep_of_addr((str(o.address), o.port)) for o in self.eg.subscribed_endpoints)
        return (f"now={self.loop.ticks} sent=[{' ; '.join(f'{t} {d} {hx(b)}' for t, d, b in new)}] "
                f"subs=[{','.join(str(s) for s in subs)}] clients={int(self.eg.has_clients.is_set())}")

    def apply(self, op):
        t = op.split()
        n0 = len(self.sent)
        k = t[0]
        pre = "ok "
        if k == "eg.sub":
            self.loop.call(self.eg.subscribe, ep_opt(int(t[2])))
        elif k == "eg.unsub":
            try:
                self.loop.call(self.eg.unsubscribe, ep_opt(int(t[2])))
            except KeyError:
                return "err KeyError"
        elif k == "eg.set":
            self.eg.values[int(t[2])] = gen.unhx(t[3])
        elif k == "eg.once":
            self.loop.call(self.eg.notify_once, [int(x) for x in t[3:3 + int(t[2])]])
        elif k == "eg.settle":
            self.settle()
        elif k == "eg.adv":
            self.loop.advance_to(int(t[2]))
        elif k == "eg.client":
            eps = frozenset(ep_opt(int(x)) for x in t[4:4 + int(t[3])])
            sub = SD.EventgroupSubscription(service_id=SID, instance_id=1, major_version=MAJ, id=int(t[2]), counter=0, ttl=3, endpoints=eps)
            try:
                self.loop.call(self.svc.client_subscribed, sub, ("10.0.0.99", 30490))
            except SD.NakSubscription:
                pre = "nak "
        else:
            raise ValueError(op)
        return pre + self.state(n0)


def canon_model(line):
    """sort the model's new datagrams like the implementation's (endpoint-set iteration order is not defined)"""
    if " sent=[" not in line:
        return line
    head, rest = line.split(" sent=[", 1)
    body, tail = rest.split("] subs=[", 1)
    if not body:
        return line
    items = sorted(body.split(" ; "), key=lambda x: (int(x.split(" ")[0]), int(x.split(" ")[1])))
    return f"{head} sent=[{' ; '.join(items)}] subs=[{tail}"


def decode_dgram(b):
    msgs = []
    while b:
        m, b = H.SOMEIPHeader.parse(b)
        msgs.append(m)
    return msgs


def gen_ops(rng, n, many_events=False):
    ops = []
    nev = rng.randrange(1, 4) if not many_events else 48
    for e in range(nev):
        ops.append(f"eg.set s {e + 1} {hx(gen.rbytes(rng, rng.choice([0, 1, 4, 9])))}")
    t = 0
    for _ in range(n):
        group = rng.choice([1, 1, 1, 2, 3])
        for _ in range(group):
            r = rng.random()
            if r < 0.3:
                ops.append(f"eg.client s {EGID} 1 {rng.randrange(1, 5)}")
            elif r < 0.36:
                k = rng.choice([0, 2, 3])
                eps = rng.sample(range(1, 6), k)
                ops.append(f"eg.client s {rng.choice([EGID, EGID, 9])} {k}" + "".join(f" {e}" for e in eps))
            elif r < 0.4:
                ops.append(f"eg.client s {EGID + 1} 1 {rng.randrange(1, 5)}")
            elif r < 0.55:
                ops.append(f"eg.unsub s {rng.randrange(1, 5)}")
            elif r < 0.75:
                ops.append(f"eg.set s {rng.randrange(1, nev + 2)} {hx(gen.rbytes(rng, rng.choice([0, 2, 5])))}")
            else:
                evs = rng.sample(range(1, nev + 1), rng.randrange(0, nev + 1))
                if rng.random() < 0.05:
                    evs.append(99)  # unknown event id: KeyError inside the task, logged
                ops.append(f"eg.once s {len(evs)}" + "".join(f" {e}" for e in evs))
        ops.append("eg.settle s")
        if rng.random() < 0.5:
            t += rng.choice([1, 50, 100, 250, 1000])
            ops.append(f"eg.adv s {t}")
    return ops


def oracle(ops, impl_lines, rep, case):
    """the statement, read on what the implementation put on the wire; judges groups of ONE input followed by settle"""
    subs, values, cnt = set(), {}, {}

    def bad(sig, what):
        rep.violation("C17:" + sig, what, case)

    def parse_sent(line):
        body = line.split(" sent=[", 1)[1].split("] subs=[", 1)[0]
        out = []
        for it in (body.split(" ; ") if body else []):
            t, d, h = it.split(" ")
            out.append((int(t), int(d), decode_dgram(gen.unhx(h))))
        return out

    def check_msgs(dest, msgs, evs, what):
        if [m.method_id for m in msgs] != [0x8000 | e for e in evs]:
            bad("events", f"{what} to {dest}: events {[hex(m.method_id) for m in msgs]} expected {[hex(0x8000 | e) for e in evs]}")
            return
        for m, e in zip(msgs, evs):
            k = cnt.get(dest, 0)
            if k is None:  # counter unknown after an unjudged group: re-learn it from the wire
                k = (m.session_id - 1) % 65535
            cnt[dest] = k + 1
            ok = (m.service_id == SID and m.client_id == 0 and m.interface_version == MAJ and m.message_type == H.SOMEIPMessageType.NOTIFICATION
                  and m.return_code == H.SOMEIPReturnCode.E_OK and m.protocol_version == 1)
            if not ok:
                bad("message-fields", f"{what} to {dest}: wrong header fields in {m}")
            if m.payload != values.get(e):
                bad("payload", f"{what} to {dest}: event {e} carries {m.payload!r}, current value {values.get(e)!r}")
            if m.session_id != k % 65535 + 1:
                bad("session-id", f"{what} to {dest}: message #{k} carries session id {m.session_id}, expected {k % 65535 + 1}")

    i = 0
    synced = True
    while i < len(ops):
        # a group = inputs up to and including the next settle / adv
        j = i
        while j < len(ops) and not ops[j].startswith(("eg.settle", "eg.adv")):
            j += 1
        group = ops[i:j]
        sends = []
        for k in range(i, min(j + 1, len(ops))):
            if impl_lines[k].startswith(("ok ", "nak ")):
                sends += parse_sent(impl_lines[k])
        closing = ops[j] if j < len(ops) else ""
        if closing.startswith("eg.adv"):
            # only cyclic rounds may send here: judged for destination set and content
            for t, d, msgs in sends:
                if d not in subs:
                    bad("round-destination", f"cyclic notification to {d} at {t}, which is not subscribed")
                check_msgs(d, msgs, list(values.keys()), "cyclic round")
            i = j + 1
            continue
        if len(group) != 1:
            # several inputs before the loop ran: only the model comparison judges the interleaving; keep the reference in sync
            for op, line in zip(group, impl_lines[i:j]):
                t = op.split()
                if t[0] == "eg.client" and line.startswith("ok "):
                    subs.add(int(t[4]))
                elif t[0] == "eg.unsub" and line.startswith("ok "):
                    subs.discard(int(t[2]))
                elif t[0] == "eg.set":
                    values[int(t[2])] = gen.unhx(t[3])
            for d in set(cnt) | subs | {d for _t, d, _m in sends}:
                cnt[d] = None
            i = j + 1
            continue
        op, line = group[0], impl_lines[i]
        t = op.split()
        if t[0] == "eg.set":
            values[int(t[2])] = gen.unhx(t[3])
            if sends:
                bad("unexpected-send", "a value update alone sent notifications")
        elif t[0] == "eg.client":
            eps = [int(x) for x in t[4:4 + int(t[3])]]
            should = int(t[2]) == EGID and len(eps) == 1
            if line.startswith("ok ") != should:
                bad("refuse", f"subscription for eventgroup {t[2]} naming {len(eps)} endpoint(s): accepted={line.startswith('ok ')}")
            if line.startswith("ok ") and should:
                subs.add(eps[0])
                if [d for _t, d, _m in sends] != [eps[0]]:
                    bad("initial", f"accepted subscriber {eps[0]}: initial notifications went to {[d for _t, d, _m in sends]}")
                for _t, d, msgs in sends:
                    check_msgs(d, msgs, list(values.keys()), "initial notification")
            elif sends:
                bad("unexpected-send", "a refused subscription caused notifications")
        elif t[0] == "eg.unsub":
            if line.startswith("ok "):
                subs.discard(int(t[2]))
            if sends:
                bad("unexpected-send", "unsubscribe caused notifications")
        elif t[0] == "eg.once":
            evs = [int(x) for x in t[3:3 + int(t[2])]]
            if 99 in evs:
                # unknown event id: nothing may be sent; ids consumed for the events before it
                for d in subs:
                    if cnt.get(d, 0) is not None:
                        cnt[d] = cnt.get(d, 0) + evs.index(99)
                if sends:
                    bad("unexpected-send", "a round naming an unknown event sent a datagram")
            else:
                dests = sorted(d for _t, d, _m in sends)
                want = sorted(subs) if evs else []
                if dests != want:
                    bad("round-destination", f"explicit round for {evs}: datagrams to {dests}, subscribed {sorted(subs)}")
                for _t, d, msgs in sends:
                    check_msgs(d, msgs, evs, "explicit round")
        i = j + 1
    rep.dist["C17:groups-judged"] += 1


def run(ctx: core.Ctx) -> core.Report:
    rng = ctx.rng
    rep = core.Report("C17")
    rep.rule = ("sequences of subscribe (through SimpleService.client_subscribed: 1 endpoint, 0/2/3 endpoints, unknown eventgroup) / "
                "unsubscribe from 4 endpoints (IPv4 and IPv6), value updates for 1..3 events, explicit rounds for any subset "
                "(also an unknown event id), cyclic rounds (interval 0/100/250 ms), several inputs between two loop runs; thorough: "
                "one destination driven through the session-id wrap; compared with the Lean model per destination")
    scenarios = []
    for k in range(ctx.n(60, 900)):
        scenarios.append((rng.choice([0, 0, 100, 250]), gen_ops(rng, rng.choice([8, 20, 40]))))
    if ctx.tier == "thorough":
        # session-id wrap of one destination: 48 events x 1400 rounds > 65535 messages
        ops = gen_ops(rng, 0, many_events=True) + ["eg.client s 7 1 1", "eg.settle s"]
        for _ in range(1400):
            ops += ["eg.once s 48 " + " ".join(str(e) for e in range(1, 49)), "eg.settle s"]
        scenarios.append((0, ops))
    for interval, ops in scenarios:
        rep.evaluations += 1
        w = World(interval)
        try:
            impl = [w.apply(op) for op in ops]
        finally:
            w.close()
        lines = [f"eg.new s {SID} {MAJ} {EGID} {interval}"] + ops
        outs = ctx.model.run(lines)[1:]
        case = {"interval": interval, "ops": ops[:400]}
        for i, (a, b) in enumerate(zip(impl, outs)):
            if a != canon_model(b):
                rep.disagree(f"c17 step {i}: {ops[i][:100]}", canon_model(b)[:300], a[:300], {**case, "ops": ops[: i + 1][-60:]})
                break
        try:
            oracle(ops, impl, rep, case)
        except Exception as exc:  # noqa: BLE001
            rep.violation("C17:undecodable", f"oracle could not decode what was sent: {exc!r}", case)
        nsent = sum(1 for l in impl if "sent=[]" not in l and " sent=[" in l)
        if nsent:
            rep.nontrivial.add((interval, len(ops), nsent, hash(tuple(ops)) & 0xFFFFF))
        rep.dist["ops"] += len(ops)
        rep.dist["steps-with-datagrams"] += nsent
    inflight_rounds(ctx, rep)
    rep.sample({"interval": scenarios[0][0], "ops": scenarios[0][1][:30]})
    return rep


async def _gai_yield(host, port, *, family=0, type=0, proto=0, flags=0):
    await asyncio.sleep(0)   # the resolution yields once, as a getaddrinfo running in an executor thread does
    return await _gai(host, port, family=family, type=type, proto=proto, flags=flags)


def inflight_rounds(ctx, rep):
    """Judged by the statement alone (no model: the model resolves addresses at once): a membership change that lands while
    a round is in flight - k loop callbacks after `notify_once`, with an address resolution that yields - must not cost any
    endpoint that stays subscribed its notification of that round: each of them gets exactly one datagram carrying the
    round's event (found thin by the seeded change m88: a round iterating the live subscriber set across awaits)."""
    for k in range(0, 14):
        for change in ("sub 4", "unsub 3", "sub 4 unsub 2"):
            rep.evaluations += 1
            w = World(0)
            w.loop.getaddrinfo = _gai_yield
            try:
                w.eg.values[1] = b"\x01\x02"
                w.eg.values[2] = b"\x03"
                for n in (1, 2, 3):
                    w.loop.call(w.eg.subscribe, ep_opt(n))
                w.settle()
                n0 = len(w.sent)
                w.loop.call(w.eg.notify_once, [1])
                for _ in range(k):
                    if not w.loop.run_one():
                        break
                toks = change.split()
                for j in range(0, len(toks), 2):
                    f = w.eg.subscribe if toks[j] == "sub" else w.eg.unsubscribe
                    w.loop.call(f, ep_opt(int(toks[j + 1])))
                w.settle()
                stay = {1, 2, 3} - {int(toks[j + 1]) for j in range(0, len(toks), 2) if toks[j] == "unsub"}
                got = {}
                for _t, dest, b in w.sent[n0:]:
                    evs = [m.method_id & 0x7FFF for m in decode_dgram(b)]
                    if evs == [1]:
                        got[dest] = got.get(dest, 0) + 1
                case = {"inflight": {"callbacks_before_change": k, "change": change}}
                bad = {d: got.get(d, 0) for d in sorted(stay) if got.get(d, 0) != 1}
                if bad:
                    rep.violation("C17:inflight-round", f"a round started before `{change}` (after {k} loop callbacks): endpoints that stayed "
                                  f"subscribed received {bad} datagrams of that round instead of exactly one each", case)
                rep.nontrivial.add(("inflight", k, change))
            finally:
                w.close()

