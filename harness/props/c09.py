"""C09 — TTL expiry fires exactly once, on time, never early; a refresh postpones it."""
from __future__ import annotations

import someip.config as C

from harness import core, scen, stackdrv as SDV, stateful

LEVEL = ("Lean theorems c09_* about the TimedStore / timer invariant of the stack model for every event list + lock-step "
         "correspondence on adversarial schedules + exact reference trace for expiry notifications")
W = {"offer": 7, "stopoffer": 2, "reboot": 1.5, "sub": 6, "stopsub": 2, "subreboot": 1, "nak": 0.7}
SVC = C.Service(0x1111, 1, 1, 1, eventgroups=frozenset({5, 6}))


class Sc(scen.Scenario):
    def prelude(self, impl):
        self.rec.inp(impl.loop.ticks, ("watchAll", 0))
        yield "in watchAll 0"
        if self.services:
            yield "in announce 0"
            yield "in start"
            self.running = True
            yield from scen.natural(impl, impl.loop.ticks, self)

    def epilogue_times(self):
        return [1500, 4000, 17000000 * 1000]


def make(rng, k):
    tm = SDV.TimingsSpec(initMin=0, initMax=0, reps=0, base=10, cyclic=0, coll=rng.choice([0, 5]),
                         refresh=None, annTtl=0xFFFFFF, subTtl=0xFFFFFF)
    sc = Sc(rng, tm, [SVC] if k % 2 == 0 else [], W, nsteps=rng.choice([40, 70, 110]), adversarial=True)
    sc.ttls = [1, 2, 3, 0xFFFFFE, 0xFFFFFF]
    return sc


def detect(sess, peer, mc, flag, sid):
    prev = sess.get((peer, mc))
    sess[(peer, mc)] = (flag, sid)
    if prev is None:
        return False
    pf, ps = prev
    return bool(flag and (not pf or (ps > 0 and ps >= sid)))


def oracle(sc, res, rep, case):
    """reference simulation of 'reported exactly once, exactly ttl after the most recent refresh, unless removed'"""
    store = {}  # key -> deadline | None ; key = ("svc", peer, svc4) | ("sub", peer, subkeytext)
    order = []  # insertion order of keys (for nothing but debugging)
    sess = {}
    pending = []  # expected immediate notifications of the last input: list of (kind, keytext)
    have_inst = bool(sc.services)
    declared = set(SVC.eventgroups)
    nak = set()

    def key_text(key):
        if key[0] == "svc":
            return f"0 {key[2][0]} {key[2][1]} {key[2][2]} {key[2][3]} from {key[1]}"
        return f"0 {key[2]} from {key[1]}"

    def bad(sig, what):
        rep.violation(sig, what, case)

    def overdue(t):
        for key, dl in list(store.items()):
            if dl is not None and dl < t:
                bad("C09:missed-expiry", f"{key} should have been reported at {dl}, still silent at {t}")
                del store[key]

    for it in sc.rec.items:
        if it[0] == "in":
            _, t, info = it
            if pending:
                bad("C09:missing-notification", f"expected {pending} right after the previous input")
                pending = []
            overdue(t)
            if info[0] == "setNak":
                nak = set(info[2])      # eventgroups the listener refuses from now on (a refused Subscribe stores nothing)
                continue
            if info[0] != "dgram":
                continue
            _, peer, mc, flag, sid, uni, entries = info
            if detect(sess, peer, mc, flag, sid):
                for key in [k for k in store if k[1] == peer]:
                    pending.append(("stopped" if key[0] == "svc" else "unsubscribed", key_text(key)))
                    del store[key]
            if not uni:
                continue
            for e in entries:
                if e[0] == "offer":
                    key = ("svc", peer, e[1])
                    ttl = e[2]
                    if ttl == 0:
                        if key in store:
                            del store[key]
                            pending.append(("stopped", key_text(key)))
                    else:
                        if key not in store:
                            pending.append(("offered", key_text(key)))
                        store.pop(key, None)
                        store[key] = None if ttl == 0xFFFFFF else t + ttl * 1000
                elif e[0] == "subscribe" and have_inst and not mc:
                    _, ids, egid, cnt, ttl, eps = e
                    if ids != (SVC.service_id, SVC.instance_id, SVC.major_version) or egid not in declared:
                        continue
                    ktxt = f"{ids[0]} {ids[1]} {ids[2]} {egid} {cnt} {len(set(eps))}" + "".join(f" [{x}]" for x in sorted(set(eps)))
                    key = ("sub", peer, ktxt)
                    if ttl == 0:
                        if key in store:
                            del store[key]
                            pending.append(("unsubscribed", key_text(key)))
                    else:
                        if key not in store:
                            if egid in nak:
                                rep.dist["C09:refused-subscribes"] += 1
                                continue
                            pending.append(("subscribed", key_text(key)))
                        store.pop(key, None)
                        store[key] = None if ttl == 0xFFFFFF else t + ttl * 1000
        elif it[0] == "out":
            _, t, text = it
            kind = text.split(" ", 1)[0]
            if kind not in ("offered", "stopped", "subscribed", "unsubscribed"):
                continue
            ktxt = text.split(" ", 1)[1]
            if (kind, ktxt) in pending:
                pending.remove((kind, ktxt))
                continue
            if kind in ("stopped", "unsubscribed"):
                hit = [k for k, dl in store.items() if key_text(k) == ktxt and (k[0] == "svc") == (kind == "stopped")]
                if not hit:
                    bad("C09:spurious-expiry", f"'{text}' at {t}: the entry is not stored (removed, superseded or already reported)")
                elif store[hit[0]] != t:
                    dl = store[hit[0]]
                    bad("C09:early-expiry" if dl is None or t < dl else "C09:late-expiry",
                        f"'{text}' at {t} but the most recent refresh sets the deadline to {dl}")
                    del store[hit[0]]
                else:
                    del store[hit[0]]
                    rep.dist["C09:on-time-expiries"] += 1
            else:
                bad("C09:unexpected-notification", f"'{text}' at {t} without a new entry")
        elif it[0] == "idle":
            t = it[1]
            if pending:
                bad("C09:missing-notification", f"expected {pending} before the loop became idle")
                pending = []
            overdue(t + 1)  # at idle no timer is due: an entry whose deadline is <= now must have been reported
    rep.dist["C09:entries-left-stored"] += len(store)


def run(ctx: core.Ctx) -> core.Report:
    rep = core.Report("C09")
    rep.rule = ("adversarially scheduled histories of offers / stop-offers / subscribes / stop-subscribes / reboot evidence "
                "over 3 peers x 3 services x 3 eventgroups with TTL in {1,2,3,0xFFFFFE,forever}, refreshes before / at / after "
                "the deadline (also between fire and run), clock jumps past 0xFFFFFF s; every step compared with the Lean "
                "model; expiry notifications judged by an exact reference trace; non-trivial = scenario with notifications")
    stateful.run_scenarios(ctx, rep, make, oracle, ctx.n(160, 2400), "c09")
    return rep

