"""C01 — SOME/IP message encoding round-trips and matches the wire layout."""
from __future__ import annotations

import struct

import someip.header as H
import someip.sd as SD

from harness import core, gen
from harness.gen import hx

LEVEL = ("Lean theorems c01_* prove layout, rejection of unrepresentable fields, round trip with any suffix, "
         "decoder soundness and in-order datagram delivery for ALL field values / payloads / suffixes / message "
         "counts of the model; the model is tied to someip.header / sd.datagram_received by differential cases.")
ADDR = ("127.0.0.1", 30490)


def hdr_tokens(h):
    return f"{h['sid']} {h['mid']} {h['cid']} {h['sess']} {h['iv']} {h['mt']} {h['pv']} {h['rc']} {hx(h['payload'])}"


def mk(h):
    return H.SOMEIPHeader(
        service_id=h["sid"], method_id=h["mid"], client_id=h["cid"], session_id=h["sess"],
        interface_version=h["iv"], message_type=H.SOMEIPMessageType(h["mt"]), protocol_version=h["pv"],
        return_code=H.SOMEIPReturnCode(h["rc"]), payload=h["payload"])


def canon(m: H.SOMEIPHeader):
    return (f"{m.service_id} {m.method_id} {m.client_id} {m.session_id} {m.interface_version} "
            f"{int(m.message_type)} {m.protocol_version} {int(m.return_code)} {hx(m.payload)}")


def exc_name(e):
    if isinstance(e, H.IncompleteReadError):
        return "IncompleteReadError"
    if isinstance(e, H.ParseError):
        return "ParseError"
    if isinstance(e, struct.error):
        return "struct.error"
    return type(e).__name__


def impl_parse(b):
    try:
        m, rest = H.SOMEIPHeader.parse(b)
        return f"ok {canon(m)} {hx(rest)}"
    except Exception as e:  # noqa: BLE001
        return f"err {exc_name(e)}"


def impl_build(h):
    try:
        return f"ok {hx(mk(h).build())}"
    except Exception as e:  # noqa: BLE001
        return f"err {exc_name(e)}"


class Rec(SD.SOMEIPDatagramProtocol):
    def __init__(self):
        super().__init__()
        self.got = []

    def message_received(self, m, addr, multicast):
        self.got.append(canon(m))


def impl_dgram(b):
    p = Rec()
    try:
        p.datagram_received(b, ADDR, False)
        return p.got, None
    except Exception as e:  # noqa: BLE001
        return p.got, exc_name(e)


def gen_header(rng, big=False, pv=1):
    lens = gen.PAYLOAD_LENS + (gen.PAYLOAD_LENS_BIG if big else [])
    n = rng.choice(lens) if rng.random() < 0.7 else rng.randrange(0, 600)
    return {"sid": gen.u16(rng), "mid": gen.u16(rng), "cid": gen.u16(rng), "sess": gen.u16(rng),
            "iv": gen.u8(rng), "mt": rng.choice(gen.MSG_TYPES), "pv": pv, "rc": rng.choice(gen.RET_CODES),
            "payload": gen.rbytes(rng, n)}


def key_of(h, suffix_len, nmsgs):
    pl = len(h["payload"])
    plc = pl if pl in gen.PAYLOAD_LENS + gen.PAYLOAD_LENS_BIG else "other"
    return (gen.cls(h["sid"], 16), gen.cls(h["mid"], 16), gen.cls(h["cid"], 16), gen.cls(h["sess"], 16),
            gen.cls(h["iv"], 8), h["mt"], h["rc"], plc, min(suffix_len, 3), nmsgs)


def run(ctx: core.Ctx) -> core.Report:
    rng = ctx.rng
    rep = core.Report("C01")
    rep.rule = ("structured headers (boundary-biased fields, all 10 message types x 11 return codes, payload lengths "
                "0..600 + boundaries up to 65537, suffix 0..40), out-of-range fields, 0..8 messages per datagram into a "
                "real SOMEIPDatagramProtocol, one corrupted header in the middle; non-trivial = distinct (field-class "
                "vector, type, code, payload class, suffix class, #messages)")
    cases = []  # (kind, data, model_lines)
    # -- A: build / layout / parse with suffix
    combos = [(mt, rc) for mt in gen.MSG_TYPES for rc in gen.RET_CODES]
    nA = ctx.n(1500, 30000)
    nbig = ctx.n(6, 60)
    # every small payload length with every small suffix length: a slip that concerns ONE particular length (a fast path for
    # "exactly n bytes left", an off-by-8 in one branch) must not depend on the draw of the random lengths below
    for pl in range(0, 41):
        for sl in range(0, 21):
            h = gen_header(rng)
            h["payload"] = gen.rbytes(rng, pl)
            cases.append(("A", (h, gen.rbytes(rng, sl))))
    for i in range(nA):
        h = gen_header(rng, big=(i < nbig))
        if i < len(combos):
            h["mt"], h["rc"] = combos[i]
        suffix = gen.rbytes(rng, rng.choice([0, 0, 1, 2, 15, 16, 17, 40]) if rng.random() < 0.8 else rng.randrange(0, 41))
        cases.append(("A", (h, suffix)))
    # -- B: out-of-range fields and other protocol versions
    for i in range(ctx.n(300, 3000)):
        h = gen_header(rng)
        f = rng.choice(["sid", "mid", "cid", "sess", "iv", "pv", "pvok"])
        if f == "pvok":
            h["pv"] = rng.choice([0, 2, 3, 0x7F, 0xFF])
        else:
            w = 8 if f in ("iv", "pv") else 16
            h[f] = rng.choice([1 << w, (1 << w) + 1, 1 << 32, -1, -(1 << w)])
        cases.append(("B", (h, f)))
    # -- C/D: datagrams
    for i in range(ctx.n(500, 8000)):
        k = rng.randrange(0, 9)
        hs = [gen_header(rng) for _ in range(k)]
        corrupt = None
        if k and rng.random() < 0.4:
            corrupt = (rng.randrange(k), rng.choice(["pv", "mt", "rc", "len_small", "len_big", "trunc"]))
        cases.append(("D", (hs, corrupt)))

    # -- E: mutated / raw headers into the decoder (decoder soundness: what is accepted IS the layout of what is returned)
    for i in range(ctx.n(500, 6000)):
        base = mk(gen_header(rng)).build()
        r = rng.random()
        b = bytearray(base)
        if r < 0.35:
            b[4:8] = struct.pack("!I", rng.choice([0, 1, 4, 7, 8, 9, len(base) - 8 - 1, len(base) - 8 + 1, 0xFFFFFFFF]))
        elif r < 0.6:
            b[rng.randrange(len(b))] ^= 1 << rng.randrange(8)
        elif r < 0.8:
            b = b[: rng.randrange(0, len(b) + 1)]
        else:
            b = bytearray(gen.rbytes(rng, rng.choice([0, 1, 15, 16, 17, 40])))
        cases.append(("E", bytes(b) + gen.rbytes(rng, rng.choice([0, 0, 8]))))

    # ---- execute on the implementation, collect model ops
    ops = []
    todo = []
    for kind, data in cases:
        rep.evaluations += 1
        if kind == "A":
            h, suffix = data
            ib = impl_build(h)
            wire = gen.unhx(ib[3:]) if ib.startswith("ok ") else b""
            ip = impl_parse(wire + suffix)
            i0 = len(ops)
            ops += [f"hdr.build {hdr_tokens(h)}", f"spec.layout {hdr_tokens(h)}", f"hdr.parse {hx(wire + suffix)}"]
            todo.append((kind, data, i0, (ib, ip)))
            rep.nontrivial.add(key_of(h, len(suffix), 1))
            rep.dist["A:payload=%s" % (len(h["payload"]) if len(h["payload"]) in gen.PAYLOAD_LENS_BIG else "<=600")] += 1
        elif kind == "E":
            ip = impl_parse(data)
            i0 = len(ops)
            ops.append(f"hdr.parse {hx(data)}")
            if ip.startswith("ok "):
                t = ip.split(" ")
                ops.append("spec.layout " + " ".join(t[1:10]))
            todo.append((kind, data, i0, ip))
            rep.dist["E:" + ip.split(" ")[0] + ("" if ip.startswith("ok") else ":" + ip[4:])] += 1
        elif kind == "B":
            h, f = data
            ib = impl_build(h)
            i0 = len(ops)
            neg = any(isinstance(v, int) and v < 0 for v in h.values())
            if not neg:
                ops += [f"hdr.build {hdr_tokens(h)}", f"spec.layout {hdr_tokens(h)}"]
                if ib.startswith("ok "):
                    ops.append(f"hdr.parse {ib[3:]}")
            todo.append((kind, data, i0, (ib, neg)))
            rep.dist["B:" + f] += 1
        else:
            hs, corrupt = data
            parts = [mk(h).build() for h in hs]
            if corrupt:
                j, what = corrupt
                b = bytearray(parts[j])
                if what == "pv":
                    b[12] = rng.choice([0, 2, 0xFF])
                elif what == "mt":
                    b[14] = rng.choice([3, 0x20, 0x43, 0x82, 0xFF])
                elif what == "rc":
                    b[15] = rng.choice([11, 12, 0x80, 0xFF])
                elif what == "len_small":
                    b[4:8] = struct.pack("!I", rng.choice([0, 1, 7]))
                elif what == "len_big":
                    b[4:8] = struct.pack("!I", len(b) - 8 + 1 + sum(len(p) for p in parts[j + 1:]) + rng.choice([0, 1, 1000]))
                elif what == "trunc":
                    b = b[: rng.randrange(1, len(b))]
                    parts = parts[: j + 1]
                parts[j] = bytes(b)
            wire = b"".join(parts)
            got, err = impl_dgram(wire)
            i0 = len(ops)
            ops.append(f"dgram {hx(wire)}")
            todo.append((kind, data, i0, (got, err, wire)))
            if hs:
                rep.nontrivial.add(key_of(hs[0], 0, len(hs)) + (corrupt[1] if corrupt else None,))
            rep.dist["D:msgs=%d%s" % (len(hs), ",corrupt=" + corrupt[1] if corrupt else "")] += 1

    outs = ctx.model.run(ops)

    # ---- compare + oracle
    for kind, data, i0, impl in todo:
        if kind == "A":
            h, suffix = data
            ib, ip = impl
            mb, spec, mp = outs[i0], outs[i0 + 1], outs[i0 + 2]
            case = {"kind": "A", "header": {**h, "payload": hx(h["payload"])}, "suffix": hx(suffix)}
            rep.sample({"op": ops[i0][:200], "impl": ib[:120], "model": mb[:120]})
            if ib != mb:
                rep.disagree(ops[i0][:300], mb[:300], ib[:300], case)
            if ip != mp:
                rep.disagree(ops[i0 + 2][:300], mp[:300], ip[:300], case)
            # oracle (c01_build_layout / c01_parse_layout): spec layout, and decode returns (h, suffix)
            fits, lay = spec.split(" ")
            if fits == "fits=1":
                if ib != "ok " + lay:
                    rep.violation("C01:layout", "encoded bytes differ from the SOME/IP layout: " + ib[:200], case)
                want = f"ok {hdr_tokens(h)} {hx(suffix)}"
                if h["pv"] == 1 and ip != want:
                    rep.violation("C01:roundtrip", f"decode(encode(m)+suffix) = {ip[:200]} expected {want[:200]}", case)
        elif kind == "E":
            ip = impl
            case = {"kind": "E", "input": hx(data)}
            if ip != outs[i0]:
                rep.disagree(ops[i0][:300], outs[i0][:300], ip[:300], case)
            if ip.startswith("ok "):
                # oracle (c01_parse_sound): the input is exactly the layout of the decoded value followed by the rest
                rest = ip.split(" ")[10]
                lay = outs[i0 + 1].split(" ")[1]
                if gen.unhx(lay) + gen.unhx(rest) != data:
                    rep.violation("C01:decoder-unsound", "accepted bytes are not the layout of the decoded message plus the returned rest "
                                  "(length field / payload mismatch)", case)
                rep.nontrivial.add(("E", len(data) % 9, rest == "-"))
        elif kind == "B":
            h, f = data
            ib, neg = impl
            case = {"kind": "B", "header": {**h, "payload": hx(h["payload"])}, "field": f}
            if neg:
                if not ib.startswith("err struct.error"):
                    rep.violation("C01:range", f"negative field accepted by build: {ib[:100]}", case)
                continue
            mb, spec = outs[i0], outs[i0 + 1]
            if ib != mb:
                rep.disagree(ops[i0][:300], mb[:300], ib[:300], case)
            fits, lay = spec.split(" ")
            if fits == "fits=0" and ib.startswith("ok "):
                rep.violation("C01:range", f"unrepresentable field emitted bytes: {ib[:100]}", case)
            if fits == "fits=1":
                if ib != "ok " + lay:
                    rep.violation("C01:layout", "encoded bytes differ from the SOME/IP layout: " + ib[:200], case)
                mp = outs[i0 + 2]
                ipp = impl_parse(gen.unhx(ib[3:]))
                if ipp != mp:
                    rep.disagree(ops[i0 + 2][:300], mp, ipp, case)
                if h["pv"] != 1 and not ipp.startswith("err "):
                    rep.violation("C01:version", f"protocol version {h['pv']} decoded: {ipp[:100]}", case)
        else:
            hs, corrupt = data
            got, err, wire = impl
            mo = outs[i0]
            case = {"kind": "D", "headers": [{**h, "payload": hx(h["payload"])} for h in hs], "corrupt": corrupt, "wire": hx(wire)}
            mparts = mo.split(" | ")
            mgot = mparts[1:]
            if mgot != got:
                rep.disagree(ops[i0][:300], mo[:300], repr(got)[:300], case)
            if err is not None:
                rep.violation("C01:dgram-raises", f"datagram_received raised {err}", case)
            want = [hdr_tokens(h) for h in hs]
            if corrupt is None:
                if got != want:
                    rep.violation("C01:dgram-order", f"delivered {len(got)} of {len(want)} messages or wrong order/content", case)
            else:
                j = corrupt[0]
                if got[:j] != want[:j]:
                    rep.violation("C01:dgram-prefix", "messages before the malformed one were not delivered in order", case)
    return rep

