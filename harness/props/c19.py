"""C19 — Service and eventgroup matching obeys the wildcard laws."""
from __future__ import annotations

import dataclasses
import itertools

import someip.config as C
import someip.header as H

from harness import core, gen, sdio
from harness.sdio import svc_tok, entry_tok, eg_tok, exc_name

LEVEL = "Lean theorems c19_* (symmetry, wildcard monotonicity, find/offer duality, subscribe iff, offer round trip, for_service) + exhaustive 3-valued domain against config.py"
IIDS = [1, 2, 0xFFFF]
MAJS = [1, 2, 0xFF]
MINS = [1, 2, 0xFFFFFFFF]


def services(sids=(7, 8)):
    return [C.Service(s, i, ma, mi) for s in sids for i in IIDS for ma in MAJS for mi in MINS]


def wild(s, f):
    return dataclasses.replace(s, **{f: {"instance_id": 0xFFFF, "major_version": 0xFF, "minor_version": 0xFFFFFFFF}[f]})


def call(f, *a):
    try:
        r = f(*a)
        return "ok " + str(int(r)) if isinstance(r, bool) else r
    except Exception as e:  # noqa: BLE001
        return "err " + exc_name(e)


def run(ctx: core.Ctx) -> core.Report:
    rng = ctx.rng
    rep = core.Report("C19")
    rep.rule = ("all pairs over the domain {two concrete values, wildcard} per field (exhaustive, both tiers) for "
                "description/description, description/offer, description/find, description/subscribe and eventgroup/service; "
                "random full-range and near-wildcard values on top; non-trivial = every distinct pair")
    S = services()
    ops, post = [], []

    def add(op, impl, case, oracle=None):
        rep.evaluations += 1
        ops.append(op)
        post.append((impl, case, oracle))

    conc = [s for s in S if s.instance_id != 0xFFFF and s.major_version != 0xFF and s.minor_version != 0xFFFFFFFF]
    extra = []
    for _ in range(ctx.n(300, 5000)):
        f = lambda w, wv: rng.choice([wv, wv - 1, gen.pick(rng, [0, 1, 2], w)])  # noqa: E731
        extra.append((C.Service(gen.u16(rng), f(16, 0xFFFF), f(8, 0xFF), f(32, 0xFFFFFFFF)),
                      C.Service(gen.u16(rng), f(16, 0xFFFF), f(8, 0xFF), f(32, 0xFFFFFFFF))))
    pairs = list(itertools.product(S, S)) + extra + [(a, dataclasses.replace(b, service_id=a.service_id)) for a, b in extra]
    for a, b in pairs:
        key = ("svc", a.service_id == b.service_id, a.instance_id, b.instance_id, a.major_version, b.major_version, a.minor_version, b.minor_version)
        rep.nontrivial.add(key)
        r = a.matches_service(b)
        # laws: symmetry; wildcarding any field never loses a match; service ids exact
        sym = b.matches_service(a)
        mono = all(wild(a, f).matches_service(b) for f in ("instance_id", "major_version", "minor_version")) if r else True
        exact = (a.service_id == b.service_id) or not r
        add(f"cfg.matchSvc {svc_tok(a)} {svc_tok(b)}", str(int(r)), {"a": svc_tok(a), "b": svc_tok(b)},
            None if (r == sym and mono and exact) else ("C19:service-laws", f"matches_service={r} symmetric={sym} monotone={mono} exact_sid={exact}"))
        # offer / find entries
        oe = b.create_offer_entry(3)
        fe = b.create_find_entry(3)
        mo = a.matches_offer(oe)
        mono_o = all(wild(a, f).matches_offer(oe) for f in ("instance_id", "major_version", "minor_version")) if mo else True
        spec_o = (a.service_id == b.service_id and a.instance_id in (0xFFFF, b.instance_id) and a.major_version in (0xFF, b.major_version)
                  and a.minor_version in (0xFFFFFFFF, b.minor_version))
        add(f"cfg.matchOffer {svc_tok(a)} {entry_tok(oe)}", "ok " + str(int(mo)), {"filter": svc_tok(a), "offer_of": svc_tok(b)},
            None if (mo == spec_o and mono_o) else ("C19:offer-laws", f"matches_offer={mo} spec={spec_o} monotone={mono_o}"))
        mf = a.matches_find(fe)
        spec_f = (a.service_id == b.service_id and b.instance_id in (0xFFFF, a.instance_id) and b.major_version in (0xFF, a.major_version)
                  and b.minor_version in (0xFFFFFFFF, a.minor_version))
        # duality: service a answers filter b's find entry exactly when b accepts a's offer entry
        dual = b.matches_offer(a.create_offer_entry(3))
        add(f"cfg.matchFind {svc_tok(a)} {entry_tok(fe)}", "ok " + str(int(mf)), {"service": svc_tok(a), "find_of": svc_tok(b)},
            None if (mf == spec_f and mf == dual) else ("C19:find-laws", f"matches_find={mf} spec={spec_f} dual matches_offer={dual}"))
    # wrong entry types raise ValueError
    for a in S[:6]:
        for ty in (0, 1, 6, 7):
            e = H.SOMEIPSDEntry(sd_type=H.SOMEIPSDEntryType(ty), service_id=a.service_id, instance_id=1, major_version=1, ttl=3, minver_or_counter=1)
            add(f"cfg.matchOffer {svc_tok(a)} {entry_tok(e)}", call(a.matches_offer, e), {"svc": svc_tok(a), "type": ty})
            add(f"cfg.matchFind {svc_tok(a)} {entry_tok(e)}", call(a.matches_find, e), {"svc": svc_tok(a), "type": ty})
            add(f"cfg.matchSub {svc_tok(a)} {entry_tok(e)}", call(a.matches_subscribe, e), {"svc": svc_tok(a), "type": ty})
    # subscribe matching
    for a in S:
        for egs in ((), (5,), (5, 9)):
            sv = dataclasses.replace(a, eventgroups=frozenset(egs))
            for sid, iid, maj, egid, cnt in itertools.product((7, 8), (1, 2, 0xFFFF), (1, 2, 0xFF), (5, 9, 6), (0, 3)):  # entry-side wildcard VALUES are not wildcards (m94)
                e = H.SOMEIPSDEntry(sd_type=H.SOMEIPSDEntryType.Subscribe, service_id=sid, instance_id=iid, major_version=maj, ttl=3,
                                    minver_or_counter=(cnt << 16) | egid)
                r = sv.matches_subscribe(e)
                spec = sv.service_id == sid and sv.instance_id in (0xFFFF, iid) and sv.major_version in (0xFF, maj) and egid in egs
                rep.nontrivial.add(("sub", a.instance_id, a.major_version, egs, sid == a.service_id, iid, maj, egid, cnt))
                add(f"cfg.matchSub {svc_tok(sv)} {entry_tok(e)}", "ok " + str(int(r)), {"svc": svc_tok(sv), "entry": entry_tok(e)},
                    None if r == spec else ("C19:subscribe-iff", f"matches_subscribe={r} spec={spec}"))
    # offer round trip with options
    for _ in range(ctx.n(200, 3000)):
        pool = [sdio.gen_option(rng) for _ in range(4)]
        s = C.Service(gen.u16(rng), gen.u16(rng), gen.u8(rng), gen.u32(rng), options_1=sdio.gen_run(rng, pool), options_2=sdio.gen_run(rng, pool),
                      eventgroups=frozenset(rng.sample(range(10), rng.randrange(3))))
        ttl = gen.u24(rng)
        e = s.create_offer_entry(ttl)
        back = C.Service.from_offer_entry(e)
        ok = (back.service_id, back.instance_id, back.major_version, back.minor_version, back.options_1, back.options_2) == \
             (s.service_id, s.instance_id, s.major_version, s.minor_version, s.options_1, s.options_2) and e.ttl == ttl
        add(f"cfg.offer {svc_tok(s)} {ttl}", entry_tok(e), {"svc": svc_tok(s)})
        add(f"cfg.fromOffer {entry_tok(e)}", "ok " + svc_tok(back), {"svc": svc_tok(s)},
            None if ok else ("C19:offer-roundtrip", "from_offer_entry(create_offer_entry(s)) lost ids, versions or options"))
        fe = s.create_find_entry(ttl)
        add(f"cfg.find {svc_tok(s)} {ttl}", entry_tok(fe), {"svc": svc_tok(s)})
    # eventgroup specialisation
    for a in S:
        for g_iid, g_maj in itertools.product(IIDS, MAJS):
            for fam in (4, 6):
                sock = ("10.0.0.9", 3000) if fam == 4 else ("fe80::1", 3001, 0, 0)
                g = C.Eventgroup(7, g_iid, g_maj, 5, sock, rng.choice([H.L4Protocols.UDP, H.L4Protocols.TCP]))
                r = g.for_service(a)
                accept = g.as_service().matches_offer(a.create_offer_entry())
                ok = (r is not None) == accept and (r is None or (r.instance_id, r.major_version, r.service_id, r.eventgroup_id, r.sockname, r.protocol)
                                                    == (a.instance_id, a.major_version, g.service_id, g.eventgroup_id, g.sockname, g.protocol))
                rep.nontrivial.add(("eg", a.service_id, a.instance_id, a.major_version, a.minor_version, g_iid, g_maj, fam))
                add(f"cfg.forService {eg_tok(g)} {svc_tok(a)}", "none" if r is None else eg_tok(r), {"eg": eg_tok(g), "svc": svc_tok(a)},
                    None if ok else ("C19:for-service", f"for_service={r} but filter accepts offer={accept}"))
                add(f"cfg.asService {eg_tok(g)}", svc_tok(g.as_service()), {"eg": eg_tok(g)})
                ttl, cnt = gen.u24(rng), rng.randrange(16)
                add(f"cfg.subEntry {eg_tok(g)} {ttl} {cnt}", entry_tok(g.create_subscribe_entry(ttl, cnt)), {"eg": eg_tok(g)})
    outs = ctx.model.run(ops)
    for op, (impl, case, oracle), mo in zip(ops, post, outs):
        if impl != mo:
            rep.disagree(op[:300], mo[:200], impl[:200], case)
        if oracle:
            rep.violation(oracle[0], oracle[1], case)
        rep.dist[op.split(" ")[0]] += 1
    rep.sample({"op": ops[0], "impl": post[0][0]})
    rep.sample({"op": ops[-1], "impl": post[-1][0]})
    return rep

