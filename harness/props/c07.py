"""C07 — Peer reboot is detected exactly, per sender and per unicast/multicast channel."""
from __future__ import annotations

import itertools

import someip.header as H
import someip.sd as SD

from harness import core, vloop

LEVEL = "Lean theorems c07_* (model = history specification, independence, fan-out) + differential correspondence"
IDS = [1, 2, 3, 0x7FFF, 0xFFFE, 0xFFFF]
# senders: two pairs share a host and differ in the port only; an IPv6 pair differs in the scope id only
ADDRS = [("10.0.0.1", 30490), ("10.0.0.1", 30491), ("10.0.0.2", 30490), ("fe80::7", 30490, 0, 1), ("fe80::7", 30490, 0, 2)]


def run_impl(hist):
    st = SD._SessionStorage()
    return [st.check_received(ADDRS[a], bool(mc), bool(fl), sid) for a, mc, fl, sid in hist]


def toks(hist):
    return f"{len(hist)}" + "".join(f" {a} {int(mc)} {int(fl)} {sid}" for a, mc, fl, sid in hist)


def sd_packet(flag, sid, unicast=True):
    # the unicast flag of the SD header must be irrelevant for session tracking (the statement quantifies over every
    # received SD message; the model's `sdRx` / c07_stack_memory_is_history do not look at it): the live-stack histories
    # clear it on a deterministic third of the messages (gap found with seeded m96)
    m = H.SOMEIPSDHeader(entries=(), flag_reboot=flag, flag_unicast=unicast)
    return H.SOMEIPHeader(service_id=H.SD_SERVICE, method_id=H.SD_METHOD, client_id=0, session_id=sid,
                          interface_version=1, message_type=H.SOMEIPMessageType.NOTIFICATION, payload=bytes(m.build())).build()


class Stub:
    def __init__(self, log, name):
        self.log, self.name = log, name

    def reboot_detected(self, addr):
        self.log.append((self.name, addr))

    def connection_lost(self, exc):
        pass


def run_stack(hist):
    """the same history through a live ServiceDiscoveryProtocol; returns per message the fan-out it caused"""
    loop = vloop.new_loop()
    try:
        p = loop.call(SD.ServiceDiscoveryProtocol, ("224.0.0.1", 30490))
        p.transport = vloop.FakeTransport(loop)
        log = []
        p.discovery, p.subscriber, p.announcer = Stub(log, "discovery"), Stub(log, "subscriber"), Stub(log, "announcer")
        res = []
        for k, (a, mc, fl, sid) in enumerate(hist):
            del log[:]
            loop.call(p.datagram_received, sd_packet(bool(fl), sid, unicast=(k * 7 + sid + a) % 3 != 0), ADDRS[a], bool(mc))
            loop.run_until_idle()
            res.append(sorted(log))
        return res
    finally:
        loop.shutdown()


def run(ctx: core.Ctx) -> core.Report:
    rng = ctx.rng
    rep = core.Report("C07")
    rep.rule = ("histories of (sender, channel, flag, session id) over 1..4 senders x 2 channels, ids from the boundary "
                "table {1,2,3,0x7FFF,0xFFFE,0xFFFF} plus random (0 only in the model comparison), length 1..200, against a "
                "real _SessionStorage and a live ServiceDiscoveryProtocol with recording parts; all (old state, message) "
                "pairs of the boundary alphabet per key are enumerated; non-trivial = history repeats a key")
    hists = []
    # closure of the per-key state space over the boundary alphabet: all pairs (previous message, message)
    alpha = [(fl, sid) for fl in (0, 1) for sid in IDS]
    for (f1, s1), (f2, s2) in itertools.product(alpha, alpha):
        hists.append(([(0, 0, f1, s1), (0, 0, f2, s2)], True))
    for f, s in alpha:
        hists.append(([(0, 0, f, s)], True))
        # other sender / other channel in between must neither trigger nor mask
        hists.append(([(0, 0, 1, 5), (1, 0, f, s), (0, 1, f, s), (0, 0, 1, 5)], True))
    for i in range(ctx.n(400, 6000)):
        ns = rng.randrange(1, 5)
        n = rng.randrange(1, 30) if rng.random() < 0.8 else rng.randrange(30, 201)
        with0 = rng.random() < 0.15
        h = []
        for _ in range(n):
            sid = rng.choice(IDS) if rng.random() < 0.6 else rng.randrange(1, 65536)
            if with0 and rng.random() < 0.2:
                sid = 0
            h.append((rng.randrange(ns), rng.randrange(2), rng.randrange(2), sid))
        hists.append((h, not with0))
    ops = []
    impl = []
    for h, _ in hists:
        rep.evaluations += 1
        ops.append("sess.recv " + toks(h))
        ops.append("spec.recv " + toks(h))
        impl.append(run_impl(h))
    outs = ctx.model.run(ops)
    nstack = ctx.n(120, 1500)
    for i, ((h, oracle), got) in enumerate(zip(hists, impl)):
        g = " ".join(str(int(x)) for x in got)
        case = {"history": h}
        keys = [(a, mc) for a, mc, _, _ in h]
        if len(set(keys)) < len(keys):
            rep.nontrivial.add(tuple(h[:12]))
        rep.dist["len<=2" if len(h) <= 2 else "len<=30" if len(h) <= 30 else "len>30"] += 1
        rep.dist["detections"] += sum(got)
        if g != outs[2 * i]:
            rep.disagree(ops[2 * i][:200], outs[2 * i][:200], g[:200], case, oracle)
        if oracle and g != outs[2 * i + 1]:
            bad = next(k for k, (x, y) in enumerate(zip(g.split(), outs[2 * i + 1].split())) if x != y)
            rep.violation("C07:detection", f"message #{bad} {h[bad]}: implementation says reboot={g.split()[bad]}, "
                          f"history specification says {outs[2 * i + 1].split()[bad]}", case)
        if i < 3:
            rep.sample({"history": h, "detections": g})
        # fan-out through the live protocol
        if oracle and (i < len(alpha) ** 2 or i % max(1, len(hists) // nstack) == 0) and len(h) <= 40:
            fan = run_stack(h)
            rep.dist["live-stack-histories"] += 1
            for k, (d, f) in enumerate(zip(got, fan)):
                names = [n for n, _ in f]
                want = ["announcer", "discovery", "subscriber"] if d else []
                if names != want or any(addr != ADDRS[h[k][0]] for _, addr in f):
                    rep.violation("C07:fanout", f"message #{k} {h[k]}: detection={d} but parts notified: {f}", case)
    return rep

