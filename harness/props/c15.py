"""C15 — Queued SD entries are sent exactly once, in order, to the right peer, in time."""
from __future__ import annotations

import collections

import someip.config as C
import someip.header as H

from harness import core, scen, sdio, stackdrv as SDV, stateful

LEVEL = ("Lean theorems c15_* (per destination: sent ++ open collector = queued; deadline; zero timeout) for every event list + "
         "lock-step correspondence + prefix/deadline oracle on wrapped queue_send calls")
W = {"sub": 7, "stopsub": 2, "find": 5, "life": 2.5, "nak": 1, "subreboot": 1}
S0 = C.Service(0x1111, 1, 1, 1, eventgroups=frozenset({5, 6}))
S1 = C.Service(0x2222, 1, 1, 7, eventgroups=frozenset({5}), options_1=(scen.endpoint(9, 30509),))
QUEUED_TYPES = (H.SOMEIPSDEntryType.OfferService, H.SOMEIPSDEntryType.SubscribeAck)


class Sc(scen.Scenario):
    def prelude(self, impl):
        for i in range(len(self.services)):
            self.announced.add(i)
            self.rec.inp(impl.loop.ticks, ("announce", i))
            yield f"in announce {i}"
        self.running = True
        self.rec.inp(impl.loop.ticks, ("start",))
        yield "in start"

    def epilogue_times(self):
        return [100, 2500]


def make(rng, k):
    tm = SDV.TimingsSpec(initMin=0, initMax=rng.choice([0, 10]), reps=rng.choice([0, 2]), base=rng.choice([3, 10]),
                         cyclic=rng.choice([0, 40, 300]), coll=rng.choice([0, 5, 5, 20]), refresh=None,
                         rrMin=rng.choice([0, 5]), rrMax=rng.choice([5, 20]), annTtl=3)
    sc = Sc(rng, tm, [S0, S1][: rng.choice([1, 2])], W, nsteps=rng.choice([40, 80, 120]), adversarial=True, peers=rng.choice([3, 3, 5]))
    sc.sub_counts = [1, 1, 2, 5, 20, 40]
    return sc


def oracle(sc, res, rep, case):
    coll = sc.tm.coll
    queued = collections.defaultdict(list)  # dest -> [(t, tok)]
    nsent = collections.defaultdict(int)

    def bad(sig, what):
        rep.violation("C15:" + sig, what, case)

    for it in sc.rec.items:
        if it[0] == "out":
            _, t, text = it
            if text.startswith("queued "):
                _, dest, tok = text.split(" ", 2)
                queued[dest].append((t, tok))
            elif text.startswith("send "):
                try:
                    dest, _sid, _fl, entries = stateful.decode_send(text)
                except Exception as exc:  # noqa: BLE001
                    bad("undecodable-send", repr(exc))
                    continue
                qe = [e for e in entries if e.sd_type in QUEUED_TYPES]
                if not qe:
                    continue
                if len(qe) != len(entries):
                    bad("mixed-message", "queued and non-queued entry kinds in one message")
                if coll == 0 and len(qe) != 1:
                    bad("zero-timeout-batched", f"collection timeout 0 but a message with {len(qe)} entries was sent")
                for e in qe:
                    tok = sdio.entry_tok(e)
                    k = nsent[dest]
                    if k >= len(queued[dest]):
                        bad("not-queued", f"entry sent to {dest} at {t} that was never queued for it (duplicate or foreign): {tok[:120]}")
                        continue
                    tq, want = queued[dest][k]
                    if tok != want:
                        bad("order", f"entry #{k} sent to {dest} differs from entry #{k} queued for it (lost, reordered or altered)")
                    elif t > tq + coll:
                        bad("late", f"entry queued for {dest} at {tq} left at {t}, later than the collection timeout {coll}")
                    elif coll == 0 and t != tq:
                        bad("late", f"collection timeout 0 but entry queued at {tq} left at {t}")
                    nsent[dest] += 1
        elif it[0] == "idle":
            t = it[1]
            for dest, q in queued.items():
                for tq, tok in q[nsent[dest]:]:
                    if tq + coll < t:
                        bad("lost", f"entry queued for {dest} at {tq} still not sent at idle time {t}")
    rep.dist["C15:entries-queued"] += sum(len(q) for q in queued.values())
    rep.dist["C15:max-burst"] = max(rep.dist["C15:max-burst"], max([0] + [len(q) for q in queued.values()]))


def run(ctx: core.Ctx) -> core.Report:
    rep = core.Report("C15")
    rep.rule = ("queue requests produced through the real offer / FindService-answer / SubscribeAck paths for the multicast group "
                "and 3 unicast peers, bursts of up to 40 entries, requests at window edges in both orders (adversarial "
                "scheduling), requests during announcer stop / restart, collection timeout 0 / 5 / 20 ms; queue_send wrapped to "
                "observe requests; every step compared with the Lean model")
    stateful.run_scenarios(ctx, rep, make, oracle, ctx.n(200, 3000), "c15")
    return rep

