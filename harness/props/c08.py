"""C08 — Outgoing session ids count 1..0xFFFF per destination; reboot flag clears on wrap."""
from __future__ import annotations

import someip.header as H
import someip.sd as SD
import someip.config as C

from harness import core, vloop

LEVEL = "Lean theorems c08_* (k-th id/flag per destination, independence, never 0, empty send) + differential correspondence"
# destinations: 1 and 2 share a host and differ in the port only, so do 3 and 4
DESTS = [None, ("10.0.0.1", 30490), ("10.0.0.1", 30491), ("10.0.0.2", 30490), ("10.0.0.2", 30491)]
ENTRY = C.Service(0x1234, 1, 1, 0).create_offer_entry(3)


def dtok(d):
    return "~" if d is None else str(DESTS.index(d))


def decode_sent(sent):
    out = []
    for _t, data, addr in sent:
        m, rest = H.SOMEIPHeader.parse(data)
        sd, _ = H.SOMEIPSDHeader.parse(m.payload)
        out.append((addr, m.session_id, sd.flag_reboot, len(sd.entries), len(rest)))
    return out


REBOOT_PKT = H.SOMEIPHeader(service_id=H.SD_SERVICE, method_id=H.SD_METHOD, client_id=0, session_id=1, interface_version=1,
                            message_type=H.SOMEIPMessageType.NOTIFICATION,
                            payload=bytes(H.SOMEIPSDHeader(entries=(), flag_reboot=True, flag_unicast=True).build())).build()


def run_seq(seq):
    """seq: list of (dest index or None, empty?) -> list of 'flag:id' per non-empty send, via real send_sd"""
    loop = vloop.new_loop()
    try:
        p = loop.call(SD.ServiceDiscoveryProtocol, ("224.0.0.1", 30490))
        tr = vloop.FakeTransport(loop)
        p.transport = tr
        res = []
        for idx, (d, empty) in enumerate(seq):
            n0 = len(tr.sent)
            loop.call(p.send_sd, [] if empty else [ENTRY], d)
            new = decode_sent(tr.sent[n0:])
            res.append(new)
            # "independently of the traffic": what the stack RECEIVES - including a detected reboot of the very peer it
            # sends to - must not disturb the outgoing numbering (c08_stack_sends_follow_spec holds for every event list;
            # gap found with seeded m99).  Two SD messages with the reboot flag and session id 1 from the destination:
            # the second is a detected reboot.  Nothing may be transmitted in response (no services, nothing watched).
            if d is not None and idx < 300 and idx % 4 == 1:
                n1 = len(tr.sent)
                for _ in range(2):
                    loop.call(p.datagram_received, REBOOT_PKT, d, False)
                    loop.run_until_idle()
                if len(tr.sent) != n1:
                    res[-1] = new + decode_sent(tr.sent[n1:])
        return res
    finally:
        loop.shutdown()


def run(ctx: core.Ctx) -> core.Report:
    rng = ctx.rng
    rep = core.Report("C08")
    rep.rule = ("interleaved send_sd calls over 1..5 destinations (incl. the multicast default) with empty sends mixed in; one "
                "destination walked through a complete wrap (quick) / three destinations wrapping at different moments "
                "through two full cycles (thorough); ids and flags decoded from the sendto arguments; non-trivial = "
                "sequence touches >= 2 destinations or crosses a wrap; plus notification walks of a SimpleEventgroup (4 events per "
                "round, two subscribers joining at different rounds, every destination through its wrap; thorough: 2 / 6 / 7 "
                "events per round, three subscribers) with every datagram split into its messages")
    seqs = []
    for i in range(ctx.n(200, 2000)):
        nd = rng.randrange(1, 6)
        n = rng.randrange(1, 60)
        seqs.append([(DESTS[rng.randrange(nd)], rng.random() < 0.15) for _ in range(n)])
    # long walks across the wrap
    if ctx.tier == "quick":
        walk = []
        for k in range(65535 + 40):
            walk.append((DESTS[1], False))
            if k % 997 == 0:
                walk.append((None, False))
            if k % 1499 == 0:
                walk.append((DESTS[1], True))
        # destinations contacted for the FIRST time only after another destination has wrapped
        walk += [(DESTS[3], False), (DESTS[3], True), (DESTS[3], False), (DESTS[4], False), (None, False)]
        seqs.append(walk)
    else:
        walk = []
        for k in range(2 * 65535 + 100):
            walk.append((DESTS[1], False))
            if k % 2 == 0:
                walk.append((None, False))
            if k % 3 == 0:
                walk.append((DESTS[2], False))
            if k % 1499 == 0:
                walk.append((DESTS[2], True))
            if k == 65535 + 10:
                walk += [(DESTS[3], False), (DESTS[3], False)]   # first contact after DESTS[1] wrapped
        walk += [(DESTS[4], False), (DESTS[4], True), (DESTS[4], False)]
        seqs.append(walk)
    ops = []
    results = []
    for s in seqs:
        rep.evaluations += 1
        res = run_seq(s)
        results.append(res)
        nonempty = [d for d, e in s if not e]
        ops.append(f"sess.send {len(nonempty)}" + "".join(" " + dtok(d) for d in nonempty))
        if len(nonempty) <= 400:
            ops.append(f"spec.send {len(nonempty)}" + "".join(" " + dtok(d) for d in nonempty))
        else:
            ops.append("spec.send 0")
    outs = ctx.model.run(ops)
    for i, (s, res) in enumerate(zip(seqs, results)):
        case = {"sequence": [(dtok(d), e) for d, e in s[:80]], "length": len(s)}
        got = []
        count = {}
        bad = None
        for (d, empty), new in zip(s, res):
            if empty:
                if new:
                    bad = ("C08:empty-send", f"empty send_sd transmitted {new}")
                continue
            if len(new) != 1:
                bad = ("C08:one-datagram", f"send_sd produced {len(new)} datagrams")
                continue
            addr, sid, flag, nent, nrest = new[0]
            got.append(f"{int(flag)}:{sid}")
            want_addr = d if d is not None else ("224.0.0.1", 30490)
            k = count.get(d, 0)
            count[d] = k + 1
            # oracle (c08_kth): k-th id to d is k % 65535 + 1, flag set iff k < 65535
            if (sid, flag) != (k % 65535 + 1, k < 65535) and bad is None:
                bad = ("C08:kth-id", f"{k}-th message to {d} carries id {sid} flag {flag}, expected {k % 65535 + 1} {k < 65535}")
            if addr != want_addr and bad is None:
                bad = ("C08:destination", f"sent to {addr} instead of {want_addr}")
        if bad:
            rep.violation(bad[0], bad[1], case)
        g = " ".join(got)
        if g != outs[2 * i]:
            rep.disagree(ops[2 * i][:120], outs[2 * i][:200], g[:200], case)
        if len(got) <= 400 and g != outs[2 * i + 1]:
            rep.violation("C08:kth-id", "ids/flags differ from the Lean specification expectedSends", case)
        if len({d for d, _ in s}) >= 2 or len(s) > 65535:
            rep.nontrivial.add((len(s), tuple((dtok(d), e) for d, e in s[:10])))
        rep.dist["len>65535" if len(s) > 65535 else "short"] += 1
        if i < 2:
            rep.sample({"sequence": case["sequence"][:20], "ids": got[:20]})
    notification_walks(ctx, rep)
    return rep


def notification_walks(ctx, rep):
    """the statement's second half: event notifications of a service endpoint.  A SimpleEventgroup with n events per round
    and several subscribers that join at different moments is driven through the wrap of every destination; every datagram
    is split into its messages and the per-destination id sequence must be 1, 2, ..., 0xFFFF, 1, 2, ... - also compared with
    the Lean model's session storage on the same sequence of destinations."""
    from harness.props import c17

    plans = [(4, [0, 500])] if ctx.tier == "quick" else [(4, [0, 500]), (2, [0, 1, 40000]), (7, [0, 3000]), (6, [0])]
    for nev, joins in plans:
        rep.evaluations += 1
        w = c17.World(0)
        seq = []   # (dest token, id) in transmission order
        try:
            for ev in range(1, nev + 1):
                w.eg.values[ev] = b"v"
            rounds = 65535 // nev + 60 + max(joins)
            if ctx.tier == "quick":
                rounds = 65535 // nev + 60 + max(joins)
            once = f"eg.once s {nev} " + " ".join(str(e) for e in range(1, nev + 1))
            n0 = 0
            for r in range(rounds):
                for k, j in enumerate(joins):
                    if j == r:
                        w.apply(f"eg.sub s {k + 1}")
                        w.apply("eg.settle s")
                w.apply(once)
                w.apply("eg.settle s")
            for _t, dest, data in w.sent:
                b = bytes(data)
                while b:
                    m, b = H.SOMEIPHeader.parse(b)
                    seq.append((dest, m.session_id, m.message_type))
        finally:
            w.close()
        case = {"notifications": {"events_per_round": nev, "subscribers_join_at_round": joins, "messages": len(seq)}}
        count = {}
        bad = None
        for dest, sid, mt in seq:
            k = count.get(dest, 0)
            count[dest] = k + 1
            if sid != k % 65535 + 1 and bad is None:
                bad = f"{k}-th notification to {dest} carries session id {sid}, expected {k % 65535 + 1}"
        if bad:
            rep.violation("C08:notification-id", bad, case)
        if any(v <= 65535 for v in count.values()):
            rep.notes.append("a notification walk did not reach the wrap of every destination")
        # the Lean session storage on the same sequence of destinations (ids only: notifications carry no reboot flag)
        dests = sorted(count)
        op = f"sess.send {len(seq)}" + "".join(" " + str(dests.index(d) + 1) for d, _s, _m in seq)
        out = ctx.model.run([op])[0]
        model_ids = [x.split(":")[1] for x in out.split(" ")] if out else []
        if model_ids != [str(sid) for _d, sid, _m in seq]:
            first = next((i for i, (a, b) in enumerate(zip(model_ids, [str(x[1]) for x in seq])) if a != b), min(len(model_ids), len(seq)))
            rep.disagree(f"sess.send(notifications, {nev} events/round)", f"id #{first}: {model_ids[first:first + 3]}",
                         f"id #{first}: {[x[1] for x in seq[first:first + 3]]}", case)
        rep.nontrivial.add(("notif", nev, tuple(joins)))
        rep.dist["notification-walk-messages"] += len(seq)

