"""C02 — SD messages round-trip: every entry keeps exactly its own options."""
from __future__ import annotations

import dataclasses

import someip.header as H
import someip.sd as SD

from harness import core, gen, sdio
from harness.gen import hx
from harness.sdio import exc_name, sd_tok, entry_tok

LEVEL = ("Lean theorems c02_* over the model of assign_option_indexes/_find/build/parse/resolve_options for all "
         "messages; differential correspondence + independent wire reader per run")
ADDR = ("127.0.0.1", 30490)
REGISTERED = {1, 2, 4, 6, 0x14, 0x16, 0x24, 0x26}


def in_domain(m: H.SOMEIPSDHeader) -> bool:
    if not (0 <= m.flags_unknown < 64):
        return False
    for e in m.entries:
        if e.sd_type in (H.SOMEIPSDEntryType.Subscribe, H.SOMEIPSDEntryType.SubscribeAck) and e.minver_or_counter >= (1 << 20):
            # the decoder rejects such eventgroup entries; outside the round-trip domain
            return False
        for o in e.options:
            if isinstance(o, H.SOMEIPSDConfigOption):
                for k, v in o.configs:
                    if not k or "=" in k or not k.isascii() or (v is not None and not v.isascii()):
                        return False
                    if len(k) + (len(v) + 1 if v is not None else 0) > 255:
                        return False
            if isinstance(o, H.SOMEIPSDUnknownOption) and (o.type in REGISTERED or not 0 <= o.type < 256):
                return False
    return True


def widths_ok(m) -> bool:
    for e in m.entries:
        if not (0 <= e.service_id < 65536 and 0 <= e.instance_id < 65536 and 0 <= e.major_version < 256
                and 0 <= e.ttl < (1 << 24) and 0 <= e.minver_or_counter < (1 << 32)):
            return False
        for o in e.options:
            if isinstance(o, H.AbstractIPOption) and not (0 <= int(o.l4proto) < 256 and 0 <= o.port < 65536):
                return False
            if isinstance(o, H.SOMEIPSDLoadBalancingOption) and not (0 <= o.priority < 65536 and 0 <= o.weight < 65536):
                return False
            if isinstance(o, H.SOMEIPSDUnknownOption) and len(o.payload) > 65535:
                return False
    return True


def impl_pipeline(m):
    """returns (assigned message | exc, bytes | exc-name, decoded+resolved tok | err)"""
    try:
        a = m.assign_option_indexes()
    except Exception as e:  # noqa: BLE001
        return None, "err " + exc_name(e), None
    try:
        b = bytes(a.build())
    except Exception as e:  # noqa: BLE001
        return a, "err " + exc_name(e), None
    return a, "ok " + hx(b), impl_decode(b)


def impl_decode(b):
    try:
        p, rest = H.SOMEIPSDHeader.parse(b)
        r = p.resolve_options()
        return f"ok {sd_tok(r)} | {hx(rest)}"
    except Exception as e:  # noqa: BLE001
        return "err " + exc_name(e)


class FakeTransport:
    def __init__(self):
        self.sent = []

    def sendto(self, data, addr=None):
        self.sent.append((bytes(data), addr))


class RecvSD(SD.ServiceDiscoveryProtocol):
    def __init__(self):
        super().__init__(("224.0.0.1", 30490))
        self.got = []

    def sd_message_received(self, sdhdr, addr, multicast):
        self.got.append(sdhdr)

    def reboot_detected(self, addr):
        pass


def run(ctx: core.Ctx) -> core.Report:
    rng = ctx.rng
    rep = core.Report("C02")
    rep.rule = ("SD messages of 0..12 entries (all four types) with runs of 0..17 options drawn as slices/samples of a small "
                "or large option pool (so runs repeat, overlap, nest), all option kinds, boundary field values, some "
                "unrepresentable (run>15, index>255, field too wide) and some outside the well-formed domain; "
                "non-trivial = sharing happened (array shorter than the sum of runs) or a boundary count/index/width")
    msgs = []
    n = ctx.n(1200, 20000)
    for i in range(n):
        r = rng.random()
        wf = r < 0.8
        big = i < ctx.n(8, 80)
        m = sdio.gen_sd(rng, wf=wf, big=big)
        if rng.random() < 0.06 and m.entries:
            j = rng.randrange(len(m.entries))
            fld, w = rng.choice([("service_id", 16), ("instance_id", 16), ("major_version", 8), ("ttl", 24), ("minver_or_counter", 32)])
            es = list(m.entries)
            es[j] = dataclasses.replace(es[j], **{fld: (1 << w) + rng.choice([0, 1])})
            m = dataclasses.replace(m, entries=tuple(es))
        msgs.append(m)

    ops, todo = [], []
    for m in msgs:
        rep.evaluations += 1
        a, enc, dec = impl_pipeline(m)
        i0 = len(ops)
        tok = sd_tok(m)
        ops.append("sd.assign " + tok)
        ops.append("sd.encode " + tok)
        if enc.startswith("ok "):
            ops.append("sd.decode " + enc[3:])
        todo.append((m, a, enc, dec, i0))
    outs = ctx.model.run(ops)

    for m, a, enc, dec, i0 in todo:
        case = {"message": sd_tok(m)}
        dom = in_domain(m)
        total = sum(len(e.options_1) + len(e.options_2) for e in m.entries)
        maxrun = max([0] + [max(len(e.options_1), len(e.options_2)) for e in m.entries])
        rep.dist["domain" if dom else "out-of-domain"] += 1
        rep.dist["enc-" + enc.split(" ")[0] + ("" if enc.startswith("ok") else ":" + enc[4:])] += 1
        # --- correspondence
        if a is not None:
            ia = sd_tok(a)
            if ia != outs[i0]:
                rep.disagree("sd.assign " + sd_tok(m)[:300], outs[i0][:300], ia[:300], case, dom)
        if enc != outs[i0 + 1]:
            rep.disagree("sd.encode " + sd_tok(m)[:300], outs[i0 + 1][:200], enc[:200], case, dom)
        if enc.startswith("ok ") and dec != outs[i0 + 2]:
            rep.disagree("sd.decode " + enc[3:300], outs[i0 + 2][:300], str(dec)[:300], case, dom)
        rep.sample({"message": sd_tok(m)[:400], "impl_encode": enc[:200]})
        # --- oracle on the implementation's behaviour (only inside the property's domain)
        if not dom:
            continue
        idx_over = a is not None and any((e.option_index_1 or 0) > 255 or (e.option_index_2 or 0) > 255 for e in a.entries)
        unrep = maxrun > 15 or not widths_ok(m) or idx_over
        shared = a is not None and len(a.options) < total
        if shared or maxrun >= 15 or idx_over or (a is not None and len(a.options) >= 250):
            rep.nontrivial.add((len(m.entries), total, len(a.options) if a else -1, maxrun, unrep))
        if unrep:
            rep.dist["unrepresentable"] += 1
            if enc.startswith("ok "):
                why = "run>15" if maxrun > 15 else ("index>255" if idx_over else "field-width")
                rep.violation(f"C02:unrepresentable-emitted:{why}",
                              f"unrepresentable message ({why}) was encoded to bytes; they decode to: {str(dec)[:200]}", case)
            continue
        if not enc.startswith("ok "):
            rep.violation("C02:encode-fails", f"representable message failed to encode: {enc}", case)
            continue
        want = dataclasses.replace(m, options=a.options)
        want_tok = f"ok {sd_tok(want)} | -"
        if dec != want_tok:
            rep.violation("C02:roundtrip", f"decode(encode(m)) differs: got {str(dec)[:300]} want {want_tok[:300]}", case)
            continue
        # independent reader
        try:
            flags, ents, opts = sdio.indep_read_sd(gen.unhx(enc[3:]))
            ok = flags == (m.flags_unknown | (0x80 if m.flag_reboot else 0) | (0x40 if m.flag_unicast else 0))
            ok = ok and len(ents) == len(m.entries)
            for e, (ty, i1, i2, n1, n2, sid, iid, maj, ttl, val) in zip(m.entries, ents):
                ok = ok and (ty, sid, iid, maj, ttl, val) == (int(e.sd_type), e.service_id, e.instance_id, e.major_version, e.ttl, e.minver_or_counter)
                ok = ok and opts[i1:i1 + n1] == [sdio.indep_option_wire(o) for o in e.options_1] if n1 or e.options_1 else ok
                ok = ok and opts[i2:i2 + n2] == [sdio.indep_option_wire(o) for o in e.options_2] if n2 or e.options_2 else ok
            if not ok:
                rep.violation("C02:layout", "bytes do not follow the SD layout as read by the independent reader", case)
        except ValueError as exc:
            rep.violation("C02:layout", f"independent reader rejects the bytes: {exc}", case)

    # --- through the live send/receive path
    for i in range(ctx.n(150, 2000)):
        m = sdio.gen_sd(rng, wf=True, max_entries=6)
        if not in_domain(m) or not widths_ok(m) or max([0] + [max(len(e.options_1), len(e.options_2)) for e in m.entries]) > 15:
            continue
        rep.evaluations += 1
        tx = SD.ServiceDiscoveryProtocol(("224.0.0.1", 30490))
        tx.transport = FakeTransport()
        try:
            tx.send_sd(m.entries, remote=ADDR)
        except Exception as e:  # noqa: BLE001
            rep.violation("C02:send_sd-raises", f"send_sd raised {exc_name(e)}", {"message": sd_tok(m)})
            continue
        rx = RecvSD()
        rx.transport = FakeTransport()
        try:
            for data, _ in tx.transport.sent:
                rx.datagram_received(data, ("127.0.0.2", 30490), False)
        except Exception as e:  # noqa: BLE001
            rep.violation("C02:live-receive-raises", f"datagram_received raised {exc_name(e)} on a datagram send_sd produced",
                          {"message": sd_tok(m)})
            continue
        got = [entry_tok(e) for h in rx.got for e in h.entries]
        want = [entry_tok(e) for e in m.entries]
        rep.dist["live-path"] += 1
        if got != want:
            rep.violation("C02:live-roundtrip", "entries received through send_sd/datagram_received differ from those sent",
                          {"message": sd_tok(m), "got": got[:5]})
    return rep

