"""C13 — FindService is sent only for watched services not yet found, bounded in number."""
from __future__ import annotations

import someip.config as C
import someip.header as H

from harness import core, scen, sdio, stackdrv as SDV, stateful
from harness.props.c09 import detect

LEVEL = ("Lean theorems c13_* (content, times, bound, stop-when-found of the find task) for every event list + lock-step "
         "correspondence + round oracle from the input history")
W = {"offer": 8, "stopoffer": 3, "reboot": 1, "life": 0.7}
FILTERS = [C.Service(0x1111), C.Service(0x1111, 1), C.Service(0x1111, 2, 1), C.Service(0x2222, 0xFFFF, 1, 7), C.Service(0x2222, 1),
           C.Service(0x3333), C.Service(0x1111, 0xFFFF, 0xFF, 1)]


class Sc(scen.Scenario):
    def prelude(self, impl):
        self.slots = {}
        idxs = self.rng.sample(range(len(FILTERS)), self.rng.randrange(1, 5))
        self.filters = [FILTERS[i] for i in idxs]
        for lid, f in enumerate(self.filters):
            self.rec.inp(impl.loop.ticks, ("watchF", f, lid))
            yield f"in watch {sdio.svc_tok(f)} ext {lid}"
        if self.rng.random() < 0.3:
            # offers that arrive before the start
            ev = self.in_offer(impl)
            yield ev
        self.running = True
        self.rec.inp(impl.loop.ticks, ("start",))
        yield "in start"

    def in_lifecycle(self, impl):
        if self.running:
            self.running = False
            self.rec.inp(impl.loop.ticks, ("stop",))
            return "in stop"
        self.running = True
        self.rec.inp(impl.loop.ticks, ("start",))
        return "in start"

    def epilogue_times(self):
        return [200, 3500]


def make(rng, k):
    init = rng.choice([(0, 0), (0, 40), (25, 25)])
    tm = SDV.TimingsSpec(initMin=init[0], initMax=init[1], reps=rng.randrange(0, 5), base=rng.choice([5, 20, 300]),
                         cyclic=0, coll=rng.choice([0, 5]), refresh=None, findTtl=rng.choice([3, 7]))
    sc = Sc(rng, tm, [], W, nsteps=rng.choice([30, 60, 100]), adversarial=True)
    sc.ttls = [1, 2, 0xFFFFFF]
    return sc


def f_accepts(f: C.Service, svc):
    return (f.service_id == svc[0] and f.instance_id in (0xFFFF, svc[1]) and f.major_version in (0xFF, svc[2])
            and f.minor_version in (0xFFFFFFFF, svc[3]))


def oracle(sc, res, rep, case):
    tm = sc.tm
    sess = {}
    filters = []
    store = {}  # (peer, svc) -> deadline|None
    t0 = None
    nmsgs = 0
    last = None
    ended = True  # no find task running

    def bad(sig, what):
        rep.violation("C13:" + sig, what, case)

    def purge(t, strict):
        for key, dl in list(store.items()):
            if dl is not None and (dl < t or (strict and dl <= t)):
                del store[key]

    def missing(t, amb=False):
        """expected entry lists; with amb=True every entry whose deadline is exactly now may or may not have been removed
        already (its expiry callback and the find round fall into the same loop iteration, in an order the scheduler
        chooses - and it chooses independently for each such entry)"""
        def calc(st):
            return [sdio.entry_tok(f.create_find_entry(tm.findTtl)) for f in filters if not any(f_accepts(f, svc) for (_p, svc) in st)]
        if not amb:
            return [calc(store)]
        maybe = [k for k, v in store.items() if v is not None and v <= t]
        sure = [k for k, v in store.items() if v is None or v > t]
        res = []
        for mask in range(1 << min(len(maybe), 10)):
            st = sure + [k for i, k in enumerate(maybe) if mask >> i & 1 or i >= 10]
            c = calc(st)
            if c not in res:
                res.append(c)
        res.sort(key=len)
        return res

    for it in sc.rec.items:
        if it[0] == "in":
            _, t, info = it
            purge(t, False)
            k = info[0]
            if k == "watchF":
                filters.append(info[1])
            elif k == "start":
                if ended:
                    t0, nmsgs, last, ended = t, 0, None, False
            elif k == "stop":
                ended = True
            elif k == "dgram":
                _, peer, mc, flag, sid, uni, entries = info
                if detect(sess, peer, mc, flag, sid):
                    for key in [x for x in store if x[0] == peer]:
                        del store[key]
                if not uni:
                    continue
                for e in entries:
                    if e[0] != "offer":
                        continue
                    key = (peer, e[1])
                    if e[2] == 0:
                        store.pop(key, None)   # stop-offers are honoured for stored services even if unwatched
                    elif any(f_accepts(f, e[1]) for f in filters):
                        store[key] = None if e[2] == 0xFFFFFF else t + e[2] * 1000
        elif it[0] == "out":
            _, t, text = it
            if not text.startswith("send "):
                continue
            try:
                dest, _sid, _fl, entries = stateful.decode_send(text)
            except Exception as exc:  # noqa: BLE001
                bad("undecodable-send", repr(exc))
                continue
            finds = [e for e in entries if e.sd_type == H.SOMEIPSDEntryType.FindService]
            if not finds:
                continue
            purge(t, False)
            if len(finds) != len(entries):
                bad("mixed-message", "FindService entries mixed with other entries")
            if dest != "~":
                bad("destination", f"FindService sent to {dest} instead of the multicast group")
            if ended:
                bad("unexpected-find", f"FindService at {t} although no find phase is running (stopped, finished or everything found)")
                continue
            if nmsgs == 0:
                if not (t0 + tm.initMin <= t <= t0 + tm.initMax):
                    bad("first-round-window", f"started at {t0}: first FindService at {t}, window [{tm.initMin},{tm.initMax}]")
            else:
                want = last + (2 ** (nmsgs - 1)) * tm.base
                if t != want:
                    bad("round-time", f"round #{nmsgs} at {t}, expected {want}")
            nmsgs += 1
            last = t
            if nmsgs > 1 + tm.reps:
                bad("bound", f"{nmsgs} FindService messages since the start, at most {1 + tm.reps} allowed")
            got = [sdio.entry_tok(e) for e in finds]
            wants = missing(t, amb=True)
            if got not in wants:
                bad("content", f"FindService at {t} asks for {got}, but the watched services without a live offer are {wants[0]}")
            rep.dist["C13:rounds-checked"] += 1
        else:
            t = it[1]
            purge(t, True)
            # a round that was due must have happened or ended the phase
            if not ended and t0 is not None:
                if nmsgs == 0:
                    due = t0 + tm.initMax
                elif nmsgs - 1 < tm.reps:
                    due = last + (2 ** (nmsgs - 1)) * tm.base
                else:
                    due = None
                    ended = True
                if due is not None and due < t:
                    # the round instant has passed silently: legitimate only if nothing was missing then; the phase is over
                    ended = True
                    rep.dist["C13:phases-ended-silently"] += 1


def run(ctx: core.Ctx) -> core.Report:
    rep = core.Report("C13")
    rep.rule = ("1..4 watched filters (with wildcards) out of 7, initial window [0,0] [0,40] [25,25], 0..4 repetitions, base 5/20/300 "
                "ms, offers / stop-offers / reboot evidence for any subset before, at (both orders) and after the scheduled rounds, "
                "TTL 1-2 s offers that expire again between rounds, stop / restart of the protocol; every FindService message on "
                "the wire judged for time, bound and content; every step compared with the Lean model")
    stateful.run_scenarios(ctx, rep, make, oracle, ctx.n(200, 3000), "c13")
    return rep

