"""C06 — Server subscription records are truthful; acknowledged subscriptions are held."""
from __future__ import annotations

import someip.config as C

from harness import core, scen, stackdrv as SDV, stateful, suboracle

LEVEL = ("Lean theorems c06_* (alternation/truthfulness invariant of every instance's subscription store, rejected "
         "subscriptions silent, reboot flush before the same message's Subscribe entries) + lock-step correspondence + "
         "history-based reference semantics")
W = {"sub": 9, "stopsub": 3, "subreboot": 2.5, "nak": 1.5, "life": 2, "offer": 0.5}
S0 = C.Service(0x1111, 1, 1, 1, eventgroups=frozenset({5, 6}))
S1 = C.Service(0x2222, 1, 1, 7, eventgroups=frozenset({5}))


class Sc(scen.Scenario):
    def prelude(self, impl):
        for i in range(len(self.services)):
            if self.rng.random() < 0.8:
                self.announced.add(i)
                self.rec.inp(impl.loop.ticks, ("announce", i))
                yield f"in announce {i}"
        if self.rng.random() < 0.85:
            self.running = True
            self.rec.inp(impl.loop.ticks, ("start",))
            yield "in start"
            yield from scen.natural(impl, impl.loop.ticks + self.rng.choice([0, 30]))

    def epilogue_times(self):
        return [1200, 3500]


def make(rng, k):
    tm = SDV.TimingsSpec(initMin=0, initMax=rng.choice([0, 20]), reps=rng.choice([0, 1]), base=10, cyclic=rng.choice([0, 400]),
                         coll=rng.choice([0, 5]), refresh=None, annTtl=rng.choice([3, 0xFFFFFF]))
    sc = Sc(rng, tm, [S0, S1][: rng.choice([1, 2, 2])], W, nsteps=rng.choice([40, 70, 110]), adversarial=True)
    sc.ttls = [1, 2, 3, 0xFFFFFF]
    return sc


def oracle(sc, res, rep, case):
    suboracle.oracle(sc, res, rep, case, "C06")


def run(ctx: core.Ctx) -> core.Report:
    rep = core.Report("C06")
    rep.rule = ("adversarially scheduled histories of Subscribe (TTL 1..3 s / forever), StopSubscribe, reboot evidence carrying "
                "Subscribes, listener accept/reject policies, instance / announcer stop and start, connection loss, from 3 "
                "subscribers for 3 eventgroups, counters {0,1,15}, 0..2 endpoint options; every step compared with the Lean "
                "model; reference semantics checked at every notification and idle state")
    stateful.run_scenarios(ctx, rep, make, oracle, ctx.n(200, 3000), "c06")
    return rep

