"""C05 — Discovery listeners see a truthful, strictly alternating service history."""
from __future__ import annotations

import someip.config as C

from harness import core, scen, stackdrv as SDV, stateful
from harness.props.c09 import detect

LEVEL = ("Lean theorems c05_* (alternation + truthfulness invariant of the discovery model for every event list, reboot "
         "flush before the same message's offers) + lock-step correspondence + history-based oracle at idle states")
W = {"offer": 8, "stopoffer": 3, "reboot": 3, "watch": 6, "life": 1}


class Sc(scen.Scenario):
    def epilogue_times(self):
        return [1200, 3500]


def make(rng, k):
    tm = SDV.TimingsSpec(initMin=0, initMax=rng.choice([0, 20]), reps=rng.choice([0, 2]), base=10, cyclic=rng.choice([0, 500]),
                         coll=rng.choice([0, 5]), refresh=None)
    sc = Sc(rng, tm, [], W, nsteps=rng.choice([30, 60, 100]), adversarial=True, listeners=4)
    sc.slots = {0: "all", 1: rng.randrange(len(scen.FILTERS)), 2: rng.randrange(len(scen.FILTERS)), 3: rng.choice(["all", 0])}
    sc.ttls = [1, 2, 3, 0xFFFFFF]
    return sc


def accepts(slot, svc):
    if slot == "all":
        return True
    f = scen.FILTERS[slot]
    return (f.service_id == svc[0] and f.instance_id in (0xFFFF, svc[1]) and f.major_version in (0xFF, svc[2])
            and f.minor_version in (0xFFFFFFFF, svc[3]))


def oracle(sc, res, rep, case):
    sess = {}
    regs = {}  # lid -> slot while registered
    last = {}  # (lid, svc, peer) -> 'offered' | 'stopped'
    entry = {}  # (peer, svc) -> dict(kind, ttl, t0, idx, regs=set of lids registered+accepting at delivery)
    killed = {}  # peer -> history index of last reboot evidence ; "*" -> connection loss
    idx = 0

    def bad(sig, what):
        rep.violation(sig, what, case)

    def live(peer, svc, now):
        e = entry.get((peer, svc))
        if e is None:
            return False, "never-offered"
        if e["ttl"] == 0:
            return False, "stop-offer"
        if killed.get(peer, -1) > e["idx"]:
            return False, "reboot"
        if killed.get("*", -1) > e["idx"]:
            return False, "connection-lost"
        if e["ttl"] != 0xFFFFFF and now >= e["t0"] + e["ttl"] * 1000:
            return False, "expired"
        return True, ""

    for it in sc.rec.items:
        idx += 1
        if it[0] == "in":
            _, t, info = it
            k = info[0]
            if k == "dgram":
                _, peer, mc, flag, sid, uni, entries = info
                if detect(sess, peer, mc, flag, sid):
                    killed[peer] = idx
                    idx += 1
                if uni:
                    for e in entries:
                        if e[0] == "offer":
                            entry[(peer, e[1])] = dict(ttl=e[2], t0=t, idx=idx, regs={l for l, s in regs.items() if accepts(s, e[1])})
            elif k in ("watchAll", "watch"):
                regs[info[-1]] = sc.slots[info[-1]]
            elif k in ("unwatchAll", "unwatch"):
                regs.pop(info[-1], None)
            elif k == "connLostRun" and info[1] == "discovery":
                killed["*"] = idx
            elif k == "connLost":
                # the loss itself withdraws everything learnt before it (the deferred discovery part has run by the next
                # idle state; an offer that slips in between is withdrawn by that part, see connLostRun above)
                killed["*"] = max(killed.get("*", -1), idx)
        elif it[0] == "out":
            _, t, text = it
            p = text.split(" ")
            if p[0] not in ("offered", "stopped"):
                continue
            lid, svc, peer = int(p[1]), tuple(int(x) for x in p[2:6]), int(p[7])
            key = (lid, svc, peer)
            prev = last.get(key)
            if (p[0] == "offered" and prev == "offered") or (p[0] == "stopped" and prev != "offered"):
                bad(f"C05:alternation:{p[0]}-after-{prev}", f"listener {lid} got '{p[0]}' after '{prev}' for service {svc} from {peer} at {t}")
            last[key] = p[0]
        else:
            t = it[1]
            seen = {(svc, peer) for (_l, svc, peer) in last} | {(svc, peer) for (peer, svc) in entry}
            for lid in range(sc.nlisteners):
                for svc, peer in seen:
                    lv, why = live(peer, svc, t)
                    st = last.get((lid, svc, peer))
                    if st == "offered" and not lv:
                        e = entry.get((peer, svc))
                        unwatched = e is not None and not e["regs"] and why == "expired"
                        sig = "C05:stale-after-unwatched-update" if unwatched else f"C05:only-if:{why}"
                        bad(sig, f"idle at {t}: listener {lid}'s latest notification for {svc} from {peer} is 'offered' but the source's "
                                 f"most recent word is not a live offer ({why})")
                    if lv and lid in regs and lid in entry[(peer, svc)]["regs"] and st != "offered":
                        bad("C05:whenever", f"idle at {t}: a live offer of {svc} from {peer} arrived while listener {lid} was registered "
                                            f"with an accepting filter, but its latest notification is {st}")
            rep.dist["C05:idle-states-judged"] += 1


class StaleAfterUnwatchedUpdate(scen.Scenario):
    """corpus: the known finding D10b - an offer that shortens the TTL of a stored service is ignored while nobody
    watches (pinned by tests/test_sd.py::TestSDDiscoveryTTL1::test_watch_while_running), so the stored 'forever'
    entry is replayed as 'offered' to the next listener after the source's last offer has expired"""

    def script(self, impl):
        def offer(ttl, sess):
            e = [C.Service(0x1111, 1, 1, 1).create_offer_entry(ttl)]
            self.rec.inp(impl.loop.ticks, ("dgram", 1, True, True, sess, True, [("offer", (0x1111, 1, 1, 1), ttl)]))
            return f"in dgram 1 1 {scen.sd_bytes(e, sess, True).hex()}"
        self.slots = {0: "all", 1: "all"}
        self.rec.inp(0, ("watchAll", 0))
        yield "in watchAll 0"
        yield offer(0xFFFFFF, 1)
        yield from scen.natural(impl, 100)
        self.rec.idle(impl.loop.ticks)
        self.rec.inp(impl.loop.ticks, ("unwatchAll", 0))
        yield "in unwatchAll 0"
        yield offer(1, 2)
        yield from scen.natural(impl, 3000)
        self.rec.idle(impl.loop.ticks)
        self.rec.inp(impl.loop.ticks, ("watchAll", 1))
        yield "in watchAll 1"
        yield from scen.natural(impl, 3100)
        self.rec.idle(impl.loop.ticks)


def corpus(rng, k):
    return StaleAfterUnwatchedUpdate(rng, SDV.TimingsSpec(), [], {}, listeners=2)


def run(ctx: core.Ctx) -> core.Report:
    rep = core.Report("C05")
    stateful.run_scenarios(ctx, rep, corpus, oracle, 1, "c05-corpus")
    rep.rule = ("adversarially scheduled histories of offers (TTL 1..3 s / forever), stop-offers, reboot evidence with and "
                "without entries, connection loss, watch / unwatch / watch-all of 4 listeners (one registration slot each, "
                "wildcard filters) from 3 sources for 3 service instances; message and TTL deadline in one iteration in both "
                "orders; every step compared with the Lean model; oracle at every idle state; non-trivial = has notifications")
    stateful.run_scenarios(ctx, rep, make, oracle, ctx.n(200, 3000), "c05")
    return rep

