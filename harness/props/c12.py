"""C12 — FindService is answered only by matching, ready instances, by unicast, in time."""
from __future__ import annotations

import someip.config as C
import someip.header as H

from harness import core, scen, sdio, stackdrv as SDV, stateful
from harness.props.c10 import S0, S1, S2

LEVEL = ("Lean theorems c12_* (who answers, what, when; not-ready and stopped instances silent) for every event list + "
         "lock-step correspondence + answer oracle on the wrapped queue_send calls")
W = {"find": 10, "life": 3, "ann": 1}
S3 = C.Service(0x1111, 1, 2, 4, options_1=(scen.endpoint(9, 30511),))


class Sc(scen.Scenario):
    def prelude(self, impl):
        for i in range(len(self.services)):
            if self.rng.random() < 0.85:
                self.announced.add(i)
                self.rec.inp(impl.loop.ticks, ("announce", i))
                yield f"in announce {i}"
        if self.rng.random() < 0.8:
            self.running = True
            self.rec.inp(impl.loop.ticks, ("start",))
            yield "in start"

    def epilogue_times(self):
        return [100, 1500]


def make(rng, k):
    init = rng.choice([(0, 0), (0, 30), (40, 40)])
    rr = rng.choice([(0, 0), (10, 10), (10, 50), (0, 25)])
    tm = SDV.TimingsSpec(initMin=init[0], initMax=init[1], reps=rng.randrange(0, 3), base=rng.choice([5, 20]),
                         cyclic=rng.choice([0, 60, 500]), coll=rng.choice([0, 5, 15]), refresh=None, rrMin=rr[0], rrMax=rr[1],
                         annTtl=rng.choice([3, 0xFFFFFF]))
    # instance sets: differing service ids, differing instance ids of one service, and (S3) the SAME service and instance id
    # in another version - a request with a concrete instance id and a version wildcard then concerns several instances
    svcs = rng.choice([[S0], [S0, S1], [S0, S1, S2], [S0, S3], [S0, S3, S2], [S3, S0, S1]])
    sc = Sc(rng, tm, svcs, W, nsteps=rng.choice([40, 80, 120]), adversarial=True)
    sc.find_services = scen.SERVICES + [(0x1111, 1, 2, 4)]
    return sc


def matches_find(svc: C.Service, f):
    sid, iid, maj, mi = f
    return svc.service_id == sid and iid in (0xFFFF, svc.instance_id) and maj in (0xFF, svc.major_version) and mi in (0xFFFFFFFF, svc.minor_version)


def oracle(sc, res, rep, case):
    tm = sc.tm
    ids = {(s.service_id, s.instance_id, s.major_version, s.minor_version): i for i, s in enumerate(sc.services)}
    started = False
    announced = []
    running = {i: False for i in range(len(sc.services))}
    nsent = {i: 0 for i in range(len(sc.services))}
    epoch = {i: 0 for i in range(len(sc.services))}  # incremented at every stop: answers scheduled before are void
    expected = []  # dict(inst, dest, lo, hi, epoch, done)

    def bad(sig, what):
        rep.violation("C12:" + sig, what, case)

    def stop(i):
        if running[i]:
            running[i] = False
            epoch[i] += 1

    for it in sc.rec.items:
        if it[0] == "in":
            _, t, info = it
            k = info[0]
            if k in ("start", "annStart"):
                started = True
                for i in announced:
                    if not running[i]:
                        running[i] = True
                        nsent[i] = 0
            elif k in ("stop", "annStop") or (k == "connLostRun" and info[1] == "announcer"):
                if started:
                    for i in announced:
                        stop(i)
                started = False
            elif k == "announce":
                announced.append(info[1])
                if started:
                    running[info[1]] = True
                    nsent[info[1]] = 0
            elif k == "stopAnnounce":
                if info[1] in announced:
                    announced.remove(info[1])
                    if started:
                        stop(info[1])
            elif k == "dgram":
                _, peer, mc, _flag, _sid, uni, entries = info
                if not uni:
                    continue
                for e in entries:
                    if e[0] != "find":
                        continue
                    for i in announced:
                        if running[i] and nsent[i] >= 1 and matches_find(sc.services[i], e[1]):
                            lo, hi = (t + tm.rrMin, t + tm.rrMax) if mc else (t, t)
                            expected.append(dict(inst=i, dest=str(peer), lo=lo, hi=hi, epoch=epoch[i], done=False, t=t, mc=mc))
                            rep.dist["C12:answers-expected"] += 1
        elif it[0] == "out":
            _, t, text = it
            if not text.startswith("queued "):
                continue
            _, dest, tok = text.split(" ", 2)
            p = tok.split(" ")
            if p[1] != "1" or int(p[5]) == 0:
                continue
            key = tuple(int(v) for v in (p[2], p[3], p[4], p[6]))
            i = ids.get(key)
            if i is None:
                continue
            if dest == "~":
                nsent[i] += 1
                continue
            # a unicast offer: must be the answer to a FindService
            want_tok = sdio.entry_tok(sc.services[i].create_offer_entry(tm.annTtl))
            if tok != want_tok:
                bad("answer-content", f"instance {i} answered with {tok[:140]}, configured {want_tok[:140]}")
            cand = [x for x in expected if not x["done"] and x["inst"] == i and x["dest"] == dest and x["lo"] <= t <= x["hi"]]
            # several requests may be open at once (e.g. a unicast one inside a multicast window): the answer belongs to
            # the request with the tightest window (unicast answers leave at one instant), then to the oldest
            # requests made before a stop of the instance are void: prefer the ones of the current incarnation
            cand.sort(key=lambda x: (x["epoch"] != epoch[i], x["hi"] - x["lo"], x["t"]))
            if not cand:
                late = [x for x in expected if not x["done"] and x["inst"] == i and x["dest"] == dest]
                if late:
                    bad("answer-time", f"instance {i} answered {dest} at {t}; request at {late[0]['t']} "
                                       f"({'multicast' if late[0]['mc'] else 'unicast'}) allows [{late[0]['lo']},{late[0]['hi']}]")
                    late[0]["done"] = True
                elif not running[i]:
                    bad("stopped-instance-answers", f"stopped instance {i} sent an offer to {dest} at {t}")
                else:
                    bad("unexpected-answer", f"instance {i} sent an offer to {dest} at {t} without a matching FindService "
                                             f"(not matching, not ready, or answered twice)")
                continue
            if not running[i]:
                bad("stopped-instance-answers", f"instance {i} answered {dest} at {t} although it was stopped after the request")
            elif cand[0]["epoch"] != epoch[i]:
                # stopped and started again between request and answer
                if nsent[i] == 0:
                    bad("initial-wait-answers", f"instance {i} was restarted after the request and answered {dest} at {t} during its "
                                                f"initial wait phase (no offer sent yet since the restart)")
                else:
                    rep.dist["C12:answers-across-restart"] += 1
            cand[0]["done"] = True
            rep.dist["C12:answers-seen"] += 1
        else:
            t = it[1]
            for x in expected:
                if not x["done"] and x["hi"] < t:
                    x["done"] = True
                    if x["epoch"] == epoch[x["inst"]] and running[x["inst"]]:
                        bad("missing-answer", f"instance {x['inst']} never answered the FindService of {x['dest']} received at {x['t']} "
                                              f"(window [{x['lo']},{x['hi']}], idle at {t})")
                    else:
                        rep.dist["C12:answers-voided-by-stop"] += 1


def run(ctx: core.Ctx) -> core.Report:
    rep = core.Report("C12")
    rep.rule = ("FindService entries over ids / versions with every wildcard combination and non-matching values, unicast and "
                "multicast, at adversarially chosen instants of the offer lifecycle (initial wait, repetition, cyclic, stopped, "
                "restarted), 1..3 instances, request-response windows [0,0] [10,10] [10,50] [0,25], collection timeout 0/5/15; "
                "queue_send wrapped; every step compared with the Lean model")
    stateful.run_scenarios(ctx, rep, make, oracle, ctx.n(200, 3000), "c12")
    return rep

