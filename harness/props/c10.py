"""C10 — Offer lifecycle: wait, repetition and cyclic phases; nothing follows a StopOffer."""
from __future__ import annotations

import unittest.mock

import someip.config as C
import someip.header as H
import someip.sd as SD
import someip.service as S

from harness import core, scen, sdio, stackdrv as SDV, stateful, vloop

LEVEL = ("Lean theorems c10_* (offer schedule, one StopOffer, silence while stopped, idempotent stop) for every event list + "
         "lock-step correspondence + schedule oracle on the wrapped queue_send calls")
W = {"life": 6, "find": 6, "ann": 2, "sub": 1}
S0 = C.Service(0x1111, 1, 1, 1, eventgroups=frozenset({5, 6}))
S1 = C.Service(0x2222, 1, 1, 7, eventgroups=frozenset({5}), options_1=(scen.endpoint(9, 30509),))
S2 = C.Service(0x1111, 2, 1, 1, options_1=(scen.endpoint(9, 30510),), options_2=(H.SOMEIPSDLoadBalancingOption(priority=1, weight=2),))


class Sc(scen.Scenario):
    def prelude(self, impl):
        for i in range(len(self.services)):
            if self.rng.random() < 0.8:
                self.announced.add(i)
                self.rec.inp(impl.loop.ticks, ("announce", i))
                yield f"in announce {i}"

    def epilogue_times(self):
        return [300, 2500]

    def pick_input(self, impl):
        """directed: while a delayed answer to a FindService is pending, a stop of some kind is a likely next input - in
        every phase of the offer task, also after a non-cyclic task has run to its end (found thin by the mutation
        sweep: the `_task is None` guard of `_send_offer` dropped)"""
        pend = [h for h in impl.loop._scheduled if not h._cancelled and impl.name(h) == "_send_offer"]
        if pend and self.rng.random() < 0.4:
            r = self.rng.random()
            t = impl.loop.ticks
            if r < 0.4 and self.running:
                self.running = False
                self.rec.inp(t, ("stop",))
                return "in stop"
            if r < 0.8 and self.announced:
                i = self.rng.choice(sorted(self.announced))
                self.announced.discard(i)
                self.rec.inp(t, ("stopAnnounce", i))
                return f"in stopAnnounce {i} 1"
            if self.running:
                self.running = False
                self.rec.inp(t, ("annStop",))
                return "in annStop"
        return super().pick_input(impl)


def make(rng, k):
    init = rng.choice([(0, 0), (0, 30), (20, 20), (5, 50)])
    tm = SDV.TimingsSpec(initMin=init[0], initMax=init[1], reps=rng.randrange(0, 5), base=rng.choice([1, 10, 50]),
                         cyclic=rng.choice([0, 20, 100, 2000]), coll=rng.choice([0, 5]), refresh=None,
                         rrMin=rng.choice([0, 10]), rrMax=rng.choice([10, 40]), annTtl=rng.choice([1, 3, 5, 0xFFFFFF]))
    sc = Sc(rng, tm, [S0, S1, S2][: rng.choice([1, 1, 2, 3])], W, nsteps=rng.choice([40, 80, 120]), adversarial=True)
    return sc


def oracle(sc, res, rep, case):
    tm = sc.tm
    ids = {(s.service_id, s.instance_id, s.major_version, s.minor_version): i for i, s in enumerate(sc.services)}
    started = False
    announced = []
    inst = {i: dict(running=False, t0=None, n=0, last=None, stop_expected=0, stop_t=None, ever=False) for i in range(len(sc.services))}

    def bad(sig, what):
        rep.violation("C10:" + sig, what, case)

    # the statement speaks of what is SENT: every Offer / StopOffer entry the instance hands to the announcer must reach the
    # wire exactly once, to the same destination, by the time the loop is idle (pending[dest] = queued, not yet seen sent)
    pending = {}

    def start(i, t):
        inst[i].update(running=True, t0=t, n=0, last=None)

    def stop(i, t):
        x = inst[i]
        if not x["running"]:
            return
        x["running"] = False
        x["stop_t"] = t
        if x["n"] >= 1:
            x["stop_expected"] += 1
        elif tm.cyclic == 0:
            x["stop_expected"] = -1  # non-cyclic instance stopped before its first offer: unspecified

    def check_missed(t):
        for i, x in inst.items():
            if not x["running"]:
                continue
            if x["n"] == 0:
                nxt = x["t0"] + tm.initMax
            elif x["n"] - 1 < tm.reps:
                nxt = x["last"] + (2 ** (x["n"] - 1)) * tm.base
            elif tm.cyclic:
                nxt = x["last"] + tm.cyclic
            else:
                continue
            if nxt < t:
                bad("missed-offer", f"instance {i}: offer #{x['n']} was due at {nxt} at the latest, nothing queued by {t}")
                x["n"] = 10 ** 9  # report once

    for it in sc.rec.items:
        if it[0] == "in":
            _, t, info = it
            k = info[0]
            if k in ("start", "annStart"):
                started = True
                for i in announced:
                    if not inst[i]["running"]:
                        start(i, t)
            elif k in ("stop", "annStop") or (k == "connLostRun" and info[1] == "announcer"):
                if started:
                    for i in announced:
                        stop(i, t)
                started = False
            elif k == "announce":
                announced.append(info[1])
                if started:
                    start(info[1], t)
            elif k == "stopAnnounce":
                if info[1] in announced:
                    announced.remove(info[1])
                    if started:
                        stop(info[1], t)
        elif it[0] == "out":
            _, t, text = it
            if text.startswith("raised "):
                bad("raises:" + text.split(" ")[1], f"an entry point or callback raised {text.split(' ')[1]} at {t}")
                continue
            if text.startswith("send "):
                try:
                    sdest, _sid, _fl, entries = stateful.decode_send(text)
                except Exception as exc:  # noqa: BLE001
                    bad("undecodable-send", repr(exc))
                    continue
                for e in entries:
                    if e.sd_type != H.SOMEIPSDEntryType.OfferService:
                        continue
                    etok = sdio.entry_tok(e)
                    q = pending.get(sdest, [])
                    hit = [x for x in q if x[1] == etok]
                    if hit:
                        q.remove(hit[0])
                    else:
                        bad("offer-sent-not-queued", f"an offer entry left for {sdest} at {t} that no instance had handed over "
                                                      f"(or it left twice): {etok[:160]}")
                continue
            if not text.startswith("queued "):
                continue
            _, dest, tok = text.split(" ", 2)
            p = tok.split(" ")
            if p[1] != "1":
                continue  # not an OfferService entry
            pending.setdefault(dest, []).append((t, tok))
            key = tuple(int(v) for v in (p[2], p[3], p[4], p[6]))
            ttl = int(p[5])
            if key not in ids:
                bad("foreign-offer", f"offer for an unknown service {key}")
                continue
            i = ids[key]
            x = inst[i]
            svc = sc.services[i]
            want_tok = sdio.entry_tok(svc.create_offer_entry(ttl))
            if tok != want_tok:
                bad("offer-content", f"instance {i}: queued {tok[:160]} but the configured service gives {want_tok[:160]}")
            if ttl == 0:
                if dest != "~":
                    bad("stopoffer-destination", f"StopOffer queued for {dest} instead of the multicast group")
                if x["stop_expected"] == -1:
                    x["stop_expected"] = 0
                elif x["stop_expected"] >= 1 and t == x["stop_t"]:
                    x["stop_expected"] -= 1
                else:
                    bad("unexpected-stopoffer", f"instance {i}: StopOffer at {t} without a stop after at least one offer "
                                                f"(stop at {x['stop_t']}, offers since start {x['n']})")
                continue
            if ttl != tm.annTtl:
                bad("offer-ttl", f"instance {i}: offer with TTL {ttl}, configured {tm.annTtl}")
            if not x["running"]:
                bad("offer-after-stop", f"instance {i}: offer with TTL {ttl} queued for {dest} at {t} while the instance is stopped "
                                        f"(stopped at {x['stop_t']})")
                continue
            if dest != "~":
                continue  # unicast answer to a FindService: judged by C12
            n = x["n"]
            if n == 0:
                if not (x["t0"] + tm.initMin <= t <= x["t0"] + tm.initMax):
                    bad("first-offer-window", f"instance {i} started at {x['t0']}: first offer at {t}, window [{tm.initMin},{tm.initMax}]")
            elif n - 1 < tm.reps:
                if t != x["last"] + (2 ** (n - 1)) * tm.base:
                    bad("repetition-time", f"instance {i}: repetition #{n} at {t}, expected {x['last'] + (2 ** (n - 1)) * tm.base}")
            elif tm.cyclic:
                if t != x["last"] + tm.cyclic:
                    bad("cyclic-time", f"instance {i}: cyclic offer at {t}, expected {x['last'] + tm.cyclic}")
            else:
                bad("extra-offer", f"instance {i}: offer #{n} at {t} although repetitions are over and no cyclic offers are configured")
            x["n"] = n + 1
            x["last"] = t
            x["ever"] = True
        else:
            t = it[1]
            check_missed(t)
            for i, x in inst.items():
                if x["stop_expected"] >= 1:
                    bad("missing-stopoffer", f"instance {i} was stopped at {x['stop_t']} after offering; no StopOffer by idle time {t}")
                    x["stop_expected"] = 0
            for d, q in pending.items():
                late = [x for x in q if x[0] + tm.coll < t]   # the collection window of these has closed
                if late:
                    kind = "StopOffer" if late[0][1].split(" ")[5] == "0" else "offer"
                    bad("offer-not-sent" if kind == "offer" else "stopoffer-not-sent",
                        f"{len(late)} offer entr{'y' if len(late) == 1 else 'ies'} handed to the announcer for {d} never reached the "
                        f"wire by idle time {t}; first (handed over at {late[0][0]}): {late[0][1][:160]}")
                    for x in late:
                        q.remove(x)
            rep.dist["C10:idle-states-judged"] += 1
    rep.dist["C10:offers-checked"] += sum(min(x["n"], 10 ** 6) for x in inst.values())


def helper_case(rep):
    """`SimpleService.start_announce(a); stop_announce(a)` must succeed and stop the instance (statement's last clause)"""
    loop = vloop.new_loop()
    try:
        p = loop.call(SD.ServiceDiscoveryProtocol, ("224.0.0.1", 30490))
        p.transport = vloop.FakeTransport(loop)
        cls = type("Svc", (S.SimpleService,), {"service_id": 0x4444, "version_major": 1, "version_minor": 0})
        svc = loop.call(cls, 1)
        svc.transport = vloop.FakeTransport(loop)
        loop.call(svc.start_announce, p.announcer)
        n_before = len(p.announcer.announcing_services)
        try:
            loop.call(svc.stop_announce, p.announcer)
            if len(p.announcer.announcing_services) != n_before - 1:
                rep.violation("C10:helper-stop:SimpleService.stop_announce:no-effect", "stop_announce returned but the instance is still announced", {"case": "helper"})
        except Exception as e:  # noqa: BLE001
            rep.violation(f"C10:helper-stop:SimpleService.stop_announce:{type(e).__name__}",
                          f"SimpleService.stop_announce(announcer) after start_announce(announcer) raised {type(e).__name__}: {e}",
                          {"case": "svc.start_announce(a); svc.stop_announce(a)"})
        rep.evaluations += 1
    finally:
        loop.shutdown()


def run(ctx: core.Ctx) -> core.Report:
    rep = core.Report("C10")
    rep.rule = ("timing configurations from tables (initial window [0,0] [0,x] [x,x], 0..4 repetitions, base 1/10/50 ms, cyclic "
                "0/20/100/2000 ms, TTL 1..5 s / forever, collection timeout 0/5 ms), 1..3 instances, stop / restart / withdraw / "
                "announcer stop (also twice) / connection loss at adversarially chosen instants incl. phase boundaries, "
                "FindService (both channels) at any instant; queue_send wrapped; every step compared with the Lean model")
    helper_case(rep)
    stateful.run_scenarios(ctx, rep, make, oracle, ctx.n(200, 3000), "c10")
    return rep

