"""C03 — Malformed or foreign input is rejected cleanly and changes nothing."""
from __future__ import annotations

import random as _random
import struct

import someip.config as C
import someip.header as H
import someip.sd as SD
import someip.service as S

from harness import core, gen, mutate, scen, sdio, stackdrv as SDV, stateful, vloop
from harness.gen import hx
from harness.props.c01 import canon, gen_header, mk
from harness.sdio import exc_name, opt_tok, entry_tok, sd_tok

LEVEL = ("Lean theorems c03_* (decoders total with only parse/incomplete/unicode errors, receive paths never raise, "
         "undecodable messages leave the state untouched) + mutation streams into decoders and live endpoints (twin runs)")
MC = ("224.0.0.1", 30490)
PEERS = [("10.0.0.%d" % i, 30490) for i in range(1, 4)]
ALLOWED = {"ParseError", "IncompleteReadError", "UnicodeDecodeError"}


# ------------------------------------------------------------------ decoders

def run_decoder(kind, b, extra=None):
    try:
        if kind == "hdr":
            m, r = H.SOMEIPHeader.parse(b)
            return f"ok {canon(m)} {hx(r)}", r
        if kind == "sd":
            m, r = H.SOMEIPSDHeader.parse(b)
            return f"ok {sd_tok(m)} | {hx(r)}", r
        if kind == "entry":
            m, r = H.SOMEIPSDEntry.parse(b, extra)
            return f"ok {entry_tok(m)} | {hx(r)}", r
        m, r = H.SOMEIPSDOption.parse(b)
        return f"ok {opt_tok(m)} | {hx(r)}", r
    except Exception as e:  # noqa: BLE001
        return "err " + exc_name(e), None


def decoder_op(kind, b, extra=None):
    return {"hdr": "hdr.parse ", "sd": "sd.parse ", "opt": "opt.parse ", "entry": f"entry.parse {extra} "}[kind] + hx(b)


# ------------------------------------------------------------------ live SD endpoint (twin runs)

class CL(SD.ClientServiceListener):
    def __init__(self, log, name):
        self.log, self.name = log, name

    def __hash__(self):  # deterministic set iteration order in both twins
        return sum(map(ord, self.name))

    def service_offered(self, service, source):
        self.log.append((self.name, "offered", service.service_id, service.instance_id, source))

    def service_stopped(self, service, source):
        self.log.append((self.name, "stopped", service.service_id, service.instance_id, source))


class SL(SD.ServerServiceListener):
    def __init__(self, log):
        self.log = log

    def client_subscribed(self, sub, source):
        self.log.append(("srv", "sub", sub.id, sub.counter, source))

    def client_unsubscribed(self, sub, source):
        self.log.append(("srv", "unsub", sub.id, sub.counter, source))


def sd_msg(entries, session_id, reboot=True, unicast=True):
    m = H.SOMEIPSDHeader(entries=tuple(entries), flag_reboot=reboot, flag_unicast=unicast).assign_option_indexes()
    return mutate.wrap_sd(bytes(m.build()), session_id=session_id)


class Twin:
    """a live ServiceDiscoveryProtocol in a non-initial state"""

    def __init__(self):
        self.loop = vloop.new_loop()
        self.log = []
        tm = SD.Timings(INITIAL_DELAY_MIN=0, INITIAL_DELAY_MAX=0, REPETITIONS_MAX=0, CYCLIC_OFFER_DELAY=2, ANNOUNCE_TTL=5,
                        SEND_COLLECTION_TIMEOUT=0.005, REQUEST_RESPONSE_DELAY_MIN=0.01, REQUEST_RESPONSE_DELAY_MAX=0.01)
        self.tr = vloop.FakeTransport(self.loop)
        self.p = self.loop.call(SD.ServiceDiscoveryProtocol, MC, tm)
        self.p.transport = self.tr
        svc = C.Service(0x2222, 1, 1, 0, eventgroups=frozenset({5, 6}))
        self.inst = self.loop.call(SD.ServiceInstance, svc, SL(self.log), self.p.announcer, tm)
        self.loop.call(self.p.announcer.announce_service, self.inst)
        self.loop.call(self.p.discovery.watch_all_services, CL(self.log, "all"))
        self.loop.call(self.p.discovery.watch_service, C.Service(0x1111), CL(self.log, "w1111"))
        self.loop.call(self.p.start)
        self.loop.advance_to(20)
        # learnt state: offers from two peers, subscriptions from two peers, session memory
        o1 = C.Service(0x1111, 1, 1, 1).create_offer_entry(3)
        o2 = C.Service(0x3333, 2, 1, 1).create_offer_entry(0xFFFFFF)
        ep = H.IPv4EndpointOption(address=__import__("ipaddress").IPv4Address("10.0.0.2"), l4proto=H.L4Protocols.UDP, port=5000)
        s1 = H.SOMEIPSDEntry(sd_type=H.SOMEIPSDEntryType.Subscribe, service_id=0x2222, instance_id=1, major_version=1, ttl=4,
                             minver_or_counter=5, options_1=(ep,))
        s2 = H.SOMEIPSDEntry(sd_type=H.SOMEIPSDEntryType.Subscribe, service_id=0x2222, instance_id=1, major_version=1, ttl=0xFFFFFF,
                             minver_or_counter=6, options_1=(ep,))
        self.feed(sd_msg([o1, o2], 10), PEERS[0], True)
        self.feed(sd_msg([o1], 11), PEERS[1], True)
        self.feed(sd_msg([s1], 20), PEERS[1], False)
        self.feed(sd_msg([s2], 30), PEERS[2], False)
        self.loop.advance_to(40)

    def feed(self, data, addr, mc):
        try:
            self.loop.call(self.p.datagram_received, data, addr, mc)
            return None
        except Exception as e:  # noqa: BLE001
            return exc_name(e)

    def observe(self):
        return (list(self.log), [(t, d, a) for t, d, a in self.tr.sent], len(self.loop.exceptions))

    def dump(self):
        """secondary, best effort: internal state"""
        try:
            p = self.p
            return (sorted((repr(a), sorted(repr(s) for s in d)) for a, d in p.discovery.found_services.store.items() if d),
                    sorted((repr(a), sorted(repr(s) for s in d)) for a, d in self.inst.subscriptions.store.items() if d),
                    sorted((repr(k), v) for k, v in p.session_storage.incoming.items()),
                    sorted((repr(k), v) for k, v in p.session_storage.outgoing.items()))
        except Exception:  # noqa: BLE001
            return None

    def probe(self):
        """fixed suffix that makes the hidden state observable"""
        self.loop.call(self.p.discovery.watch_all_services, CL(self.log, "probe"))
        self.loop.run_until_idle()
        for k, peer in enumerate(PEERS):
            for mc in (False, True):
                self.feed(sd_msg([], 1, reboot=True), peer, mc)
                self.loop.run_until_idle()
        self.loop.advance_to(self.loop.ticks + 20000)

    def close(self):
        self.loop.shutdown()


def split_decodable(data):
    """the SD notifications inside a datagram that the property counts as decodable, re-encoded one per datagram;
    entries stripped when the unicast flag is clear.  Framing is judged by an INDEPENDENT reader of the SOME/IP
    header (not by the decoder under test); the SD payload by the SD decoder (whose own totality / soundness is the
    decoder half of this property and of C02/C20)."""
    out = []
    for sid, mid, _length, cid, sess, pv, iv, mt, rc, payload in sdio.indep_split_someip(data):
        if (sid, mid, iv, rc, mt) != (0xFFFF, 0x8100, 1, 0, 2):
            continue
        try:
            sd, _rest = H.SOMEIPSDHeader.parse(payload)
            sd.resolve_options()
        except Exception:  # noqa: BLE001
            # not decodable - by a parse error, or (on a changed tree) by whatever else the decoder now lets escape: that the
            # ENDPOINT raised is judged by the caller (`err`), that the DECODER raises something foreign by part (1) of this
            # check; the reference run must not fall over here
            continue
        if not sd.flag_unicast:
            stripped = H.SOMEIPSDHeader(entries=(), flag_reboot=sd.flag_reboot, flag_unicast=False, flags_unknown=sd.flags_unknown)
            payload = bytes(stripped.build())
        m = H.SOMEIPHeader(service_id=sid, method_id=mid, client_id=cid, session_id=sess, interface_version=iv,
                           message_type=H.SOMEIPMessageType(mt), return_code=H.SOMEIPReturnCode(rc), payload=payload)
        out.append(m.build())
    return out


def live_sd_case(rng, data, addr, mc):
    """returns (exception name or None, twin difference or None, decodable count)"""
    _random.seed(1)
    a = Twin()
    _random.seed(1)
    b = Twin()
    try:
        err = a.feed(data, addr, mc)
        dec = split_decodable(data)
        for d in dec:
            b.feed(d, addr, mc)
        a.loop.run_until_idle()
        b.loop.run_until_idle()
        diff = None
        if a.observe() != b.observe():
            diff = "callbacks/transmissions differ right after the datagram"
        elif a.dump() is not None and a.dump() != b.dump():
            diff = "internal discovery/subscription/session state differs"
        else:
            a.probe()
            b.probe()
            if a.observe() != b.observe():
                diff = "state differs (revealed by the probe suffix)"
        return err, diff, len(dec)
    finally:
        a.close()
        b.close()


# ------------------------------------------------------------------ service endpoint

def make_service():
    cls = type("Svc", (S.SimpleService,), {"service_id": 0x4444, "version_major": 1, "version_minor": 0})
    svc = cls(instance_id=1)
    svc.transport = vloop.FakeTransport()
    svc.register_method(1, lambda m, a: b"ok")
    svc.register_method(2, lambda m, a: None)

    def bad(m, a):
        raise S.MalformedMessageError()

    svc.register_method(3, bad)
    return svc


def run(ctx: core.Ctx) -> core.Report:
    rng = ctx.rng
    rep = core.Report("C03")
    rep.rule = ("(a) arbitrary byte strings 0..2048 and (b) valid SOME/IP / SD messages mutated by bit flips, byte replacement, "
                "truncation, insertion, region duplication, corruption of length/count/index fields and option payloads (bytes "
                ">= 0x80 in configuration strings) into the four decoders, a live ServiceDiscoveryProtocol in a non-initial "
                "state (twin run against the datagram's decodable SD notifications + probe suffix) and a live SimpleService; "
                "non-trivial = mutant rejected after the first length check, or accepted with a changed value")
    # ---- (1) decoders
    inputs = []
    for _ in range(ctx.n(250, 4000)):
        n = rng.choice([0, 1, 2, 3, 8, 11, 12, 15, 16, 17]) if rng.random() < 0.5 else rng.randrange(0, 2049)
        raw = gen.rbytes(rng, n)
        for kind in ("hdr", "sd", "opt"):
            inputs.append((kind, raw, None, "raw"))
        inputs.append(("entry", raw, rng.randrange(0, 256), "raw"))
    for _ in range(ctx.n(250, 4000)):
        pay = mutate.valid_sd_payload(rng) if rng.random() < 0.6 else mutate.noncanon_sd(rng)
        whole = mutate.wrap_sd(pay, session_id=gen.u16(rng))
        for m, k in mutate.mutants(rng, whole, 2):
            inputs.append(("hdr", m, None, k))
        for m, k in mutate.mutants(rng, pay, 4):
            inputs.append(("sd", m, None, k))
        opt = mutate.noncanon_option(rng)
        for m, k in mutate.mutants(rng, opt, 3):
            inputs.append(("opt", m, None, k))
        if len(pay) >= 24:
            for m, k in mutate.mutants(rng, pay[8:24], 2):
                inputs.append(("entry", m, rng.choice([0, 1, 15, 16, 255]), k))
    ops, post = [], []
    for kind, b, extra, mk_ in inputs:
        rep.evaluations += 1
        res, rest = run_decoder(kind, b, extra)
        ops.append(decoder_op(kind, b, extra))
        post.append((kind, b, res, rest, mk_))
    outs = ctx.model.run(ops)
    for op, (kind, b, res, rest, mk_), mo in zip(ops, post, outs):
        case = {"decoder": kind, "input": hx(b), "mutation": mk_}
        if res != mo:
            rep.disagree(op[:200], mo[:300], res[:300], case)
        if res.startswith("err "):
            name = res[4:]
            rep.dist[f"{kind}:{name}"] += 1
            if name not in ALLOWED:
                rep.violation(f"C03:decoder-raises:{kind}:{name}", f"{kind} decoder raised {name}", case)
            elif name == "UnicodeDecodeError" and (kind == "hdr" or not any(x >= 0x80 for x in b)):
                rep.violation(f"C03:unicode-elsewhere:{kind}", "UnicodeDecodeError without a non-ASCII byte in a configuration option", case)
            if mk_ != "raw" and len(b) >= (16 if kind in ("hdr", "entry") else 12 if kind == "sd" else 3):
                rep.nontrivial.add((kind, name, mk_, len(b) % 7))
        else:
            rep.dist[f"{kind}:ok"] += 1
            if rest is not None and not b.endswith(rest):
                rep.violation(f"C03:rest-not-suffix:{kind}", "the returned rest is not a suffix of the input", case)
    rep.sample({"op": ops[0][:120], "impl": post[0][2][:120]})
    # ---- (2) live SD endpoint, twin runs
    nlive = ctx.n(60, 900)
    saved_uniform = _random.uniform
    _random.uniform = lambda a, b: a
    try:
        ntiny = 26
        for i in range(ntiny + nlive):
            rep.evaluations += 1
            r = rng.random()
            if i < ntiny:
                # a well-formed SOME/IP message with every small payload length (too short for an SD message, or foreign),
                # half of them followed by a valid SD message: one particular length must not be special (see C01)
                tiny = H.SOMEIPHeader(service_id=rng.choice([0xFFFF, 0x1234]), method_id=0x8100, client_id=0, session_id=1,
                                      interface_version=1, message_type=H.SOMEIPMessageType.NOTIFICATION, payload=gen.rbytes(rng, i)).build()
                follow = sd_msg([C.Service(0x1111, 1, 1, 1).create_offer_entry(3)], 5, reboot=True, unicast=True) if i % 2 else b""
                data, k = tiny + follow, "tiny:%d" % i
            elif r < 0.15:
                data, k = gen.rbytes(rng, rng.randrange(0, 200)), "raw"
            else:
                base_entries = []
                for _ in range(rng.randrange(0, 4)):
                    t = rng.random()
                    if t < 0.4:
                        base_entries.append(C.Service(rng.choice([0x1111, 0x3333, 0x5555]), rng.choice([1, 2]), 1, 1).create_offer_entry(rng.choice([0, 2, 0xFFFFFF])))
                    elif t < 0.7:
                        ep = H.IPv4EndpointOption(address=__import__("ipaddress").IPv4Address("10.0.0.%d" % rng.randrange(1, 4)), l4proto=H.L4Protocols.UDP, port=5000)
                        base_entries.append(H.SOMEIPSDEntry(sd_type=H.SOMEIPSDEntryType.Subscribe, service_id=0x2222, instance_id=1, major_version=1,
                                                            ttl=rng.choice([0, 3, 0xFFFFFF]), minver_or_counter=rng.choice([5, 6, 7]), options_1=(ep,)))
                    elif t < 0.85:
                        base_entries.append(C.Service(0x2222).create_find_entry(3))
                    else:
                        opt = H.SOMEIPSDConfigOption(configs=(("k", "v"),))
                        base_entries.append(C.Service(0x1111, 1, 1, 1, options_1=(opt,)).create_offer_entry(3))
                sess = rng.choice([1, 2, 12, 40, 0xFFFF])
                whole = sd_msg(base_entries, sess, reboot=rng.random() < 0.7, unicast=rng.random() < 0.85)
                kk = rng.random()
                if kk < 0.15:
                    data, k = whole, "valid"
                elif kk < 0.3:
                    # foreign but well-formed: wrong service / method / version / type / code
                    m, _ = H.SOMEIPHeader.parse(whole)
                    fld = rng.choice(["service_id", "method_id", "interface_version", "message_type", "return_code"])
                    val = {"service_id": 0x1234, "method_id": 0x8101, "interface_version": 2,
                           "message_type": H.SOMEIPMessageType.REQUEST, "return_code": H.SOMEIPReturnCode.E_NOT_OK}[fld]
                    data, k = __import__("dataclasses").replace(m, **{fld: val}).build(), "foreign:" + fld
                elif kk < 0.38:
                    # SOME/IP length field below 8 / slightly wrong, followed by a few junk bytes
                    ln = rng.choice([0, 1, 4, 7, 7, 9])
                    data, k = whole[:4] + struct.pack("!I", ln) + whole[8:] + gen.rbytes(rng, max(0, 8 - ln)), "someip-length"
                elif kk < 0.5 and b"k=v" in whole:
                    # non-ASCII byte inside a configuration string of an otherwise valid SD message
                    j = whole.index(b"k=v") + rng.choice([0, 2])
                    data, k = whole[:j] + bytes([whole[j] | 0x80]) + whole[j + 1:], "config-nonascii"
                else:
                    data, k = mutate.mutate(rng, whole)
                    if rng.random() < 0.3:
                        data = whole + data
                        k += "+after-valid"
            addr, mc = rng.choice(PEERS), rng.random() < 0.4
            err, diff, ndec = live_sd_case(rng, data, addr, mc)
            case = {"datagram": hx(data), "from": addr, "multicast": mc, "mutation": k}
            rep.dist["live-sd:" + ("decodable" if ndec else "rejected")] += 1
            if err:
                rep.violation(f"C03:sd-endpoint-raises:{err}", f"ServiceDiscoveryProtocol.datagram_received raised {err}", case)
            elif diff:
                rep.violation("C03:sd-endpoint-effect", diff, case)
            if not ndec and k not in ("raw",):
                rep.nontrivial.add(("live", k, len(data) % 11))
    finally:
        _random.uniform = saved_uniform
    # ---- (2b) the same kind of input into a live stack that is compared STEP BY STEP with the Lean stack model:
    #           ties the model's receive path (decoders inside message_received) to the code on malformed input
    def make(rng2, k):
        tm = SDV.TimingsSpec(initMin=0, initMax=0, reps=0, cyclic=rng2.choice([0, 300]), coll=rng2.choice([0, 5]), refresh=None)
        svcs = [C.Service(0x1111, 1, 1, 1, eventgroups=frozenset({5, 6}))][: rng2.randrange(0, 2)]
        sc = scen.Scenario(rng2, tm, svcs, {"mutant": 8, "offer": 3, "sub": 3, "find": 1, "watch": 2, "life": 1}, nsteps=rng2.choice([30, 60]))
        return sc

    def no_raise(sc, res, rep2, case):
        for it in sc.rec.items:
            if it[0] == "out" and it[2].startswith("raised "):
                rep2.violation("C03:sd-endpoint-raises:" + it[2].split(" ")[1], f"receive path raised {it[2].split(' ')[1]} at {it[1]}", case)

    stateful.run_scenarios(ctx, rep, make, no_raise, ctx.n(80, 1000), "c03-lockstep")
    # ---- (3) live service endpoint
    for i in range(ctx.n(300, 5000)):
        rep.evaluations += 1
        h = gen_header(rng)
        h["sid"] = rng.choice([0x4444, 0x4444, h["sid"]])
        h["mid"] = rng.choice([1, 2, 3, h["mid"]])
        h["iv"] = rng.choice([1, 1, h["iv"]])
        data = mk(h).build()
        k = "valid"
        if rng.random() < 0.7:
            data, k = mutate.mutate(rng, data)
        if rng.random() < 0.2:
            data = mk(gen_header(rng)).build() + data
        svc = make_service()
        try:
            svc.datagram_received(data, PEERS[0], rng.random() < 0.2)
            rep.dist["live-service:returned"] += 1
        except Exception as e:  # noqa: BLE001
            rep.violation(f"C03:service-endpoint-raises:{exc_name(e)}", f"SimpleService.datagram_received raised {exc_name(e)}",
                          {"datagram": hx(data), "mutation": k})
    return rep

