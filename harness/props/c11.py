"""C11 — Every unicast Subscribe gets exactly one correct Ack or Nack."""
from __future__ import annotations

import someip.config as C

from harness import core, scen, stackdrv as SDV, stateful, suboracle

LEVEL = ("Lean theorems c11_* (exactly one SubscribeAck entry per unicast Subscribe, echoing ids/eventgroup/counter, TTL by "
         "acceptance; StopSubscribe silent; multicast inert) + lock-step correspondence + reference multiset of acks")
W = {"sub": 10, "stopsub": 2, "subreboot": 1, "nak": 2, "life": 1.5}
POOL = [C.Service(0x1111, 1, 1, 1, eventgroups=frozenset({5, 6})),        # concrete
        C.Service(0x2222, 0xFFFF, 0xFF, 7, eventgroups=frozenset({5})),   # wildcard instance / major
        C.Service(0x3333, 1, 1, 1, eventgroups=frozenset({9}))]           # never matches the generator's ids


class Sc(scen.Scenario):
    def prelude(self, impl):
        # instances: running, stopped (announced then withdrawn) or never started
        for i in range(len(self.services)):
            r = self.rng.random()
            if r < 0.75:
                self.announced.add(i)
                self.rec.inp(impl.loop.ticks, ("announce", i))
                yield f"in announce {i}"
        if self.rng.random() < 0.9:
            self.running = True
            self.rec.inp(impl.loop.ticks, ("start",))
            yield "in start"
            yield from scen.natural(impl, impl.loop.ticks + self.rng.choice([0, 30]))

    def epilogue_times(self):
        return [50, 3500]


def make(rng, k):
    tm = SDV.TimingsSpec(initMin=0, initMax=0, reps=0, base=10, cyclic=rng.choice([0, 400]), coll=rng.choice([0, 5, 20]),
                         refresh=None, annTtl=3)
    sc = Sc(rng, tm, POOL[: rng.randrange(0, 4)], W, nsteps=rng.choice([30, 60, 90]), adversarial=rng.random() < 0.7)
    sc.ttls = [1, 3, 0xFFFFFE, 0xFFFFFF]
    return sc


def oracle(sc, res, rep, case):
    suboracle.oracle(sc, res, rep, case, "C11")


def run(ctx: core.Ctx) -> core.Report:
    rep = core.Report("C11")
    rep.rule = ("Subscribe entries over ids / versions / eventgroups / counters {0,1,15} / TTLs, 0, 1 or 2 endpoint options plus "
                "extra options, 1..2 entries per message, unicast and multicast, against 0..3 instances (running, withdrawn, never "
                "announced, wildcard ids; at most one matches), accept/reject policies, arbitrary prior subscription state; the "
                "multiset of SubscribeAck entries on the wire is compared with the reference; every step compared with the model")
    stateful.run_scenarios(ctx, rep, make, oracle, ctx.n(200, 3000), "c11")
    return rep

