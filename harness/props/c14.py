"""C14 — Client subscription messages mirror the requested subscription set."""
from __future__ import annotations

import collections
import ipaddress

import someip.config as C
import someip.header as H

from harness import core, scen, sdio, stackdrv as SDV, stateful

LEVEL = ("Lean theorems c14_* (server view mirrors the requested set at idle, content of each Subscribe, refresh) for every "
         "event list + lock-step correspondence + server-view oracle")
W = {"csub": 9, "life": 4}
EGS = scen.CLIENT_EGS


class Sc(scen.Scenario):
    def prelude(self, impl):
        if self.rng.random() < 0.7:
            self.running = True
            self.rec.inp(impl.loop.ticks, ("start",))
            yield "in start"

    def in_lifecycle(self, impl):
        r = self.rng.random()
        if r < 0.15 and self.running:
            self.rec.inp(impl.loop.ticks, ("connLost",))
            self.running = False
            self.lost = True
            return "in connLost"
        if self.running:
            self.running = False
            self.rec.inp(impl.loop.ticks, ("stop",))
            return "in stop"
        if any((impl.name(h) or "").startswith("connection_lost") for h in impl.loop.ready_handles()):
            return None
        self.running = True
        self.lost = False
        self.rec.inp(impl.loop.ticks, ("start",))
        return "in start"

    def epilogue_times(self):
        return [100, 2500]


def make(rng, k):
    if rng.random() < 0.5:
        ttl, refresh = rng.choice([3, 5]), rng.choice([300, 1000, 2000])
    else:
        ttl, refresh = 0xFFFFFF, None
    tm = SDV.TimingsSpec(initMin=0, initMax=0, reps=0, cyclic=0, coll=rng.choice([0, 5]), subTtl=ttl, refresh=refresh)
    return Sc(rng, tm, [], W, nsteps=rng.choice([30, 60, 100]), adversarial=True, peers=rng.choice([3, 5, 5]))


def expected_entry(eg: C.Eventgroup, ttl):
    addr = ipaddress.ip_address(eg.sockname[0])
    cls = H.IPv4EndpointOption if addr.version == 4 else H.IPv6EndpointOption
    opt = cls(address=addr, l4proto=eg.protocol, port=eg.sockname[1])
    return H.SOMEIPSDEntry(sd_type=H.SOMEIPSDEntryType.Subscribe, service_id=eg.service_id, instance_id=eg.instance_id,
                           major_version=eg.major_version, ttl=ttl, minver_or_counter=eg.eventgroup_id, options_1=(opt,))


def oracle(sc, res, rep, case):
    tm = sc.tm
    by_tok = {sdio.eg_tok(g): g for g in EGS}
    requested = []  # (egtok, dest)
    alive = False
    alive_since = None
    lost = False
    view = collections.defaultdict(set)  # dest -> {egtok}
    last_sub = {}  # (egtok, dest) -> time of last Subscribe
    req_since = {}

    def bad(sig, what):
        rep.violation("C14:" + sig, what, case)

    valid = {}
    for tok, g in by_tok.items():
        valid[sdio.entry_tok(expected_entry(g, tm.subTtl))] = (tok, True)
        valid[sdio.entry_tok(expected_entry(g, 0))] = (tok, False)

    for it in sc.rec.items:
        if it[0] == "in":
            _, t, info = it
            k = info[0]
            if k == "start":
                if not alive:
                    alive, alive_since, lost = True, t, False
            elif k == "stop":
                alive = False
            elif k == "connLostRun" and info[1] == "subscriber":
                if alive:
                    lost = True   # stopped without StopSubscribe: the peer's view is no longer ours to mirror
                alive = False
            elif k == "subscribe":
                requested.append(info[1])
                req_since[info[1]] = t
            elif k == "stopSubscribe":
                if info[1] in requested:
                    requested.remove(info[1])
        elif it[0] == "out":
            _, t, text = it
            if not text.startswith("send "):
                continue
            try:
                dest, _sid, _fl, entries = stateful.decode_send(text)
            except Exception as exc:  # noqa: BLE001
                bad("undecodable-send", repr(exc))
                continue
            for e in entries:
                if e.sd_type != H.SOMEIPSDEntryType.Subscribe:
                    continue
                tok = sdio.entry_tok(e)
                if tok not in valid:
                    bad("content", f"Subscribe entry sent to {dest} does not name a requested eventgroup with the configured TTL "
                                   f"{tm.subTtl}, counter 0 and its endpoint option: {tok[:200]}")
                    continue
                egtok, is_sub = valid[tok]
                if dest == "~":
                    bad("destination", "Subscribe sent to the multicast group")
                    continue
                if is_sub:
                    if (egtok, int(dest)) not in requested and alive:
                        # a Subscribe for something not (or no longer) requested: only legal if a StopSubscribe follows; the
                        # idle-state mirror check decides
                        rep.dist["C14:subscribe-for-unrequested"] += 1
                    view[int(dest)].add(egtok)
                    last_sub[(egtok, int(dest))] = t
                else:
                    view[int(dest)].discard(egtok)
                rep.dist["C14:entries-checked"] += 1
        else:
            t = it[1]
            if lost:
                continue
            dests = set(view) | {d for _g, d in requested}
            for d in dests:
                want = {g for g, dd in requested if dd == d} if alive else set()
                if view[d] != want:
                    bad("mirror", f"idle at {t}: server {d} holds {sorted(view[d])} but the requested set is {sorted(want)} "
                                  f"(subscriber {'running' if alive else 'stopped'})")
            if alive and tm.refresh is not None:
                for key in requested:
                    since = max(req_since.get(key, 0), alive_since)
                    if t - since >= tm.refresh and t - last_sub.get(key, -10 ** 12) >= tm.refresh:
                        bad("refresh", f"idle at {t}: {key} requested since {since} but its last Subscribe left at {last_sub.get(key)} "
                                       f"(refresh interval {tm.refresh})")
            rep.dist["C14:idle-states-judged"] += 1


def run(ctx: core.Ctx) -> core.Report:
    rep = core.Report("C14")
    rep.rule = ("sequences of subscribe / stop-subscribe (no duplicates) / start / stop / connection loss over 3 eventgroups (IPv4 and "
                "IPv6 endpoints, UDP and TCP) x 3 servers at adversarially chosen instants incl. refresh instants in both orders; "
                "finite TTL with refresh 300/1000/2000 ms and infinite TTL without; server view folded from the Subscribe / "
                "StopSubscribe entries on the wire; every step compared with the Lean model")
    stateful.run_scenarios(ctx, rep, make, oracle, ctx.n(200, 3000), "c14")
    return rep

