"""C04 — Two SD stacks converge: offers are discovered, subscriptions established."""
from __future__ import annotations

import someip.config as C
import someip.header as H

from harness import core, scen, sdio, stackdrv as SDV
from harness.gen import hx

LEVEL = ("Lean theorems c04_* (component guarantees composed through proj_run; restart-first-message) + two real "
         "ServiceDiscoveryProtocol objects joined by a simulated lossy network with crash/restart, every incarnation "
         "replayed step by step on the Lean model; convergence oracle on the real listeners (partial: see level_note)")
OFF, WAT = 1, 2
SVC = C.Service(0x1111, 1, 1, 1, eventgroups=frozenset({7}))
EG = C.Eventgroup(0x1111, 0xFFFF, 0xFF, 7, ("10.0.0.2", 5000), H.L4Protocols.UDP)
FILTER = EG.as_service()


class Side:
    def __init__(self, role, tm, now, rng):
        self.role = role
        self.addr = OFF if role == "o" else WAT
        self.impl = SDV.ImplStack(tm, [SVC] if role == "o" else [])
        self.events, self.states = [], []
        self.started = False
        self.nsent = 0
        self.born = now          # virtual time at which this incarnation came to life
        self.sent_log = []       # (time, multicast?) of every SD datagram this incarnation put on the wire
        self.first = "ok " + self.impl.state(0)
        if now > 0:
            self.ev(f"adv {now}")
        self.ev("in draws 8 " + " ".join(str(rng.choice([0, 3, 11, 40, 3000])) for _ in range(8)))
        if role == "o":
            self.ev("in announce 0")
        else:
            self.ev(f"in watch {sdio.svc_tok(FILTER)} ext 0")
            self.ev(f"in watch {sdio.svc_tok(FILTER)} auto {sdio.eg_tok(EG)}")

    def ev(self, line):
        self.events.append(line)
        st = self.impl.apply(line)
        self.states.append(st)
        new = self.impl.sent[self.nsent:]
        self.nsent = len(self.impl.sent)
        return [(self.addr, SDV.idx_of(addr), data) for _t, data, addr in new]

    def last_notification(self, prefix):
        for line in reversed(self.impl.outs):
            rest = line.split(" ", 1)[1]
            if rest.startswith(prefix):
                return rest.split(" ", 1)[0]
        return None


class World:
    def __init__(self, tm, rng, model):
        self.tm, self.rng, self.model = tm, rng, model
        self.now = 0
        self.sides = {"o": Side("o", tm, 0, rng), "w": Side("w", tm, 0, rng)}
        self.graves = []  # finished incarnations, for the model replay
        self.net = []  # (dst role, src idx, mc, bytes)
        self.fault = None  # (until, loss, dup, reorder)
        self.log = []

    def route(self, sends):
        for src, dest, data in sends:
            mc = dest == "~"
            dst = "w" if src == OFF else "o"
            sender = self.sides["o" if src == OFF else "w"]
            if sender is not None:
                sender.sent_log.append((self.now, mc))
            if not mc and int(dest) != (WAT if dst == "w" else OFF):
                continue
            if self.fault and self.now <= self.fault[0]:
                r = self.rng.random()
                if r < self.fault[1]:
                    continue
                if r < self.fault[1] + self.fault[2]:
                    self.net.append((dst, src, mc, data))
            self.net.append((dst, src, mc, data))
            if self.fault and self.now <= self.fault[0] and self.rng.random() < self.fault[3]:
                self.rng.shuffle(self.net)

    def local(self, role, line):
        s = self.sides[role]
        if s is None:
            return
        self.route(s.ev(line))

    def step_some(self):
        """one global scheduler step; False when everything is idle"""
        opts = []
        for role, s in self.sides.items():
            if s is None:
                continue
            s.impl.drain_plumbing()
            for h in s.impl.loop.due():
                opts.append((role, f"fire {s.impl.loop.vseq[id(h)]}"))
            if s.impl.loop.ready_handles():
                opts.append((role, "run"))
        if self.net:
            opts.append(("net", None))
            if not (self.fault and self.now <= self.fault[0]):
                opts = [("net", None)] + [o for o in opts if o[0] != "net"]  # lossless mode: prompt FIFO delivery first
                role_line = opts[0]
                return self._do(role_line)
        if not opts:
            return False
        return self._do(self.rng.choice(opts))

    def _do(self, choice):
        role, line = choice
        if role == "net":
            dst, src, mc, data = self.net.pop(0)
            if self.sides[dst] is not None:
                self.local(dst, f"in dgram {src} {int(mc)} {hx(data)}")
            return True
        self.local(role, line)
        return True

    def settle(self):
        for _ in range(200000):
            if not self.step_some():
                return
        raise core.Infra("two-stack world does not settle")

    def advance(self, t):
        while True:
            self.settle()
            nds = [s.impl.loop.next_deadline() for s in self.sides.values() if s is not None]
            nds = [d for d in nds if d is not None]
            nxt = min(nds) if nds else None
            target = t if nxt is None or nxt > t else nxt
            if target > self.now:
                for role, s in self.sides.items():
                    if s is not None:
                        self.local(role, f"adv {target}")
                self.now = target
            if target >= t and (nxt is None or nxt > t):
                return

    def disturb(self, kind, role):
        self.log.append((self.now, kind, role))
        s = self.sides[role]
        if kind == "start" and s is not None and not s.started:
            s.started = True
            self.local(role, "in start")
        elif kind == "stop" and s is not None and s.started:
            s.started = False
            self.local(role, "in stop")
        elif kind == "crash" and s is not None:
            s.impl.close()
            self.graves.append(s)
            self.sides[role] = None
        elif kind == "restart" and s is None:
            ns = Side(role, self.tm, self.now, self.rng)
            ns.restarted = True
            self.sides[role] = ns
            ns.started = True
            self.local(role, "in start")

    def close(self):
        for s in self.sides.values():
            if s is not None:
                s.impl.close()
                self.graves.append(s)

    def verify_model(self, rep, case):
        """every incarnation of every side, step by step, on the Lean model"""
        for k, s in enumerate(self.graves):
            name = f"{s.role}{k}"
            lines = [SDV.new_line(name, self.tm, [SVC] if s.role == "o" else [])] + [SDV.model_line(name, e) for e in s.events]
            outs = self.model.run(lines)
            if not scen.same_state(s.first, outs[0]):
                rep.disagree(f"c04 {name} initial", outs[0][:300], s.first[:300], case)
                continue
            for i, (a, b) in enumerate(zip(s.states, outs[1:])):
                if not scen.same_state(a, b):
                    rep.disagree(f"c04 {name} step {i}: {s.events[i][:100]}", b[:400], a[:400], {**case, "side_events": s.events[: i + 1][-40:]})
                    break
            rep.dist["c04:model-steps"] += len(s.events)


def make_plan(rng, tm, horizon, infinite):
    """disturbances: (time, kind, role); crash is always followed by a restart when TTLs are infinite"""
    plan = [(0, "start", "o"), (rng.choice([0, 0, 7, 150]), "start", "w")]
    t = rng.choice([0, 0, 25, 60, 300, 900])   # 0: disturbances at the deadlines of the very first start-up too
    n = rng.choice([1, 1, 2, 3])
    anchors = [0, tm.initMax, tm.initMax + tm.base, tm.cyclic, 2 * tm.cyclic, tm.coll, tm.initMax + tm.coll, (tm.refresh or tm.cyclic),
               tm.annTtl * 1000 if tm.annTtl != 0xFFFFFF else tm.cyclic]
    for _ in range(n):
        role = rng.choice("ow")
        kind = rng.choice(["stopstart", "crashrestart", "stop", "crash"] if not infinite else ["stopstart", "crashrestart", "stop"])
        t0 = max(1, rng.choice(anchors) + rng.choice([-1, 0, 1]) + t) if rng.random() < 0.6 else t + rng.randrange(1, 700)
        gap = rng.choice([0, 1, 5, 40, 400, 1500])
        if kind == "stopstart":
            plan += [(t0, "stop", role), (t0 + gap, "start", role)]
        elif kind == "crashrestart":
            plan += [(t0, "crash", role), (t0 + gap, "restart", role)]
        elif kind == "stop":
            plan += [(t0, "stop", role)]
        else:
            plan += [(t0, "crash", role)]
        t = t0 + gap + rng.choice([10, 300])
    fault = None
    if not infinite and rng.random() < 0.5:
        f0 = rng.randrange(0, max(1, t))
        fault = (f0, f0 + rng.choice([50, 400, 1500]), rng.choice([0.3, 0.6, 1.0]), rng.choice([0, 0.2]), rng.choice([0, 0.5]))
    return sorted(plan, key=lambda x: x[0]), fault


def run(ctx: core.Ctx) -> core.Report:
    rng = ctx.rng
    rep = core.Report("C04")
    rep.rule = ("offerer (one instance) and watcher (find_subscribe_eventgroup + observing listener) on virtual loops with a shared "
                "clock and a simulated network; 1..3 disturbances (graceful stop/start, crash/restart, lone stop or crash) placed at, "
                "one tick before and after the timer deadlines of the run and at random ticks; loss / duplication / reordering "
                "windows (finite TTLs); 6 timing families incl. infinite TTLs; oracle at last disturbance + TTL + period + startup")
    ncases = ctx.n(90, 1200)
    for k in range(-1, ncases):
        corpus = k == -1
        if corpus:
            # corpus case of known finding D11 (run first on every run): infinite TTLs, the watcher crashes and restarts, then -
            # before the old offerer sends another multicast message - the offerer crashes and restarts
            saved_rng, rng = rng, __import__("random").Random(11)
        elif k == 0:
            rng = saved_rng
        infinite = k % 4 == 3 or corpus
        cyc = 400 if corpus else rng.choice([100, 250, 400])
        if infinite:
            tm = SDV.TimingsSpec(initMin=0, initMax=rng.choice([0, 20]), reps=rng.choice([0, 2]), base=10, cyclic=cyc, coll=rng.choice([0, 5]),
                                 annTtl=0xFFFFFF, subTtl=0xFFFFFF, refresh=None, rrMin=0, rrMax=10, findTtl=3)
        else:
            ttl = rng.choice([1, 2])
            tm = SDV.TimingsSpec(initMin=0, initMax=rng.choice([0, 20]), reps=rng.choice([0, 2]), base=10, cyclic=cyc, coll=rng.choice([0, 5]),
                                 annTtl=ttl, subTtl=ttl, refresh=rng.choice([200, 400]), rrMin=0, rrMax=10, findTtl=3)
        plan, fault = make_plan(rng, tm, 3000, infinite)
        if corpus:
            tm = SDV.TimingsSpec(initMin=0, initMax=0, reps=0, base=10, cyclic=400, coll=5, annTtl=0xFFFFFF, subTtl=0xFFFFFF, refresh=None,
                                 rrMin=0, rrMax=10, findTtl=3)
            rng = __import__("random").Random(11)
            plan, fault = [(0, "start", "o"), (0, "start", "w"), (1000, "crash", "w"), (1005, "restart", "w"), (1020, "crash", "o"),
                           (1021, "restart", "o")], None
        w = World(tm, rng, ctx.model)
        case = {"timings": tm.tokens(), "plan": plan, "fault_window": fault}
        try:
            t_last = 0
            items = list(plan)
            if fault:
                items.append((fault[0], "fault-on", None))
                items.append((fault[1], "fault-off", None))
                items.sort(key=lambda x: x[0])
            for t, kind, role in items:
                w.advance(t)
                if kind == "fault-on":
                    w.fault = (fault[1], fault[2], fault[3], fault[4])
                elif kind == "fault-off":
                    w.fault = None
                else:
                    w.disturb(kind, role)
                t_last = max(t_last, t)
            ttl_ms = 0 if infinite else tm.annTtl * 1000
            startup = tm.initMax + tm.base * (2 ** tm.reps - 1) + tm.coll + tm.rrMax
            D = ttl_ms + max(tm.cyclic, tm.refresh or 0) + tm.cyclic + startup + 20
            w.advance(t_last + D)
            w.settle()
            o, wt = w.sides["o"], w.sides["w"]
            offering = o is not None and o.started
            wrunning = wt is not None and wt.started
            rep.evaluations += 1
            rep.dist[f"c04:{'infinite' if infinite else 'finite'}-ttl"] += 1
            # the statement's domain for infinite TTLs: "restarts after which the restarted peer sends at least one SD
            # message" - a peer that was restarted and stopped again inside its initial wait phase has told nobody that it
            # rebooted, and with infinite TTLs nothing else can (found on the unchanged tree by the thorough tier: crash,
            # restart, stop 9 ms later with an initial delay of 11 ms; an alarm there was the oracle's mistake)
            silent = [s for s in list(w.sides.values()) + w.graves if s is not None and getattr(s, "restarted", False) and s.nsent == 0]
            judge = not (infinite and silent)
            if not judge:
                rep.dist["c04:outside-domain(silent restarted peer, infinite TTL)"] += 1
            for _t, kind, role in plan[2:]:
                rep.dist[f"c04:disturbance:{kind}"] += 1
            if fault:
                rep.dist["c04:fault-window"] += 1
            if wt is not None and judge:
                offered = wt.last_notification("offered 0 ") is not None and [
                    l for l in wt.impl.outs if l.split(" ", 1)[1].startswith(("offered 0 ", "stopped 0 "))][-1].split(" ")[1] == "offered"
                if offered != offering:
                    rep.violation(f"C04:watcher-{'stale-offered' if offered else 'not-offered'}",
                                  f"{D} ms after the last disturbance the watcher's listener says offered={offered} but the offerer is "
                                  f"{'offering' if offering else 'not offering'}", case)
            if o is not None and judge:
                subs = [l for l in o.impl.outs if l.split(" ", 1)[1].startswith(("subscribed 0 ", "unsubscribed 0 "))]
                subscribed = bool(subs) and subs[-1].split(" ")[1] == "subscribed"
                if subscribed != (offering and wrunning):
                    sig = f"C04:server-{'stale-subscribed' if subscribed else 'not-subscribed'}"
                    # known finding D11 (known_findings.json): infinite TTLs, both peers restarted, and the watcher's present
                    # incarnation came to life AFTER the last multicast message of the offerer's previous incarnation and BEFORE
                    # the offerer's present one: the first multicast offer of the new offerer is the first multicast message
                    # this watcher ever saw from it, so the reboot is not detectable (C07: a first message never is), the
                    # watcher keeps believing in its subscription, and with an infinite TTL and no refresh it never repeats it
                    if (infinite and not subscribed and offering and wrunning and getattr(o, "restarted", False)
                            and wt.born < o.born and wt.impl.p.subscriber.subscribeentries
                            and not any(mc and wt.born <= t < o.born for g in w.graves if g.role == "o" for t, mc in g.sent_log)):
                        sig += ":undetectable-double-restart-infinite-ttl"
                    rep.violation(sig,
                                  f"{D} ms after the last disturbance the offerer's listener says subscribed={subscribed}; offering={offering}, "
                                  f"watcher running={wrunning}", case)
            rep.nontrivial.add((tm.tokens(), tuple(plan), fault))
        finally:
            w.close()
        w.verify_model(rep, case)
        if k < 2:
            rep.sample({"timings": tm.tokens(), "plan": plan, "fault_window": fault})
    return rep

