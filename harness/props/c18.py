"""C18 — Stream and datagram framing agree under arbitrary segmentation."""
from __future__ import annotations

import asyncio
import struct

import someip.header as H

from harness import core, gen, vloop
from harness.gen import hx
from harness.props.c01 import canon, gen_header, mk

LEVEL = ("Lean theorems c18_* (chunking irrelevance, agreement with the datagram loop, truncation) over the feed/readexactly "
         "contract + real asyncio.StreamReader driven coroutine-step by coroutine-step")


def read_stream(loop, chunks):
    reader = asyncio.StreamReader(loop=loop)
    msgs, end, coro, waiting = [], None, None, None

    def pump():
        nonlocal coro, end, waiting
        while end is None:
            if waiting is not None and not waiting.done():
                return  # still blocked: nothing arrived (e.g. an empty chunk)
            waiting = None
            if coro is None:
                coro = H.SOMEIPHeader.read(reader)
            try:
                waiting = coro.send(None)
                return  # blocked in readexactly
            except StopIteration as si:
                if not isinstance(si.value, H.SOMEIPHeader):
                    # `read` is specified to return a message or to raise: anything else (None at end of stream, say) ends
                    # the run with a verdict of its own - and must not be read again, or the loop would never end
                    end = "returned:" + type(si.value).__name__
                    break
                msgs.append(si.value)
                coro = None
                if len(msgs) > 4096:
                    end = "runaway"
            except H.ParseError:
                end = "parseError"
            except asyncio.IncompleteReadError:
                end = "incomplete?"
            except Exception as e:  # noqa: BLE001
                end = "exc:" + type(e).__name__

    for c in chunks:
        reader.feed_data(c)
        pump()
    reader.feed_eof()
    pump()
    if coro is not None and end is None:
        end = "stuck"
    total = sum(len(c) for c in chunks)
    if end == "incomplete?":
        consumed = sum(16 + len(m.payload) for m in msgs)
        end = "eofClean" if consumed == total else "incomplete"
    return [canon(m) for m in msgs], end


def parse_loop(data):
    msgs = []
    while data:
        try:
            m, data = H.SOMEIPHeader.parse(data)
        except H.IncompleteReadError:
            return msgs, "incomplete"
        except H.ParseError:
            return msgs, "parseError"
        msgs.append(canon(m))
    return msgs, "eofClean"


def chunkings(rng, data, exhaustive_limit=64):
    n = len(data)
    out = [[data], [bytes([b]) for b in data] if n <= 400 else [data[:1], data[1:]]]
    if n <= exhaustive_limit:
        out += [[data[:i], data[i:]] for i in range(n + 1)]
    for _ in range(4):
        cuts = sorted(rng.randrange(0, n + 1) for _ in range(rng.choice([1, 2, 3, 8, 20])))
        ch, prev = [], 0
        for c in cuts:
            ch.append(data[prev:c])
            prev = c
        ch.append(data[prev:])
        out.append(ch)
    return out


def run(ctx: core.Ctx) -> core.Report:
    rng = ctx.rng
    rep = core.Report("C18")
    rep.rule = ("streams of 0..8 messages (payload 0..4096, boundary-biased), optionally one corrupted header field or a "
                "truncation at a random/every position; every 2-chunk cut for streams <= 64 bytes, 1-byte chunks, random cuts "
                "(empty chunks included); non-trivial = distinct (#messages, corruption, end kind, chunk-count class)")
    loop = vloop.new_loop()
    ops, post = [], []
    try:
        nsmall = 33
        for i in range(nsmall + ctx.n(250, 4000)):
            k = rng.randrange(0, 9) if rng.random() < 0.7 else rng.randrange(0, 3)
            if i < nsmall:
                k = 2   # every small payload length once, followed by a second message (see C01: one particular length)
            hs = []
            for j in range(k):
                h = gen_header(rng)
                r = rng.random()
                if i < nsmall and j == 0:
                    h["payload"] = gen.rbytes(rng, i)
                elif r < 0.15:
                    h["payload"] = gen.rbytes(rng, rng.choice([0, 0, 1, 8]))
                elif r < 0.25:
                    h["payload"] = gen.rbytes(rng, rng.choice([1023, 1024, 4095, 4096]))
                hs.append(h)
            parts = [mk(h).build() for h in hs]
            corrupt = None
            if parts and rng.random() < 0.35:
                j = rng.randrange(len(parts))
                what = rng.choice(["pv", "mt", "rc", "len_small", "len_big"])
                b = bytearray(parts[j])
                if what == "pv":
                    b[12] = rng.choice([0, 2, 255])
                elif what == "mt":
                    b[14] = rng.choice([3, 0x43, 0xFF])
                elif what == "rc":
                    b[15] = rng.choice([11, 0xFF])
                elif what == "len_small":
                    b[4:8] = struct.pack("!I", rng.choice([0, 7]))
                else:
                    b[4:8] = struct.pack("!I", len(b) - 8 + rng.choice([1, 100, 100000]))
                parts[j] = bytes(b)
                corrupt = what
            data = b"".join(parts)
            if data and rng.random() < 0.3:
                data = data[: rng.randrange(0, len(data))]
                corrupt = (corrupt or "") + "+trunc"
            want_msgs, want_end = parse_loop(data)
            for ch in chunkings(rng, data):
                rep.evaluations += 1
                got_msgs, got_end = read_stream(loop, ch)
                ops.append(f"stream {len(ch)}" + "".join(" " + hx(c) for c in ch))
                post.append((ch, got_msgs, got_end, want_msgs, want_end, corrupt, len(hs)))
            if len(data) <= 40 and data:
                # streams cut short at every position
                for cut in range(len(data)):
                    rep.evaluations += 1
                    d2 = data[:cut]
                    w2 = parse_loop(d2)
                    g2 = read_stream(loop, [d2])
                    ops.append(f"stream 1 {hx(d2)}")
                    post.append(([d2], g2[0], g2[1], w2[0], w2[1], "cut-every", len(hs)))
    finally:
        loop.shutdown()
    outs = ctx.model.run(ops)
    for op, (ch, gm, ge, wm, we, corrupt, k), mo in zip(ops, post, outs):
        got = f"n={len(gm)} end={ge}" + "".join(" | " + m for m in gm)
        case = {"chunks": [hx(c) for c in ch][:40], "nchunks": len(ch)}
        if got != mo:
            rep.disagree(op[:200], mo[:200], got[:200], case)
        # oracle: same messages, same end as datagram decoding of the concatenation
        if gm != wm or ge != we:
            rep.violation("C18:framing", f"stream reader gave {len(gm)} messages/end={ge}, datagram decoding {len(wm)} messages/end={we}", case)
        rep.nontrivial.add((k, corrupt, ge, min(len(ch), 5) if len(ch) < 30 else "many"))
        rep.dist["end=" + str(ge)] += 1
        rep.dist["chunks=%s" % (len(ch) if len(ch) <= 3 else ">3")] += 1
    rep.sample({"op": ops[0][:200], "model": outs[0][:200]})
    rep.sample({"op": ops[-1][:200], "model": outs[-1][:200]})
    return rep

