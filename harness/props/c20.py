"""C20 — Decoding canonicalises: decode-encode-decode equals decode."""
from __future__ import annotations

import someip.header as H

from harness import core, gen, mutate, sdio
from harness.gen import hx
from harness.props.c01 import canon, gen_header, mk
from harness.sdio import exc_name, opt_tok, entry_tok, sd_tok

LEVEL = ("Lean theorems c20_* (parse b = ok v => build v = ok b' and parse b' = ok (v, [])) for the four decoders + "
         "mutated and independently (non-canonically) encoded accepted inputs against header.py")


def dec_hdr(b):
    m, r = H.SOMEIPHeader.parse(b)
    return m, r, canon(m)


def dec_sd(b):
    m, r = H.SOMEIPSDHeader.parse(b)
    return m, r, sd_tok(m)


def dec_opt(b):
    m, r = H.SOMEIPSDOption.parse(b)
    return m, r, opt_tok(m)


def run(ctx: core.Ctx) -> core.Report:
    rng = ctx.rng
    rep = core.Report("C20")
    rep.rule = ("inputs: valid encodings, their mutants (bit flips, reserved bytes, length/count/index corruption, ...), and "
                "messages from an independent non-canonical encoder (non-zero reserved bytes, garbage after the config "
                "terminator, every unknown option type, unknown flags / protocol numbers, unreferenced options, index fields "
                "with zero counts); only accepted inputs are judged; non-trivial = accepted input that is not already canonical")
    inputs = []  # (kind, bytes, extra)
    for _ in range(ctx.n(300, 5000)):
        b = mk(gen_header(rng)).build() + gen.rbytes(rng, rng.choice([0, 0, 3]))
        inputs.append(("hdr", b, None))
        for m, _k in mutate.mutants(rng, b, 2):
            inputs.append(("hdr", m, None))
    for _ in range(ctx.n(300, 5000)):
        b = mutate.noncanon_sd(rng) if rng.random() < 0.6 else mutate.valid_sd_payload(rng)
        inputs.append(("sd", b, None))
        for m, _k in mutate.mutants(rng, b, 2):
            inputs.append(("sd", m, None))
        # single entries (with their num_options) and single options out of the same material
        if len(b) >= 28:
            el = int.from_bytes(b[4:8], "big")
            if el >= 16 and 8 + el <= len(b):
                inputs.append(("entry", b[8:24] + gen.rbytes(rng, rng.choice([0, 2])), rng.choice([0, 1, 8, 255, b[9] + (b[11] >> 4), b[10] + (b[11] & 15)])))
        inputs.append(("opt", mutate.noncanon_option(rng) + gen.rbytes(rng, rng.choice([0, 0, 4])), None))
    # entries at the edges of the two 4-bit option counts (0, 1, 14, 15 options per run) and of the 8-bit run indexes
    for _ in range(ctx.n(60, 600)):
        c1, c2 = rng.choice([0, 1, 14, 15]), rng.choice([0, 1, 14, 15])
        i1, i2 = rng.choice([0, 1, 100, 240 - c1]), rng.choice([0, 3, 200, 240 - c2])
        ty = rng.choice([0, 1, 6, 7])
        e = bytes([ty, i1, i2, (c1 << 4) | c2]) + rng.randrange(1 << 16).to_bytes(2, "big") + rng.randrange(1 << 16).to_bytes(2, "big") \
            + bytes([rng.randrange(256)]) + rng.choice([0, 3, 0xFFFFFF]).to_bytes(3, "big") + rng.randrange(1 << 32).to_bytes(4, "big")
        inputs.append(("entry", e + gen.rbytes(rng, rng.choice([0, 0, 2])), 255))
    ops, post = [], []
    for kind, b, extra in inputs:
        rep.evaluations += 1
        try:
            if kind == "hdr":
                v, r, tok = dec_hdr(b)
                op = f"hdr.parse {hx(b)}"
                res = f"ok {tok} {hx(r)}"
            elif kind == "sd":
                v, r, tok = dec_sd(b)
                op = f"sd.parse {hx(b)}"
                res = f"ok {tok} | {hx(r)}"
            elif kind == "entry":
                v, r = H.SOMEIPSDEntry.parse(b, extra)
                tok = entry_tok(v)
                op = f"entry.parse {extra} {hx(b)}"
                res = f"ok {tok} | {hx(r)}"
            else:
                v, r, tok = dec_opt(b)
                op = f"opt.parse {hx(b)}"
                res = f"ok {tok} | {hx(r)}"
        except Exception as e:  # noqa: BLE001
            ops.append({"hdr": "hdr.parse ", "sd": "sd.parse ", "opt": "opt.parse ", "entry": f"entry.parse {extra} "}[kind] + hx(b))
            post.append((kind, b, "err " + exc_name(e), None, None))
            rep.dist[f"{kind}:rejected"] += 1
            continue
        ops.append(op)
        # re-encode and re-decode on the implementation
        verdict = None
        try:
            b2 = bytes(v.build())
        except Exception as e:  # noqa: BLE001
            b2 = None
            verdict = ("C20:reencode-fails", f"decoded {kind} value cannot be encoded again: {exc_name(e)}")
        bop = None
        if b2 is not None:
            bop = ({"hdr": "hdr.build ", "sd": "sd.build ", "opt": "opt.build ", "entry": "entry.build "}[kind]
                   + ({"hdr": lambda: tok_hdr(v), "sd": lambda: tok, "opt": lambda: tok, "entry": lambda: tok}[kind]()), "ok " + hx(b2))
            try:
                if kind == "hdr":
                    v2, r2 = H.SOMEIPHeader.parse(b2)
                elif kind == "sd":
                    v2, r2 = H.SOMEIPSDHeader.parse(b2)
                elif kind == "entry":
                    v2, r2 = H.SOMEIPSDEntry.parse(b2, extra)
                else:
                    v2, r2 = H.SOMEIPSDOption.parse(b2)
                if v2 != v or r2:
                    verdict = ("C20:not-idempotent", f"decode(encode(decode(b))) differs from decode(b) or leaves {len(r2)} bytes")
                elif kind == "hdr" and b2 + r != b:
                    verdict = ("C20:header-bytes", "re-encoded SOME/IP message differs from the consumed input")
            except Exception as e:  # noqa: BLE001
                verdict = ("C20:redecode-fails", f"re-encoded bytes are rejected: {exc_name(e)}")
            consumed = b[: len(b) - len(r)]
            if b2 != consumed:
                rep.nontrivial.add((kind, hx(consumed)[:64]))
        post.append((kind, b, res, bop, verdict))
        rep.dist[f"{kind}:accepted"] += 1
    # model side: parse, and build of what the implementation decoded
    ops2 = [p[3][0] for p in post if p[3]]
    outs = ctx.model.run(ops + ops2)
    k2 = len(ops)
    for op, (kind, b, res, bop, verdict), mo in zip(ops, post, outs):
        case = {"decoder": kind, "input": hx(b)}
        if res != mo:
            rep.disagree(op[:200], mo[:300], res[:300], case)
        if bop:
            if outs[k2] != bop[1]:
                rep.disagree(bop[0][:200], outs[k2][:200], bop[1][:200], case)
            k2 += 1
        if verdict:
            rep.violation(verdict[0], verdict[1], case)
    rep.sample({"op": ops[0][:200], "impl": post[0][2][:200]})
    return rep


def tok_hdr(m):
    return canon(m)

