"""C16 — Method calls get exactly one correctly correlated reply."""
from __future__ import annotations

import itertools

import someip.header as H
import someip.service as S

from harness import core, gen, vloop
from harness.gen import hx
from harness.props.c01 import hdr_tokens, mk, canon

LEVEL = "Lean theorems c16_* (model = reply table, at most one reply, precedence) + complete enumeration of the categorical product against SimpleService"
ADDR = ("10.1.2.3", 4242)
SID, MAJ = 0x1234, 3
METHODS = {1: ("ret", b"\x01\x02\x03"), 2: ("none", None), 3: ("malformed", None), 4: ("ret", b"")}


def make_service(tr):
    cls = type("Svc", (S.SimpleService,), {"service_id": SID, "version_major": MAJ, "version_minor": 7})
    svc = cls(instance_id=1)
    svc.transport = tr
    calls = []

    def handler(kind, val):
        def h(msg, addr):
            calls.append((msg.method_id, addr))
            if kind == "malformed":
                raise S.MalformedMessageError("scripted")
            return val
        return h

    for mid, (kind, val) in METHODS.items():
        svc.register_method(mid, handler(kind, val))
    return svc, calls


def cfg_tokens():
    t = f"{SID} {MAJ} {len(METHODS)}"
    for mid, (kind, val) in METHODS.items():
        t += f" {mid} {kind}" + (f" {hx(val)}" if kind == "ret" else "")
    return t


def run(ctx: core.Ctx) -> core.Report:
    rng = ctx.rng
    rep = core.Report("C16")
    rep.rule = ("complete product of 10 message types x 11 return codes x {right,wrong} service x {right,wrong} interface "
                "version x {bytes, empty bytes, None, malformed, unknown} method x {unicast, multicast}, random client/session "
                "ids and payloads, via message_received and (unicast) via datagram_received on raw bytes; non-trivial = every "
                "distinct categorical combination")
    cases = []
    for mt, rc, sok, vok, meth, mc in itertools.product(gen.MSG_TYPES, gen.RET_CODES, (1, 0), (1, 0), (1, 2, 3, 4, 99), (0, 1)):
        h = {"sid": SID if sok else rng.choice([SID + 1, 0, 0xFFFF]), "mid": meth if meth != 99 else rng.choice([0, 5, 0x8001, 0xFFFF]),
             "cid": gen.u16(rng), "sess": gen.u16(rng), "iv": MAJ if vok else rng.choice([MAJ + 1, 0, 255]),
             "mt": mt, "pv": 1, "rc": rc, "payload": gen.rbytes(rng, rng.choice([0, 1, 4, 30]))}
        cases.append((h, mc, (mt, rc, sok, vok, meth, mc)))
    for _ in range(ctx.n(300, 5000)):
        h = {"sid": rng.choice([SID, SID, gen.u16(rng)]), "mid": rng.choice([1, 2, 3, 4, gen.u16(rng)]), "cid": gen.u16(rng),
             "sess": gen.u16(rng), "iv": rng.choice([MAJ, MAJ, gen.u8(rng)]), "mt": rng.choice(gen.MSG_TYPES), "pv": 1,
             "rc": rng.choice([0, 0, 0] + gen.RET_CODES), "payload": gen.rbytes(rng, rng.randrange(0, 300))}
        cases.append((h, rng.random() < 0.2, None))
    ops, impl = [], []
    cfgt = cfg_tokens()
    for h, mc, key in cases:
        rep.evaluations += 1
        tr = vloop.FakeTransport()
        svc, calls = make_service(tr)
        err = None
        try:
            if not mc and rng.random() < 0.5:
                svc.datagram_received(mk(h).build(), ADDR, False)
                rep.dist["via-datagram_received"] += 1
            else:
                svc.message_received(mk(h), ADDR, bool(mc))
                rep.dist["via-message_received"] += 1
        except Exception as e:  # noqa: BLE001
            err = type(e).__name__
        impl.append((tr.sent, err, calls))
        ops.append(f"svc.msg {cfgt} {int(mc)} {hdr_tokens(h)}")
        ops.append(f"spec.reply {cfgt} {int(mc)} {hdr_tokens(h)}")
        if key:
            rep.nontrivial.add(key)
    outs = ctx.model.run(ops)
    for i, ((h, mc, key), (sent, err, calls)) in enumerate(zip(cases, impl)):
        case = {"header": {**h, "payload": hx(h["payload"])}, "multicast": bool(mc)}
        got = f"n={len(sent)}" + "".join(" | " + hx(d) for _, d, _ in sent)
        if got != outs[2 * i]:
            rep.disagree(ops[2 * i][:200], outs[2 * i][:200], got[:200], case)
        # oracle: the reply table of the statement (Spec.reply), decoded from what was really sent
        dec = []
        for _, d, a in sent:
            try:
                m, rest = H.SOMEIPHeader.parse(d)
                dec.append(canon(m) + ("" if not rest else " +rest"))
            except Exception as e:  # noqa: BLE001
                dec.append("undecodable:" + type(e).__name__)
        gots = f"n={len(sent)}" + "".join(" | " + x for x in dec)
        if err:
            rep.violation("C16:raises", f"message_received raised {err}", case)
        elif gots != outs[2 * i + 1]:
            rep.violation("C16:reply", f"sent {gots[:200]} but the reply table says {outs[2 * i + 1][:200]}", case)
        elif any(a != ADDR for _, _, a in sent):
            rep.violation("C16:destination", "reply sent to another address than the sender", case)
        if i < 3:
            rep.sample({"op": ops[2 * i][:160], "sent": gots[:160]})
        rep.dist["replies=%d" % len(sent)] += 1
    return rep

