"""Virtual-time, manually stepped asyncio loop.

The loop is never run; the harness plays scheduler with the event alphabet of the Lean model:
  call(f, *a)  - run a library entry point "now" (as a callback would)
  run_one()    - pop the head of the ready queue and run it
  fire(seq)    - move one due timer to the tail of the ready queue
  adv(t)       - jump the clock (only when idle)
asyncio's own Handle / TimerHandle / Task / Future objects are used; only the choice of what runs next is ours.
"""
from __future__ import annotations

import asyncio
import heapq
from asyncio import events

TICKS_PER_S = 1000


class VLoop(asyncio.SelectorEventLoop):
    def __init__(self):
        super().__init__()
        self.ticks = 0
        self._vseq = 0
        self.vseq = {}  # id(handle) -> creation sequence number
        self._keep = []  # keep handles alive so ids stay unique
        self.exceptions = []  # exceptions that reached the loop's exception handler
        self.set_exception_handler(self._on_exc)

    def _on_exc(self, loop, context):
        self.exceptions.append(context)

    def time(self):
        return self.ticks / TICKS_PER_S

    dead = False

    def call_soon(self, callback, *args, context=None):
        if self.dead:  # finalisation of leftover coroutines: swallow
            h = asyncio.Handle(callback, args, self, context)
            h.cancel()
            return h
        return super().call_soon(callback, *args, context=context)

    def call_at(self, when, callback, *args, context=None):
        if self.dead:
            h = asyncio.TimerHandle(when, callback, args, self, context)
            h.cancel()
            return h
        h = super().call_at(round(when * TICKS_PER_S) / TICKS_PER_S, callback, *args, context=context)
        self.vseq[id(h)] = self._vseq
        self._vseq += 1
        self._keep.append(h)
        return h

    # --- manual scheduler
    def _enter(self):
        events._set_running_loop(self)

    def _leave(self):
        events._set_running_loop(None)

    def call(self, f, *a, **kw):
        self._enter()
        try:
            return f(*a, **kw)
        finally:
            self._leave()

    @staticmethod
    def describe(h):
        cb = h._callback
        s = getattr(cb, "__self__", None)
        if isinstance(s, asyncio.Task):
            co = s.get_coro()
            return "task:" + getattr(co, "__qualname__", repr(co))
        if isinstance(s, asyncio.Future):
            return "future:" + getattr(cb, "__name__", "?")
        return getattr(cb, "__qualname__", repr(cb))

    def ready_handles(self):
        return [h for h in self._ready if not h._cancelled]

    def ready_list(self):
        return [self.describe(h) for h in self.ready_handles()]

    def deadline(self, h):
        return round(h._when * TICKS_PER_S)

    def timers(self):
        """live timers as (deadline_ticks, seq, description), sorted"""
        return sorted((self.deadline(h), self.vseq.get(id(h), -1), self.describe(h))
                      for h in self._scheduled if not h._cancelled)

    def run_one(self):
        """run the first non-cancelled ready handle; False if none"""
        while self._ready:
            h = self._ready.popleft()
            if h._cancelled:
                continue
            self._enter()
            try:
                h._run()
            finally:
                self._leave()
            return True
        return False

    def due(self):
        return sorted((h for h in self._scheduled if not h._cancelled and self.deadline(h) <= self.ticks),
                      key=lambda h: (self.deadline(h), self.vseq.get(id(h), -1)))

    def fire_handle(self, h):
        # by identity: TimerHandle.__eq__ compares (when, callback, args), two equal timers are different handles
        for i, x in enumerate(self._scheduled):
            if x is h:
                del self._scheduled[i]
                break
        heapq.heapify(self._scheduled)
        h._scheduled = False
        self._ready.append(h)

    def fire_due(self):
        d = self.due()
        for h in d:
            self.fire_handle(h)
        return len(d)

    def settle(self, limit=100000):
        n = 0
        while n < limit and self.run_one():
            n += 1
        return n

    def iterate(self):
        """one natural _run_once iteration: all due timers, then the batch ready at its start"""
        self.fire_due()
        k = len(self.ready_handles())
        for _ in range(k):
            self.run_one()
        return k

    def idle(self):
        return not self.ready_handles() and not self.due()

    def next_deadline(self):
        live = [self.deadline(h) for h in self._scheduled if not h._cancelled]
        return min(live) if live else None

    def run_until_idle(self, limit=100000):
        n = 0
        while not self.idle() and n < limit:
            self.iterate()
            n += 1
        return n

    def advance_to(self, t):
        """jump the clock towards tick t, firing and running everything on the way (prompt loop)"""
        self.run_until_idle()
        while True:
            nd = self.next_deadline()
            if nd is None or nd > t:
                break
            self.ticks = max(self.ticks, nd)
            self.run_until_idle()
        self.ticks = max(self.ticks, t)

    def shutdown(self):
        # Finalise leftover coroutines NOW, inside this (dead) loop: otherwise their `finally` blocks would run at
        # garbage-collection time inside whatever loop is running then (a later scenario) and pollute it.
        self.dead = True
        for h in list(self._scheduled):
            h.cancel()
        self._ready.clear()
        self._scheduled.clear()
        self._enter()
        try:
            for t in list(asyncio.all_tasks(self)):
                try:
                    t.get_coro().close()
                except BaseException:  # noqa: BLE001
                    pass
        finally:
            self._leave()
        try:
            self.close()
        except Exception:  # noqa: BLE001
            pass


def new_loop() -> VLoop:
    loop = VLoop()
    asyncio.set_event_loop(loop)
    return loop


class FakeTransport:
    """records sendto calls with the virtual time"""

    def __init__(self, loop=None):
        self.loop = loop
        self.sent = []

    def sendto(self, data, addr=None):
        self.sent.append((self.loop.ticks if self.loop else 0, bytes(data), addr))

    def get_extra_info(self, name, default=None):
        if name == "sockname":
            return ("127.0.0.1", 30509)
        return default

    def close(self):
        pass
