"""A small translator from the Python source of the *decision functions* of /repo/src/someip to Lean 4 definitions
(static tie, second leg of the model-code tie; runs on every check before `lake build`).

What is translated (no import, no execution: `ast` only):
  config.Service.matches_offer / matches_find / matches_subscribe / matches_service  (whole bodies)
  sd._SessionStorage.check_received   (the reboot condition inside the try block)
  sd._SessionStorage.assign_outgoing  (wrap test, both successor tuples, the defaultdict's initial value)
  sd.ServiceDiscoveryProtocol.message_received  (the test that drops everything that is not an SD notification)
  service.SimpleService.message_received  (the chain of checks in front of the handler call with the return code each
                                           sends, the code for a malformed message, the positive-reply condition)

Supported subset: a body that is a (nested) chain of `if <cond>: return <e> | raise <Exc>(...)` [elif/else] ending in
`return <e>`; conditions / expressions built from and / or / not, (chained) comparisons == != < <= > >= in `not in`,
integer and boolean constants, + - * & | % // << >> on integers, conditional expressions, membership in tuple / list / set
literals, local single-name assignments (inlined), calls of side-effect free helpers that consist of one return
expression (inlined), names and dotted attribute paths that the per-function environment maps
to model fields.
Anything else raises `Unsupported`; the caller then emits the hand-written model function in place of the translation
and marks the function UNTRANSLATED (the correspondence check remains the tie for it; nothing is claimed statically).

The generated file is lean/SomeipModel/GenTie.lean; lean/SomeipModel/Props/GenEquiv.lean (hand-written, static) proves
each generated definition equal to the model's, for all arguments.  A change of the source changes the generated
definition; if it is no longer equal to the model the proof fails and the build breaks - a broken proof obligation.
"""
from __future__ import annotations

import ast
import os

from harness import core


class Unsupported(Exception):
    pass


def _dotted(node):
    parts = []
    while isinstance(node, ast.Attribute):
        parts.append(node.attr)
        node = node.value
    if isinstance(node, ast.Name):
        parts.append(node.id)
        return ".".join(reversed(parts))
    raise Unsupported(f"expression {ast.dump(node)[:80]}")


class Tr:
    """env: dotted python path -> (lean expression, type) with type in nat | bool | ety | natlist"""

    def __init__(self, env, helpers=None, opaque=None):
        self.env = env
        self.helpers = helpers or {}   # name -> FunctionDef of a side-effect free helper (single return expression)
        self.opaque = opaque or {}     # dotted name of a call whose RESULT is a parameter of the translated function
        self.depth = 0

    def inline(self, node):
        """call of a module-level function or of a method of the same class whose body is `return <expr>` (after an
        optional docstring): translated in place with the parameters bound to the (translated) arguments"""
        if node.keywords:
            raise Unsupported("keyword arguments in a helper call")
        name = _dotted(node.func)
        fn = self.helpers.get(name) or self.helpers.get(name.split(".")[-1] if name.startswith(("self.", "cls.")) else "")
        if fn is None:
            raise Unsupported(f"call of {name}")
        params = [a.arg for a in fn.args.args]
        if params and params[0] in ("self", "cls") and name.startswith(("self.", "cls.")):
            params = params[1:]
        body = [b for b in fn.body if not (isinstance(b, ast.Expr) and isinstance(b.value, ast.Constant))]
        if len(params) != len(node.args) or len(body) != 1 or not isinstance(body[0], ast.Return) or body[0].value is None:
            raise Unsupported(f"helper {name} is not a single return expression")
        if self.depth > 4:
            raise Unsupported("helper nesting")
        saved = self.env
        bound = {}
        for prm, arg in zip(params, node.args):
            path = None
            if isinstance(arg, (ast.Name, ast.Attribute)):
                try:
                    path = _dotted(arg)
                except Unsupported:
                    path = None
            if path is not None and path not in saved:
                # an object handed on (e.g. the message): the parameter becomes an alias for its attribute paths
                hit = False
                for k, v in saved.items():
                    if k.startswith(path + "."):
                        bound[prm + k[len(path):]] = v
                        hit = True
                if not hit:
                    raise Unsupported(f"name {path}")
            else:
                bound[prm] = self.atom(arg)
        self.env = {**{k: v for k, v in saved.items() if "." in k}, **bound}   # module-level dotted names stay visible
        self.depth += 1
        try:
            return self.atom(body[0].value)
        finally:
            self.env = saved
            self.depth -= 1

    def atom(self, node):
        if isinstance(node, ast.Constant):
            if node.value is None:
                return "none", "none"
            if node.value is True:
                return "true", "bool"
            if node.value is False:
                return "false", "bool"
            if isinstance(node.value, int):
                return str(node.value), "nat"
            raise Unsupported(f"constant {node.value!r}")
        if isinstance(node, (ast.Name, ast.Attribute)):
            path = _dotted(node)
            if path not in self.env:
                raise Unsupported(f"name {path}")
            return self.env[path]
        if isinstance(node, ast.BinOp):
            sym = {ast.Add: "+", ast.Sub: "-", ast.Mult: "*", ast.BitAnd: "&&&", ast.BitOr: "|||", ast.Mod: "%",
                   ast.FloorDiv: "/", ast.LShift: "<<<", ast.RShift: ">>>"}.get(type(node.op))
            if sym is None:
                raise Unsupported(f"operator {type(node.op).__name__}")
            a, ta = self.atom(node.left)
            b, tb = self.atom(node.right)
            if ta != "nat" or tb != "nat":
                raise Unsupported("arithmetic on non-integers")
            # Python ints are unbounded and these functions only see non-negative values; `-` is truncated in Lean:
            # a subtraction is only accepted below a guard the proof has to discharge anyway (it changes the term)
            return f"({a} {sym} {b})", "nat"
        if isinstance(node, ast.IfExp):
            c = self.cond(node.test)
            a, ta = self.atom(node.body)
            b, tb = self.atom(node.orelse)
            if ta != tb:
                raise Unsupported("conditional expression with two types")
            return f"(if {c} = true then {a} else {b})", ta
        if isinstance(node, (ast.BoolOp, ast.Compare)) or (isinstance(node, ast.UnaryOp) and isinstance(node.op, ast.Not)):
            return self.cond(node), "bool"
        if isinstance(node, ast.Call):
            try:
                cname = _dotted(node.func)
            except Unsupported:
                cname = None
            if cname in self.opaque:
                return self.opaque[cname]
            return self.inline(node)
        raise Unsupported(f"expression {ast.dump(node)[:80]}")

    def cmp1(self, op, l, r):
        (a, ta), (b, tb) = l, r
        # `x is None` / `x is not None` / `x == None` for an optional value: the environment gives the Lean Bool for
        # "x is None" (type optB)
        if isinstance(b, str) and tb == "none" and ta == "optB":
            if isinstance(op, (ast.Is, ast.Eq)):
                return a
            if isinstance(op, (ast.IsNot, ast.NotEq)):
                return f"(!{a})"
            raise Unsupported("ordering against None")
        if isinstance(op, (ast.Is, ast.IsNot)) and not (ta == "bool" and tb == "bool"):
            # identity of integers / objects is not equality (CPython caches small ints only): no static claim
            raise Unsupported("identity comparison of non-None values")
        if isinstance(op, (ast.In, ast.NotIn)) and isinstance(b, list):
            # membership in a tuple / list / set literal: a disjunction of equalities
            if any(t != ta for _e, t in b):
                raise Unsupported("membership in a literal of another type")
            c = "(" + " || ".join(f"decide ({a} = {e})" for e, _t in b) + ")" if b else "false"
            return c if isinstance(op, ast.In) else f"(!{c})"
        if isinstance(op, (ast.In, ast.NotIn)):
            if tb != "natlist" or ta != "nat":
                raise Unsupported("membership test on this type")
            c = f"decide ({a} ∈ {b})"
            return c if isinstance(op, ast.In) else f"(!{c})"
        if ta != tb:
            raise Unsupported(f"comparison of {ta} with {tb}")
        if isinstance(op, (ast.Eq, ast.Is)):
            return f"decide ({a} = {b})"
        if isinstance(op, (ast.NotEq, ast.IsNot)):
            return f"(!decide ({a} = {b}))"
        if ta != "nat":
            raise Unsupported("ordering on non-integers")
        sym = {ast.Lt: "<", ast.LtE: "≤", ast.Gt: ">", ast.GtE: "≥"}.get(type(op))
        if sym is None:
            raise Unsupported(f"operator {type(op).__name__}")
        return f"decide ({a} {sym} {b})"

    def cond(self, node):
        """python truth value of an expression -> Lean Bool"""
        if isinstance(node, ast.BoolOp):
            parts = [self.cond(v) for v in node.values]
            return "(" + (" && " if isinstance(node.op, ast.And) else " || ").join(parts) + ")"
        if isinstance(node, ast.UnaryOp) and isinstance(node.op, ast.Not):
            return f"(!{self.cond(node.operand)})"
        if isinstance(node, ast.Compare):
            def operand(n):
                if isinstance(n, (ast.Tuple, ast.List, ast.Set)):
                    return [self.atom(x) for x in n.elts], "literal"
                return self.atom(n)
            items = [operand(node.left)] + [operand(c) for c in node.comparators]
            parts = [self.cmp1(op, items[i], items[i + 1]) for i, op in enumerate(node.ops)]
            return parts[0] if len(parts) == 1 else "(" + " && ".join(parts) + ")"
        e, t = self.atom(node)
        if t == "optB":
            return f"(!{e})"   # truth value of an optional object reference: "is not None" (handles and tasks are truthy)
        if t != "bool":
            raise Unsupported("truth value of a non-boolean")
        return e

    def body(self, stmts, raises: bool):
        """if/return/raise chain -> Lean term (`Except Err Bool` when raises else `Bool`)"""
        stmts = [s for s in stmts if not (isinstance(s, ast.Expr) and isinstance(s.value, ast.Constant))]  # docstring
        if not stmts:
            raise Unsupported("control falls off the end")
        s, rest = stmts[0], stmts[1:]
        if isinstance(s, ast.Return):
            if s.value is None:
                raise Unsupported("bare return")
            v = self.cond(s.value)
            return f".ok ({v})" if raises else v
        if isinstance(s, ast.Raise):
            if not raises:
                raise Unsupported("raise in a total function")
            exc = s.exc.func if isinstance(s.exc, ast.Call) else s.exc
            name = _dotted(exc)
            err = {"ValueError": ".value", "TypeError": ".type", "KeyError": ".key", "IndexError": ".index"}.get(name)
            if err is None:
                raise Unsupported(f"exception {name}")
            return f".error {err}"
        if isinstance(s, ast.Assign) and len(s.targets) == 1 and isinstance(s.targets[0], ast.Name):
            # a local name: inlined (the translated functions have no side effects)
            saved = dict(self.env)
            self.env[s.targets[0].id] = self.atom(s.value)
            try:
                return self.body(rest, raises)
            finally:
                self.env = saved
        if isinstance(s, ast.If):
            c = self.cond(s.test)
            then = self.body(s.body, raises) if _terminates(s.body) else self.body(s.body + rest, raises)
            els = self.body(s.orelse + rest, raises) if s.orelse else self.body(rest, raises)
            return f"(if {c} = true then {then} else {els})"
        raise Unsupported(f"statement {type(s).__name__}")


def _terminates(stmts):
    if not stmts:
        return False
    last = stmts[-1]
    if isinstance(last, (ast.Return, ast.Raise)):
        return True
    if isinstance(last, ast.If) and last.orelse:
        return _terminates(last.body) and _terminates(last.orelse)
    return False


def _parse(name):
    with open(os.path.join(core.SRC, "someip", name)) as f:
        return ast.parse(f.read())


def _method(tree, cls, name):
    for n in ast.walk(tree):
        if isinstance(n, ast.ClassDef) and n.name == cls:
            for m in n.body:
                if isinstance(m, ast.FunctionDef) and m.name == name:
                    return m
    raise Unsupported(f"{cls}.{name} not found")


ETY = {"FindService": ".find", "OfferService": ".offer", "Subscribe": ".subscribe", "SubscribeAck": ".subscribeAck"}


def _entry_env(selfname, entryname):
    env = {
        f"{selfname}.service_id": ("s.sid", "nat"), f"{selfname}.instance_id": ("s.iid", "nat"),
        f"{selfname}.major_version": ("s.maj", "nat"), f"{selfname}.minor_version": ("s.min", "nat"),
        f"{selfname}.eventgroups": ("s.eventgroups", "natlist"),
        f"{entryname}.service_id": ("e.sid", "nat"), f"{entryname}.instance_id": ("e.iid", "nat"),
        f"{entryname}.major_version": ("e.maj", "nat"), f"{entryname}.sd_type": ("e.ty", "ety"),
        # property accessors of SOMEIPSDEntry (trusted mapping, see DESIGN): minver_or_counter and its low 16 bits
        f"{entryname}.service_minor_version": ("e.val", "nat"), f"{entryname}.minver_or_counter": ("e.val", "nat"),
        f"{entryname}.eventgroup_id": ("e.eventgroupId", "nat"),
    }
    for k, v in ETY.items():
        env[f"someip.header.SOMEIPSDEntryType.{k}"] = (f"EntryType{v}", "ety")
        env[f"SOMEIPSDEntryType.{k}"] = (f"EntryType{v}", "ety")
    return env


def _args(fn):
    return [a.arg for a in fn.args.args]


def _helpers(tree, cls=None):
    out = {n.name: n for n in tree.body if isinstance(n, ast.FunctionDef)}
    if cls:
        for n in ast.walk(tree):
            if isinstance(n, ast.ClassDef) and n.name == cls:
                for m in n.body:
                    if isinstance(m, ast.FunctionDef):
                        out.setdefault(m.name, m)
    return out


def gen_matches(tree, name):
    fn = _method(tree, "Service", name)
    a = _args(fn)
    if len(a) != 2:
        raise Unsupported("signature")
    return Tr(_entry_env(a[0], a[1]), _helpers(tree, "Service")).body(fn.body, raises=True)


def gen_matches_service(tree):
    fn = _method(tree, "Service", "matches_service")
    a = _args(fn)
    if len(a) != 2:
        raise Unsupported("signature")
    env = {}
    for py, lean in (("service_id", "sid"), ("instance_id", "iid"), ("major_version", "maj"), ("minor_version", "min")):
        env[f"{a[0]}.{py}"] = (f"s.{lean}", "nat")
        env[f"{a[1]}.{py}"] = (f"o.{lean}", "nat")
    return Tr(env, _helpers(tree, "Service")).body(fn.body, raises=False)


def gen_reboot_cond(tree):
    fn = _method(tree, "_SessionStorage", "check_received")
    a = _args(fn)  # self, sender, multicast, flag, session_id
    if len(a) != 5:
        raise Unsupported("signature")
    tries = [n for n in fn.body if isinstance(n, ast.Try)]
    if len(tries) != 1:
        raise Unsupported("no single try block")
    t = tries[0]
    body = t.body
    if not (body and isinstance(body[0], ast.Assign) and isinstance(body[0].targets[0], ast.Tuple)
            and len(body[0].targets[0].elts) == 2 and isinstance(body[0].value, ast.Subscript)):
        raise Unsupported("try block does not start with the lookup of the stored pair")
    of, oi = (e.id for e in body[0].targets[0].elts)
    env = {a[3]: ("flag", "bool"), a[4]: ("sid", "nat"), of: ("oldFlag", "bool"), oi: ("oldSid", "nat")}
    # handlers: KeyError -> return False; finally stores (flag, session_id): checked structurally
    if not (len(t.handlers) == 1 and _dotted(t.handlers[0].type) == "KeyError"):
        raise Unsupported("handlers")
    hret = [s for s in t.handlers[0].body if isinstance(s, ast.Return)]
    if not (hret and isinstance(hret[-1].value, ast.Constant) and hret[-1].value.value is False):
        raise Unsupported("unknown sender must give False")
    return Tr(env).body(body[1:], raises=False)


def gen_outgoing(tree):
    fn = _method(tree, "_SessionStorage", "assign_outgoing")
    ifs = [n for n in ast.walk(fn) if isinstance(n, ast.If)]
    if len(ifs) != 1:
        raise Unsupported("no single wrap test")
    node = ifs[0]
    assigns = [n for n in ast.walk(fn) if isinstance(n, ast.Assign) and isinstance(n.targets[0], ast.Tuple)
               and isinstance(n.value, ast.Subscript)]
    if len(assigns) != 1:
        raise Unsupported("lookup of the stored pair")
    fl, idn = (e.id for e in assigns[0].targets[0].elts)
    tr = Tr({fl: ("flag", "bool"), idn: ("id", "nat")})

    def tup(stmts):
        if not (len(stmts) == 1 and isinstance(stmts[0], ast.Assign) and isinstance(stmts[0].value, ast.Tuple)
                and len(stmts[0].value.elts) == 2):
            raise Unsupported("successor tuple")
        a, ta = tr.atom(stmts[0].value.elts[0])
        b, tb = tr.atom(stmts[0].value.elts[1])
        if (ta, tb) != ("bool", "nat"):
            raise Unsupported("successor tuple types")
        return f"({a}, {b})"

    ret = [n for n in ast.walk(fn) if isinstance(n, ast.Return)]
    if not (len(ret) == 1 and isinstance(ret[0].value, ast.Tuple) and [_dotted(e) for e in ret[0].value.elts] == [fl, idn]):
        raise Unsupported("returns the stored pair")
    nxt = f"(if {tr.cond(node.test)} = true then {tup(node.body)} else {tup(node.orelse)})"
    # the defaultdict's initial value
    init = _method(tree, "_SessionStorage", "__init__")
    lam = [n for n in ast.walk(init) if isinstance(n, ast.Lambda)]
    if not (len(lam) == 1 and isinstance(lam[0].body, ast.Tuple) and len(lam[0].body.elts) == 2):
        raise Unsupported("defaultdict initial value")
    a, ta = Tr({}).atom(lam[0].body.elts[0])
    b, tb = Tr({}).atom(lam[0].body.elts[1])
    if (ta, tb) != ("bool", "nat"):
        raise Unsupported("defaultdict initial value types")
    return nxt, f"({a}, {b})"


MTY = {"REQUEST": "request", "REQUEST_NO_RETURN": "requestNoReturn", "NOTIFICATION": "notification", "REQUEST_ACK": "requestAck",
       "REQUEST_NO_RETURN_ACK": "requestNoReturnAck", "NOTIFICATION_ACK": "notificationAck", "RESPONSE": "response",
       "ERROR": "error", "RESPONSE_ACK": "responseAck", "ERROR_ACK": "errorAck"}
RCODE = {"E_OK": "ok", "E_NOT_OK": "notOk", "E_UNKNOWN_SERVICE": "unknownService", "E_UNKNOWN_METHOD": "unknownMethod",
         "E_NOT_READY": "notReady", "E_NOT_REACHABLE": "notReachable", "E_TIMEOUT": "timeout",
         "E_WRONG_PROTOCOL_VERSION": "wrongProtocolVersion", "E_WRONG_INTERFACE_VERSION": "wrongInterfaceVersion",
         "E_MALFORMED_MESSAGE": "malformedMessage", "E_WRONG_MESSAGE_TYPE": "wrongMessageType"}


def _svc_env(selfname, msg, multicast):
    env = {multicast: ("multicast", "bool"), f"{msg}.service_id": ("m.sid", "nat"), f"{selfname}.service_id": ("c.serviceId", "nat"),
           f"{msg}.interface_version": ("m.iv", "nat"), f"{selfname}.version_major": ("c.versionMajor", "nat"),
           f"{msg}.message_type": ("m.mt", "mty"), f"{msg}.return_code": ("m.rc", "rc")}
    for pre in ("header.", "someip.header.", ""):
        for k, v in MTY.items():
            env[f"{pre}SOMEIPMessageType.{k}"] = (f"MsgType.{v}", "mty")
        for k, v in RCODE.items():
            env[f"{pre}SOMEIPReturnCode.{k}"] = (f"RetCode.{v}", "rc")
    return env


def _is_log(stmt):
    if not (isinstance(stmt, ast.Expr) and isinstance(stmt.value, ast.Call)):
        return False
    try:
        name = _dotted(stmt.value.func)
    except Unsupported:
        return False
    return name.startswith("self.log.") or name in ("warnings.warn", "logging.warning", "logging.info")


class SvcTr(Tr):
    """SimpleService.message_received: the chain of checks in front of the handler call.  Result type
    Option (Option RetCode): none = return silently, some (some rc) = one error reply with rc, some none = call the handler."""

    def __init__(self, env, selfname, msg):
        super().__init__(env)
        self.selfname, self.msg = selfname, msg

    def cond(self, node):
        # `method is None` / `method is not None` for the looked-up handler
        if (isinstance(node, ast.Compare) and len(node.ops) == 1 and isinstance(node.left, ast.Name)
                and self.env.get(node.left.id, (None, None))[1] == "method"
                and isinstance(node.comparators[0], ast.Constant) and node.comparators[0].value is None):
            if isinstance(node.ops[0], (ast.Is, ast.Eq)):
                return "(!known)"
            if isinstance(node.ops[0], (ast.IsNot, ast.NotEq)):
                return "known"
        if isinstance(node, ast.UnaryOp) and isinstance(node.op, ast.Not) and isinstance(node.operand, ast.Name) \
                and self.env.get(node.operand.id, (None, None))[1] == "method":
            return "(!known)"
        return super().cond(node)

    def terminal(self, stmts):
        stmts = [x for x in stmts if not _is_log(x)]
        if not stmts or not isinstance(stmts[-1], ast.Return) or stmts[-1].value is not None:
            raise Unsupported("check block does not end in a bare return")
        body = stmts[:-1]
        if not body:
            return "none"
        if len(body) == 1 and isinstance(body[0], ast.Expr) and isinstance(body[0].value, ast.Call):
            c = body[0].value
            if _dotted(c.func) == f"{self.selfname}.send_error_response" and len(c.args) == 3 and not c.keywords \
                    and _dotted(c.args[0]) == self.msg:
                e, t = self.atom(c.args[2])
                if t != "rc":
                    raise Unsupported("error reply without a return code constant")
                return f"some (some {e})"
        raise Unsupported("check block does something else than one error reply")

    def chain(self, stmts):
        stmts = [x for x in stmts if not _is_log(x) and not (isinstance(x, ast.Expr) and isinstance(x.value, ast.Constant))]
        if not stmts:
            raise Unsupported("no handler call")
        s, rest = stmts[0], stmts[1:]
        if isinstance(s, ast.Try):
            return "some none"
        if isinstance(s, ast.Assign) and len(s.targets) == 1 and isinstance(s.targets[0], ast.Name):
            v = s.value
            if (isinstance(v, ast.Call) and _dotted(v.func) == f"{self.selfname}.methods.get" and len(v.args) == 1
                    and _dotted(v.args[0]) == f"{self.msg}.method_id"):
                self.env[s.targets[0].id] = ("<handler>", "method")
                return self.chain(rest)
            self.env[s.targets[0].id] = self.atom(v)
            return self.chain(rest)
        if isinstance(s, ast.If) and not s.orelse:
            return f"(if {self.cond(s.test)} = true then {self.terminal(s.body)} else {self.chain(rest)})"
        raise Unsupported(f"statement {type(s).__name__} in the check chain")


def gen_svc(tree):
    fn = _method(tree, "SimpleService", "message_received")
    a = _args(fn)
    if len(a) != 4:
        raise Unsupported("signature")
    tr = SvcTr(_svc_env(a[0], a[1], a[3]), a[0], a[1])
    pre = tr.chain(fn.body)
    tries = [n for n in fn.body if isinstance(n, ast.Try)]
    if len(tries) != 1:
        raise Unsupported("handler call")
    t = tries[0]
    # try: response = method(msg, addr)   except MalformedMessageError: one error reply; return
    if not (len(t.body) == 1 and isinstance(t.body[0], ast.Assign) and isinstance(t.body[0].value, ast.Call)
            and isinstance(t.body[0].targets[0], ast.Name) and len(t.handlers) == 1 and not t.orelse and not t.finalbody):
        raise Unsupported("handler call shape")
    resp = t.body[0].targets[0].id
    if _dotted(t.handlers[0].type).split(".")[-1] != "MalformedMessageError":
        raise Unsupported("handler exception")
    mal = tr.terminal(t.handlers[0].body)
    if not mal.startswith("some (some "):
        raise Unsupported("malformed reply")
    malcode = mal[len("some (some "):-1]
    after = [x for x in fn.body[fn.body.index(t) + 1:] if not _is_log(x)]
    if not (len(after) == 1 and isinstance(after[0], ast.If) and not after[0].orelse and len(after[0].body) == 1):
        raise Unsupported("positive reply shape")
    call = after[0].body[0]
    if not (isinstance(call, ast.Expr) and isinstance(call.value, ast.Call)
            and _dotted(call.value.func) == f"{a[0]}.send_positive_response"):
        raise Unsupported("positive reply call")
    kw = {k.arg: k.value for k in call.value.keywords}
    if not (len(call.value.args) == 2 and _dotted(call.value.args[0]) == a[1] and set(kw) == {"payload"}
            and isinstance(kw["payload"], ast.Name) and kw["payload"].id == resp):
        raise Unsupported("positive reply arguments")

    class P(SvcTr):
        def cond(self, node):
            if (isinstance(node, ast.Compare) and len(node.ops) == 1 and isinstance(node.left, ast.Name) and node.left.id == resp
                    and isinstance(node.comparators[0], ast.Constant) and node.comparators[0].value is None):
                return "hasResponse" if isinstance(node.ops[0], (ast.IsNot, ast.NotEq)) else "(!hasResponse)"
            return super().cond(node)

    pos = P(_svc_env(a[0], a[1], a[3]), a[0], a[1]).cond(after[0].test)
    return pre, malcode, pos


def gen_sd_filter(tree):
    """ServiceDiscoveryProtocol.message_received: the test that drops everything that is not an SD notification (the first
    statement: `if <cond>: log; return`).  Result: Bool, true = dropped."""
    fn = _method(tree, "ServiceDiscoveryProtocol", "message_received")
    a = _args(fn)
    if len(a) != 4:
        raise Unsupported("signature")
    msg = a[1]
    env = {f"{msg}.service_id": ("h.sid", "nat"), f"{msg}.method_id": ("h.mid", "nat"), f"{msg}.interface_version": ("h.iv", "nat"),
           f"{msg}.message_type": ("h.mt", "mty"), f"{msg}.return_code": ("h.rc", "rc")}
    for pre in ("someip.header.", "header.", ""):
        env[f"{pre}SD_SERVICE"] = ("SD_SERVICE", "nat")
        env[f"{pre}SD_METHOD"] = ("SD_METHOD", "nat")
        env[f"{pre}SD_INTERFACE_VERSION"] = ("SD_INTERFACE_VERSION", "nat")
        for k, v in MTY.items():
            env[f"{pre}SOMEIPMessageType.{k}"] = (f"MsgType.{v}", "mty")
        for k, v in RCODE.items():
            env[f"{pre}SOMEIPReturnCode.{k}"] = (f"RetCode.{v}", "rc")
    body = [x for x in fn.body if not _is_log(x) and not (isinstance(x, ast.Expr) and isinstance(x.value, ast.Constant))]
    helpers = _helpers(tree, "ServiceDiscoveryProtocol")
    tr = Tr(env, helpers)
    if not body:
        raise Unsupported("empty body")
    first = body[0]
    # `flag = <cond>` followed by `if not flag: return` (a named condition) or directly `if <cond>: ...; return`
    if isinstance(first, ast.Assign) and len(first.targets) == 1 and isinstance(first.targets[0], ast.Name) and len(body) > 1:
        tr.env[first.targets[0].id] = tr.atom(first.value)
        first = body[1]
    if not (isinstance(first, ast.If) and not first.orelse):
        raise Unsupported("the method does not start with the non-SD test")
    blk = [x for x in first.body if not _is_log(x)]
    if not (len(blk) == 1 and isinstance(blk[0], ast.Return) and blk[0].value is None):
        raise Unsupported("the non-SD branch does something else than return")
    return tr.cond(first.test)



def _leading_guards(stmts):
    """the `if <cond>: return [False]` statements at the start of a body (docstring and comments skipped): the conditions
    under which the method does nothing; stops at the first other statement"""
    conds = []
    rest = [b for b in stmts if not (isinstance(b, ast.Expr) and isinstance(b.value, ast.Constant))]
    while rest and isinstance(rest[0], ast.If) and not rest[0].orelse:
        body = [b for b in rest[0].body if not _is_log(b)]
        if len(body) == 1 and isinstance(body[0], ast.Return) and (
                body[0].value is None or (isinstance(body[0].value, ast.Constant) and body[0].value.value is False)):
            conds.append(rest[0].test)
            rest = rest[1:]
        else:
            break
    return conds, rest


def gen_offer_suppressed(tree):
    """ServiceInstance._send_offer(remote, stop): when is nothing queued?"""
    fn = _method(tree, "ServiceInstance", "_send_offer")
    a = _args(fn)   # self, remote, stop
    if len(a) != 3:
        raise Unsupported("signature")
    conds, rest = _leading_guards(fn.body)
    if not conds or not rest:
        raise Unsupported("no leading guards")
    env = {f"{a[0]}._task": ("task.isNone", "optB"), a[1]: ("remote.isNone", "optB"),
           f"{a[0]}._can_answer_offers": ("canAnswer", "bool"), a[2]: ("stop", "bool")}
    tr = Tr(env)
    return "(" + " || ".join(tr.cond(c) for c in conds) + ")"


def gen_subscribe_refused(tree):
    """ServiceInstance.handle_subscribe: the leading `return False` guards (m = what matches_subscribe returned)"""
    fn = _method(tree, "ServiceInstance", "handle_subscribe")
    a = _args(fn)
    conds, rest = _leading_guards(fn.body)
    if not conds or not rest:
        raise Unsupported("no leading guards")
    env = {f"{a[0]}._task": ("task.isNone", "optB")}
    tr = Tr(env, opaque={f"{a[0]}.service.matches_subscribe": ("m", "bool")})
    return "(" + " || ".join(tr.cond(c) for c in conds) + ")"


def gen_inst_matches_find(tree):
    """ServiceInstance.matches_find(entry, addr) as a function of _can_answer_offers and of service.matches_find(entry)"""
    fn = _method(tree, "ServiceInstance", "matches_find")
    a = _args(fn)
    env = {f"{a[0]}._can_answer_offers": ("canAnswer", "bool")}
    body = [b for b in fn.body if not _is_log(b)]
    # log calls inside the guards are dropped as well
    def strip(stmts):
        out = []
        for b in stmts:
            if _is_log(b):
                continue
            if isinstance(b, ast.If):
                b = ast.If(test=b.test, body=strip(b.body), orelse=strip(b.orelse))
            out.append(b)
        return out
    return Tr(env, opaque={f"{a[0]}.service.matches_find": ("m", "bool")}).body(strip(body), raises=False)


def gen_queue_window(tree):
    """ServiceAnnouncer.queue_send: (sent at once?, new collection window?)"""
    fn = _method(tree, "ServiceAnnouncer", "queue_send")
    a = _args(fn)
    body = [b for b in fn.body if not (isinstance(b, ast.Expr) and isinstance(b.value, ast.Constant))]
    if not (len(body) >= 3 and isinstance(body[0], ast.If) and not body[0].orelse and _terminates(body[0].body)
            and isinstance(body[1], ast.Assign) and isinstance(body[1].targets[0], ast.Name) and isinstance(body[2], ast.If)):
        raise Unsupported("shape of queue_send")
    q = body[1].targets[0].id
    env = {f"{a[0]}.timings.SEND_COLLECTION_TIMEOUT": ("coll", "nat"), q: ("qNone", "optB"), f"{q}.done": ("done", "bool")}
    tr = Tr(env)
    return tr.cond(body[0].test), tr.cond(body[2].test)

def _amethod(tree, cls, name):
    for n in ast.walk(tree):
        if isinstance(n, ast.ClassDef) and n.name == cls:
            for m in n.body:
                if isinstance(m, (ast.FunctionDef, ast.AsyncFunctionDef)) and m.name == name:
                    return m
    raise Unsupported(f"{cls}.{name} not found")


class TrPow(Tr):
    """Tr + integer power with a constant base"""
    def atom(self, node):
        if isinstance(node, ast.BinOp) and isinstance(node.op, ast.Pow):
            a, ta = self.atom(node.left)
            b, tb = self.atom(node.right)
            if ta != "nat" or tb != "nat":
                raise Unsupported("power of non-integers")
            return f"({a} ^ {b})", "nat"
        return super().atom(node)


def _is_sleep(call):
    try:
        return isinstance(call, ast.Call) and _dotted(call.func) in ("asyncio.sleep",) and len(call.args) == 1 and not call.keywords
    except Unsupported:
        return False


def _sleeps(stmts, ctx=("top", None)):
    """(context, loop variable / bound, argument expression) of every `await asyncio.sleep(E)`, in source order;
    context: top | for (over range(X)) | while"""
    out = []
    for st in stmts:
        if isinstance(st, ast.Expr) and isinstance(st.value, ast.Await) and _is_sleep(st.value.value):
            out.append((ctx, st.value.value.args[0]))
        elif isinstance(st, ast.For):
            it = st.iter
            if not (isinstance(it, ast.Call) and isinstance(it.func, ast.Name) and it.func.id == "range" and len(it.args) == 1
                    and isinstance(st.target, ast.Name)):
                if _sleeps(st.body, ("for", ("_", None))):
                    raise Unsupported("a sleep inside a for loop that is not `for i in range(X)`")
                continue
            out += _sleeps(st.body, ("for", (st.target.id, it.args[0])))
        elif isinstance(st, ast.While):
            out += _sleeps(st.body, ("while", None))
        elif isinstance(st, ast.Try):
            out += _sleeps(st.body, ctx)
            for h in st.handlers:
                out += _sleeps(h.body, ctx)
            out += _sleeps(st.finalbody, ctx)
        elif isinstance(st, ast.If):
            out += _sleeps(st.body, ctx) + _sleeps(st.orelse, ctx)
        elif isinstance(st, (ast.With, ast.AsyncWith)):
            out += _sleeps(st.body, ctx)
    return out


def _uniform_args(e):
    if not (isinstance(e, ast.Call) and _dotted(e.func) == "random.uniform" and len(e.args) == 2 and not e.keywords):
        raise Unsupported("initial delay is not random.uniform(a, b)")
    return e.args


def _timings_env(selfname):
    t = f"{selfname}.timings."
    return {t + "INITIAL_DELAY_MIN": ("lo", "nat"), t + "INITIAL_DELAY_MAX": ("hi", "nat"),
            t + "REPETITIONS_MAX": ("rmax", "nat"), t + "REPETITIONS_BASE_DELAY": ("base", "nat"),
            t + "CYCLIC_OFFER_DELAY": ("cyc", "nat"), t + "SUBSCRIBE_REFRESH_INTERVAL": ("refresh", "nat"),
            t + "REQUEST_RESPONSE_DELAY_MIN": ("lo", "nat"), t + "REQUEST_RESPONSE_DELAY_MAX": ("hi", "nat"),
            t + "SEND_COLLECTION_TIMEOUT": ("coll", "nat")}


def gen_offer_delays(tree):
    """ServiceInstance._offer_task: (initial window, repetition count, repetition delay, cyclic sleep)"""
    fn = _amethod(tree, "ServiceInstance", "_offer_task")
    me = _args(fn)[0]
    sl = _sleeps(fn.body)
    if [c[0][0] for c in sl] != ["top", "for", "while"]:
        raise Unsupported(f"sleeps of _offer_task: {[c[0][0] for c in sl]}")
    env = _timings_env(me)
    lo, hi = _uniform_args(sl[0][1])
    tr = TrPow(env)
    win = f"({tr.atom(lo)[0]}, {tr.atom(hi)[0]})"
    var, bound = sl[1][0][1]
    cnt = tr.atom(bound)[0]
    rep = TrPow({**env, var: ("i", "nat")}).atom(sl[1][1])[0]
    cyc = tr.atom(sl[2][1])[0]
    return win, cnt, rep, cyc


def gen_find_delays(tree):
    """ServiceDiscover.send_find_services: (initial window, repetition count, repetition delay)"""
    fn = _amethod(tree, "ServiceDiscover", "send_find_services")
    me = _args(fn)[0]
    sl = _sleeps(fn.body)
    if [c[0][0] for c in sl] != ["top", "for"]:
        raise Unsupported(f"sleeps of send_find_services: {[c[0][0] for c in sl]}")
    env = _timings_env(me)
    lo, hi = _uniform_args(sl[0][1])
    tr = TrPow(env)
    win = f"({tr.atom(lo)[0]}, {tr.atom(hi)[0]})"
    var, bound = sl[1][0][1]
    cnt = tr.atom(bound)[0]
    rep = TrPow({**env, var: ("i", "nat")}).atom(sl[1][1])[0]
    return win, cnt, rep


def gen_subscribe_sleep(tree):
    fn = _amethod(tree, "ServiceSubscriber", "_subscribe")
    me = _args(fn)[0]
    sl = _sleeps(fn.body)
    if [c[0][0] for c in sl] != ["while"]:
        raise Unsupported(f"sleeps of _subscribe: {[c[0][0] for c in sl]}")
    return TrPow(_timings_env(me)).atom(sl[0][1])[0]


def _call_later_args(stmts):
    out = []
    for node in ast.walk(ast.Module(body=list(stmts), type_ignores=[])):
        if isinstance(node, ast.Call) and isinstance(node.func, ast.Attribute) and node.func.attr == "call_later" and node.args:
            out.append(node)
    return out


def gen_store_ttl(tree):
    """TimedStore.refresh: (is a handle armed?, its delay in seconds)"""
    fn = _method(tree, "TimedStore", "refresh")
    a = _args(fn)
    ttl = a[1]
    forever = [n.value.value for n in tree.body if isinstance(n, ast.Assign) and len(n.targets) == 1
               and isinstance(n.targets[0], ast.Name) and n.targets[0].id == "TTL_FOREVER"
               and isinstance(n.value, ast.Constant) and isinstance(n.value.value, int)]
    if len(forever) != 1:
        raise Unsupported("TTL_FOREVER is not a module-level integer constant")
    env = {ttl: ("ttl", "nat"), "TTL_FOREVER": (str(forever[0]), "nat")}
    guard = None
    delay = None
    for st in fn.body:
        if isinstance(st, ast.If) and not st.orelse:
            calls = _call_later_args(st.body)
            if len(calls) == 1:
                guard = Tr(env).cond(st.test)
                delay = Tr(env).atom(calls[0].args[0])[0]
    if guard is None:
        raise Unsupported("no `if <ttl test>: ... call_later(ttl, ...)` in TimedStore.refresh")
    return guard, delay


def gen_collect_delay(tree):
    """ServiceAnnouncer.queue_send -> SendCollector(timeout, ...) -> call_later(timeout, ...)"""
    fn = _method(tree, "ServiceAnnouncer", "queue_send")
    me = _args(fn)[0]
    ctor = [n for n in ast.walk(fn) if isinstance(n, ast.Call) and isinstance(n.func, ast.Name) and n.func.id == "SendCollector"]
    if len(ctor) != 1 or not ctor[0].args:
        raise Unsupported("no single SendCollector(timeout, ...) in queue_send")
    init = _method(tree, "SendCollector", "__init__")
    ia = _args(init)
    calls = _call_later_args(init.body)
    if len(calls) != 1:
        raise Unsupported("SendCollector.__init__ does not arm exactly one handle")
    passed = Tr(_timings_env(me)).atom(ctor[0].args[0])[0]
    inner = Tr({ia[1]: (passed, "nat")}).atom(calls[0].args[0])[0]
    return inner


def gen_answer_window(tree):
    """ServiceAnnouncer.handle_findservice: the window the deferred answer's delay is drawn from, and that the drawn value
    is what call_later gets"""
    fn = _method(tree, "ServiceAnnouncer", "handle_findservice")
    me = _args(fn)[0]
    uni = [n for n in ast.walk(fn) if isinstance(n, ast.Assign) and isinstance(n.value, ast.Call)
           and isinstance(n.targets[0], ast.Name) and _safe_dotted(n.value.func) == "random.uniform"]
    if len(uni) != 1:
        raise Unsupported("no single `delay = random.uniform(a, b)` in handle_findservice")
    var = uni[0].targets[0].id
    lo, hi = _uniform_args(uni[0].value)
    tr = Tr(_timings_env(me))
    calls = _call_later_args(fn.body)
    if len(calls) != 1 or not (isinstance(calls[0].args[0], ast.Name) and calls[0].args[0].id == var):
        raise Unsupported("the drawn delay is not what call_later gets")
    return f"({tr.atom(lo)[0]}, {tr.atom(hi)[0]})"


def _safe_dotted(n):
    try:
        return _dotted(n)
    except Unsupported:
        return None


ITEMS = [
    # (lean name, signature, fallback = the model's own function, generator)
    ("matchesOffer", "(s : Service) (e : SDEntry) : Except Err Bool", "s.matchesOffer e", lambda c, s: gen_matches(c, "matches_offer")),
    ("matchesFind", "(s : Service) (e : SDEntry) : Except Err Bool", "s.matchesFind e", lambda c, s: gen_matches(c, "matches_find")),
    ("matchesSubscribe", "(s : Service) (e : SDEntry) : Except Err Bool", "s.matchesSubscribe e",
     lambda c, s: gen_matches(c, "matches_subscribe")),
    ("matchesService", "(s o : Service) : Bool", "s.matchesService o", lambda c, s: gen_matches_service(c)),
    ("rebootCond", "(flag oldFlag : Bool) (oldSid sid : Nat) : Bool",
     "flag && (!oldFlag || (decide (oldSid > 0) && decide (oldSid ≥ sid)))", lambda c, s: gen_reboot_cond(s)),
    ("nextOutgoing", "(flag : Bool) (id : Nat) : Bool × Nat", "if id ≥ 0xFFFF then (false, 1) else (flag, id + 1)",
     lambda c, s: gen_outgoing(s)[0]),
    ("outgoingDefault", ": Bool × Nat", "(true, 1)", lambda c, s: gen_outgoing(s)[1]),
    ("sdForeign", "(h : Header) : Bool",
     "decide (h.sid ≠ SD_SERVICE ∨ h.mid ≠ SD_METHOD ∨ h.iv ≠ SD_INTERFACE_VERSION ∨ h.rc ≠ .ok ∨ h.mt ≠ .notification)",
     lambda c, s: gen_sd_filter(s)),
    ("svcPrecheck", "(c : SvcCfg) (m : Header) (multicast known : Bool) : Option (Option RetCode)",
     "if multicast then none else if m.sid ≠ c.serviceId then some (some .unknownService) else if m.iv ≠ c.versionMajor then "
     "some (some .wrongInterfaceVersion) else if !known then some (some .unknownMethod) else if m.mt ≠ .request ∧ m.mt ≠ .requestNoReturn "
     "then some (some .wrongMessageType) else if m.rc ≠ .ok then some (some .wrongMessageType) else some none",
     lambda c, s: gen_svc(_parse("service.py"))[0]),
    ("svcMalformedCode", ": RetCode", ".malformedMessage", lambda c, s: gen_svc(_parse("service.py"))[1]),
    ("svcPositive", "(m : Header) (hasResponse : Bool) : Bool", "hasResponse && decide (m.mt = .request)",
     lambda c, s: gen_svc(_parse("service.py"))[2]),
    # guards of the stateful methods: when does the method do nothing / which branch does it take
    ("offerSuppressed", "(task remote : Option Nat) (canAnswer stop : Bool) : Bool",
     "!stop && (task.isNone || (remote.isSome && !canAnswer))", lambda c, s: gen_offer_suppressed(s)),
    ("subscribeRefused", "(task : Option Nat) (m : Bool) : Bool", "task.isNone || !m", lambda c, s: gen_subscribe_refused(s)),
    ("instMatchesFind", "(canAnswer m : Bool) : Bool", "canAnswer && m", lambda c, s: gen_inst_matches_find(s)),
    ("queueImmediate", "(coll : Nat) : Bool", "decide (coll = 0)", lambda c, s: gen_queue_window(s)[0]),
    ("queueNewWindow", "(qNone done : Bool) : Bool", "qNone || done", lambda c, s: gen_queue_window(s)[1]),
    # delay expressions: arguments of asyncio.sleep / call_later / random.uniform behind the timing clauses
    ("offerInitialWindow", "(lo hi : Nat) : Nat × Nat", "(lo, hi)", lambda c, s: gen_offer_delays(s)[0]),
    ("offerRepCount", "(rmax : Nat) : Nat", "rmax", lambda c, s: gen_offer_delays(s)[1]),
    ("offerRepDelay", "(i base : Nat) : Nat", "2 ^ i * base", lambda c, s: gen_offer_delays(s)[2]),
    ("offerCyclicSleep", "(cyc : Nat) : Nat", "cyc", lambda c, s: gen_offer_delays(s)[3]),
    ("findInitialWindow", "(lo hi : Nat) : Nat × Nat", "(lo, hi)", lambda c, s: gen_find_delays(s)[0]),
    ("findRepCount", "(rmax : Nat) : Nat", "rmax", lambda c, s: gen_find_delays(s)[1]),
    ("findRepDelay", "(i base : Nat) : Nat", "2 ^ i * base", lambda c, s: gen_find_delays(s)[2]),
    ("subscribeSleep", "(refresh : Nat) : Nat", "refresh", lambda c, s: gen_subscribe_sleep(s)),
    ("storeArms", "(ttl : Nat) : Bool", "!decide (ttl = 16777215)", lambda c, s: gen_store_ttl(s)[0]),
    ("storeTtlDelay", "(ttl : Nat) : Nat", "ttl", lambda c, s: gen_store_ttl(s)[1]),
    ("collectDelay", "(coll : Nat) : Nat", "coll", lambda c, s: gen_collect_delay(s)),
    ("answerWindow", "(lo hi : Nat) : Nat × Nat", "(lo, hi)", lambda c, s: gen_answer_window(s)),
]


def generate():
    """returns (lean text, {name: 'translated' | 'UNTRANSLATED: reason'})"""
    status = {}
    try:
        cfg, sd = _parse("config.py"), _parse("sd.py")
    except (OSError, SyntaxError) as exc:
        cfg = sd = None
        for name, *_ in ITEMS:
            status[name] = f"UNTRANSLATED: source unreadable ({exc})"
    out = ["/- GENERATED on every run by harness/pytolean.py from /repo/src/someip/{config,sd}.py - do not edit.",
           "   Each definition is the translation of the named Python function body (or of the named expression);",
           "   Props/GenEquiv.lean proves it equal to the hand-written model for all arguments. -/",
           "import SomeipModel.Model.Config", "import SomeipModel.Model.Session", "import SomeipModel.Model.Service",
           "namespace Someip.Gen", ""]
    for name, sig, fallback, gen in ITEMS:
        term = None
        if name not in status:
            try:
                term = gen(cfg, sd)
                status[name] = "translated"
            except Unsupported as exc:
                status[name] = f"UNTRANSLATED: {exc}"
            except Exception as exc:  # noqa: BLE001  (malformed / unexpected AST shape)
                status[name] = f"UNTRANSLATED: {type(exc).__name__}: {exc}"
        if term is None:
            out.append(f"-- {status[name]} (the model's own definition stands in; only the correspondence check ties it)")
            term = fallback
        out.append(f"def {name} {sig} :=\n  {term}\n")
    out.append("end Someip.Gen")
    return "\n".join(out) + "\n", status


if __name__ == "__main__":
    text, st = generate()
    print(text)
    print(st)
