"""Scenario engine for the stateful properties: seeded generation of event lists (inputs + scheduler events) that are
executed on the real stack while they are generated (steering reads the real loop), then replayed on the Lean model
and compared step by step."""
from __future__ import annotations

import re

import ipaddress
import random

import someip.config as C
import someip.header as H

from harness import mutate, sdio, stackdrv as SDV
from harness.gen import hx

SERVICES = [(0x1111, 1, 1, 1), (0x1111, 2, 1, 1), (0x2222, 1, 1, 7)]
FILTERS = [C.Service(0x1111), C.Service(0x1111, 1), C.Service(0x1111, 0xFFFF, 1, 1), C.Service(0x2222), C.Service(0x2222, 1, 1, 7),
           C.Service(0x3333)]
TTLS = [1, 2, 3, 0xFFFFFF]
# filters reserved for auto-subscribe listeners (equal to none of FILTERS)
AUTO_FILTERS = [C.Service(0x1111, 0xFFFF, 1), C.Service(0x2222, 0xFFFF, 1)]
# eventgroups a client requests: IPv4 / IPv6 local endpoints, UDP / TCP - two pairs share one local address and port and
# differ in the transport protocol only (a UDP and a TCP socket bound to the same port)
CLIENT_EGS = [C.Eventgroup(0x1111, 1, 1, 5, ("10.0.0.9", 4000), H.L4Protocols.UDP),
              C.Eventgroup(0x1111, 1, 1, 6, ("fe80::9", 4001, 0, 0), H.L4Protocols.TCP),
              C.Eventgroup(0x2222, 1, 1, 5, ("10.0.0.9", 4002), H.L4Protocols.UDP),
              C.Eventgroup(0x1111, 1, 1, 7, ("10.0.0.9", 4000), H.L4Protocols.TCP),
              C.Eventgroup(0x2222, 1, 1, 6, ("fe80::9", 4001, 0, 0), H.L4Protocols.UDP)]


def sd_bytes(entries, session_id, reboot, unicast=True):
    m = H.SOMEIPSDHeader(entries=tuple(entries), flag_reboot=reboot, flag_unicast=unicast).assign_option_indexes()
    return mutate.wrap_sd(bytes(m.build()), session_id=session_id)


def endpoint(n, port=5000, proto=H.L4Protocols.UDP):
    return H.IPv4EndpointOption(address=ipaddress.IPv4Address("10.0.0.%d" % n), l4proto=proto, port=port)


class Peer:
    """a remote SD endpoint as the generator sees it: per-channel session counters"""

    def __init__(self, n):
        self.n = n
        self.sess = {False: (True, 0), True: (True, 0)}  # channel -> (flag, last id)

    def next(self, mc, reboot=False):
        flag, sid = self.sess[mc]
        if reboot:
            flag, sid = True, 0
        sid += 1
        if sid > 0xFFFF:
            flag, sid = False, 1
        self.sess[mc] = (flag, sid)
        return flag, sid

    def restart(self):
        self.sess = {False: (True, 0), True: (True, 0)}


class Recorder:
    """what the oracles get: the input history and the implementation's observable outputs with idle markers"""

    def __init__(self):
        self.items = []  # ("in", t, info) | ("out", t, text) | ("idle", t)

    def inp(self, t, info):
        self.items.append(("in", t, info))

    def outs(self, texts):
        for x in texts:
            t, rest = x.split(" ", 1)
            self.items.append(("out", int(t), rest))

    def idle(self, t):
        if not self.items or self.items[-1] != ("idle", t):
            self.items.append(("idle", t))


class Scenario:
    def __init__(self, rng, tm: SDV.TimingsSpec, services, weights, nsteps=60, adversarial=True, listeners=3, peers=3):
        self.rng, self.tm, self.services, self.w = rng, tm, services, weights
        self.nsteps, self.adversarial = nsteps, adversarial
        self.peers = [Peer(i) for i in range(1, peers + 1)]
        self.rec = Recorder()
        self.registered = set()  # (filter index | 'all', lid)
        self.subscribed = []  # (eg, dest)
        self.announced = set()
        self.nlisteners = listeners
        self.running = False
        self.events = []
        self.ttls = TTLS
        self.sub_counts = [1, 1, 2]
        self.fav_subs = None
        self.auto_eg = {}
        self.shared_ep = False
        self.lost = False

    # ---------------- inputs
    def in_offer(self, impl, kind="offer"):
        rng = self.rng
        p = rng.choice(self.peers)
        mc = rng.random() < 0.6
        n = rng.choice([1, 1, 1, 2])
        entries, info = [], []
        for _ in range(n):
            sid, iid, maj, mi = rng.choice(SERVICES)
            ttl = 0 if (kind == "stop" or rng.random() < 0.25) else rng.choice(self.ttls)
            # the options of an offer are not part of the identity of the service: the same service is offered, refreshed
            # and withdrawn with varying endpoint / configuration options (a separate deterministic stream of choices, so
            # that the main stream of the scenario is what it was before options were added; found missing by the
            # mutation sweep: `compare=False` of Service.options_1 flipped)
            orng = random.Random(len(self.rec.items) * 7919 + p.n * 131 + sid)
            o1 = () if orng.random() < 0.4 else (endpoint(p.n, 30000 + orng.randrange(2)),)
            o2 = (H.SOMEIPSDConfigOption(configs=(("k", "v%d" % orng.randrange(2)),)),) if orng.random() < 0.2 else ()
            entries.append(C.Service(sid, iid, maj, mi, options_1=o1, options_2=o2).create_offer_entry(ttl))
            info.append(("offer", (sid, iid, maj, mi), ttl))
        reboot = kind == "reboot" or rng.random() < 0.08
        if kind == "reboot" and rng.random() < 0.4:
            entries, info = [], []
        if reboot:
            p.restart()
        flag, sess = p.next(mc)
        uni = rng.random() < 0.93
        self.rec.inp(impl.loop.ticks, ("dgram", p.n, mc, flag, sess, uni, info))
        return f"in dgram {p.n} {int(mc)} {hx(sd_bytes(entries, sess, flag, uni))}"

    def in_subscribe(self, impl, kind="sub"):
        rng = self.rng
        if self.fav_subs is None:
            # a small alphabet of subscriptions per scenario so that refreshes / stops of the SAME key are frequent
            self.fav_subs = [(rng.choice(self.peers), rng.choice(SERVICES)[:3], rng.choice([5, 5, 6]), rng.choice([0, 0, 1, 15]), 1)
                             for _ in range(rng.choice([1, 2, 3]))]
            # in some scenarios the favourite subscriptions name ONE endpoint whoever sends them: equal subscription keys
            # held by several source addresses (a relay / NAT situation; found missing by the seeded change m17)
            self.shared_ep = rng.random() < 0.4
        p = rng.choice(self.peers)
        fav = None
        if rng.random() < 0.75:
            fav = rng.choice(self.fav_subs)
            if not (self.shared_ep and rng.random() < 0.5):
                p = fav[0]
        mc = rng.random() < 0.12
        entries, info = [], []
        for j in range(rng.choice(self.sub_counts)):
            if fav is not None and j == 0:
                _p, (sid, iid, maj), egid, cnt, neps = fav
            else:
                sid, iid, maj, _mi = rng.choice(SERVICES)
                egid = rng.choice([5, 5, 6, 9])
                cnt = rng.choice([0, 0, 0, 1, 15])
                neps = rng.choice([1, 1, 1, 1, 0, 2])
            ttl = 0 if (kind == "stopsub" or rng.random() < 0.25) else rng.choice(self.ttls)
            ep_host = 9 if (self.shared_ep and fav is not None and j == 0) else p.n
            opts = tuple(endpoint(ep_host, 5000 + k) for k in range(neps))
            if rng.random() < 0.15:
                opts += (H.SOMEIPSDConfigOption(configs=(("a", "b"),)),)
            e = H.SOMEIPSDEntry(sd_type=H.SOMEIPSDEntryType.Subscribe, service_id=sid, instance_id=iid, major_version=maj, ttl=ttl,
                                minver_or_counter=(cnt << 16) | egid, options_1=opts)
            entries.append(e)
            info.append(("subscribe", (sid, iid, maj), egid, cnt, ttl, tuple(sorted(sdio.opt_tok(o) for o in opts if isinstance(o, H.EndpointOption)))))
        reboot = kind == "subreboot" or rng.random() < 0.08
        if reboot:
            p.restart()
        flag, sess = p.next(mc)
        self.rec.inp(impl.loop.ticks, ("dgram", p.n, mc, flag, sess, True, info))
        return f"in dgram {p.n} {int(mc)} {hx(sd_bytes(entries, sess, flag))}"

    def in_find(self, impl):
        rng = self.rng
        p = rng.choice(self.peers)
        mc = rng.random() < 0.5
        sid, iid, maj, mi = rng.choice(getattr(self, "find_services", SERVICES))
        f = C.Service(sid, rng.choice([iid, 0xFFFF, 9]), rng.choice([maj, 0xFF]), rng.choice([mi, 0xFFFFFFFF, 3]))
        flag, sess = p.next(mc)
        self.rec.inp(impl.loop.ticks, ("dgram", p.n, mc, flag, sess, True, [("find", (f.service_id, f.instance_id, f.major_version, f.minor_version))]))
        return f"in dgram {p.n} {int(mc)} {hx(sd_bytes([f.create_find_entry(3)], sess, flag))}"

    slots = None  # lid -> 'all' | filter index: every listener object is used for ONE registration only

    def in_mutant(self, impl):
        """a valid datagram of one of the other kinds, structurally mutated (C03): only the lock-step comparison
        judges these, the history oracles never see them"""
        rng = self.rng
        saved = list(self.rec.items)
        base = rng.choice([self.in_offer, self.in_subscribe, self.in_find])(impl)
        self.rec.items[:] = saved  # not part of the oracle-visible history
        toks = base.split(" ")
        data = bytes.fromhex(toks[4])
        k = rng.random()
        if k < 0.25:
            # foreign but well-formed
            m, _ = H.SOMEIPHeader.parse(data)
            import dataclasses
            fld = rng.choice(["service_id", "method_id", "interface_version", "message_type", "return_code"])
            val = {"service_id": 0x1234, "method_id": 0x8101, "interface_version": 2,
                   "message_type": H.SOMEIPMessageType.REQUEST, "return_code": H.SOMEIPReturnCode.E_NOT_OK}[fld]
            data = dataclasses.replace(m, **{fld: val}).build()
        else:
            data, _kind = mutate.mutate(rng, data)
            if rng.random() < 0.3:
                data = bytes.fromhex(toks[4]) + data
        return f"in dgram {toks[2]} {toks[3]} {hx(data)}"

    def in_watch(self, impl):
        rng = self.rng
        lid = rng.randrange(self.nlisteners)
        if self.slots is not None:
            slot = self.slots[lid]
            if slot == "all":
                key = ("all", lid)
                if key in self.registered:
                    self.registered.discard(key)
                    self.rec.inp(impl.loop.ticks, ("unwatchAll", lid))
                    return f"in unwatchAll {lid}"
                self.registered.add(key)
                self.rec.inp(impl.loop.ticks, ("watchAll", lid))
                return f"in watchAll {lid}"
            key = (slot, lid)
            f = FILTERS[slot]
            if key in self.registered:
                self.registered.discard(key)
                self.rec.inp(impl.loop.ticks, ("unwatch", slot, lid))
                return f"in unwatch {sdio.svc_tok(f)} ext {lid}"
            self.registered.add(key)
            self.rec.inp(impl.loop.ticks, ("watch", slot, lid))
            return f"in watch {sdio.svc_tok(f)} ext {lid}"
        if rng.random() < 0.35:
            key = ("all", lid)
            if key in self.registered:
                self.registered.discard(key)
                self.rec.inp(impl.loop.ticks, ("unwatchAll", lid))
                return f"in unwatchAll {lid}"
            self.registered.add(key)
            self.rec.inp(impl.loop.ticks, ("watchAll", lid))
            return f"in watchAll {lid}"
        fi = rng.randrange(len(FILTERS))
        if rng.random() < 0.25:
            # an AutoSubscribeServiceListener under a filter that may be wider than its eventgroup's service: offers the
            # eventgroup does not apply to must be skipped (`for_service` -> None; found uncovered by the mutation sweep).
            # The listeners of one filter are a Python set: the order in which they are called is unspecified, so an auto
            # listener gets a filter of its own (never shared with another listener) - with two listeners in one set the
            # model could not know which acts first (a false divergence of the first version of this generator).
            afi = rng.randrange(len(AUTO_FILTERS))
            key = ("auto", afi)
            f = AUTO_FILTERS[afi]
            if key in self.registered:
                self.registered.discard(key)
                egi = self.auto_eg[afi]
                self.rec.inp(impl.loop.ticks, ("unwatchAuto", afi, egi))
                return f"in unwatch {sdio.svc_tok(f)} auto {sdio.eg_tok(CLIENT_EGS[egi])}"
            egi = rng.randrange(len(CLIENT_EGS))
            self.auto_eg[afi] = egi
            self.registered.add(key)
            self.rec.inp(impl.loop.ticks, ("watchAuto", afi, egi))
            return f"in watch {sdio.svc_tok(f)} auto {sdio.eg_tok(CLIENT_EGS[egi])}"
        key = (fi, lid)
        f = FILTERS[fi]
        if key in self.registered:
            self.registered.discard(key)
            self.rec.inp(impl.loop.ticks, ("unwatch", fi, lid))
            return f"in unwatch {sdio.svc_tok(f)} ext {lid}"
        self.registered.add(key)
        self.rec.inp(impl.loop.ticks, ("watch", fi, lid))
        return f"in watch {sdio.svc_tok(f)} ext {lid}"

    def in_lifecycle(self, impl):
        rng = self.rng
        r = rng.random()
        if r < 0.45:
            if self.running:
                self.running = False
                self.rec.inp(impl.loop.ticks, ("stop",))
                return "in stop"
            if any((impl.name(h) or "").startswith("connection_lost") for h in impl.loop.ready_handles()):
                return None  # a connection loss is still being processed: start() now would be API misuse
            self.running = True
            self.lost = False
            self.rec.inp(impl.loop.ticks, ("start",))
            return "in start"
        if r < 0.6:
            # connection lost: stops everything that runs
            self.rec.inp(impl.loop.ticks, ("connLost",))
            self.lost = True
            self.running = False
            return "in connLost"
        i = rng.randrange(len(self.services)) if self.services else None
        if i is None:
            return None
        if i in self.announced:
            self.announced.discard(i)
            self.rec.inp(impl.loop.ticks, ("stopAnnounce", i))
            return f"in stopAnnounce {i} 1"
        self.announced.add(i)
        self.rec.inp(impl.loop.ticks, ("announce", i))
        return f"in announce {i}"

    def in_announcer(self, impl):
        """ServiceAnnouncer.stop()/start() directly (stop of a stopped announcer must be a no-op)"""
        if self.rng.random() < 0.6 or self.running:
            self.running = False
            self.rec.inp(impl.loop.ticks, ("annStop",))
            return "in annStop"
        if any((impl.name(h) or "").startswith("connection_lost") for h in impl.loop.ready_handles()):
            return None
        self.running = True
        self.rec.inp(impl.loop.ticks, ("annStart",))
        return "in annStart"

    def in_client_sub(self, impl):
        rng = self.rng
        g = rng.choice(CLIENT_EGS)
        d = rng.choice(self.peers).n
        key = (sdio.eg_tok(g), d)
        if key in self.subscribed:
            self.subscribed.remove(key)
            self.rec.inp(impl.loop.ticks, ("stopSubscribe", key))
            return f"in stopSubscribe {sdio.eg_tok(g)} {d}"
        self.subscribed.append(key)
        self.rec.inp(impl.loop.ticks, ("subscribe", key))
        return f"in subscribe {sdio.eg_tok(g)} {d}"

    def in_nak(self, impl):
        if not self.services:
            return None
        i = self.rng.randrange(len(self.services))
        egs = self.rng.choice([[], [5], [6], [5, 6]])
        self.rec.inp(impl.loop.ticks, ("setNak", i, tuple(egs)))
        return f"in setNak {i} {len(egs)}" + "".join(f" {e}" for e in egs)

    def pick_input(self, impl):
        kinds = [k for k in self.w.keys() if not (self.lost and k in ("offer", "stopoffer", "reboot", "sub", "stopsub", "subreboot", "find"))]
        if not kinds:
            return None
        k = self.rng.choices(kinds, weights=[self.w[x] for x in kinds])[0]
        f = {"offer": lambda: self.in_offer(impl), "stopoffer": lambda: self.in_offer(impl, "stop"),
             "reboot": lambda: self.in_offer(impl, "reboot"), "sub": lambda: self.in_subscribe(impl),
             "stopsub": lambda: self.in_subscribe(impl, "stopsub"), "subreboot": lambda: self.in_subscribe(impl, "subreboot"),
             "find": lambda: self.in_find(impl), "watch": lambda: self.in_watch(impl), "life": lambda: self.in_lifecycle(impl),
             "csub": lambda: self.in_client_sub(impl), "nak": lambda: self.in_nak(impl),
             "ann": lambda: self.in_announcer(impl), "mutant": lambda: self.in_mutant(impl)}[k]
        return f()

    # ---------------- scheduler
    def script(self, impl: SDV.ImplStack):
        rng = self.rng
        yield "in draws 6 " + " ".join(str(rng.choice([0, 1, 7, 20, 50, 3000])) for _ in range(6))
        for ev in self.prelude(impl):
            yield ev
        steps = 0
        while steps < self.nsteps:
            steps += 1
            impl.drain_plumbing()
            ready = impl.loop.ready_handles()
            due = impl.loop.due()
            if not ready and not due:
                self.rec.idle(impl.loop.ticks)
            opts = []
            if ready:
                opts.append(("run", 6))
            for h in due:
                opts.append((f"fire {impl.loop.vseq[id(h)]}", 4))
            near_deadline = bool(due) or any(n == "_expired" or n == "sleep" or n == "_handle_timeout" for n in [impl.name(h) for h in ready])
            opts.append(("input", 6 if near_deadline and self.adversarial else (3 if self.adversarial or not (ready or due) else 0)))
            if not ready and not due:
                opts.append(("adv", 5))
            ev = rng.choices([o[0] for o in opts], weights=[o[1] for o in opts])[0]
            if ev == "input":
                ev = self.pick_input(impl)
                if ev is None:
                    continue
            elif ev == "run":
                note_run(self, impl)
            elif ev == "adv":
                nd = impl.loop.next_deadline()
                now = impl.loop.ticks
                if nd is None:
                    t = now + rng.choice([1, 10, 500, 1000, 2500])
                else:
                    t = rng.choice([nd, nd, nd, min(nd, now + 1), max(now + 1, nd - 1), min(nd, now + rng.choice([5, 100, 900]))])
                if t <= now:
                    continue
                ev = f"adv {t}"
            yield ev
        # settle naturally and look at the final idle state (and some time later)
        yield from natural(impl, impl.loop.ticks, self)
        self.rec.idle(impl.loop.ticks)
        for extra in self.epilogue_times():
            yield from natural(impl, impl.loop.ticks + extra, self)
            self.rec.idle(impl.loop.ticks)

    def prelude(self, impl):
        return []

    def epilogue_times(self):
        return [1500, 4000]


def note_run(sc, impl):
    """record in the history when a deferred connection_lost part actually runs"""
    if sc is None:
        return
    impl.drain_plumbing()
    hs = impl.loop.ready_handles()
    if hs:
        n = impl.name(hs[0]) or ""
        if n.startswith("connection_lost:"):
            sc.rec.inp(impl.loop.ticks, ("connLostRun", n.split(":")[1]))


def natural(impl, until, sc=None):
    """exactly asyncio's iteration order: all due timers, then the batch that is ready; jump when idle"""
    for _ in range(100000):
        impl.drain_plumbing()
        due = impl.loop.due()
        ready = impl.loop.ready_handles()
        if due:
            for h in due:
                yield f"fire {impl.loop.vseq[id(h)]}"
        elif ready:
            for _ in range(len(ready)):
                note_run(sc, impl)
                yield "run"
        else:
            nd = impl.loop.next_deadline()
            if nd is None or nd > until:
                if impl.loop.ticks < until:
                    yield f"adv {until}"
                return
            yield f"adv {nd}"


def canon_state(line: str) -> str:
    """Python iterates listener *sets*: the order of consecutive notifications that differ only in the listener id is
    not defined. Sort every such run (same kind, service, source) by listener id - on both sides."""
    if " outs=[" not in line:
        return line
    head, rest = line.split(" outs=[", 1)
    outs, tail = rest.split("] ready=[", 1)
    if not outs:
        return line
    items = outs.split(" ; ")
    res, run, runkey = [], [], None
    for it in items:
        p = it.split(" ")
        key = (p[0], p[1], tuple(p[3:])) if len(p) > 3 and p[1] in ("offered", "stopped") else None
        if key is not None and key == runkey:
            run.append(it)
            continue
        res += sorted(run, key=lambda x: int(x.split(" ")[2]))
        run, runkey = ([it], key) if key is not None else ([], None)
        if key is None:
            res.append(it)
    res += sorted(run, key=lambda x: int(x.split(" ")[2]))
    return f"{head} outs=[{' ; '.join(res)}] ready=[{tail}"


_NAME_ONLY = {"count": 0}


def _kinds_only(line: str) -> str:
    """the same state line with every callback NAME replaced by its kind (T = task step, C = plain callback).  What a
    callback does is compared when it runs (outputs, stores, timers after every event); its name is only a label, and a
    private method or coroutine may be renamed without any change of behaviour."""
    def ready(m):
        items = [x for x in m.group(1).split(",") if x]
        return "ready=[" + ",".join("T" if "task:" in x else "C" for x in items) + "]"

    def timers(m):
        items = [x for x in m.group(1).split(",") if x]
        return "timers=[" + ",".join(x.split(":", 1)[0] + (":T" if "task:" in x else ":C") for x in items) + "]"

    line = re.sub(r"ready=\[([^\]]*)\]", ready, line)
    return re.sub(r"timers=\[([^\]]*)\]", timers, line)


def same_state(a: str, b: str) -> bool:
    """implementation state line vs model state line: equal, equal up to the order of listener-set iteration, or equal up
    to callback names (counted in _NAME_ONLY, reported in the evidence, never an alarm by itself)"""
    if a == b:
        return True
    # columns the implementation could not render (private name or layout changed) are not compared; the columns come in
    # a fixed order, a column ends where the next one starts (subscription keys contain brackets themselves)
    order = ["found", "subs", "slog", "tx"]
    for i, ghost in enumerate(order):
        if f" {ghost}=[?]" in a:
            nxt = rf"(?= {order[i + 1]}=\[)" if i + 1 < len(order) else "$"
            a = re.sub(rf" {ghost}=\[.*?\]{nxt}", "", a)
            b = re.sub(rf" {ghost}=\[.*?\]{nxt}", "", b)
    if a == b:
        return True
    ca, cb = canon_state(a), canon_state(b)
    if ca == cb:
        return True
    if _kinds_only(ca) == _kinds_only(cb):
        _NAME_ONLY["count"] += 1
        return True
    return False


def execute(model, sc: Scenario, name="s"):
    """returns dict(events, impl_states, model_states, div, rec)"""
    impl = SDV.ImplStack(sc.tm, sc.services)
    evs, ist = [], []
    try:
        first = "ok " + impl.state(0)
        gen = sc.script(impl)
        for ev in gen:
            n0 = len(impl.outs)
            evs.append(ev)
            st = impl.apply(ev)
            ist.append(st)
            sc.rec.outs(impl.outs[n0:])
    finally:
        impl.close()
    lines = [SDV.new_line(name, sc.tm, sc.services)] + [SDV.model_line(name, e) for e in evs]
    outs = model.run(lines)
    div = None
    if not same_state(first, outs[0]):
        div = -1
    else:
        for i, (a, b) in enumerate(zip(ist, outs[1:])):
            if not same_state(a, b):
                div = i
                break
    return {"events": evs, "impl": ist, "model": outs[1:], "div": div, "rec": sc.rec, "first": (first, outs[0])}
