"""Reference semantics of server-side subscriptions (C06) and their acknowledgements (C11), computed from the input
history alone and compared with what the implementation's listener saw and what was put on the wire."""
from __future__ import annotations

import collections

import someip.header as H

from harness import stateful
from harness.props.c09 import detect


def svc_match(svc, ids):
    """Service.matches_subscribe without the eventgroup part: wildcards on the service's side"""
    return svc.service_id == ids[0] and svc.instance_id in (0xFFFF, ids[1]) and svc.major_version in (0xFF, ids[2])


def oracle(sc, res, rep, case, prop):
    services = sc.services
    sess = {}
    started = False
    announced = []  # order of announce
    running = {}  # inst -> bool
    nak = collections.defaultdict(set)
    live = {}  # (inst, peer, keytxt) -> deadline | None   (insertion ordered)
    last = {}
    pending = []  # expected immediate notifications (multiset)
    lost_pending = []  # notifications that a connection loss will produce before the next idle
    exp_acks = collections.Counter()
    tolerated_nacks = collections.Counter()

    def bad(sig, what):
        rep.violation(f"{prop}:{sig}", what, case)

    def end_instance(i, t, into):
        for key in [k for k in live if k[0] == i]:
            del live[key]
            into.append(("unsubscribed", key))
        running[i] = False

    def overdue(t):
        for key, dl in list(live.items()):
            if dl is not None and dl < t:
                bad("missed-expiry", f"subscription {key} should have been reported unsubscribed at {dl}, still silent at {t}")
                del live[key]

    for it in sc.rec.items:
        if it[0] == "in":
            _, t, info = it
            if pending:
                bad("missing-notification", f"expected {pending} right after the previous input")
                pending = []
            overdue(t)
            k = info[0]
            if k == "start":
                started = True
                for i in announced:
                    running[i] = True
            elif k == "stop":
                if started:
                    for i in announced:
                        end_instance(i, t, pending)
                started = False
            elif k == "connLostRun" and info[1] == "announcer":
                if started:
                    for i in announced:
                        end_instance(i, t, pending)
                started = False
            elif k == "announce":
                announced.append(info[1])
                if started:
                    running[info[1]] = True
            elif k == "stopAnnounce":
                if info[1] in announced:
                    announced.remove(info[1])
                    if started:
                        end_instance(info[1], t, pending)
            elif k == "setNak":
                nak[info[1]] = set(info[2])
            elif k == "dgram":
                _, peer, mc, flag, sid, uni, entries = info
                if detect(sess, peer, mc, flag, sid):
                    for key in [k2 for k2 in live if k2[1] == peer]:
                        del live[key]
                        pending.append(("unsubscribed", key))
                if not uni or mc:
                    continue
                for e in entries:
                    if e[0] != "subscribe":
                        continue
                    _, ids, egid, cnt, ttl, eps = e
                    eps = sorted(set(eps))
                    ktxt = f"{ids[0]} {ids[1]} {ids[2]} {egid} {cnt} {len(eps)}" + "".join(f" [{x}]" for x in eps)
                    ack = (peer, ids[0], ids[1], ids[2], egid, cnt)
                    match = [i for i in announced if running.get(i) and svc_match(services[i], ids) and egid in services[i].eventgroups]
                    if len(match) > 1:
                        rep.dist[f"{prop}:ambiguous-entry-skipped"] += 1
                        continue
                    if not match:
                        if ttl == 0:
                            tolerated_nacks[ack + (0,)] += 1
                        else:
                            exp_acks[ack + (0,)] += 1
                        continue
                    i = match[0]
                    key = (i, peer, ktxt)
                    if ttl == 0:
                        if key in live:
                            del live[key]
                            pending.append(("unsubscribed", key))
                        continue
                    if key in live:
                        del live[key]
                        live[key] = None if ttl == 0xFFFFFF else t + ttl * 1000
                        exp_acks[ack + (ttl,)] += 1
                    elif egid in nak[i]:
                        exp_acks[ack + (0,)] += 1
                        rep.dist[f"{prop}:rejected-by-listener"] += 1
                    else:
                        live[key] = None if ttl == 0xFFFFFF else t + ttl * 1000
                        pending.append(("subscribed", key))
                        exp_acks[ack + (ttl,)] += 1
        elif it[0] == "out":
            _, t, text = it
            kind = text.split(" ", 1)[0]
            if kind == "send":
                try:
                    dest, _sid, _fl, entries = stateful.decode_send(text)
                except Exception as exc:  # noqa: BLE001
                    bad("undecodable-send", f"{exc!r}")
                    continue
                for e in entries:
                    if e.sd_type == H.SOMEIPSDEntryType.SubscribeAck:
                        a = (int(dest) if dest != "~" else None, e.service_id, e.instance_id, e.major_version, e.eventgroup_id,
                             e.eventgroup_counter, e.ttl)
                        if exp_acks[a] > 0:
                            exp_acks[a] -= 1
                        elif a[-1] == 0 and tolerated_nacks[a] > 0:
                            tolerated_nacks[a] -= 1
                        else:
                            bad("unexpected-ack", f"SubscribeAck {a} sent at {t} without a matching Subscribe (wrong peer, ids, TTL or duplicate)")
                continue
            if kind not in ("subscribed", "unsubscribed"):
                continue
            p = text.split(" ")
            inst, peer = int(p[1]), int(p[-1])
            ktxt = " ".join(p[2:-2])
            key = (inst, peer, ktxt)
            prev = last.get(key)
            if (kind == "subscribed" and prev == "subscribed") or (kind == "unsubscribed" and prev != "subscribed"):
                bad(f"alternation:{kind}-after-{prev}", f"instance {inst}: '{kind}' after '{prev}' for {ktxt} from {peer} at {t}")
            last[key] = kind
            if (kind, key) in pending:
                pending.remove((kind, key))
            elif (kind, key) in lost_pending:
                lost_pending.remove((kind, key))
            elif kind == "unsubscribed" and key in live and live[key] == t:
                del live[key]
                rep.dist[f"{prop}:on-time-expiries"] += 1
            else:
                bad("unexpected-notification", f"'{text}' at {t} is not explained by the history (rejected, early, duplicate or stale)")
        else:
            t = it[1]
            if pending or lost_pending:
                bad("missing-notification", f"expected {pending + lost_pending} before the loop became idle")
                pending, lost_pending = [], []
            overdue(t + 1)
            for key, st in last.items():
                if (st == "subscribed") != (key in live):
                    bad("truthful", f"idle at {t}: latest notification for {key} is '{st}' but the subscription is "
                                    f"{'live' if key in live else 'not live'}")
            for key in live:
                if last.get(key) != "subscribed":
                    bad("truthful", f"idle at {t}: live subscription {key} was never reported subscribed")
            rep.dist[f"{prop}:idle-states-judged"] += 1
    missing = +exp_acks
    if missing:
        bad("missing-ack", f"Subscribe entries never answered: {dict(missing)}")
    rep.dist[f"{prop}:acks-checked"] += 1
