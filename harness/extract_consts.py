"""Static tie: extract wire constants from /repo/src with `ast` (no import, no execution) and emit
lean/SomeipModel/ConstTie.lean, one `example : <model constant> = <extracted literal> := by decide` each.
A constant that cannot be located is recorded as unavailable (comment), never a mismatch."""
from __future__ import annotations

import ast
import os
import socket

from harness import core


def _parse(name):
    with open(os.path.join(core.SRC, "someip", name)) as f:
        return ast.parse(f.read())


def _lit(node):
    try:
        return ast.literal_eval(node)
    except Exception:
        return None


def _module_consts(tree):
    out = {}
    for n in tree.body:
        if isinstance(n, ast.Assign) and len(n.targets) == 1 and isinstance(n.targets[0], ast.Name):
            v = _lit(n.value)
            if isinstance(v, int):
                out[n.targets[0].id] = v
    return out


def _classes(tree):
    return {n.name: n for n in ast.walk(tree) if isinstance(n, ast.ClassDef)}


def _enum_table(cls):
    vals = []
    for n in cls.body:
        if isinstance(n, ast.Assign) and len(n.targets) == 1 and isinstance(n.targets[0], ast.Name):
            v = _lit(n.value)
            if isinstance(v, int):
                vals.append((n.targets[0].id, v))
            elif isinstance(n.value, ast.Attribute) and isinstance(n.value.value, ast.Name) and n.value.value.id == "socket":
                vals.append((n.targets[0].id, int(getattr(socket, n.value.attr))))
    return vals


def _struct_format(cls):
    """first `struct.Struct("...")` literal assigned in the class body"""
    for n in cls.body:
        v = n.value if isinstance(n, (ast.Assign, ast.AnnAssign)) else None
        if isinstance(v, ast.Call) and isinstance(v.func, ast.Attribute) and v.func.attr == "Struct" and v.args:
            s = _lit(v.args[0])
            if isinstance(s, str):
                return s
    return None


def _class_int(cls, name):
    for n in cls.body:
        if isinstance(n, ast.AnnAssign) and isinstance(n.target, ast.Name) and n.target.id == name and n.value is not None:
            v = _lit(n.value)
            if isinstance(v, int):
                return v
        if isinstance(n, ast.Assign) and len(n.targets) == 1 and isinstance(n.targets[0], ast.Name) and n.targets[0].id == name:
            v = _lit(n.value)
            if isinstance(v, int):
                return v
    return None


def extract():
    """returns list of (lean_expr, lean_literal | None, description)"""
    out = []
    hdr = _parse("header.py")
    sd = _parse("sd.py")
    hc = _module_consts(hdr)
    sc = _module_consts(sd)
    cls = _classes(hdr)

    def nat(x):
        return None if x is None else str(x)

    def natlist(xs):
        return None if xs is None else "[" + ", ".join(str(x) for x in xs) + "]"

    def s(x):
        return None if x is None else '"' + x + '"'

    out.append(("Someip.SD_SERVICE", nat(hc.get("SD_SERVICE")), "header.SD_SERVICE"))
    out.append(("Someip.SD_METHOD", nat(hc.get("SD_METHOD")), "header.SD_METHOD"))
    out.append(("Someip.SD_INTERFACE_VERSION", nat(hc.get("SD_INTERFACE_VERSION")), "header.SD_INTERFACE_VERSION"))
    out.append(("Someip.TTL_FOREVER", nat(sc.get("TTL_FOREVER")), "sd.TTL_FOREVER"))
    mt = _enum_table(cls["SOMEIPMessageType"]) if "SOMEIPMessageType" in cls else None
    out.append(("Someip.MsgType.all.map Someip.MsgType.toNat", natlist([v for _, v in mt]) if mt else None, "SOMEIPMessageType values"))
    rc = _enum_table(cls["SOMEIPReturnCode"]) if "SOMEIPReturnCode" in cls else None
    out.append(("Someip.RetCode.all.map Someip.RetCode.toNat", natlist([v for _, v in rc]) if rc else None, "SOMEIPReturnCode values"))
    et = _enum_table(cls["SOMEIPSDEntryType"]) if "SOMEIPSDEntryType" in cls else None
    out.append(("Someip.EntryType.all.map Someip.EntryType.toNat", natlist([v for _, v in et]) if et else None, "SOMEIPSDEntryType values"))
    l4 = _enum_table(cls["L4Protocols"]) if "L4Protocols" in cls else None
    out.append(("[Someip.L4_TCP, Someip.L4_UDP]", natlist([v for _, v in l4]) if l4 else None, "L4Protocols values (TCP, UDP)"))
    for cname, lean in [("SOMEIPHeader", "Someip.Header.format"), ("SOMEIPSDEntry", "Someip.SDEntry.format"),
                        ("SOMEIPSDOption", "Someip.SDOption.format"), ("AbstractIPv4Option", "Someip.SDOption.formatV4"),
                        ("AbstractIPv6Option", "Someip.SDOption.formatV6")]:
        out.append((lean, s(_struct_format(cls[cname])) if cname in cls else None, f"{cname} struct format"))
    for cname, lean in [("SOMEIPSDLoadBalancingOption", "Someip.OPT_LOADBAL"), ("SOMEIPSDConfigOption", "Someip.OPT_CONFIG"),
                        ("IPv4EndpointOption", "Someip.OPT_V4_ENDPOINT"), ("IPv4MulticastOption", "Someip.OPT_V4_MULTICAST"),
                        ("IPv4SDEndpointOption", "Someip.OPT_V4_SD"), ("IPv6EndpointOption", "Someip.OPT_V6_ENDPOINT"),
                        ("IPv6MulticastOption", "Someip.OPT_V6_MULTICAST"), ("IPv6SDEndpointOption", "Someip.OPT_V6_SD")]:
        out.append((lean, nat(_class_int(cls[cname], "type")) if cname in cls else None, f"{cname}.type"))
    return out


ENABLED = None  # set of lean expressions the model currently defines (grows with the model)


def write_consttie(log):
    items = extract()
    defined = _defined_names()
    lines = ["-- GENERATED by harness/extract_consts.py from /repo/src on every run. Do not edit.",
             "import SomeipModel.Model.All", "namespace Someip.ConstTie", ""]
    for lean, lit, desc in items:
        head = lean.split(" ")[0].split(".map")[0].lstrip("[").rstrip(",]")
        if lit is None:
            lines.append(f"-- unavailable in source: {desc}")
            log.append(f"const unavailable: {desc}")
        elif head.replace("Someip.", "", 1) not in defined:
            lines.append(f"-- not modelled yet: {desc} = {lit}")
        else:
            lines.append(f"example : {lean} = {lit} := by decide  -- {desc}")
    lines += ["", "end Someip.ConstTie", ""]
    text = "\n".join(lines)
    path = os.path.join(core.LEAN, "SomeipModel", "ConstTie.lean")
    old = open(path).read() if os.path.exists(path) else None
    if old != text:
        with open(path, "w") as f:
            f.write(text)


def _defined_names():
    import re

    names = set()
    mdir = os.path.join(core.LEAN, "SomeipModel", "Model")
    for f in os.listdir(mdir):
        if f.endswith(".lean"):
            for m in re.finditer(r"^\s*(?:def|abbrev|inductive|structure)\s+([A-Za-z0-9_.']+)", open(os.path.join(mdir, f)).read(), re.M):
                names.add(m.group(1))
    return names
